#!/bin/bash
# Runs the pinned test suite (guard off) and compares with BASELINE.json stable_pass.
OUT=${1:-/tmp/baseline_junit.xml}
cd /repo && env -u FEDJAX_VERIF /venv/bin/python -m pytest -ra -q -p no:cacheprovider --timeout=900 --continue-on-collection-errors --junitxml=$OUT > /tmp/baseline_pytest.log 2>&1
python3 - "$OUT" <<'PY'
import json, sys, xml.etree.ElementTree as ET
base = json.load(open('/root/.vp/BASELINE.json'))
want = set(base['stable_pass'])
t = ET.parse(sys.argv[1])
passed = set()
for tc in t.iter('testcase'):
    ok = not any(c.tag in ('failure', 'error', 'skipped') for c in tc)
    name = f"{tc.get('classname')}::{tc.get('name')}"
    if ok: passed.add(name)
missing = sorted(w for w in want if w not in passed and not any(p.startswith(w) for p in passed))
print('stable_pass', len(want), 'passing now', len(want) - len(missing), 'missing', missing[:20])
print('newly passing (not in baseline):', len(passed - want))
PY
