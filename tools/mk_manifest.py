#!/usr/bin/env python3
"""Writes /verif/MANIFEST.json from tools/claims.json (one entry per claimed property)."""
import json, os
HERE = os.path.dirname(os.path.abspath(__file__))
V = os.path.dirname(HERE)
claims = json.load(open(os.path.join(HERE, 'claims.json')))
props = [json.loads(l) for l in open(os.path.join(V, 'properties.jsonl'))]
checks, na = [], []
for p in props:
  pid = p['id']
  c = claims.get(pid)
  if not c or not c.get('claimed'):
    na.append({'property_id': pid, 'reason': (c or {}).get('reason', 'check not built yet (work in progress); the technique applies, see DESIGN.md section 6')})
    continue
  checks.append({
      'property_id': pid,
      'quick_cmd': f'./check {pid} --tier quick',
      'thorough_cmd': f'./check {pid} --tier thorough',
      'evidence_file': f'/verif/evidence/{pid}.json',
      'replay_cmd_template': f'./check {pid} --replay {{path}}',
      'engine': 'coq-proof+correspondence',
      'level_claimed': {'category': 'proof', 'text': c['text'], 'design_ref': c['design_ref']},
      'level_note': c['note'],
      'technique': c['technique'],
  })
m = {
    'version': 1,
    'setup_cmd': './check --setup',
    'hooks': {
        'guard': 'FEDJAX_VERIF',
        'enable': 'the checks export FEDJAX_VERIF=1; no source hook is currently needed (all seams are reached by monkey-patching from the harness process)',
        'baseline_off_cmd': 'cd /repo && /venv/bin/python -m pytest -ra -q -p no:cacheprovider --timeout=900 --continue-on-collection-errors',
        'source_commits': [],
        'add_only': True,
    },
    'engines': [{
        'name': 'coq-proof+correspondence', 'path': '/verif/check',
        'serves_properties': [c['property_id'] for c in checks],
        'kind_free_text': 'Coq 8.16.1 theorems about an executable Gallina model; model tied to /repo on every run by a Python-ast -> Gallina translator (coq/gen) and by a correspondence check that evaluates the model with vm_compute on the inputs the implementation was run on',
    }],
    'checks': checks,
    'not_applicable': na,
    'notes': 'See DESIGN.md. VERIF_REPO overrides /repo (used only for mutation experiments).',
}
json.dump(m, open(os.path.join(V, 'MANIFEST.json'), 'w'), indent=1)
print(len(checks), 'claimed;', len(na), 'not claimed')
