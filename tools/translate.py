#!/usr/bin/env python3
"""Fail-closed Python-ast -> Gallina translator for fedjax's integer / index /
decision kernels.  Re-run on every check: the emitted coq/gen/*.v files are what
the proofs in coq/Proofs are about, so an edit of an anchored kernel in /repo
changes the Gallina text and the proof obligations are re-checked against it.

Supported subset (anything else raises Unsupported -> the tie is reported broken):
  types      : Z (python int), bool, optZ (Optional[int]), opaque (passed through
               to a named Coq function from the anchor's call table)
  statements : docstring, Assign (single / tuple), AugAssign (+=, -=), If/elif/else,
               While (-> Fixpoint on explicit fuel, None when exhausted), Return,
               `for v in range(..)` + `yield` (genloop kind only), Raise (-> error)
  exprs      : int constants, names / dotted names (via the anchor's name map),
               + - * // % **, unary -, comparisons (chained too), and/or/not,
               `x is None` / `x is not None` on optZ names, min/max (2 args),
               pow(a,b,m), conditional expressions, calls listed in the anchor's
               call table.
Python `//` and `%` are floor division / modulus with the sign of the divisor,
which are exactly Coq's Z.div / Z.modulo.
"""
import ast
import os
import sys
import textwrap


class Unsupported(Exception):
  pass


def dotted(e):
  if isinstance(e, ast.Name):
    return e.id
  if isinstance(e, ast.Attribute):
    return dotted(e.value) + '.' + e.attr
  raise Unsupported('not a dotted name: ' + ast.dump(e))


BIN = {ast.Add: '+', ast.Sub: '-', ast.Mult: '*', ast.FloorDiv: '/', ast.Mod: 'mod'}
CMP = {ast.Lt: '<?', ast.LtE: '<=?', ast.Gt: '>?', ast.GtE: '>=?', ast.Eq: '=?'}


class Ctx:
  """Translation context of one anchor."""

  def __init__(self, names=None, calls=None, consts=None):
    self.names = dict(names or {})      # dotted python name -> coq name
    self.calls = dict(calls or {})      # dotted python callee -> (fmt, [argkinds], rettype)
    self.consts = dict(consts or {})    # dotted python name -> coq term (typed Z)

  def name(self, e, env):
    d = dotted(e)
    if d in self.names:
      d = self.names[d]
    if d in env:
      return d, env[d]
    if d in self.consts:
      return self.consts[d], 'Z'
    raise Unsupported('unknown name ' + d)

  # -- expressions ---------------------------------------------------------
  def expr(self, e, env, want=None):
    """Returns (coq_term, type)."""
    t, ty = self._expr(e, env)
    if want is not None and ty != want:
      if want == 'optZ' and ty == 'Z':
        return f'(Some {t})', 'optZ'
      raise Unsupported(f'type {ty} where {want} expected: {ast.dump(e)}')
    return t, ty

  def _expr(self, e, env):
    if isinstance(e, ast.Constant):
      if isinstance(e.value, bool):
        return ('true' if e.value else 'false'), 'bool'
      if isinstance(e.value, int):
        return (f'{e.value}' if e.value >= 0 else f'({e.value})'), 'Z'
      if e.value is None:
        return 'None', 'optZ'
      raise Unsupported('constant ' + repr(e.value))
    if isinstance(e, (ast.Name, ast.Attribute)):
      return self.name(e, env)
    if isinstance(e, ast.UnaryOp) and isinstance(e.op, ast.USub):
      t, _ = self.expr(e.operand, env, 'Z')
      return f'(- {t})', 'Z'
    if isinstance(e, ast.UnaryOp) and isinstance(e.op, ast.Not):
      t, _ = self.expr(e.operand, env, 'bool')
      return f'(negb {t})', 'bool'
    if isinstance(e, ast.BinOp):
      if type(e.op) in BIN:
        a, _ = self.expr(e.left, env, 'Z')
        b, _ = self.expr(e.right, env, 'Z')
        return f'({a} {BIN[type(e.op)]} {b})', 'Z'
      if isinstance(e.op, ast.Pow):
        a, _ = self.expr(e.left, env, 'Z')
        b, _ = self.expr(e.right, env, 'Z')
        return f'({a} ^ {b})', 'Z'
      raise Unsupported('binop ' + ast.dump(e.op))
    if isinstance(e, ast.Compare):
      parts = []
      left = e.left
      for op, right in zip(e.ops, e.comparators):
        parts.append(self.compare(left, op, right, env))
        left = right
      return ('(' + ' && '.join(parts) + ')' if len(parts) > 1 else parts[0]), 'bool'
    if isinstance(e, ast.BoolOp):
      j = ' && ' if isinstance(e.op, ast.And) else ' || '
      return '(' + j.join(self.expr(v, env, 'bool')[0] for v in e.values) + ')', 'bool'
    if isinstance(e, ast.IfExp):
      c, _ = self.expr(e.test, env, 'bool')
      a, ta = self.expr(e.body, env)
      b, tb = self.expr(e.orelse, env, ta)
      return f'(if {c} then {a} else {b})', ta
    if isinstance(e, ast.Call):
      return self.call(e, env)
    raise Unsupported('expression ' + ast.dump(e))

  def compare(self, left, op, right, env):
    if isinstance(op, (ast.Is, ast.IsNot)):
      if not (isinstance(right, ast.Constant) and right.value is None):
        raise Unsupported('is-comparison against non-None')
      t, ty = self.expr(left, env)
      if ty != 'optZ':
        raise Unsupported('`is None` on non-optional ' + t)
      r = f'(match {t} with None => true | Some _ => false end)'
      return r if isinstance(op, ast.Is) else f'(negb {r})'
    a, ta = self.expr(left, env)
    b, _ = self.expr(right, env, ta)
    if ta == 'Z':
      if isinstance(op, ast.NotEq):
        return f'(negb ({a} =? {b}))'
      if type(op) in CMP:
        return f'({a} {CMP[type(op)]} {b})'
    if ta == 'bool' and isinstance(op, ast.Eq):
      return f'(Bool.eqb {a} {b})'
    raise Unsupported('comparison ' + ast.dump(op) + ' at type ' + ta)

  def call(self, e, env):
    f = dotted(e.func)
    if e.keywords and f not in self.calls:
      raise Unsupported('keyword arguments in call to ' + f)
    if f in ('min', 'max') and len(e.args) == 2:
      a, _ = self.expr(e.args[0], env, 'Z')
      b, _ = self.expr(e.args[1], env, 'Z')
      return f'(Z.{f} {a} {b})', 'Z'
    if f == 'pow' and len(e.args) == 3:
      a, b, m = (self.expr(x, env, 'Z')[0] for x in e.args)
      return f'(({a} ^ {b}) mod {m})', 'Z'
    if f == 'int' and len(e.args) == 1:
      return self.expr(e.args[0], env, 'Z')
    if f in self.calls:
      spec = self.calls[f]
      if callable(spec):
        return spec(self, e, env)
      fmt, kinds, ret = spec
      if len(e.args) != len(kinds):
        raise Unsupported(f'call {f}: {len(e.args)} args, expected {len(kinds)}')
      args = [self.expr(a, env, k)[0] for a, k in zip(e.args, kinds)]
      return '(' + fmt.format(*args) + ')', ret
    raise Unsupported('call to ' + f)


def assigned(stmts, ctx):
  out = []

  def add(n):
    n = ctx.names.get(n, n)
    if n not in out:
      out.append(n)
  for s in stmts:
    if isinstance(s, ast.Assign):
      t = s.targets[0]
      for x in (t.elts if isinstance(t, ast.Tuple) else [t]):
        add(dotted(x))
    elif isinstance(s, ast.AugAssign):
      add(dotted(s.target))
    elif isinstance(s, (ast.If, ast.While)):
      for n in assigned(s.body, ctx) + assigned(getattr(s, 'orelse', []), ctx):
        add(n)
  return out


RET = {'Z': 'Z', 'bool': 'bool', 'optZ': '(option Z)'}


class Fn:
  """Compiles a statement list into a Gallina term of type `option <ret>` by
  continuation passing; env maps coq names to types along the current path."""

  def __init__(self, coqname, ctx, ret):
    self.name, self.ctx, self.ret = coqname, ctx, ret
    self.aux, self.nloops = [], 0

  def bind(self, target, term, ty, env):
    n = self.ctx.names.get(dotted(target), dotted(target))
    env = dict(env)
    env[n] = ty
    return n, env

  def block(self, stmts, env, k):
    if not stmts:
      return k(env)
    s, rest = stmts[0], stmts[1:]
    ctx = self.ctx
    if isinstance(s, ast.Expr) and isinstance(s.value, ast.Constant):
      return self.block(rest, env, k)  # docstring
    if isinstance(s, ast.Return):
      t, _ = ctx.expr(s.value, env, self.ret)
      return f'Some {t}'
    if isinstance(s, ast.Raise):
      return 'None'
    if isinstance(s, ast.Assign):
      if len(s.targets) != 1:
        raise Unsupported('chained assignment')
      t = s.targets[0]
      if isinstance(t, ast.Tuple):
        if not isinstance(s.value, ast.Tuple) or len(s.value.elts) != len(t.elts):
          raise Unsupported('tuple assignment shape')
        vals = [ctx.expr(v, env) for v in s.value.elts]
        lets, env2 = '', dict(env)
        tmps = []
        for x, (v, ty) in zip(t.elts, vals):
          n = ctx.names.get(dotted(x), dotted(x))
          tmps.append((n, n + "'", ty))
          lets += f"let {n}' := {v} in "
        for n, tmp, ty in tmps:
          lets += f'let {n} := {tmp} in '
          env2[n] = ty
        return lets + self.block(rest, env2, k)
      v, ty = ctx.expr(s.value, env)
      n, env2 = self.bind(t, v, ty, env)
      return f'let {n} := {v} in ' + self.block(rest, env2, k)
    if isinstance(s, ast.AugAssign):
      if not isinstance(s.op, (ast.Add, ast.Sub)):
        raise Unsupported('augmented assignment op')
      cur, _ = ctx.expr(s.target, env, 'Z')
      v, _ = ctx.expr(s.value, env, 'Z')
      op = '+' if isinstance(s.op, ast.Add) else '-'
      n, env2 = self.bind(s.target, None, 'Z', env)
      return f'let {n} := ({cur} {op} {v}) in ' + self.block(rest, env2, k)
    if isinstance(s, ast.If):
      # `if x is not None:` on an optional name refines its type inside the branch
      test = s.test
      if (isinstance(test, ast.Compare) and len(test.ops) == 1 and
          isinstance(test.ops[0], (ast.Is, ast.IsNot)) and
          isinstance(test.comparators[0], ast.Constant) and test.comparators[0].value is None):
        t, ty = ctx.expr(test.left, env)
        if ty != 'optZ':
          raise Unsupported('`is None` on non-optional')
        some_env = dict(env)
        some_env[t] = 'Z'
        body_some, body_none = (s.orelse, s.body) if isinstance(test.ops[0], ast.Is) else (s.body, s.orelse)
        a = self.block(body_some + rest, some_env, k)
        b = self.block(body_none + rest, env, k)
        return f'(match {t} with Some {t} => {a} | None => {b} end)'
      c, _ = ctx.expr(test, env, 'bool')
      then = self.block(s.body + rest, env, k)
      els = self.block(s.orelse + rest, env, k)
      return f'(if {c} then {then} else {els})'
    if isinstance(s, ast.While):
      if s.orelse:
        raise Unsupported('while-else')
      self.nloops += 1
      loop = f'{self.name}_loop{self.nloops}'
      vs = [v for v in assigned(s.body, ctx)]
      for v in vs:
        if v not in env:
          raise Unsupported(f'loop variable {v} not initialised before the loop')
      free = [v for v in env if v not in vs]
      c, _ = ctx.expr(s.test, env, 'bool')
      body = self.block(s.body, env, lambda e: f'{loop} fuel {" ".join(free + vs)}')
      after = self.block(rest, env, k)
      params = ' '.join(f'({v} : {RET.get(env[v], env[v])})' for v in free + vs)
      self.aux.append(
          f'Fixpoint {loop} (fuel : nat) {params} {{struct fuel}} : option {RET[self.ret]} :=\n'
          f'  match fuel with O => None | S fuel =>\n'
          f'  if {c} then {body}\n  else {after} end.')
      return f'{loop} {self.name}_fuel {" ".join(free + vs)}'
    raise Unsupported('statement ' + ast.dump(s)[:200])


def find_def(tree, qual):
  node = tree
  for part in qual.split('.'):
    found = None
    for n in node.body:
      if isinstance(n, (ast.FunctionDef, ast.ClassDef)) and n.name == part:
        found = n
        break
    if found is None:
      raise Unsupported(f'anchor {qual}: {part} not found')
    node = found
  return node


def params_str(params):
  return ' '.join(f'({n} : {RET.get(t, t)})' for n, t in params)


def emit_fun(fd_body, coqname, params, ret, ctx, final=None):
  """fd_body: statement list. final(env) gives the term when the body falls off
  the end (default: None = python returns None, unsupported)."""
  f = Fn(coqname, ctx, ret)
  env = {n: t for n, t in params}
  body = f.block(fd_body, env, final or (lambda env: 'None'))
  out = []
  if f.aux:
    out += [f'Section {coqname}_sec.', f'Variable {coqname}_fuel : nat.'] + f.aux
  out.append(f'Definition {coqname} {params_str(params)} : option {RET[ret]} :=\n  {body}.')
  if f.aux:
    out.append(f'End {coqname}_sec.')
  return '\n'.join(out)


# ---- genloop: `for v in range(a, b, c): ... yield e` -> flat_map over py_range ----

def emit_genloop(fd, coqname, params, ctx, elem_ty):
  """Generator function: prelude assignments, then one for-range loop whose body is
  assignments followed by `if c: yield a [else: yield b]` or `yield a`."""
  env = {n: t for n, t in params}
  lets = ''
  body = [s for s in fd.body if not (isinstance(s, ast.Expr) and isinstance(s.value, ast.Constant))]
  while body and isinstance(body[0], ast.Assign):
    s = body.pop(0)
    v, ty = ctx.expr(s.value, env)
    n = ctx.names.get(dotted(s.targets[0]), dotted(s.targets[0]))
    env[n] = ty
    lets += f'let {n} := {v} in\n  '
  if len(body) != 1 or not isinstance(body[0], ast.For):
    raise Unsupported('genloop: expected exactly one for loop after the prelude')
  loop = body[0]
  if loop.orelse or not isinstance(loop.target, ast.Name):
    raise Unsupported('genloop: for-else / tuple target')
  it = loop.iter
  if not (isinstance(it, ast.Call) and dotted(it.func) == 'range' and 1 <= len(it.args) <= 3):
    raise Unsupported('genloop: iterable is not range(...)')
  ra = [ctx.expr(a, env, 'Z')[0] for a in it.args]
  if len(ra) == 1:
    ra = ['0', ra[0], '1']
  elif len(ra) == 2:
    ra = ra + ['1']
  v = loop.target.id
  env2 = dict(env)
  env2[v] = 'Z'

  def ystmts(stmts, env):
    if not stmts:
      return '[]'
    s, rest = stmts[0], stmts[1:]
    if isinstance(s, ast.Assign):
      val, ty = ctx.expr(s.value, env)
      n = ctx.names.get(dotted(s.targets[0]), dotted(s.targets[0]))
      env = dict(env)
      env[n] = ty
      return f'let {n} := {val} in\n      ' + ystmts(rest, env)
    if isinstance(s, ast.Expr) and isinstance(s.value, ast.Yield):
      val, _ = ctx.expr(s.value.value, env, elem_ty)
      tail = ystmts(rest, env)
      return f'[{val}]' if tail == '[]' else f'({val} :: {tail})'
    if isinstance(s, ast.If):
      c, _ = ctx.expr(s.test, env, 'bool')
      a = ystmts(s.body, env)
      b = ystmts(s.orelse, env)
      tail = ystmts(rest, env)
      r = f'(if {c} then {a} else {b})'
      return r if tail == '[]' else f'({r} ++ {tail})'
    raise Unsupported('genloop body statement ' + ast.dump(s)[:200])

  inner = ystmts(loop.body, env2)
  return (f'Definition {coqname} {params_str(params)} : list ({elem_ty}) :=\n  {lets}'
          f'flat_map (fun {v} : Z =>\n      {inner})\n    (py_range {ra[0]} {ra[1]} {ra[2]}).')


# ---------------------------------------------------------------------------
# Anchor table.  Each output module lists items; an item's `emit` gets the parsed
# module and returns Gallina text.

def A_intfun(qual, coqname, params, ret='Z', names=None, calls=None, consts=None):
  def emit(tree):
    fd = find_def(tree, qual)
    got = [a.arg for a in fd.args.args]
    want = [n for n, _ in params]
    if got != want:
      raise Unsupported(f'{qual}: parameters {got}, expected {want}')
    return emit_fun(fd.body, coqname, params, ret, Ctx(names, calls, consts))
  return emit


def A_stmts(qual, select, coqname, params, ret, result, names=None, calls=None, consts=None):
  """A statement group inside `qual`, selected structurally by `select(fd)`; the
  value of the variable `result` after the group is the result."""
  def emit(tree):
    fd = find_def(tree, qual)
    stmts = select(fd)
    if not stmts:
      raise Unsupported(f'{qual}: anchored statement group not found')
    ctx = Ctx(names, calls, consts)

    def final(env):
      if result not in env:
        raise Unsupported(f'{qual}: {result} not assigned on some path')
      if env[result] == ret:
        return f'Some {result}'
      if ret == 'optZ' and env[result] == 'Z':
        return f'Some (Some {result})'
      raise Unsupported(f'{qual}: {result} has type {env[result]} on some path')
    return emit_fun(stmts, coqname, params, ret, ctx, final)
  return emit


def A_genloop(qual, coqname, params, elem_ty, names=None, calls=None, consts=None, tparams=''):
  def emit(tree):
    fd = find_def(tree, qual)
    return emit_genloop(fd, coqname, params, Ctx(names, calls, consts), elem_ty)
  return emit


def A_const(pyname, coqname):
  """Module-level integer (or string) constant."""
  def emit(tree):
    for n in tree.body:
      if isinstance(n, ast.Assign) and len(n.targets) == 1 and isinstance(n.targets[0], ast.Name) \
          and n.targets[0].id == pyname:
        v = n.value
        if isinstance(v, ast.Constant) and isinstance(v.value, int) and not isinstance(v.value, bool):
          return f'Definition {coqname} : Z := {v.value}.'
        if isinstance(v, ast.Constant) and isinstance(v.value, str):
          return f'Definition {coqname} : list Z := [{"; ".join(str(b) for b in v.value.encode())}].'
        ctx = Ctx()
        t, ty = ctx.expr(v, {})
        return f'Definition {coqname} : {RET[ty]} := {t}.'
    raise Unsupported(f'constant {pyname} not found')
  return emit


def _assign_to(fd, target):
  """The top-level statements of fd from the first one that assigns `target`
  (searching nested if-branches) up to and including the last one that does."""
  def assigns(s):
    for n in ast.walk(s):
      if isinstance(n, ast.Assign):
        for t in n.targets:
          try:
            if dotted(t) == target:
              return True
          except Unsupported:
            pass
    return False
  idx = [i for i, s in enumerate(fd.body) if assigns(s)]
  return fd.body[idx[0]:idx[-1] + 1] if idx else []


HEADER = ('(* GENERATED by /verif/tools/translate.py from {src} -- do not edit. *)\n'
          'From Coq Require Import ZArith List Bool.\n'
          'From FV Require Import Common.PySem.\n'
          'Import ListNotations.\nLocal Open Scope Z_scope.\n')

def load_modules():
  """MODULES = union of tools/anchors/*.py MODULES tables (one file per source module,
  so that independent properties do not edit the same table)."""
  import importlib
  import pkgutil
  here = os.path.dirname(os.path.abspath(__file__))
  if here not in sys.path:
    sys.path.insert(0, here)
  mods = {}
  import anchors
  for info in sorted(pkgutil.iter_modules(anchors.__path__), key=lambda i: i.name):
    try:
      m = importlib.import_module('anchors.' + info.name)
      table = dict(m.MODULES)
    except Exception as ex:  # a broken anchors file must fail only ITS generated modules (never leave stale ones)
      import re
      import traceback
      err = 'anchors file %s.py failed to load: %s' % (info.name, ''.join(traceback.format_exception_only(type(ex), ex)).strip())
      try:
        text = open(os.path.join(anchors.__path__[0], info.name + '.py')).read()
      except OSError:
        text = ''
      table = {g: {'src': info.name + '.py', 'items': [], 'load_error': err}
               for g in set(re.findall(r"['\"](Gen_[A-Za-z0-9_]+)['\"]\s*:", text))}
    for k, v in table.items():
      if k in mods:
        raise RuntimeError('duplicate generated module ' + k)
      mods[k] = v
  return mods


def translate_module(repo, modname, spec):
  path = os.path.join(repo, spec['src'])
  with open(path) as f:
    tree = ast.parse(f.read())
  parts = [HEADER.format(src=spec['src']), spec.get('preamble', '')]
  for item in spec['items']:
    parts.append(item(tree))
    parts.append('')
  parts.append(spec.get('postamble', ''))
  return '\n'.join(parts)


def run(repo, outdir, only=None):
  """Regenerates outdir/<mod>.v for every module; returns {mod: None | error string}.
  A module whose translation fails gets a file that does not compile (so dependent
  proofs fail closed) and the error is reported."""
  os.makedirs(outdir, exist_ok=True)
  status = {}
  for mod, spec in load_modules().items():
    if only and mod not in only:
      continue
    out = os.path.join(outdir, mod + '.v')
    try:
      if spec.get('load_error'):
        raise Unsupported(spec['load_error'])
      text = translate_module(repo, mod, spec)
      status[mod] = None
    except Exception as ex:  # fail closed on ANY emitter error, per module
      text = f'(* translation of {spec["src"]} FAILED: {ex!s} *)\nTRANSLATION_FAILED.\n'
      status[mod] = f'{type(ex).__name__}: {ex}'
    old = None
    if os.path.exists(out):
      with open(out) as f:
        old = f.read()
    if old != text:
      with open(out, 'w') as f:
        f.write(text)
  return status


if __name__ == '__main__':
  repo = os.environ.get('VERIF_REPO', '/repo')
  here = os.path.dirname(os.path.abspath(__file__))
  sys.path.insert(0, here)
  import translate as _T  # one copy of the Unsupported class
  st = _T.run(repo, os.path.join(here, '..', 'coq', 'gen'), sys.argv[1:] or None)
  for m, e in st.items():
    print(m, 'ok' if e is None else 'FAILED ' + e)
  sys.exit(1 if any(st.values()) else 0)
