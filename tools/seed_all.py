#!/usr/bin/env python3
"""Runs every kept seeded change (seeded/<id>/patch.diff) against the check(s) of its property
on a scratch copy of /repo and records the outcome in seeded/<id>/meta.json and seeded/RESULTS.md.
usage: tools/seed_all.py [id ...]   (default: all, skipping those already recorded as detected unless --force)"""
import glob, json, os, re, subprocess, sys
V = '/verif'
force = '--force' in sys.argv
ids = [a for a in sys.argv[1:] if not a.startswith('--')] or sorted(os.path.basename(d) for d in glob.glob(V + '/seeded/*') if os.path.isdir(d))
rows = []
for sid in ids:
  d = f'{V}/seeded/{sid}'
  meta = json.load(open(d + '/meta.json'))
  det = meta.get('detection')
  if det and det.get('detected') and not force:
    rows.append((sid, meta)); continue
  props = [meta['property']] + list(meta.get('also_check', []))
  out = subprocess.run([V + '/tools/seed_run.sh', sid] + props, capture_output=True, text=True).stdout
  res, cur = {}, None
  for line in out.strip().split('\n'):
    m = re.match(rf'{sid} (C\d+): (.*)', line)
    if m:
      cur = m.group(1)
      res[cur] = m.group(2)[:200]
    elif cur:
      res[cur] += ' || ' + line[:200]
  detected = any('VIOLATION property=' in v for v in res.values())
  detail = {}
  for p, v in res.items():
    m = re.search(r'replay=(\S+)', v)
    if m and os.path.exists(m.group(1)):
      r = json.load(open(m.group(1)))
      detail[p] = {'kind': r.get('kind'), 'key': r.get('key'), 'what': str(r.get('what'))[:200], 'case': r.get('case'),
                   'broken': [b.get('kind') for b in r.get('broken', [])]}
  meta['detection'] = {'detected': detected, 'results': res, 'detail': detail}
  json.dump(meta, open(d + '/meta.json', 'w'), indent=1)
  rows.append((sid, meta))
  print(sid, 'DETECTED' if detected else 'MISSED', res)
with open(V + '/seeded/RESULTS.md', 'w') as f:
  f.write('# Seeded changes (from independent sub-agents) and which check catches them\n\n| seed | property | what / needs | detected | by (key) |\n|---|---|---|---|---|\n')
  for sid in sorted(os.path.basename(d) for d in glob.glob(V + '/seeded/*') if os.path.isdir(d)):
    meta = json.load(open(f'{V}/seeded/{sid}/meta.json'))
    det = meta.get('detection', {})
    by = '; '.join(f"{p}: {x.get('kind')} {x.get('key') or ''} {','.join(x.get('broken') or [])}" for p, x in det.get('detail', {}).items())
    f.write(f"| {sid} | {meta['property']} | {str(meta.get('summary',''))[:160]} — needs: {str(meta.get('needs',''))[:160]} | {'yes' if det.get('detected') else 'NO' if det else '?'} | {by} |\n")
