#!/usr/bin/env python3
"""tools/seeding/mkprompt.py <Cxx> <worktree> <round> : prints the prompt for a FRESH seeding sub-agent.
The prompt contains only the property's text (from properties.jsonl) and generic instructions - nothing from /verif."""
import json, sys, os
HERE = os.path.dirname(os.path.abspath(__file__))
prop, wt, rnd = sys.argv[1], sys.argv[2], sys.argv[3]
for l in open('/verif/properties.jsonl'):
  p = json.loads(l)
  if p['id'] == prop:
    break
else:
  sys.exit('no such property')
text = (f"{p['id']}: {p['title']}\n\nSTATEMENT: {p['statement']}\n\nQUANTIFIER: {p['quantifier']['text']}\n\n"
        f"WHY THE EXISTING TESTS CANNOT SETTLE IT: {p['why_tests_cant']}\n\nCODE FILES: {', '.join(p['anchors']['files'])}\n")
steer = open(os.path.join(HERE, f'steer_{rnd}.txt')).read().strip()
body = open(os.path.join(HERE, 'body.txt')).read()
print(body.replace('@WT@', wt).replace('@PROP@', text).replace('@STEER@', steer))
