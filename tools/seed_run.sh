#!/bin/bash
# tools/seed_run.sh <seed-id> [props...]: runs checks against a scratch copy of /repo with seeded/<id>/patch.diff applied.
# (A copy + VERIF_REPO instead of `git -C /repo apply`, so concurrent checks against /repo are not disturbed.)
set -u
ID=$1; shift
V=/verif
D=$V/seeded/$ID
COPY=$(mktemp -d /tmp/seedrun-XXXXXX)
cp -r /repo/fedjax $COPY/ && cp -r /repo/examples $COPY/ 2>/dev/null
( cd $COPY && patch -p1 -s < $D/patch.diff ) || { echo "patch failed"; rm -rf $COPY; exit 2; }
PROPS="$@"
[ -z "$PROPS" ] && PROPS=$(python3 -c "import json;print(json.load(open('$D/meta.json'))['property'])")
for P in $PROPS; do
  OUT=$(cd $V && VERIF_REPO=$COPY timeout 1800 ./check $P --tier quick 2>/dev/null | grep -e '^OK' -e '^VIOLATION' -e '^KNOWN')
  echo "$ID $P: $OUT"
done
rm -rf $COPY
