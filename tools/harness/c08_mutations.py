#!/venv/bin/python
"""C08 regression: one-line changes of fedjax that break the property; every one must give
`VIOLATION` from `./check C08`.  Usage: tools/harness/c08_mutations.py [name ...]
Each mutation is applied to a private copy of /repo/fedjax (VERIF_REPO), never to /repo."""
import json, os, re, shutil, subprocess, sys, tempfile, time
FD = 'core/federated_data.py'; IM = 'core/in_memory_federated_data.py'; SQ = 'core/sqlite_federated_data.py'; CD = 'core/client_datasets.py'
RANGE_GET = """      client_id: federated_data.ClientId) -> client_datasets.ClientDataset:
    if ((self._start is None or self._start <= client_id) and
        (self._stop is None or client_id < self._stop)):"""
RANGE_SIZE = """  def client_size(self, client_id: federated_data.ClientId) -> int:
    if ((self._start is None or self._start <= client_id) and
        (self._stop is None or client_id < self._stop)):"""
MUTS = {
 'sql_where_stop_le': (SQ, "return '(:start <= client_id AND client_id < :stop)'", "return '(:start <= client_id AND client_id <= :stop)'"),
 'sql_where_start_lt': (SQ, "return '(:start <= client_id)'", "return '(:start < client_id)'"),
 'mem_slice_stop_le': (IM, "if start <= i and i < stop)", "if start <= i and i <= stop)"),
 'mem_slice_start_lt': (IM, "if i >= start)", "if i > start)"),
 'sub_slice_stop_le': (FD, "client_ids = set(i for i in self._client_ids if i < stop)", "client_ids = set(i for i in self._client_ids if i <= stop)"),
 'sql_get_client_no_range_test': (SQ, RANGE_GET, RANGE_GET.split('\n')[0] + '\n    if True:'),
 'sql_client_size_no_range_test': (SQ, RANGE_SIZE, RANGE_SIZE.split('\n')[0] + '\n    if True:'),
 'intersect_min_of_starts': (FD, "new_start = max(current_start, new_start)", "new_start = min(current_start, new_start)"),
 'intersect_max_of_stops': (FD, "new_stop = min(current_stop, new_stop)", "new_stop = max(current_stop, new_stop)"),
 'sql_slice_no_intersect': (SQ, "    start, stop = federated_data.intersect_slice_ranges(self._start, self._stop,\n                                                        start, stop)\n", ""),
 'sub_slice_keeps_all_ids': (FD, "      client_ids = set(i for i in self._client_ids if start <= i and i < stop)\n    return SubsetFederatedData(", "      client_ids = self._client_ids\n    return SubsetFederatedData("),
 'client_pre_prepend': (FD, "return ClientPreprocessor(self._fns + (fn,))", "return ClientPreprocessor((fn,) + self._fns)"),
 'batch_pre_prepend': (CD, "return BatchPreprocessor(self._fns + (fn,))", "return BatchPreprocessor((fn,) + self._fns)"),
 'client_pre_call_reversed': (FD, "    for f in self._fns:\n      out = f(client_id, out)", "    for f in reversed(self._fns):\n      out = f(client_id, out)"),
 'mem_pre_client_dropped': (IM, "                                 self._preprocess_client.append(fn),\n                                 self._preprocess_batch)", "                                 self._preprocess_client,\n                                 self._preprocess_batch)"),
 'sql_pre_batch_replaces_chain': (SQ, "self._preprocess_batch.append(fn))", "client_datasets.BatchPreprocessor([fn]))"),
 'mem_get_clients_sorted': (IM, "    for client_id in client_ids:\n      yield client_id, self._client_dataset(client_id)", "    for client_id in sorted(client_ids):\n      yield client_id, self._client_dataset(client_id)"),
 'sql_get_clients_sorted': (SQ, "    for client_id in client_ids:\n      yield client_id, self.get_client(client_id)", "    for client_id in sorted(client_ids):\n      yield client_id, self.get_client(client_id)"),
 'mem_pre_client_in_place': (IM, """    return InMemoryFederatedData(self._client_to_data_mapping,
                                 self._preprocess_client.append(fn),
                                 self._preprocess_batch)""", """    self._preprocess_client = self._preprocess_client.append(fn)
    return self"""),
 'mem_sizes_preprocessed': (IM, """      yield client_id, client_datasets.num_examples(
          self._client_to_data_mapping[client_id], validate=False)""", """      yield client_id, len(self._client_dataset(client_id))"""),
 'sub_get_clients_no_check': (FD, "      if client_id not in self._client_ids:\n        raise KeyError\n      yield client_id, dataset", "      yield client_id, dataset"),
 'sub_client_size_no_check': (FD, "    if client_id not in self._client_ids:\n      raise KeyError\n    return self._base.client_size(client_id)", "    return self._base.client_size(client_id)"),
 'sub_get_client_no_check': (FD, "    if client_id not in self._client_ids:\n      raise KeyError\n    return self._base.get_client(client_id)", "    return self._base.get_client(client_id)"),
 'sub_validate_off': (FD, "    if validate:\n      bad_client_ids", "    if False:\n      bad_client_ids"),
 'mem_get_clients_counts_first': (IM, "    for client_id in client_ids:\n      yield client_id, self._client_dataset(client_id)", "    if len(list(client_ids)) == 0:\n      return\n    for client_id in client_ids:\n      yield client_id, self._client_dataset(client_id)"),
 'client_pre_append_in_place': (FD, "    return ClientPreprocessor(self._fns + (fn,))", "    self._fns = self._fns + (fn,)\n    return self"),
 'mem_slice_pops_from_parent': (IM, "            client_id: self._client_to_data_mapping[client_id]\n            for client_id in client_ids", "            client_id: self._client_to_data_mapping.pop(client_id)\n            for client_id in list(client_ids)"),
 'mem_feature_order_sensitive': (IM, "      if sorted(dataset.keys()) != sorted(self._features):", "      if list(dataset.keys()) != self._features:"),
 'sub_clients_hash_order': (FD, "    yield from self.get_clients(sorted(self._client_ids))", "    yield from self.get_clients(sorted(self._client_ids, key=hash))"),
 'client_pre_append_idempotent': (FD, "    return ClientPreprocessor(self._fns + (fn,))", "    if fn in self._fns:\n      return self\n    return ClientPreprocessor(self._fns + (fn,))"),
 'batch_pre_append_idempotent': (CD, "    return BatchPreprocessor(self._fns + (fn,))", "    if fn in self._fns:\n      return self\n    return BatchPreprocessor(self._fns + (fn,))"),
 'sub_clients_unsorted_set': (FD, "    yield from self.get_clients(sorted(self._client_ids))", "    yield from self.get_clients(sorted(self._client_ids)[1:])"),
 'sub_shuffled_skips_one': (FD, "      for client_id, dataset in client_datasets.buffered_shuffle(\n          self.clients(), buffer_size, rng):\n        yield client_id, dataset", "      for client_id, dataset in list(client_datasets.buffered_shuffle(\n          self.clients(), buffer_size, rng))[:-1] or list(self.clients()):\n        yield client_id, dataset"),
}


def main():
  which = sys.argv[1:] or list(MUTS)
  bad = 0
  for name in which:
    f, old, new = MUTS[name]
    copy = tempfile.mkdtemp(prefix='c08-mut-')
    try:
      shutil.copytree('/repo/fedjax', os.path.join(copy, 'fedjax'), ignore=shutil.ignore_patterns('__pycache__'))
      p = os.path.join(copy, 'fedjax', f)
      s = open(p).read()
      assert s.count(old) == 1, (name, s.count(old))
      open(p, 'w').write(s.replace(old, new))
      t = time.time()
      for _attempt in range(3):   # a concurrent build in /verif/coq can make the private-tree rsync fail: retry
        r = subprocess.run(['./check', 'C08'], cwd='/verif', env={**os.environ, 'VERIF_REPO': copy},
                           capture_output=True, text=True, timeout=1800)
        out = [l for l in r.stdout.split('\n') if l.startswith(('OK', 'VIOLATION'))]
        m0 = re.search(r'replay=(\S+)', out[-1]) if out else None
        crashed = False
        if m0 and os.path.exists(m0.group(1)):
          d0 = json.load(open(m0.group(1)))
          crashed = any(b.get('kind') == 'harness-crash' for b in d0.get('broken', []))
          if crashed:
            print('   (infrastructure failure, retrying): ' + str(d0['broken'][0].get('traceback', ''))[-200:].replace('\n', ' '), flush=True)
            os.remove(m0.group(1))
        if out and not crashed:
          break
        time.sleep(5)
      line = out[-1] if out else '(no verdict) ' + r.stderr[-300:]
      detail = ''
      m = re.search(r'replay=(\S+)', line)
      if m and os.path.exists(m.group(1)):
        d = json.load(open(m.group(1)))
        kinds = [b.get('kind') + ':' + str(b.get('module') or (b.get('blame') or {}).get('lemma') or b.get('disagreements') or '')
                 for b in d.get('broken', [])]
        detail = f"key={d.get('key')} broken={kinds} ops={d.get('case') and d['case'].get('ops')}"
        os.remove(m.group(1))
      ok = line.startswith('VIOLATION')
      bad += not ok
      print(f'{"caught" if ok else "MISSED"} {name} ({time.time() - t:.0f}s): {line.split(" replay=")[0]} {detail}', flush=True)
    finally:
      shutil.rmtree(copy, ignore_errors=True)
      import hashlib
      shutil.rmtree('/tmp/verif-coq-' + hashlib.md5(os.path.realpath(copy).encode()).hexdigest()[:10], ignore_errors=True)
  sys.exit(1 if bad else 0)


if __name__ == '__main__':
  main()
