"""C07 harness: fedjax.tree_util.tree_sum / tree_mean / tree_weight / tree_inverse_weight /
tree_add / tree_clip_by_global_norm and aggregators.mean_aggregator().apply against the
translated functions (coq/gen/Gen_tree_util.v) and the property's own wording."""
import math
import random
from fractions import Fraction

import numpy as np
from lib import fw

PROP = 'C07'
COQ_HEADER = 'From FV Require Import Common.NanQ Common.WMean Model.C07_Model.'
COQ_AGREE = 'C07_agree'
COQ_MODEL_TARGETS = ['Model/C07_Model']
RULE = ('random pytree structures (nested dict / list / tuple, leaf shapes incl. 0-d and empty), 1..6 clients, '
        'weights incl. zeros / all-zero / python int / float / numpy / jax scalars, list / tuple / generator / one-shot '
        'iterator inputs, shuffled orders; dyadic values compared exactly (total weight a power of two), generic floats '
        'with tolerance 1e-5(1+|x|) inside Coq; Pythagorean multi-leaf trees for clipping; non-trivial = at least two '
        'clients with two distinct positive weights, or a clip above the bound; distinct = distinct case JSON')
TRUSTED = ['tools/lib/qfun.py reading of jnp scalar code (+ - * /, comparisons, where, minimum, tree_map) over NanQ (Common/NanQ.v)',
           'jax.tree_util flattening order = order of the flattened coordinate lists handed to Coq',
           'XLA float32 arithmetic is exact on the dyadic values generated (otherwise tolerance 1e-5(1+|x|))',
           'jax buffer donation happens only at the donate_argnums call sites visible in tree_util.py; '
           'jax.Array.is_deleted / unsafe_buffer_pointer report deletion / aliasing']
ASSUMPTIONS = ['input leaves and weights are finite; weights of the hull theorem are non-negative',
               'tree_l2_norm(x) is the non-negative square root of the sum of squares (the norm enters the clip model as a given number n with n*n == sumsq x)',
               'clip bound >= 0',
               'ownership theorems are about the hand-written store script of Model/C07_Model.v, tied to the code by the '
               'translated donate_argnums tables and by the is_deleted / aliasing observations of this harness']
PARTIAL = ['C07_inputs_not_donated / C07_result_fresh: real XLA donation is runtime behaviour; the script models it only at the donate_argnums call sites']
CASE_TIMEOUT = 180
TOL = 1e-5

# ---------------------------------------------------------------------------
# structures: ['a', shape] leaf | ['d', {key: sub}] | ['l', [subs]] | ['t', [subs]]

def gen_struct(rng, depth=0, big=False):
  r = rng.random()
  if depth >= 2 or r < (0.15 if depth == 0 else 0.5):
    shape = rng.choice([[], [], [1], [2], [3], [0], [2, 2], [1, 3], [2, 0]] + ([[4, 3], [7]] if big else []))
    return ['a', shape]
  n = rng.randrange(1, 4)
  if r < 0.7:
    keys = rng.sample(['w', 'b', 'k', 'a0', 'z', 'm'], n)
    return [rng.choice(['d', 'd', 'd', 'o']), {k: gen_struct(rng, depth + 1, big) for k in keys}]
  kind = rng.choice(['l', 't', 'n', 'c', 'l', 't'])
  if kind == 'c':
    n = 2
  subs = [gen_struct(rng, depth + 1, big) for _ in range(n)]
  if kind in ('l', 't', 'n') and rng.random() < 0.3:
    subs[rng.randrange(len(subs))] = ['N']                     # a None sub-tree
  return [kind, subs]


def leaf_shapes(st):
  """Shapes in jax flattening order (dict keys sorted)."""
  if st[0] == 'a':
    return [st[1]]
  if st[0] == 'N':
    return []
  if st[0] in ('d', 'o'):
    return [s for k in sorted(st[1]) for s in leaf_shapes(st[1][k])]
  return [s for sub in st[1] for s in leaf_shapes(sub)]


def size(st, cplx=False):
  """Number of real coordinates (a complex leaf element is two: re, im interleaved)."""
  return sum(int(np.prod(s)) for s in leaf_shapes(st)) * (2 if cplx else 1)


def build(st, flat, mk, pos=None, cplx=False):
  pos = pos if pos is not None else [0]
  if st[0] == 'a':
    n = int(np.prod(st[1]))
    if cplx:
      vals = flat[pos[0]:pos[0] + 2 * n]
      pos[0] += 2 * n
      vals = [_num(v) for v in vals]
      a = np.array(vals[0::2], dtype=np.float64) + 1j * np.array(vals[1::2], dtype=np.float64)
      return mk(a.reshape(st[1]))
    vals = [_num(v) for v in flat[pos[0]:pos[0] + n]]
    pos[0] += n
    return mk(np.array(vals, dtype=np.float64).reshape(st[1]))
  if st[0] == 'N':
    return None
  if st[0] == 'o':                 # OrderedDict: jax flattens it in INSERTION order, so insert in the order of the values
    import collections
    return collections.OrderedDict((k, build(st[1][k], flat, mk, pos, cplx)) for k in sorted(st[1]))
  if st[0] == 'd':
    items = [(k, build(st[1][k], flat, mk, pos, cplx)) for k in sorted(st[1])]     # values follow the flattening order
    _INS[0] += 1
    r = _INS[0] % max(len(items), 1)
    return dict(items[r:][::-1] + items[:r])                                        # ... the insertion order does not
  subs = [build(s, flat, mk, pos, cplx) for s in st[1]]
  if st[0] == 'n':
    return _namedtuple(len(subs))(*subs)
  if st[0] == 'c':
    return _dataclass()(*subs)
  return subs if st[0] == 'l' else tuple(subs)


_CLS = {}


def _namedtuple(n):
  import collections
  if ('nt', n) not in _CLS:
    _CLS[('nt', n)] = collections.namedtuple('NT%d' % n, ['f%d' % i for i in range(n)])
  return _CLS[('nt', n)]


def _dataclass():
  if 'dc' not in _CLS:
    import fedjax
    import typing

    @fedjax.dataclass
    class Pair:
      x: typing.Any
      y: typing.Any
    _CLS['dc'] = Pair
  return _CLS['dc']


_INS = [0]


def _num(v):
  return {'nan': float('nan'), 'inf': float('inf'), '-inf': float('-inf')}[v] if isinstance(v, str) else float(v)


def dyadic(rng, den=8, lim=40):
  return rng.randrange(-lim, lim + 1) / den


def gen_weights(rng, n, mode):
  if mode == 'zero':
    return [0.0] * n
  if mode == 'pow2':   # total a power of two: 1/W exact
    while True:
      ws = [rng.choice([0, 0, 1, 1, 2, 3, 5, 0.5, 0.25, 1.5]) for _ in range(n)]
      tot = sum(ws)
      if tot > 0 and math.log2(tot) == int(math.log2(tot)):
        return [float(w) for w in ws]
      fix = [t for t in (0.25, 0.5, 1, 2, 4, 8, 16, 32) if t > tot - ws[-1]]
      ws[-1] = fix[0] - (tot - ws[-1])
      return [float(w) for w in ws]
  if mode == 'int':
    ws = [rng.randrange(0, 8) for _ in range(n)]
    return [float(w) for w in ws]
  return [rng.choice([0.0, rng.uniform(0.0, 10.0), rng.uniform(0.0, 1.0), float(rng.randrange(1, 2000))]) for _ in range(n)]


def generate(tier, rng):
  n_mean, n_sum, n_clip, n_small = {'quick': (260, 80, 110, 60), 'thorough': (4000, 1000, 1600, 500),
                                    'search': (3000, 800, 1200, 300)}.get(tier, (260, 80, 110, 60))
  structs = [gen_struct(rng, big=(i % 5 == 0)) for i in range(14 if tier == 'quick' else 60)]
  structs = [s for s in structs if size(s) <= 40] + [['a', []], ['a', [3]], ['d', {'w': ['a', [2, 2]], 'b': ['a', [2]]}]]
  for i in range(n_mean):
    st = rng.choice(structs)
    n = rng.choice([1, 1, 2, 2, 3, 4, 5, 6])
    wmode = rng.choice(['pow2', 'pow2', 'pow2', 'zero', 'int', 'generic'])
    exact = wmode in ('pow2', 'zero')
    k = size(st)
    dtype = 'int32' if exact and i % 6 == 1 else 'float32'
    if dtype == 'int32':
      trees = [[float(rng.randrange(-40, 41)) for _ in range(k)] for _ in range(n)]
    elif exact:
      trees = [[dyadic(rng) for _ in range(k)] for _ in range(n)]
    else:
      trees = [[rng.choice([dyadic(rng), rng.uniform(-3, 3), rng.gauss(0, 100)]) for _ in range(k)] for _ in range(n)]
    ws = gen_weights(rng, n, wmode)
    if i % 7 == 2:                       # tiny (but positive) weights: the mean does not depend on the scale of the weights
      sc = 2.0 ** -rng.choice([20, 40, 60])
      ws = [w * sc for w in ws]
    if i % 9 == 0 and n >= 2:           # a zero-weight client carrying large values
      ws[0] = 0.0
      if wmode == 'pow2':
        tot = sum(ws)
        if tot <= 0 or math.log2(tot) != int(math.log2(tot)):
          ws[1] = ws[1] + (2.0 ** math.ceil(math.log2(tot)) - tot if tot > 0 else 1.0)
      trees[0] = [v * 1024 for v in trees[0]]
    perm = list(range(n))
    rng.shuffle(perm)
    yield {'kind': rng.choice(['mean', 'mean', 'agg']), 'struct': st, 'trees': trees, 'weights': ws, 'perm': perm,
           'input': rng.choice(INPUT_FORMS),
           'wtype': rng.choice(['float', 'float', 'int', 'np32', 'jnp', 'jnp_weak', 'jnp0d', 'np64', 'np0d']),
           'leaf': rng.choice(['jax', 'jax', 'jax', 'np']), 'tol': 0.0 if exact else TOL, 'dtype': dtype,
           'idtype': rng.choice(['bytes', 'str', 'int']), 'kw': rng.random() < 0.2, 'fresh': i % 4 == 0, 'reinit': i % 5 == 0,
           'ctx': 'nojit' if i % 11 == 5 else 'eager', 'layout': rng.choice(LAYOUTS), 'twice': i % 3 == 0}
  for i in range(n_sum):
    st = rng.choice(structs)
    n = rng.choice([1, 1, 2, 3, 4, 6])
    k = size(st)
    exact = i % 4 != 0
    dtype = 'int32' if exact and i % 5 == 1 else 'float32'
    trees = [[float(rng.randrange(-40, 41)) if dtype == 'int32' else dyadic(rng) if exact else rng.gauss(0, 10)
              for _ in range(k)] for _ in range(n)]
    perm = list(range(n))
    rng.shuffle(perm)
    ctx = 'nojit' if i % 9 == 4 else 'jit' if i % 9 == 7 else 'eager'
    yield {'kind': 'sum', 'struct': st, 'trees': trees, 'weights': [], 'perm': perm,
           'input': 'list' if ctx == 'jit' else rng.choice(INPUT_FORMS), 'wtype': 'float',
           'leaf': rng.choice(['jax', 'jax', 'np']), 'tol': 0.0 if exact else TOL, 'dtype': dtype,
           'kw': rng.random() < 0.2, 'ctx': ctx, 'layout': rng.choice(LAYOUTS), 'twice': i % 3 == 0}
  trip = [(3, 4, 5), (5, 12, 13), (8, 15, 17), (7, 24, 25), (1, 0, 1), (0, 0, 0), (2, 3, 6, 7), (1, 4, 8, 9), (2, 6, 9, 11),
          (1, 2, 2, 3), (4, 4, 7, 9), (2, 10, 11, 15), (0, 0, 0, 0), (1, 1, 1, 1, 2), (2, 4, 5, 6, 9)]
  for i in range(n_clip):
    t = rng.choice(trip)
    comps, norm = list(t[:-1]), t[-1]
    scale = rng.choice([1, 1, 2, 0.5, 0.25, 4])
    vals = [c * scale * rng.choice([1, -1]) for c in comps]
    rng.shuffle(vals)
    norm = norm * scale
    # spread the components over a multi-leaf tree, padding with zeros
    st = rng.choice([s for s in structs if size(s) >= len(vals)] or [['a', [len(vals)]]])
    k = size(st)
    flat = vals + [0.0] * (k - len(vals))
    rng.shuffle(flat)
    mode = rng.choice(['below', 'above', 'equal', 'above', 'pow2', 'zero-bound'] if i % 8 else ['zero-bound'])
    if mode == 'below':
      c = norm * rng.choice([2, 1.5, 8]) + rng.choice([0, 0.5])
    elif mode == 'equal':
      c = norm
    elif mode == 'zero-bound':
      c = 0.0
    elif mode == 'pow2':   # c / norm exactly representable only when both are powers of two times the same odd part
      c = norm / rng.choice([2, 4, 8])
    else:
      c = rng.choice([0.5, 1.0, 0.25, 3.0, norm / 3 if norm else 1.0])
    c = float(np.float32(c))
    exact = (norm == 0) or (c >= norm) or (
        Fraction(c) / Fraction(norm) == Fraction(float(np.float32(c) / np.float32(norm))) and
        (Fraction(c) / Fraction(norm)).numerator < 64)
    yield {'kind': 'clip', 'struct': st, 'trees': [flat], 'weights': [], 'perm': [0], 'c': float(c), 'norm': float(norm),
           'input': 'list', 'wtype': rng.choice(['float', 'int', 'jnp', 'jnp_weak', 'np32', 'np0d']) if float(c).is_integer() else rng.choice(['float', 'np32', 'jnp_weak']),
           'leaf': rng.choice(['jax', 'jax', 'np']), 'tol': 0.0 if exact else TOL,
           'kw': rng.random() < 0.2, 'ctx': ['eager', 'eager', 'nojit', 'jit'][i % 4], 'layout': rng.choice(LAYOUTS), 'twice': i % 3 == 0}
  # ---- falsy-but-valid boundaries, every tier: first weight exactly 1 (n = 1 and n >= 2), weights 0 and 1 only, total
  # weight strictly between 0 and 1, a single zero-weight client, empty trees, the empty cohort, ids 0 / b'' / ''
  small = [['a', [2]], ['d', {'w': ['a', [2, 2]], 'b': ['a', []]}], ['d', {}], ['l', []], ['l', [['a', [0]], ['d', {}]]]]
  wlists = [[1.0], [1.0, 1.0], [1.0, 4.0], [1.0, 0.0, 3.0], [0.5], [0.25, 0.25], [0.25, 0.5], [0.125, 0.0, 0.25, 0.125],
            [0.0, 1.0], [0.0], [0.0, 0.0], [2.0 ** -30], [1.0, 1.0, 1.0, 1.0], [0.1, 0.0, 0.2, 0.3], []]
  j = 0
  for ws in wlists:
    for kind in ('mean', 'agg'):
      for form in ('list', 'gen', 'iterlist', 'map', 'zip'):
        j += 1
        st = small[j % len(small)]
        k = size(st)
        tot = sum(ws)
        exact = tot == 0 or math.log2(tot) == int(math.log2(tot))
        yield {'kind': kind, 'struct': st, 'trees': [[dyadic(rng) for _ in range(k)] for _ in ws], 'weights': list(ws),
               'perm': list(reversed(range(len(ws)))), 'input': form,
               'wtype': ['float', 'int', 'jnp', 'jnp_weak', 'np32'][j % 5], 'leaf': 'jax' if j % 4 else 'np',
               'tol': 0.0 if exact else TOL, 'dtype': 'float32', 'idtype': ['int', 'bytes', 'str'][j % 3],
               'kw': j % 7 == 0, 'fresh': True, 'reinit': j % 3 == 0, 'ctx': 'nojit' if j % 13 == 0 else 'eager',
               'layout': LAYOUTS[j % len(LAYOUTS)], 'twice': True}
  for n in (0, 1, 1, 2):
    for form in ('list', 'gen', 'tuple', 'dictvalues'):
      j += 1
      st = small[j % len(small)]
      yield {'kind': 'sum', 'struct': st, 'trees': [[dyadic(rng) for _ in range(size(st))] for _ in range(n)], 'weights': [],
             'perm': list(range(n)), 'input': form, 'wtype': 'float', 'leaf': 'jax' if j % 3 else 'np', 'tol': 0.0,
             'dtype': 'float32', 'kw': False, 'ctx': 'eager'}
  # ---- joint magnitude sweep (exact: everything is scaled by powers of two).  Clipping: tree norm 5 * 2^k against
  # bounds above / equal / below it and against bounds of an unrelated magnitude 2^j; within one ulp of the norm on both
  # sides.  Means: data scale 2^k, weight scale 2^j.  (2^-55 .. 2^60: squares stay normal float32 numbers.)
  ks = [-55, -40, -30, -24, -23, -20, -10, 0, 20, 40, 60]
  sweep = [(k, m) for k in ks for m in ('x2', 'eq', 'half', 'quarter', 'ulp-above', 'ulp-below', 'other')]
  if tier == 'quick':
    sweep = [sw for i_, sw in enumerate(sweep) if i_ % 2 == 0]
  for i, (k, m) in enumerate(sweep):
    sgn = [rng.choice([1, -1]) for _ in range(2)]
    st = [['a', [2]], ['d', {'w': ['a', [1]], 'b': ['a', [2]]}], ['l', [['a', []], ['a', [1, 2]]]]][i % 3]
    flat = [3.0 * sgn[0] * 2.0 ** k, 4.0 * sgn[1] * 2.0 ** k] + [0.0] * (size(st) - 2)
    rng.shuffle(flat)
    norm = 5.0 * 2.0 ** k
    if m == 'other':
      c = 2.0 ** rng.choice([j for j in ks if j != k])
    else:
      c = {'x2': norm * 2, 'eq': norm, 'half': norm / 2, 'quarter': norm / 4,
           'ulp-above': float(np.nextafter(np.float32(norm), np.float32(np.inf))),
           'ulp-below': float(np.nextafter(np.float32(norm), np.float32(0)))}[m]
    exact = c >= norm or m in ('half', 'quarter')
    yield {'kind': 'clip', 'struct': st, 'trees': [flat], 'weights': [], 'perm': [0], 'c': float(c), 'norm': norm,
           'input': 'list', 'wtype': ['float', 'np32', 'jnp', 'jnp_weak'][i % 4], 'leaf': 'jax' if i % 3 else 'np',
           'tol': 0.0 if exact else TOL, 'kw': False, 'ctx': ['eager', 'jit', 'nojit'][i % 3] if i % 5 == 0 else 'eager',
           'sweep': m}
  for i, k in enumerate(ks):
    for j in ([ks[(i * 3 + 1) % len(ks)]] if tier == 'quick' else ks[::2]):
      st = rng.choice(small[:2])
      n = rng.choice([2, 3])
      ws = [w * 2.0 ** j for w in gen_weights(rng, n, 'pow2')]
      yield {'kind': rng.choice(['mean', 'agg']), 'struct': st, 'trees': [[dyadic(rng) * 2.0 ** k for _ in range(size(st))] for _ in range(n)],
             'weights': ws, 'perm': list(reversed(range(n))), 'input': rng.choice(['list', 'gen']), 'wtype': 'float',
             'leaf': 'jax', 'tol': 0.0, 'dtype': 'float32', 'idtype': 'sentinel', 'kw': False, 'fresh': False, 'reinit': False,
             'ctx': 'eager', 'sweep': 'scale'}
  # ---- weights in NARROW dtypes (numpy scalar, 0-d numpy array, jax scalar): every weight fits its dtype, the TOTAL
  # does not (or just does); totals are powers of two so the comparison is exact.  A running total kept in the
  # weights' own dtype would wrap (integers) or overflow / round (float16, bfloat16).
  narrow = [('uint8', [128, 64, 64]), ('uint8', [200, 56]), ('uint8', [64, 32, 32]), ('int8', [64, 64]), ('int8', [32, 16, 16]),
            ('uint16', [32768, 32768]), ('uint16', [1024, 1024]), ('int16', [16384, 16384]), ('int16', [4096, 4096]),
            ('int32', [2 ** 30, 2 ** 30]), ('int32', [2 ** 30, 2 ** 30, 2 ** 30, 2 ** 30]), ('uint32', [2 ** 31, 2 ** 31]),
            ('uint8', [255, 1]), ('uint8', [0, 128, 128]),
            ('float16', [1024.0, 512.0, 512.0]), ('bfloat16', [128.0, 64.0, 64.0]), ('float16', [0.5, 0.25, 0.25])]
  for j, (dt, wl) in enumerate(narrow):
    for how in ('np', 'np0d', 'jnp'):
      if how != 'jnp' and dt == 'bfloat16':
        continue
      st = small[(j + len(how)) % 2]
      yield {'kind': ['mean', 'agg'][(j + len(how)) % 2], 'struct': st,
             'trees': [[dyadic(rng) for _ in range(size(st))] for _ in wl], 'weights': [float(w) for w in wl],
             'perm': list(reversed(range(len(wl)))), 'input': ['list', 'gen', 'iterlist'][j % 3], 'wtype': f'{how}:{dt}',
             'leaf': 'jax', 'tol': 0.0, 'dtype': 'float32', 'idtype': 'bytes', 'kw': False, 'fresh': j % 2 == 0, 'reinit': False,
             'ctx': 'eager', 'twice': j % 4 == 0, 'narrow': 'fits' if sum(wl) <= {'uint8': 255, 'int8': 127, 'uint16': 65535, 'int16': 32767,
                                                                                'int32': 2 ** 31 - 1, 'uint32': 2 ** 32 - 1}.get(dt, 1e9) else 'total-overflows'}
  # (float16 / bfloat16 weights whose partial totals are NOT representable in that dtype are accumulated in half
  # precision by the code - the caller's choice of dtype, see coverage/C07.md - and are not generated)
  # single narrow weights through tree_weight / tree_inverse_weight
  for j, (dt, w) in enumerate([('uint8', 200), ('int8', 64), ('uint16', 32768), ('int32', 2 ** 30), ('float16', 1024.0), ('uint8', 0)]):
    st = small[j % 2]
    yield {'kind': ['weight', 'invweight', 'invweight_eq'][j % 3], 'struct': st, 'trees': [[dyadic(rng) for _ in range(size(st))]],
           'weights': [float(w)], 'perm': [0], 'input': 'list', 'wtype': f'{["np", "jnp"][j % 2]}:{dt}', 'leaf': 'jax', 'tol': 0.0,
           'dtype': 'float32', 'kw': False, 'ctx': 'eager', 'narrow': 'single'}
  # ---- offset / ill-conditioned data, exact (integers below 2^24, power-of-two totals): mean >> spread with both signs,
  # all trees equal, a constant plus one outlier, alternating signs that cancel
  pats = ['offset', 'offset-neg', 'all-equal', 'outlier', 'alternating']
  for i in range({'quick': 30, 'thorough': 300, 'search': 200}.get(tier, 30)):
    pat = pats[i % len(pats)]
    st = rng.choice(small[:2] + [['a', [3]], ['t', [['a', [2]], ['N'], ['n', [['a', []], ['a', [1]]]]]]])
    k = size(st)
    n = rng.choice([2, 3, 4])
    off = float(rng.choice([100, 1000, 10 ** 4, 10 ** 5, 10 ** 6, 2 ** 21]))
    if pat == 'offset':
      trees = [[off + rng.randrange(-2, 3) for _ in range(k)] for _ in range(n)]
    elif pat == 'offset-neg':
      trees = [[-off + rng.randrange(-2, 3) for _ in range(k)] for _ in range(n)]
    elif pat == 'all-equal':
      t0 = [off + rng.randrange(-2, 3) for _ in range(k)]
      trees = [list(t0) for _ in range(n)]
    elif pat == 'outlier':
      trees = [[1.0] * k for _ in range(n)]
      trees[rng.randrange(n)] = [off] * k
    else:
      trees = [[(off + j) * (1 if c % 2 == 0 else -1) for j in range(k)] for c in range(n)]
    kind = ['mean', 'agg', 'sum'][i % 3]
    # integer weights with a power-of-two total: every partial sum is an integer below 2^24, the quotient a multiple of 1/4
    ws = [] if kind == 'sum' else ([1.0] * n if n in (2, 4) else [1.0, 2.0, 1.0])
    if ws and rng.random() < 0.5:
      rng.shuffle(ws)
    perm = list(range(n))
    rng.shuffle(perm)
    yield {'kind': kind, 'struct': st, 'trees': trees, 'weights': ws, 'perm': perm, 'input': rng.choice(['list', 'gen', 'iterlist']),
           'wtype': rng.choice(['float', 'int', 'jnp']), 'leaf': rng.choice(['jax', 'np']), 'tol': 0.0, 'dtype': 'float32',
           'idtype': 'bytes', 'kw': False, 'fresh': False, 'reinit': False, 'ctx': 'eager', 'layout': rng.choice(LAYOUTS),
           'twice': True, 'pattern': pat}
  # ---- non-finite values on REAL positions (positive-weight clients): the answer must be non-finite exactly there
  for i in range({'quick': 16, 'thorough': 120, 'search': 100}.get(tier, 16)):
    st = rng.choice(small[:2] + [['a', [4]]])
    k = size(st)
    n = rng.choice([1, 2, 3])
    trees = [[dyadic(rng) for _ in range(k)] for _ in range(n)]
    for _ in range(rng.choice([1, 2])):
      trees[rng.randrange(n)][rng.randrange(k)] = rng.choice(['nan', 'inf', '-inf'])
    kind = ['mean', 'agg', 'sum'][i % 3]
    ws = [] if kind == 'sum' else [float(rng.choice([1, 2, 1, 4])) for _ in range(n)]
    if ws:
      ws[-1] += [t for t in (1, 2, 4, 8, 16) if t >= sum(ws)][0] - sum(ws)
    yield {'kind': kind, 'struct': st, 'trees': trees, 'weights': ws, 'perm': list(reversed(range(n))),
           'input': rng.choice(['list', 'gen']), 'wtype': 'float', 'leaf': rng.choice(['jax', 'np']), 'tol': 0.0,
           'dtype': 'float32', 'idtype': 'sentinel', 'kw': False, 'fresh': False, 'reinit': False, 'ctx': 'eager', 'nonfinite': True}
  # ---- composition of the parts: clip every client tree, take the weighted mean, clip the mean (oracle only)
  for i in range({'quick': 10, 'thorough': 80, 'search': 60}.get(tier, 10)):
    st = rng.choice(small[:2] + [['a', [3]]])
    n = rng.choice([1, 2, 3])
    yield {'kind': 'pipeline', 'struct': st, 'trees': [[dyadic(rng) for _ in range(size(st))] for _ in range(n)],
           'weights': gen_weights(rng, n, 'pow2'), 'perm': list(range(n)), 'c': rng.choice([0.5, 1.0, 4.0, 100.0]),
           'c2': rng.choice([0.25, 2.0, 100.0]), 'input': rng.choice(['list', 'gen']), 'wtype': 'float', 'leaf': 'jax',
           'tol': TOL, 'dtype': 'float32', 'kw': False, 'ctx': 'eager'}
  # ---- further leaf dtypes (exact): uint8, bool (means only: numpy's bool + bool is OR, not a sum), complex64 (a complex
  # element is two real coordinates), int32 beyond 2^24 (sums only: a float32 round-trip would show)
  n_dt = {'quick': 48, 'thorough': 400, 'search': 300}.get(tier, 48)
  for i in range(n_dt):
    dtype = ['uint8', 'bool', 'complex64', 'int32'][i % 4]
    cplx = dtype == 'complex64'
    st = rng.choice([s_ for s_ in structs if size(s_) <= 10])
    k = size(st, cplx)
    n = rng.choice([1, 2, 3])
    kind = {'uint8': ['sum', 'mean', 'agg'], 'bool': ['mean', 'agg'], 'complex64': ['sum', 'mean', 'agg', 'add', 'weight'],
            'int32': ['sum']}[dtype][(i // 4) % {'uint8': 3, 'bool': 2, 'complex64': 5, 'int32': 1}[dtype]]
    if kind == 'add':
      n = 2
    if kind == 'weight':
      n = 1
    val = {'uint8': lambda: float(rng.randrange(0, 21)), 'bool': lambda: float(rng.randrange(0, 2)),
           'complex64': lambda: dyadic(rng), 'int32': lambda: float(rng.choice([1, -1]) * ((1 << 24) + rng.randrange(1, 1000)))}[dtype]
    trees = [[val() for _ in range(k)] for _ in range(n)]
    ws = []
    if kind in ('mean', 'agg'):
      ws = gen_weights(rng, n, 'pow2')
    if kind == 'weight':
      ws = [dyadic(rng)]
    perm = list(range(n))
    rng.shuffle(perm)
    yield {'kind': kind, 'struct': st, 'trees': trees, 'weights': ws, 'perm': perm, 'input': rng.choice(['list', 'gen', 'iterlist']),
           'wtype': 'float', 'leaf': rng.choice(['jax', 'np']), 'tol': 0.0, 'dtype': dtype, 'idtype': 'bytes', 'kw': False,
           'ctx': 'eager'}
  for i in range(n_dt // 4):            # complex clipping: |3 + 4i| = 5
    comps, norm = rng.choice([((3, 4), 5), ((5, 12), 13), ((0, 0), 0), ((8, 15), 17)])
    st = rng.choice([s_ for s_ in structs if 1 <= size(s_) <= 8] or [['a', [1]]])
    k = size(st, True)
    flat = [float(comps[0]), float(comps[1])] + [0.0] * (k - 2)
    c = float(rng.choice([norm, norm * 2, norm / 2, norm / 4, 0.0, 1.0]))
    exact = norm == 0 or c >= norm or (c / norm) in (0.5, 0.25, 0.0)
    yield {'kind': 'clip', 'struct': st, 'trees': [flat], 'weights': [], 'perm': [0], 'c': c, 'norm': float(norm),
           'input': 'list', 'wtype': 'float', 'leaf': rng.choice(['jax', 'np']), 'tol': 0.0 if exact else TOL,
           'dtype': 'complex64', 'kw': False, 'ctx': 'eager'}
  # ---- the remaining public helpers: tree_l2_squared / tree_l2_norm / tree_size / tree_zeros_like
  for i in range(n_dt // 2):
    st = rng.choice(structs + small)
    dtype = ['float32', 'float32', 'complex64', 'int32'][i % 4]
    k = size(st, dtype == 'complex64')
    yield {'kind': ['l2', 'zeros_like', 'size'][i % 3], 'struct': st,
           'trees': [[float(rng.randrange(-6, 7)) if dtype == 'int32' else dyadic(rng) for _ in range(k)]], 'weights': [],
           'perm': [0], 'input': 'list', 'wtype': 'float', 'leaf': rng.choice(['jax', 'np']), 'tol': 0.0, 'dtype': dtype,
           'kw': False, 'ctx': 'eager'}
  # low-precision / narrow leaf dtypes: the tree operations are dtype-generic.  Values and weights are
  # kept so small that every intermediate is exact in the leaf dtype (float16: 11 significant bits,
  # bfloat16: 8, int8: no overflow), so these cases are compared exactly like the float32 dyadic ones.
  n_lowp = {'quick': 70, 'thorough': 700, 'search': 500}.get(tier, 70)
  for i in range(n_lowp):
    dtype = ['float16', 'bfloat16', 'int8'][i % 3]
    kind = rng.choice(['mean', 'agg', 'sum', 'sum', 'clip'] if dtype != 'int8' else ['mean', 'agg', 'sum', 'sum'])
    st = rng.choice([s_ for s_ in structs if size(s_) <= 12])
    k = size(st)
    lim = {'float16': 8, 'bfloat16': 2, 'int8': 10}[dtype]
    if kind == 'clip':
      comps, norm = rng.choice([((3, 4), 5), ((5, 12), 13), ((0, 0), 0), ((1, 0), 1), ((4, 3), 5)])
      st = rng.choice([s_ for s_ in structs if 2 <= size(s_) <= 12] or [['a', [2]]])
      k = size(st)
      flat = [float(c_ * rng.choice([1, -1])) for c_ in comps] + [0.0] * (k - 2)
      rng.shuffle(flat)
      c = float(rng.choice([norm, norm * 2, norm + 1, norm / 2, norm / 4, 0.0]))
      yield {'kind': 'clip', 'struct': st, 'trees': [flat], 'weights': [], 'perm': [0], 'c': c, 'norm': float(norm),
             'input': 'list', 'wtype': 'float', 'leaf': rng.choice(['jax', 'np']), 'tol': 0.0, 'dtype': dtype}
      continue
    n = rng.choice([1, 2, 3, 4])
    trees = [[float(rng.randrange(-lim, lim + 1)) for _ in range(k)] for _ in range(n)]
    ws = []
    if kind != 'sum':
      ws = [float(rng.choice([0, 1, 1, 2])) for _ in range(n)]
      tot = sum(ws)
      if i % 5 == 0:
        ws = [0.0] * n
      elif tot not in (1, 2, 4, 8):
        ws[-1] += [t for t in (1, 2, 4, 8) if t > tot - 0][0] - tot if tot > 0 else 1.0
    perm = list(range(n))
    rng.shuffle(perm)
    yield {'kind': kind, 'struct': st, 'trees': trees, 'weights': ws, 'perm': perm,
           'input': rng.choice(['list', 'gen', 'iter']), 'wtype': rng.choice(['float', 'int']),
           'leaf': rng.choice(['jax', 'jax', 'np']), 'tol': 0.0, 'dtype': dtype}
  # ---- global configuration flags (thorough / search): a batch of ordinary cases re-run in a subprocess per flag
  if tier != 'quick':
    sub = [c for c in generate('quick', random.Random(rng.randrange(10 ** 6)))
           if c['kind'] in ('mean', 'agg', 'sum', 'clip', 'weight', 'add') and c['wtype'] in ('float', 'int')
           and c.get('dtype', 'float32') == 'float32' and c['leaf'] == 'jax' and c.get('ctx', 'eager') == 'eager'
           and not c.get('nonfinite')][:80]
    x64 = [{'kind': k_, 'struct': ['a', [2]], 'trees': [[1.5, -2.0], [0.5, 4.0]], 'weights': [float(2 ** 62), float(2 ** 62)],
            'perm': [1, 0], 'input': 'list', 'wtype': wt_, 'leaf': 'jax', 'tol': 0.0, 'dtype': 'float32', 'idtype': 'bytes',
            'kw': False, 'fresh': False, 'reinit': False, 'ctx': 'eager', 'narrow': 'total-overflows', 'nodtype': True}
           for k_ in ('mean', 'agg') for wt_ in ('np:int64', 'np0d:int64', 'jnp:int64')]
    for flag, val in (('jax_enable_x64', True), ('jax_numpy_rank_promotion', 'raise'), ('jax_disable_jit', True)):
      yield {'kind': 'flagbatch', 'flag': flag, 'value': val, 'cases': sub + (x64 if flag == 'jax_enable_x64' else []), 'trees': [], 'weights': [], 'struct': ['a', []],
             'input': 'list', 'wtype': 'float', 'leaf': 'jax', 'tol': 0.0, 'perm': []}
  for i in range(n_small):
    st = rng.choice(structs)
    k = size(st)
    kind = rng.choice(['weight', 'invweight', 'invweight_eq', 'add'])
    trees = [[dyadic(rng) for _ in range(k)] for _ in range(2 if kind == 'add' else 1)]
    w = rng.choice([0.0, 0.0, -1.0, -0.5, 1.0, 2.0, 4.0, 0.5, 0.125, 3.0, 7.0]) if kind != 'weight' else dyadic(rng)
    exact = kind in ('weight', 'add') or w <= 0 or math.log2(w) == int(math.log2(w))
    yield {'kind': kind, 'struct': st, 'trees': trees, 'weights': [w], 'perm': list(range(len(trees))),
           'input': 'list', 'wtype': rng.choice(['float', 'int', 'jnp']) if float(w).is_integer() else 'float',
           'leaf': 'jax', 'tol': 0.0 if exact else TOL}


# ---------------------------------------------------------------------------

class OneShot:
  """Iterator that can be consumed once; counts what it hands out."""

  def __init__(self, items):
    self._items = list(items)
    self.i = 0
    self.iter_calls = 0
    self.after_end = 0

  def __iter__(self):
    self.iter_calls += 1
    return self

  def __next__(self):
    if self.i >= len(self._items):
      self.after_end += 1
      raise StopIteration
    v = self._items[self.i]
    self.i += 1
    return v


INPUT_FORMS = ['list', 'tuple', 'gen', 'iter', 'iterlist', 'map', 'zip', 'dictvalues', 'partial', 'reentrant']


def _wrap(items, how):
  """The delivery form of the iterable argument.  Returns (argument, one-shot probe or None)."""
  items = list(items)
  if how == 'list':
    return items, None
  if how == 'tuple':
    return tuple(items), None
  if how == 'gen':
    return (x for x in items), None
  if how == 'iterlist':
    return iter(items), None
  if how == 'map':
    return map(lambda x: x, items), None
  if how == 'zip':                               # a zip object over the columns (only for tuple elements)
    if items and type(items[0]) is tuple:
      return zip(*[[x[j] for x in items] for j in range(len(items[0]))]), None
    return (x for (x,) in zip(items)), None
  if how == 'dictvalues':
    return {('k', i): x for i, x in enumerate(items)}.values(), None
  if how == 'partial':                           # an iterator of which one element was already taken
    it = iter(['already consumed'] + items)
    next(it)
    return it, None
  if how == 'reentrant':                         # a generator that itself calls tree_sum / tree_mean while being consumed
    def gen():
      import jax.numpy as jnp
      from fedjax.core import tree_util
      for i, x in enumerate(items):
        if i == 1:
          inner = tree_util.tree_sum(iter([{'q': jnp.ones(2)}, {'q': jnp.full(2, 2.)}]))
          inner2 = tree_util.tree_mean([({'q': jnp.ones(2)}, 1.), ({'q': jnp.full(2, 3.)}, 1.)])
          if float(inner['q'][0]) != 3.0 or float(inner2['q'][1]) != 2.0:
            raise AssertionError('re-entrant call gave a wrong result')
        yield x
    return gen(), None
  it = OneShot(items)
  return it, it


def _weight(w, wtype):
  import jax.numpy as jnp
  if ':' in wtype:
    how, dt = wtype.split(':')
    if how == 'jnp':
      return jnp.asarray(int(w) if 'int' in dt else w, dtype=getattr(jnp, dt))
    ndt = _np_dtype(dt)
    v = np.asarray(int(w) if 'int' in dt else w).astype(ndt)
    return v if how == 'np0d' else v[()]
  if wtype == 'int' and float(w).is_integer():
    return int(w)
  if wtype == 'np32':
    return np.float32(w)
  if wtype == 'jnp':
    return jnp.float32(w)
  if wtype == 'jnp_weak':                        # weakly typed jax scalar
    return jnp.asarray(float(w))
  if wtype == 'jnp0d':
    return jnp.array(w, dtype=jnp.float32)
  if wtype == 'np64':
    return np.float64(w)
  if wtype == 'np0d':
    return np.array(w, dtype=np.float32)
  return float(w)


def _leaves(t):
  import jax
  return jax.tree_util.tree_leaves(t)


def _flat(t):
  out = []
  for l in _leaves(t):
    a = np.asarray(l)
    if np.iscomplexobj(a):
      a = a.astype(np.complex128).reshape(-1)
      out += [float(v) for pair in zip(a.real, a.imag) for v in pair]
    else:
      out += [float(v) for v in a.astype(np.float64).reshape(-1)]
  return out


def _np_dtype(name):
  import jax.numpy as jnp
  return np.dtype(jnp.bfloat16) if name == 'bfloat16' else np.dtype(name)


LAYOUTS = ['C', 'F', 'T', 'step2', 'neg', 'col', 'ro']


def _layout(a, how):
  """The same values in another memory layout (numpy leaves): Fortran order, transposed view, every-other-row slice
  of a larger array, negative stride, non-contiguous column slice of a wider array, read-only.  (Byte-swapped dtypes
  are rejected by jax itself with a TypeError: outside the API.)"""
  if how == 'C' or a.ndim == 0 or a.size == 0:
    if how == 'ro':
      a = a.copy()
      a.setflags(write=False)
    return a
  if how == 'F':
    return np.asfortranarray(a)
  if how == 'T':
    return np.ascontiguousarray(a.T).T
  if how == 'step2':
    big = np.full((2 * a.shape[0],) + a.shape[1:], 7, dtype=a.dtype)
    big[::2] = a
    return big[::2]
  if how == 'neg':
    return a[::-1].copy()[::-1]
  if how == 'col':
    wide = np.full(a.shape[:-1] + (a.shape[-1] + 2,), 9, dtype=a.dtype)
    wide[..., 1:-1] = a
    return wide[..., 1:-1]
  if how == 'ro':
    a = a.copy()
    a.setflags(write=False)
  return a


def _container_snapshot(arg, trees):
  """Container level view of the caller's data: the sequence object (if re-iterable), its elements, every tree's
  structure and the identity of every leaf."""
  import jax
  snap = {'trees': [(jax.tree_util.tree_structure(t), [id(l) for l in _leaves(t)]) for t in trees]}
  if isinstance(arg, (list, tuple)):
    snap['seq'] = (len(arg), [id(x) for x in arg], [len(x) if isinstance(x, tuple) else None for x in arg])
  return snap


def _container_same(arg, trees, snap):
  import jax
  now = [(jax.tree_util.tree_structure(t), [id(l) for l in _leaves(t)]) for t in trees]
  if now != snap['trees']:
    return False
  if 'seq' in snap:
    return snap['seq'] == (len(arg), [id(x) for x in arg], [len(x) if isinstance(x, tuple) else None for x in arg])
  return True


_OBJ = {}       # objects reused for the whole process (the aggregator and its state)
_KEPT = {}      # results kept by "the caller" from earlier calls in this process: must stay valid and unchanged


def _check_kept():
  import jax
  bad = False
  for key, (leaves, snaps) in list(_KEPT.items()):
    for l, s_ in zip(leaves, snaps):
      if isinstance(l, jax.Array) and l.is_deleted():
        bad = True
      elif np.asarray(l).tobytes() != s_:
        bad = True
  return bad


def _keep(key, res):
  if res is not None:
    ls = _leaves(res)
    _KEPT[key] = (ls, [np.asarray(l).tobytes() for l in ls])


def _inspect(inputs, snaps, result):
  """Inputs bit-equal to their pre-call copies, not deleted, not aliased by the result."""
  import jax
  problems = []
  res_leaves = _leaves(result) if result is not None else []
  res_ptr = set()
  for r in res_leaves:
    if isinstance(r, jax.Array) and r.size > 0:
      try:
        res_ptr.add(r.unsafe_buffer_pointer())
      except Exception:  # pylint: disable=broad-except
        pass
  for t, snap in zip(inputs, snaps):
    for l, s in zip(_leaves(t), snap):
      if isinstance(l, jax.Array) and l.is_deleted():
        problems.append('deleted')
        continue
      a = np.asarray(l)
      if a.dtype != s.dtype or a.shape != s.shape or a.tobytes() != s.tobytes():
        problems.append('modified')
      if any(l is r for r in res_leaves):
        problems.append('aliased')
      elif isinstance(l, jax.Array) and l.size > 0:
        try:
          if l.unsafe_buffer_pointer() in res_ptr:
            problems.append('aliased')
        except Exception:  # pylint: disable=broad-except
          pass
  return sorted(set(problems))


def _ids(n, idtype):
  if idtype == 'str':
    return [''] + ['c%d' % i for i in range(1, n)]
  if idtype == 'int':
    return list(range(n))
  if idtype == 'sentinel':                       # legal ids that look like "absent" / internal keys, not in sorted order
    return ([None, -1, b'__mask__', '__mask__', b'c02', b'c00', b'c10'] * 2)[:n]
  return [b''] + [b'c%d' % i for i in range(1, n)]


def _call(case, order):
  import contextlib
  import jax
  import jax.numpy as jnp
  import fedjax
  from fedjax.core import tree_util
  st, kind = case['struct'], case['kind']
  dname = case.get('dtype', 'float32')
  cplx = dname == 'complex64'
  dt = _np_dtype(dname)
  mk = (lambda a: jnp.asarray(a, dtype=dt)) if case['leaf'] == 'jax' else (lambda a: _layout(np.asarray(a).astype(dt), case.get('layout', 'C')))
  # sums keep the leaf dtype; leaf * weight follows jax's promotion: a floating / complex leaf keeps its dtype under a
  # python-scalar (or weakly typed) weight, everything else becomes float32
  floating = dname in ('float16', 'bfloat16', 'float32', 'complex64')
  weak_w = case['wtype'] in ('float', 'int', 'jnp_weak')
  if kind in ('sum', 'add', 'zeros_like'):
    want_dt = dt
  elif floating and (weak_w or dname in ('float32', 'complex64')):
    want_dt = dt
  else:
    want_dt = np.dtype(np.float32)
  trees = [build(st, case['trees'][i], mk, None, cplx) for i in order]
  snaps = [[np.array(l, copy=True) for l in _leaves(t)] for t in trees]
  ws = [case['weights'][i] for i in order] if kind in ('mean', 'agg') else case['weights']
  kw = bool(case.get('kw'))
  ctx = case.get('ctx', 'eager')
  cm = jax.disable_jit() if ctx == 'nojit' else contextlib.nullcontext()
  it, arg, extra = None, None, []
  if kind == 'mean':
    arg, it = _wrap([(t, _weight(w, case['wtype'])) for t, w in zip(trees, ws)], case['input'])
  elif kind == 'agg':
    ids = _ids(len(trees), case.get('idtype', 'bytes'))
    arg, it = _wrap([(i, t, _weight(w, case['wtype'])) for i, (t, w) in zip(ids, zip(trees, ws))], case['input'])
  elif kind == 'sum':
    arg, it = _wrap(trees, case['input'])
  csnap = _container_snapshot(arg, trees)
  with cm:
    if kind == 'mean':
      res = tree_util.tree_mean(pytrees_and_weights=arg) if kw else tree_util.tree_mean(arg)
    elif kind == 'agg':
      agg = _OBJ.setdefault('aggregator', fedjax.aggregators.mean_aggregator())   # ONE aggregator for the whole process
      state = _OBJ.get('agg_state')
      if state is None or case.get('reinit'):
        state = agg.init()
      res, new_state = agg.apply(clients_params_and_weights=arg, state=state) if kw else agg.apply(arg, state)
      if type(new_state) is not type(state) or type(agg.init()) is not type(state):
        raise AssertionError('aggregator state changed type')
      _OBJ['agg_state'] = new_state
      if case.get('fresh') and isinstance(arg, (list, tuple)):
        fresh = fedjax.aggregators.mean_aggregator()
        res2, _ = fresh.apply(arg, fresh.init())
        if res is not None and [np.asarray(a).tobytes() for a in _leaves(res)] != [np.asarray(a).tobytes() for a in _leaves(res2)]:
          extra.append('fresh-differs')
    elif kind == 'sum':
      if ctx == 'jit' and isinstance(arg, list):
        res = jax.jit(lambda ts: tree_util.tree_sum(ts))(arg)
      else:
        res = tree_util.tree_sum(pytrees=arg) if kw else tree_util.tree_sum(arg)
    elif kind == 'clip':
      c = _weight(case['c'], case['wtype'])
      if ctx == 'jit':
        res = jax.jit(tree_util.tree_clip_by_global_norm)(trees[0], c)
      else:
        res = tree_util.tree_clip_by_global_norm(pytree=trees[0], max_norm=c) if kw else tree_util.tree_clip_by_global_norm(trees[0], c)
    elif kind == 'weight':
      w = _weight(ws[0], case['wtype'])
      res = tree_util.tree_weight(pytree=trees[0], weight=w) if kw else tree_util.tree_weight(trees[0], w)
    elif kind == 'invweight':
      w = _weight(ws[0], case['wtype'])
      res = tree_util.tree_inverse_weight(pytree=trees[0], weight=w) if kw else tree_util.tree_inverse_weight(trees[0], w)
    elif kind == 'invweight_eq':
      # the donating variant owns its argument: hand it a private copy, as tree_mean does
      own = jax.tree_util.tree_map(jnp.array, trees[0])
      res = tree_util._tree_inverse_weight_eq(own, _weight(ws[0], case['wtype']))  # pylint: disable=protected-access
    elif kind == 'add':
      res = tree_util.tree_add(left=trees[0], right=trees[1]) if kw else tree_util.tree_add(trees[0], trees[1])
    elif kind == 'zeros_like':
      res = tree_util.tree_zeros_like(trees[0])
    elif kind == 'pipeline':
      clipped = [tree_util.tree_clip_by_global_norm(t, case['c']) for t in trees]
      arg, it = _wrap([(t, float(w)) for t, w in zip(clipped, case['weights'])], case['input'])
      res = tree_util.tree_clip_by_global_norm(tree_util.tree_mean(arg), case['c2'])
    elif kind in ('l2', 'size'):
      res = None
      re = lambda v: float(np.real(np.asarray(v)))
      extra_vals = [re(tree_util.tree_l2_squared(trees[0])), re(tree_util.tree_l2_norm(trees[0])),
                    int(tree_util.tree_size(trees[0]))]
    else:
      raise ValueError(kind)
    res = jax.block_until_ready(res)
  ref = trees[0] if trees else None
  same_struct = (res is not None and ref is not None and
                 jax.tree_util.tree_structure(res) == jax.tree_util.tree_structure(ref) and
                 [tuple(np.shape(l)) for l in _leaves(res)] == [tuple(np.shape(l)) for l in _leaves(ref)] and
                 # (with jit disabled numpy leaves are multiplied by NumPy itself, whose promotion rules differ: dtype not judged)
                 (all(np.asarray(l).dtype == want_dt for l in _leaves(res)) or (ctx == 'nojit' and case['leaf'] == 'np') or case.get('nodtype')))
  one_shot = None
  if it is not None:
    one_shot = {'taken': it.i, 'len': len(it._items), 'iter_calls': it.iter_calls, 'after_end': it.after_end}  # pylint: disable=protected-access
  problems = _inspect(trees, snaps, res) + extra
  if not _container_same(arg, trees, csnap):
    problems.append('container-modified')
  if _check_kept():
    problems.append('kept-result-changed')
  if kind in ('mean', 'agg', 'sum', 'clip'):
    _keep(kind, res)
  out = {'res': None if res is None else _flat(res), 'struct_ok': bool(same_struct), 'inputs': sorted(set(problems)),
         'one_shot': one_shot, 'raw': res}
  if kind in ('l2', 'size'):
    out['values'] = extra_vals
  return out


def run(case):
  case = case['case'] if 'kind' not in case and 'case' in case else case      # corpus entries wrap the case
  if case['kind'] == 'flagbatch':
    from lib import flagrun
    obs, err = flagrun.run_cases('c07', case['cases'], {case['flag']: case['value']})
    return {'error': None, 'sub': obs, 'sub_error': err}
  try:
    first = _call(case, list(range(len(case['trees']))))
    second = _call(case, case['perm']) if case['kind'] in ('mean', 'agg', 'sum') and len(case['trees']) > 1 else None
    again = _call(case, list(range(len(case['trees'])))) if case.get('twice') else None
  except (ZeroDivisionError, TypeError, ValueError, AttributeError, RuntimeError, FloatingPointError) as ex:
    return {'error': type(ex).__name__}
  enc = lambda xs: None if xs is None else [v if math.isfinite(v) else None for v in xs]
  return {'error': None, 'res': enc(first['res']), 'struct_ok': first['struct_ok'], 'inputs': first['inputs'],
          'one_shot': first['one_shot'], 'values': first.get('values'),
          'again_same': None if again is None else (again['res'] == first['res'] or (again['res'] is not None and first['res'] is not None and
                                                       all((a == b) or (a != a and b != b) for a, b in zip(again['res'], first['res'])))),
          'inputs_again': [] if again is None else again['inputs'],
          'res_perm': None if second is None else enc(second['res']),
          'inputs_perm': [] if second is None else second['inputs']}


# ---------------------------------------------------------------------------

def _close0(a, b, tol=TOL):
  if b is not None and not math.isfinite(b):
    return a is None
  if a is None or b is None:
    return a is None and b is None
  return abs(a - b) <= tol * (1 + abs(b))


def _scale(case):
  """Magnitude of the inputs: float32 rounding errors of sums are relative to it."""
  m = max([abs(_num(v)) for t in case['trees'] for v in t if math.isfinite(_num(v))] + [0.0])
  if case['kind'] == 'sum':
    m *= len(case['trees'])
  return m          # purely relative to the data: tiny trees are judged as strictly as large ones


def _tol(case):
  """Tolerance handed to Coq (exact rational): 0 for the exact streams."""
  if case['tol'] == 0:
    return Fraction(0)
  return Fraction(case['tol']) * Fraction(_scale(case))


def _asdt(case, v):
  """The value the leaf actually holds: v rounded to the leaf dtype (exact for all generated exact-stream values)."""
  d = case.get('dtype', 'float32')
  v = _num(v)
  if not math.isfinite(v):
    return v
  if d == 'complex64':
    return float(np.float32(v))
  if d == 'bool':
    return float(bool(v))
  if d.startswith('int') or d.startswith('uint'):
    return float(int(v))
  return float(np.asarray(v).astype(_np_dtype(d)).astype(np.float64))


def oracle(case, obs):
  case = case['case'] if 'kind' not in case and 'case' in case else case      # corpus entries wrap the case
  if case.get('narrow') == 'float-total':
    # float16 / bfloat16 weights whose total is not representable in that dtype: everything that goes wrong in these
    # cases is one finding (the running total is kept in the weights' own dtype)
    out = _oracle(case, obs)
    return [('narrow-float-weight-total', f'tree_mean with {case["wtype"]} weights {case["weights"]}: ' + '; '.join(k for k, _ in out))] if out else []
  if case['kind'] == 'flagbatch':
    if obs['sub'] is None:
      return [('flag-subprocess-failed', f'{case["flag"]}={case["value"]}: {obs["sub_error"]}')]
    out = []
    for c, o in zip(case['cases'], obs['sub']):
      out += [(f'{case["flag"]}:{k}', w) for k, w in _oracle(c, o)]
    return out[:5]
  return _oracle(case, obs)


def _oracle(case, obs):
  out = []
  kind = case['kind']
  if obs.get('error'):
    return [('raises-' + obs['error'], f'{kind} raised {obs["error"]} on an input of the property\'s domain')]
  res = obs['res']
  special = {'container-modified': ('container-modified', 'the caller\'s list / tuple / tree containers were changed by the call'),
             'kept-result-changed': ('kept-result-changed', 'a result returned by an earlier call was deleted or changed by this call'),
             'fresh-differs': ('fresh-differs', 'a reused aggregator object and a freshly built one disagree')}
  if kind in ('l2', 'size'):
    x = [_asdt(case, v) for v in case['trees'][0]]
    sq, nrm, sz = obs['values']
    want = sum(v * v for v in x)
    if abs(sq - want) > TOL * (1 + want) or abs(nrm - math.sqrt(want)) > TOL * (1 + math.sqrt(want)):
      out.append(('l2-value', f'tree_l2_squared / tree_l2_norm = {sq} / {nrm}, sum of squares is {want}'))
    if sz != len(x) // (2 if case.get('dtype') == 'complex64' else 1):
      out.append(('size-value', f'tree_size = {sz}'))
    return out + [special[p] for p in obs['inputs'] if p in special] + [('input-' + p, p) for p in obs['inputs'] if p not in special]
  if not case['trees']:
    if res is not None:
      out.append(('empty-cohort', f'{kind} of an empty iterable returned a tree'))
    return out
  if res is None:
    return [('returns-none', f'{kind} returned None for a non-empty input')]
  if kind == 'zeros_like':
    if any(v != 0 for v in res) or not obs['struct_ok']:
      out.append(('zeros-like', 'tree_zeros_like is not the zero tree of the same structure / shapes / dtype'))
    return out
  if not obs['struct_ok']:
    out.append(('structure', 'result does not have the structure / leaf shapes of the inputs (dtype: the inputs\' for sums; leaf-times-weight promotion for means / clipping)'))
  if obs.get('again_same') is False:
    out.append(('second-call-differs', f'{kind}: an identical second call returned a different result'))
  for p in sorted(set(obs['inputs'] + obs['inputs_perm'] + obs.get('inputs_again', []))):
    if p in special:
      out.append(special[p])
    else:
      out.append(('input-' + p, f'{kind}: a caller input array was {p} by the call'))
  os_ = obs['one_shot']
  if os_ is not None and (os_['taken'] != os_['len'] or os_['iter_calls'] != 1):
    out.append(('one-pass', f'one-shot iterator: {os_["taken"]} of {os_["len"]} elements taken, iter() called {os_["iter_calls"]} times'))
  trees = [np.array([_asdt(case, v) for v in t], dtype=np.float64) for t in case['trees']]
  sc = _scale(case)
  _close = lambda a, b, tol=TOL: _close0(a, b, tol * sc)
  if case.get('nonfinite') and kind in ('mean', 'agg', 'sum'):
    # a NaN / Inf in a real (positive-weight) client's coordinate must come out as non-finite in exactly that coordinate
    with np.errstate(all='ignore'):
      if kind == 'sum':
        want = sum(trees)
      else:
        ws = np.array(case['weights'], dtype=np.float64)
        want = sum(w * t for w, t in zip(ws, trees)) / ws.sum()
    if not all(_close(r, float(w)) for r, w in zip(res, want)):
      out.append(('nonfinite-propagation', f'{kind}: non-finite input coordinates are not propagated exactly (got {res}, expected {list(want)})'))
  elif kind == 'pipeline':
    def clip(x, c):
      n = math.sqrt(float(np.sum(x * x)))
      return x * (c / n) if n > c else x
    ws = np.array(case['weights'], dtype=np.float64)
    want = clip(sum(w * clip(t, case['c']) for w, t in zip(ws, trees)) / ws.sum(), case['c2'])
    if any(r is None for r in res) or not all(_close(r, float(w)) for r, w in zip(res, want)):
      out.append(('pipeline-value', 'clip(mean(clip(x_i))) differs from its definition'))
  elif kind in ('mean', 'agg'):
    ws = np.array(case['weights'], dtype=np.float64)
    tot = ws.sum()
    if any(v is None for v in res):
      out.append(('narrow-float-weight-total' if case.get('narrow') == 'float-total' else 'non-finite', 'weighted mean has a NaN / Inf coordinate'))
    elif tot == 0:
      if any(v != 0 for v in res):
        out.append(('zero-total', 'total weight 0 but the result is not all zeros'))
    else:
      want = sum(w * t for w, t in zip(ws, trees)) / tot
      if not all(_close(r, w) for r, w in zip(res, want)):
        key = 'narrow-float-weight-total' if case.get('narrow') == 'float-total' else 'mean-value'
        out.append((key, 'result is not sum(w_i p_i) / sum(w_i)'))
      lo, hi = np.min(trees, axis=0), np.max(trees, axis=0)
      used = [t for t, w in zip(trees, ws) if w > 0]
      lo2, hi2 = np.min(used, axis=0), np.max(used, axis=0)
      slack = lambda x: 2e-6 * sc
      if any(r < l - slack(l) or r > h + slack(h) for r, l, h in zip(res, lo, hi)):
        out.append(('hull', 'result leaves the coordinatewise [min, max] of the inputs'))
      if any(r < l - slack(l) or r > h + slack(h) for r, l, h in zip(res, lo2, hi2)):
        out.append(('zero-weight-leak', 'a zero-weight client influences the result'))
  elif kind == 'sum':
    want = sum(trees)
    if any(v is None for v in res) or not all(_close(r, w) for r, w in zip(res, want)):
      out.append(('sum-value', 'tree_sum is not the coordinatewise sum'))
  if obs.get('res_perm') is not None and not case.get('nonfinite'):
    if not all(_close(a, b, 4 * TOL) for a, b in zip(obs['res_perm'], res)):
      out.append(('order', 'a different client order gives a different result'))
  if kind == 'clip':
    x, c, n = trees[0], case['c'], case['norm']
    if c >= 0:
      if any(v is None for v in res):
        out.append(('clip-non-finite', 'clipped tree has a NaN / Inf coordinate for a non-negative bound'))
      else:
        rn = math.sqrt(sum(v * v for v in res))
        if rn > c * (1 + TOL):
          out.append(('clip-bound', f'clipped norm {rn} exceeds the bound {c}'))
        if n <= c and any(r != v for r, v in zip(res, x)):
          out.append(('clip-identity', 'norm <= bound but the tree was changed'))
        if n > c and not all(_close(r, v * c / n) for r, v in zip(res, x)):
          out.append(('clip-direction', 'clipped tree is not (bound / norm) * x'))
        if n > c and abs(rn - c) > 4 * TOL * c:
          out.append(('clip-norm-not-bound', f'norm {n} exceeds the bound {c} but the clipped norm is {rn}'))
  elif kind == 'weight':
    if not all(_close(r, v * case['weights'][0]) for r, v in zip(res, trees[0])):
      out.append(('weight-value', 'tree_weight is not leaf * weight'))
  elif kind in ('invweight', 'invweight_eq'):
    w = case['weights'][0]
    k = 1 / w if w > 0 else 0.0
    if not all(_close(r, v * k) for r, v in zip(res, trees[0])):
      out.append(('inverse-weight-value', 'tree_inverse_weight is not leaf / weight (0 for weight <= 0)'))
  elif kind == 'add':
    if not all(_close(r, a + b) for r, a, b in zip(res, trees[0], trees[1])):
      out.append(('add-value', 'tree_add is not the coordinatewise sum'))
  return out


# ---------------------------------------------------------------------------

def encode(case, obs):
  case = case['case'] if 'kind' not in case and 'case' in case else case      # corpus entries wrap the case
  if case['kind'] in ('l2', 'size', 'zeros_like', 'pipeline', 'flagbatch') or case.get('narrow') == 'float-total':
    return None
  _qtree = lambda t: '[' + '; '.join(fw.qlit(_asdt(case, v)) for v in t) + ']'
  if obs.get('error') or obs['res'] is None:
    res = 'None'
  else:
    res = '(Some [' + '; '.join('None' if v is None else f'Some {fw.qlit(v)}' for v in obs['res']) + '])'
  kind = case['kind']
  if case.get('nonfinite'):
    nq = lambda v: 'None' if not math.isfinite(_num(v)) else f'(Some {fw.qlit(_asdt(case, v))})'
    nqt = lambda t: '[' + '; '.join(nq(v) for v in t) + ']'
    if kind == 'sum':
      c = 'KSumNQ [' + '; '.join(nqt(t) for t in case['trees']) + ']'
    else:
      c = 'KMeanNQ [' + '; '.join(f'({nqt(t)}, Some {fw.qlit(w)})' for t, w in zip(case['trees'], case['weights'])) + ']'
    return f'(({c})%Q, mkO07 {fw.qlit(_tol(case))} {res}%Q)'
  ws = [fw.qlit(float(np.float32(w)) if case['wtype'] in ('np32', 'jnp', 'jnp0d', 'np0d', 'jnp_weak', 'np64') else Fraction(int(w)) if float(w).is_integer() else float(w))
        for w in case['weights']]
  if kind == 'mean':
    c = 'KMean [' + '; '.join(f'({_qtree(t)}, {w})' for t, w in zip(case['trees'], ws)) + ']'
  elif kind == 'agg':
    c = 'KAgg [' + '; '.join(f'({i}%Z, {_qtree(t)}, {w})' for i, (t, w) in enumerate(zip(case['trees'], ws))) + ']'
  elif kind == 'sum':
    c = 'KSum [' + '; '.join(_qtree(t) for t in case['trees']) + ']'
  elif kind == 'clip':
    c = f'KClip {_qtree(case["trees"][0])} {fw.qlit(case["c"])} {fw.qlit(case["norm"])}'
  elif kind == 'weight':
    c = f'KWeight {_qtree(case["trees"][0])} {ws[0]}'
  elif kind in ('invweight', 'invweight_eq'):
    c = f'KInvWeight {fw.cbool(kind == "invweight_eq")} {_qtree(case["trees"][0])} {ws[0]}'
  else:
    c = f'KAdd {_qtree(case["trees"][0])} {_qtree(case["trees"][1])}'
  return f'(({c})%Q, mkO07 {fw.qlit(_tol(case))} {res}%Q)'


def nontrivial(case, obs):
  case = case['case'] if 'kind' not in case and 'case' in case else case      # corpus entries wrap the case
  if case['kind'] == 'flagbatch':
    return False
  if case['kind'] == 'pipeline':
    return True
  if case['kind'] in ('mean', 'agg'):
    return len({w for w in case['weights'] if w > 0}) >= 2
  if case['kind'] == 'clip':
    return case['norm'] > case['c'] >= 0
  return len(case['trees']) >= 2


def describe(case, obs):
  case = case['case'] if 'kind' not in case and 'case' in case else case      # corpus entries wrap the case
  if case['kind'] == 'flagbatch':
    return {'kind': 'flagbatch', 'flag': case['flag'], 'sub_cases': len(case['cases'])}
  d = {'kind': case['kind'], 'clients': len(case['trees']), 'input': case['input'], 'exact': case['tol'] == 0,
       'narrow_weights': case.get('narrow', 'no'),
       'layout': case.get('layout', 'C') if case['leaf'] == 'np' else 'jax', 'pattern': case.get('pattern', 'none'),
       'second_call': bool(case.get('twice')),
       'sweep': case.get('sweep', 'none'), 'nonfinite_input': bool(case.get('nonfinite')),
       # hypotheses of the value theorems: finite leaves, weights >= 0 (clip: bound >= 0; n*n = sumsq is checked in Coq)
       'hyp_finite_inputs': not case.get('nonfinite'), 'hyp_weights_nonneg': all(w >= 0 for w in case['weights']),
       'dtype': case.get('dtype', 'float32'), 'ctx': case.get('ctx', 'eager'), 'kw': bool(case.get('kw')),
       'leaves': min(len(leaf_shapes(case['struct'])), 6)}
  if case['kind'] in ('mean', 'agg'):
    ws = case['weights']
    d['weights'] = 'all-zero' if not any(ws) else 'some-zero' if 0 in ws else 'positive'
    d['weight_scale'] = 'tiny' if 0 < sum(ws) < 1e-4 else 'normal'
    d['wtype'] = case['wtype']
    d['first_weight_one'] = bool(ws) and ws[0] == 1
    d['total'] = 'zero' if not sum(ws) else 'below-1' if sum(ws) < 1 else 'ge-1'
    if case['kind'] == 'agg':
      d['idtype'] = case.get('idtype', 'bytes')
  if case['kind'] == 'clip':
    d['clip'] = 'zero-tree' if case['norm'] == 0 else 'below' if case['norm'] < case['c'] else 'equal' if case['norm'] == case['c'] else 'above'
  return d


def shrink(case):
  case = case['case'] if 'kind' not in case and 'case' in case else case      # corpus entries wrap the case
  if case['kind'] == 'flagbatch':
    return
  n = len(case['trees'])
  if case['kind'] in ('mean', 'agg', 'sum') and n > 1:
    for i in range(n):
      keep = [j for j in range(n) if j != i]
      yield {**case, 'trees': [case['trees'][j] for j in keep],
             'weights': [case['weights'][j] for j in keep] if case['weights'] else [],
             'perm': list(reversed(range(n - 1)))}
  if case['struct'] != ['a', [size(case['struct'])]]:
    yield {**case, 'struct': ['a', [size(case['struct'])]]}
  if case['input'] != 'list':
    yield {**case, 'input': 'list'}
  if case['wtype'] != 'float':
    yield {**case, 'wtype': 'float'}
