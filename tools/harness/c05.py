"""C05 harness: fedjax.evaluate_model / ModelEvaluator / metrics.evaluate_batch on random
partitions, orders, padded sizes and garbage-filled masked rows, for every built-in
metric class of fedjax/core/metrics.py, against the fold-of-merge model built from the
translated Stat algebra (coq/gen/Gen_metrics.v, Gen_util.v); plus the Stat algebra
(MeanStat / SumStat / safe_div) called directly, in and outside its domain."""
import inspect
import json
import math
import random
from fractions import Fraction

import numpy as np
from lib import fw

PROP = 'C05'
COQ_HEADER = 'From FV Require Import Common.NanQ Model.C05_Model.'
# (the model instantiates the functions translated into gen/Gen_metrics.v and gen/Gen_models.v)
COQ_AGREE = 'C05_agree'
COQ_MODEL_TARGETS = ['Model/C05_Model']
RULE = ('every Metric subclass of fedjax.core.metrics with a grid of constructor arguments (per-position, per-domain, '
        'confusion-matrix variants included); per-example statistics from the implementation\'s own evaluate_example over a '
        'pool of examples; random partitions into batches of 1 / 2 / 4 rows, random batch orders, masked rows at random '
        'positions filled with in-domain targets and arbitrary finite / NaN / Inf predictions, fully masked and empty inputs, '
        'ClientDataset.padded_batch / batch as batch sources, evaluate_model / ModelEvaluator (global and per-client params) / '
        'metrics.evaluate_batch (mask and None); one ModelEvaluator object used for successive calls with several clients (one without '
        'real rows) under the debug (jit disabled) and jit for_each_client backends; Stat algebra called directly on in- and out-of-domain scalars; monoid laws '
        '(associativity, commutativity, zero identity on both sides, left / right / tree folds, merge adds fields) on the '
        'implementation\'s own single-example statistics straight from evaluate_example, for every metric configuration, '
        'through result() and the raw fields; '
        'integer-valued statistics compared to 2^-22 relative (one float32 rounding of accum/weight), cross-entropy-valued '
        'ones to 1e-5(1+|x|), inside Coq; non-trivial = at least two real rows spread over at least two batches or at least '
        'one masked row; distinct = distinct case JSON')
TRUSTED = ['tools/lib/pat.py structural anchors: the recognised statement sequences of apply_mask / evaluate_batch / '
           '_evaluate_model_step / evaluate_model / ModelEvaluator client functions and their Gallina reading '
           '(rows = leading dimension, tree_map over Stat fields = per row, dict of metrics = per metric)',
           'tools/lib/qfun.py reading of jnp scalar code (+ - * /, comparisons, where, maximum, sum) over NanQ (Common/NanQ.v)',
           'jax.vmap = map over rows; jnp.where / apply_mask forward semantics (lazy selection)',
           'row-major flattening of higher-rank Stat fields = order of the entry lists handed to Coq']
ASSUMPTIONS = ['statistics of real (unmasked) examples are finite and in the Stat\'s documented domain '
               '({(0,0)} u {(a,b): b>0} for MeanStat); masked rows are arbitrary',
               'per-example statistics are taken from the implementation\'s evaluate_example (their correctness is C14)']
PARTIAL = []
CASE_TIMEOUT = 240

C, V, L, ND = 3, 4, 3, 3
N_REAL, N_GARB = 20, 8
ZERO = N_REAL + N_GARB            # pool index of the all-zero row (what padded_batch pads with)
NINF = float('-inf')
TOL_INT = Fraction(1, 1 << 22)
TOL_CE = Fraction(1, 100000)


# ---------------------------------------------------------------------------
# metric grid

def metric_grid():
  from fedjax.core import metrics as M
  g = {
      'ce': (M.CrossEntropyLoss('y', 'pred'), 'ce'),
      'acc': (M.Accuracy('y', 'pred'), 'int'),
      'top1': (M.TopKAccuracy(1, 'y', 'pred'), 'int'),
      'top2': (M.TopKAccuracy(2, 'y', 'pred'), 'int'),
      'top3': (M.TopKAccuracy(3, 'y', 'pred'), 'int'),
      'top9': (M.TopKAccuracy(9, 'y', 'pred'), 'int'),
      'top0': (M.TopKAccuracy(0, 'y', 'pred'), 'int'),
      'stce_a': (M.SequenceTokenCrossEntropyLoss('ys', 'preds', (0,), False), 'ce'),
      'stce_b': (M.SequenceTokenCrossEntropyLoss('ys', 'preds', (0, 2), True), 'ce'),
      'stce_c': (M.SequenceTokenCrossEntropyLoss('ys', 'preds', (), False), 'ce'),
      'sce_a': (M.SequenceCrossEntropyLoss('ys', 'preds', (0,)), 'ce'),
      'sce_b': (M.SequenceCrossEntropyLoss('ys', 'preds', (1, 3)), 'ce'),
      'sta_a': (M.SequenceTokenAccuracy('ys', 'preds', (0,), None, False), 'int'),
      'sta_b': (M.SequenceTokenAccuracy('ys', 'preds', (0,), (0., 0., 0., NINF), False), 'int'),
      'sta_c': (M.SequenceTokenAccuracy('ys', 'preds', (0, 1), None, True), 'int'),
      'sttk_a': (M.SequenceTokenTopKAccuracy(2, 'ys', 'preds', (0,), None, False), 'int'),
      'sttk_b': (M.SequenceTokenTopKAccuracy(1, 'ys', 'preds', (0,), (0., 0., 0., NINF), True), 'int'),
      'sttk_c': (M.SequenceTokenTopKAccuracy(4, 'ys', 'preds', (0, 1), None, False), 'int'),
      'stc_a': (M.SequenceTokenCount('ys', (0,)), 'int'),
      'stc_b': (M.SequenceTokenCount('ys', (0, 2)), 'int'),
      'stc_c': (M.SequenceTokenCount('ys', ()), 'int'),
      'sc_a': (M.SequenceCount('ys', (0,)), 'int'),
      'sc_b': (M.SequenceCount('ys', (0, 1, 2)), 'int'),
      'str_a': (M.SequenceTruncationRate(3, 'ys', (0,)), 'int'),
      'str_b': (M.SequenceTruncationRate(1, 'ys', (0, 2)), 'int'),
      'oov_a': (M.SequenceTokenOOVRate((2,), 'ys', (0,), False), 'int'),
      'oov_b': (M.SequenceTokenOOVRate((3,), 'ys', (0,), True), 'int'),
      'oov_c': (M.SequenceTokenOOVRate((1, 2), 'ys', (0,), False), 'int'),
      'oov_e': (M.SequenceTokenOOVRate((), 'ys', (0,), False), 'int'),
      'str_0': (M.SequenceTruncationRate(0, 'ys', ()), 'int'),
      'len_a': (M.SequenceLength('ys', (0,)), 'int'),
      'len_b': (M.SequenceLength('ys', (0, 3)), 'int'),
      'cm': (M.ConfusionMatrix(C, 'y', 'pred'), 'int'),
  }
  g['pd_acc'] = (M.PerDomainMetric(g['acc'][0], ND), 'int')
  g['pd_ce'] = (M.PerDomainMetric(g['ce'][0], ND, 'dom'), 'ce')
  g['pd_sta_pp'] = (M.PerDomainMetric(g['sta_c'][0], ND), 'int')
  g['pd_stce_pp'] = (M.PerDomainMetric(g['stce_b'][0], ND), 'ce')
  g['pd_stc'] = (M.PerDomainMetric(g['stc_a'][0], ND), 'int')
  g['pd_cm'] = (M.PerDomainMetric(g['cm'][0], ND), 'int')
  # the wrapper over NON-SCALAR bases with num_domains != the base's sizes, num_domains == 1, and nested wrappers
  g['pd_cm4'] = (M.PerDomainMetric(g['cm'][0], 4), 'int')
  g['pd1_cm'] = (M.PerDomainMetric(g['cm'][0], 1, 'dom1'), 'int')
  g['pd1_acc'] = (M.PerDomainMetric(g['acc'][0], 1, 'dom1'), 'int')
  g['pd_nest_eq'] = (M.PerDomainMetric(M.PerDomainMetric(g['acc'][0], ND), ND, 'domb'), 'int')
  g['pd_nest_ne'] = (M.PerDomainMetric(M.PerDomainMetric(g['acc'][0], ND), 2, 'dom2'), 'int')
  g['pd_nest_ce'] = (M.PerDomainMetric(M.PerDomainMetric(g['ce'][0], ND), 2, 'dom2'), 'ce')
  return g


def pdpp_grid():
  """PerDomainMetric over a PER-POSITION base with num_domains != sequence length (own Model: see known finding)."""
  from fedjax.core import metrics as M
  return {'pd_sta_pp4': (M.PerDomainMetric(M.SequenceTokenAccuracy('ys', 'preds', (0, 1), None, True), 4), 'int')}


def pdw_grid():
  """More domains than the id dtype can count (uint8 ids, 300 domains; int8 ids, 200 domains): own small Model."""
  from fedjax.core import metrics as M
  return {'pdw_u8': (M.PerDomainMetric(M.Accuracy('y', 'pred'), 300, 'domw'), 'int'),
          'pdw_i8': (M.PerDomainMetric(M.Accuracy('y', 'pred'), 200, 'domw8'), 'int')}


# the per-domain DEFINITION: entry (d_outer, .., d_inner, k) of the wrapper = entry k of the base metric over the real
# examples whose domain features equal (d_outer, .., d_inner).  name -> (base metric name, [(feature, num_domains)] outer first)
PD_SPEC = {'pd_acc': ('acc', [('domain_id', ND)]), 'pd_ce': ('ce', [('dom', ND)]), 'pd_sta_pp': ('sta_c', [('domain_id', ND)]),
           'pd_stce_pp': ('stce_b', [('domain_id', ND)]), 'pd_stc': ('stc_a', [('domain_id', ND)]),
           'pd_cm': ('cm', [('domain_id', ND)]), 'pd_cm4': ('cm', [('domain_id', 4)]), 'pd1_cm': ('cm', [('dom1', 1)]),
           'pd1_acc': ('acc', [('dom1', 1)]), 'pd_nest_eq': ('acc', [('domb', ND), ('domain_id', ND)]),
           'pd_nest_ne': ('acc', [('dom2', 2), ('domain_id', ND)]), 'pd_nest_ce': ('ce', [('dom2', 2), ('domain_id', ND)]),
           'pd_sta_pp4': ('sta_c', [('domain_id', 4)]), 'pdw_u8': ('acc', [('domw', 300)]), 'pdw_i8': ('acc', [('domw8', 200)]), 'p_pd_acc': ('p_acc', [('domain_id', ND)])}


def plain_grid():
  """Default target / prediction keys: the model's prediction is the logits array itself."""
  from fedjax.core import metrics as M
  return {'p_acc': (M.Accuracy(), 'int'), 'p_ce': (M.CrossEntropyLoss(), 'ce'), 'p_top2': (M.TopKAccuracy(2), 'int'),
          'p_cm': (M.ConfusionMatrix(C), 'int'), 'p_pd_acc': (M.PerDomainMetric(M.Accuracy(), ND), 'int')}


METRIC_NAMES = ['ce', 'acc', 'top1', 'top2', 'top3', 'top9', 'top0', 'stce_a', 'stce_b', 'stce_c', 'sce_a', 'sce_b', 'sta_a', 'sta_b',
                'sta_c', 'sttk_a', 'sttk_b', 'sttk_c', 'stc_a', 'stc_b', 'stc_c', 'sc_a', 'sc_b', 'str_a', 'str_b', 'oov_a',
                'oov_b', 'oov_c', 'oov_e', 'str_0', 'len_a', 'len_b', 'cm', 'pd_acc', 'pd_ce', 'pd_sta_pp', 'pd_stce_pp', 'pd_stc', 'pd_cm',
                'pd_cm4', 'pd1_cm', 'pd1_acc', 'pd_nest_eq', 'pd_nest_ne', 'pd_nest_ce']
PLAIN_NAMES = ['p_acc', 'p_ce', 'p_top2', 'p_cm', 'p_pd_acc']
LOWP_NAMES = ['acc', 'top1', 'top2', 'top0', 'sta_a', 'sta_b', 'sta_c', 'sttk_a', 'sttk_b', 'stc_a', 'sc_a', 'str_a', 'oov_a',
              'oov_b', 'len_a', 'cm', 'pd_acc', 'pd_sta_pp', 'pd_stc', 'pd_cm']
# a second Model built from the SAME apply function and the SAME eval_metrics keys as 'plain' but other hyper-parameters
PLAIN2_NAMES = ['q_acc', 'q_ce', 'q_top2', 'q_cm', 'q_pd_acc']
# twin Models of 'plain' differing in exactly ONE field: one metric object under an unchanged name (constructor),
# apply_for_eval (replace), train_loss (replace); 'plain2' differs in several metric objects (replace)
PLAIN3_NAMES = ['r_acc', 'r_ce', 'r_top2', 'r_cm', 'r_pd_acc']
PLAINNEG_NAMES = ['n_acc', 'n_ce', 'n_top2', 'n_cm', 'n_pd_acc']
PLAINLOSS_NAMES = ['l_acc', 'l_ce', 'l_top2', 'l_cm', 'l_pd_acc']
TWINS = ['plain', 'plain2', 'plain3', 'plainneg', 'plainloss']
NAMES = {'dict': None, 'plain': PLAIN_NAMES, 'plain2': PLAIN2_NAMES, 'plain3': PLAIN3_NAMES, 'plainneg': PLAINNEG_NAMES,
         'plainloss': PLAINLOSS_NAMES, 'pdpp': ['pd_sta_pp4'], 'pdw': ['pdw_u8', 'pdw_i8']}


def _mkey(which, name):
  """Key of the metric in the Model's eval_metrics: the twins all use the names of 'plain'."""
  return 'p_' + name[2:] if which in ('plain2', 'plain3', 'plainneg', 'plainloss') else name

_STATE = {}
CFG_KEYS = ('pool_seed', 'api', 'batches', 'model', 'form', 'cform', 'idtype', 'maskdt', 'arr', 'kw', 'ctx', 'pool', 'again', 'forder', 'nf', 'layout', 'bkind', 'pkind')


def plain2_grid():
  from fedjax.core import metrics as M
  return {'q_acc': (M.Accuracy(), 'int'), 'q_ce': (M.CrossEntropyLoss(), 'ce'), 'q_top2': (M.TopKAccuracy(1), 'int'),
          'q_cm': (M.ConfusionMatrix(C), 'int'), 'q_pd_acc': (M.PerDomainMetric(M.TopKAccuracy(2), ND), 'int')}


def _setup():
  """Models, metric grids, coverage of every Metric subclass: once per process."""
  if 'model' in _STATE:
    return _STATE
  import fedjax
  from fedjax.core import metrics as M
  grid, plain, plain2, pdpp, pdw = metric_grid(), plain_grid(), plain2_grid(), pdpp_grid(), pdw_grid()
  assert list(grid) == METRIC_NAMES and list(plain) == PLAIN_NAMES and list(plain2) == PLAIN2_NAMES
  NAMES['dict'] = METRIC_NAMES

  def classes(m):
    out = {type(m).__name__}
    if hasattr(m, 'base'):
      out |= classes(m.base)
    return out
  covered = set()
  for m, _ in list(grid.values()) + list(plain.values()) + list(pdpp.values()) + list(pdw.values()):
    covered |= classes(m)
  all_metrics = {n for n, c in inspect.getmembers(M, inspect.isclass)
                 if issubclass(c, M.Metric) and c is not M.Metric and c.__module__ == M.__name__}
  _STATE['uncovered'] = sorted(all_metrics - covered)

  def apply_dict(params, batch):
    del params
    return {'pred': batch['pred'], 'preds': batch['preds']}

  def apply_plain(params, batch):
    del params
    return batch['pred']
  def apply_neg(params, batch):
    del params
    return -batch['pred']

  plain3 = {'r' + k[1:]: v for k, v in plain.items()}
  plain3['r_top2'] = (M.TopKAccuracy(3), 'int')                      # exactly one metric object differs
  plainneg = {'n' + k[1:]: v for k, v in plain.items()}             # same metric objects, other apply_for_eval
  plainloss = {'l' + k[1:]: v for k, v in plain.items()}            # same metric objects, other train_loss
  _STATE['grid'] = {'dict': grid, 'plain': plain, 'plain2': plain2, 'plain3': plain3, 'plainneg': plainneg,
                    'plainloss': plainloss, 'pdpp': pdpp, 'pdw': pdw}
  _STATE['apply'] = {'dict': apply_dict, 'plain': apply_plain, 'plain2': apply_plain, 'plain3': apply_plain,
                     'plainneg': apply_neg, 'plainloss': apply_plain, 'pdpp': apply_dict, 'pdw': apply_dict}
  _STATE['model'] = {
      'dict': fedjax.Model(init=None, apply_for_train=None, apply_for_eval=apply_dict, train_loss=None,
                           eval_metrics={k: m for k, (m, _) in grid.items()}),
      'plain': fedjax.Model(init=None, apply_for_train=None, apply_for_eval=apply_plain, train_loss=None,
                            eval_metrics={k: m for k, (m, _) in plain.items()}),
      'plain3': fedjax.Model(init=None, apply_for_train=None, apply_for_eval=apply_plain, train_loss=None,
                             eval_metrics={_mkey('plain3', k): m for k, (m, _) in plain3.items()}),
      'pdpp': fedjax.Model(init=None, apply_for_train=None, apply_for_eval=apply_dict, train_loss=None,
                           eval_metrics={k: m for k, (m, _) in pdpp.items()}),
      'pdw': fedjax.Model(init=None, apply_for_train=None, apply_for_eval=apply_dict, train_loss=None,
                          eval_metrics={k: m for k, (m, _) in pdw.items()}),
  }
  base = _STATE['model']['plain']
  _STATE['model']['plain2'] = base.replace(eval_metrics={_mkey('plain2', k): m for k, (m, _) in plain2.items()})
  _STATE['model']['plainneg'] = base.replace(apply_for_eval=apply_neg)
  _STATE['model']['plainloss'] = base.replace(train_loss=lambda batch, out: out)
  _STATE['kept'] = None
  _STATE['evaluator'] = {}
  _STATE['pools'] = {}
  _STATE['memo'] = {}
  return _STATE


# ---------------------------------------------------------------------------
# pool of examples

def make_pool(seed, variant='std'):
  """variant 'lowp': the same examples with uint8 / int8 targets, float16 / bfloat16 predictions, int64 domain ids."""
  if variant == 'lowp':
    import jax.numpy as jnp
    p = make_pool(seed)
    return {'y': p['y'].astype(np.uint8), 'pred': p['pred'].astype(np.float16), 'ys': p['ys'].astype(np.int8),
            'preds': np.asarray(jnp.asarray(p['preds'], dtype=jnp.bfloat16)), 'domain_id': p['domain_id'].astype(np.int64),
            'dom': p['dom'].astype(np.int64), 'dom1': p['dom1'].astype(np.int64), 'domb': p['domb'].astype(np.int64),
            'dom2': p['dom2'].astype(np.int64), 'domw': p['domw'], 'domw8': p['domw8'], 'idx': p['idx']}
  rng = random.Random(seed * 7919 + 13)
  n = N_REAL + N_GARB + 1
  y = np.zeros(n, np.int32)
  pred = np.zeros((n, C), np.float32)
  ys = np.zeros((n, L), np.int32)
  preds = np.zeros((n, L, V), np.float32)
  dom = np.zeros(n, np.int32)
  special = [float('nan'), float('inf'), NINF, 1e30, -1e30, 3.0e38]
  for i in range(N_REAL + N_GARB):
    y[i] = rng.randrange(C)
    dom[i] = rng.randrange(ND)
    ys[i] = [rng.choice([0, 0, 1, 2, 3]) for _ in range(L)]
    if i % 7 == 3:
      ys[i] = 0                               # a sequence that is entirely padding
    garbage = i >= N_REAL
    for c in range(C):
      pred[i, c] = rng.choice(special) if garbage and rng.random() < 0.6 else rng.randrange(-12, 13) / 4
    for l in range(L):
      for v in range(V):
        preds[i, l, v] = rng.choice(special) if garbage and rng.random() < 0.5 else rng.randrange(-12, 13) / 4
  # magnitude: two real rows with logits scaled by 2^100 / 2^-100 (cross-entropy ~1e30 resp. ~log(C))
  pred[N_REAL - 1] *= np.float32(2.0 ** 100)
  preds[N_REAL - 1] *= np.float32(2.0 ** 100)
  pred[N_REAL - 2] *= np.float32(2.0 ** -100)
  preds[N_REAL - 2] *= np.float32(2.0 ** -100)
  # offset logits (softmax is shift invariant): +1e4 / -1e4 added to every logit of two real rows
  pred[N_REAL - 3] += np.float32(1e4)
  preds[N_REAL - 3] += np.float32(1e4)
  pred[N_REAL - 4] -= np.float32(1e4)
  preds[N_REAL - 4] -= np.float32(1e4)
  domb = np.array([rng.randrange(ND) for _ in range(n)], np.int32)
  dom2 = np.array([rng.randrange(2) for _ in range(n)], np.int32)
  domb[ZERO] = dom2[ZERO] = 0
  return {'y': y, 'pred': pred, 'ys': ys, 'preds': preds, 'domain_id': dom, 'dom': dom.copy(),
          'dom1': np.zeros(n, np.int32), 'domb': domb, 'dom2': dom2,
          'domw': np.array([rng.choice([0, 1, 43, 44, 200, 255]) for _ in range(n)], np.uint8) * (np.arange(n) != ZERO).astype(np.uint8),
          'domw8': np.array([rng.choice([0, 1, 71, 72, 127]) for _ in range(n)], np.int8) * (np.arange(n) != ZERO).astype(np.int8),
          'idx': np.arange(1, n + 1, dtype=np.int32) * (np.arange(n) != ZERO)}


def pool_stats(seed, variant='std'):
  """Per-example statistics of every pool row for every metric, from the implementation's
  own evaluate_example (vmapped): name -> (stat kind, entry shape, rows) with rows[i] the
  flattened entries of row i: [(accum, weight)...] for MeanStat, [accum...] for SumStat."""
  import jax
  from fedjax.core import metrics as M
  st = _setup()
  if (seed, variant) in st['pools']:
    return st['pools'][(seed, variant)]
  pool = make_pool(seed, variant)
  out = {'pool': pool}
  for which in ('dict', 'plain', 'plain2', 'plain3', 'plainneg', 'plainloss', 'pdpp', 'pdw'):
    pred = st['apply'][which](None, pool)
    for name, (metric, _) in st['grid'][which].items():
      try:
        s = jax.vmap(metric.evaluate_example)(pool, pred)
      except Exception as ex:  # pylint: disable=broad-except   (only under non-default global flags)
        out[name] = ('error', (), type(ex).__name__ + ': ' + str(ex)[:150])
        continue
      n = len(pool['y'])
      if isinstance(s, M.MeanStat):
        a = np.asarray(s.accum, np.float64).reshape(n, -1)
        w = np.asarray(s.weight, np.float64).reshape(n, -1)
        out[name] = ('mean', tuple(np.shape(s.accum)[1:]), [list(zip(a[i].tolist(), w[i].tolist())) for i in range(n)])
      elif isinstance(s, M.SumStat):
        a = np.asarray(s.accum, np.float64).reshape(n, -1)
        out[name] = ('sum', tuple(np.shape(s.accum)[1:]), [a[i].tolist() for i in range(n)])
      else:
        raise TypeError(type(s))
  if len(st['pools']) > 3:
    st['pools'].clear()
  st['pools'][(seed, variant)] = out
  return out


# ---------------------------------------------------------------------------
# generation

def _garbage(rng):
  return rng.randrange(N_REAL, N_REAL + N_GARB)


def gen_batches(rng, n_real, sizes=(4, 2, 1), masked=True, fully_masked=0.12, nf=0.0):
  """A random partition of n_real pool rows (random order, repetitions allowed) into batches of the
  given sizes; with `masked`, batches carry a mask and masked rows (garbage or zero rows) at random
  positions, and some batches are entirely masked."""
  # nf: probability that a REAL row is one of the rows with NaN / Inf predictions
  real = [_garbage(rng) if rng.random() < nf else rng.randrange(N_REAL) for _ in range(n_real)]
  batches = []
  while real:
    if masked:
      size = rng.choice(sizes)
      k = min(len(real), rng.randrange(1, size + 1))
    else:
      fit = [s for s in sizes if s <= len(real)]
      if not fit:
        break
      size = k = rng.choice(fit)
    take, real = real[:k], real[k:]
    rows = take + [rng.choice([_garbage(rng), _garbage(rng), ZERO]) for _ in range(size - k)]
    mask = [True] * k + [False] * (size - k)
    perm = list(range(size))
    rng.shuffle(perm)
    batches.append({'rows': [rows[i] for i in perm], 'mask': [mask[i] for i in perm] if masked else None})
  if masked:
    for _ in range(3):
      if rng.random() < fully_masked:
        size = rng.choice(sizes)
        batches.append({'rows': [_garbage(rng) for _ in range(size)], 'mask': [False] * size})
  rng.shuffle(batches)
  return batches


def configs(tier, rng):
  n = {'quick': 16, 'thorough': 450, 'search': 600}.get(tier, 16)
  seeds = [rng.randrange(1, 10 ** 6) for _ in range(2 if tier == 'quick' else 10)]
  out = []
  fixed = [
      ('evaluate_model', []),                                                       # empty
      ('evaluate_model', [{'rows': [_garbage(rng) for _ in range(4)], 'mask': [False] * 4}]),   # fully masked
      ('evaluator_global', []),
      ('evaluator_global', [{'rows': [_garbage(rng), _garbage(rng)], 'mask': [False, False]}] * 2),
      ('evaluate_batch', [{'rows': [_garbage(rng) for _ in range(4)], 'mask': [False] * 4}]),
      ('evaluate_model', [{'rows': [0], 'mask': [True]}]),
  ]
  for api, b in fixed:
    out.append({'pool_seed': seeds[0], 'api': api, 'batches': b, 'model': 'dict'})
  for i in range(n):
    api = rng.choice(['evaluate_model', 'evaluate_model', 'evaluator_global', 'evaluator_per_client', 'evaluate_batch',
                      'evaluate_batch_nomask', 'padded_batch', 'padded_batch', 'plain_batch'])
    seed = rng.choice(seeds)
    model = 'plain' if i % 6 == 5 else 'dict'
    if api == 'padded_batch':
      order = [rng.randrange(N_REAL) for _ in range(rng.randrange(0, 14))]
      b = {'padded_batch': {'order': order, 'batch_size': 4, 'buckets': rng.randrange(1, 4)}}
      api = rng.choice(['evaluate_model', 'evaluator_global'])
    elif api == 'plain_batch':
      m = rng.choice([0, 1, 2, 4, 5, 6, 8, 9, 10])
      b = {'batch': {'order': [rng.randrange(N_REAL) for _ in range(m)], 'batch_size': 4}}
      api = 'evaluate_model'
    elif api == 'evaluate_batch':
      b = gen_batches(rng, rng.randrange(0, 5), sizes=(4,))[:1] or [{'rows': [_garbage(rng)] * 4, 'mask': [False] * 4}]
    elif api == 'evaluate_batch_nomask':
      b = gen_batches(rng, 4, sizes=(4,), masked=False)[:1]
    else:
      masked = rng.random() < 0.8
      b = gen_batches(rng, rng.randrange(0, 13), masked=masked)
    cfg = {'pool_seed': seed, 'api': api, 'batches': b, 'model': model,
           'form': rng.choice(['list', 'tuple', 'iter', 'gen', 'map', 'partial'] + (['view', 'view'] if not isinstance(b, list) else [])),
           'cform': rng.choice(['list', 'tuple', 'gen']), 'idtype': rng.choice(['bytes', 'str', 'int', 'sentinel']),
           'forder': rng.randrange(0, 9), 'layout': rng.choice(LAYOUTS), 'bkind': rng.choice(['dict'] * 5 + ['ordered']),
           'pkind': rng.choice(['dict'] * 8 + ['tuple', 'namedtuple', 'none', 'ordered']),
           'maskdt': rng.choice(['bool'] * 9 + ['int32', 'float32', 'uint8']), 'arr': rng.choice(['np', 'np', 'jax']),
           'kw': rng.random() < 0.25}
    if i % 6 == 2:
      cfg['model'] = 'plain2'
    if cfg['model'] == 'dict':
      cfg['bkind'] = 'dict'                       # (an OrderedDict batch re-traces per insertion order)
    if cfg['model'] == 'dict' and (tier == 'quick' or i % 40):
      cfg['pkind'] = 'dict'        # every new params / batch container kind re-traces ~45 metric configurations
    elif tier == 'quick':
      cfg['pkind'] = ['tuple', 'namedtuple', 'none', 'ordered'][i % 4]
      cfg['bkind'] = 'ordered' if i % 2 else 'dict'
    if cfg['model'] != 'dict' and i % 2 == 0:
      cfg['ctx'] = 'nojit'                         # jax.disable_jit() around the whole call (small models only: eager is slow)
    out.append(cfg)
  # twin Models (same functions and metric NAMES, one field different) evaluated one after the other on the SAME
  # batches through the jitted entry points that take the Model as a static argument
  for i in range({'quick': 2, 'thorough': 10, 'search': 10}.get(tier, 2)):
    b = gen_batches(rng, rng.randrange(3, 9), sizes=(4, 2))
    api = ['evaluate_model', 'evaluator_global', 'evaluator_per_client'][i % 3]
    order = TWINS + ['plain'] if i % 2 == 0 else ['plain2', 'plain', 'plainneg', 'plain3', 'plainloss', 'plain2']
    for j, which in enumerate(order):
      out.append({'pool_seed': seeds[0], 'api': api, 'batches': b, 'model': which, 'form': 'list', 'again': 100 * i + j})
  # non-finite statistics on REAL rows: padded / unpadded / differently batched evaluations must agree on them
  for i in range({'quick': 3, 'thorough': 40, 'search': 40}.get(tier, 3)):
    out.append({'pool_seed': seeds[0], 'api': ['evaluate_model', 'evaluator_global', 'evaluate_batch'][i % 3],
                'batches': gen_batches(rng, rng.randrange(2, 9), sizes=(4, 2), nf=0.3)[:(1 if i % 3 == 2 else None)],
                'model': 'dict', 'form': 'list', 'maskdt': 'bool', 'arr': 'np', 'forder': i, 'nf': True})
  # PerDomainMetric over a per-position base with num_domains != sequence length (own Model)
  for i in range({'quick': 2, 'thorough': 6, 'search': 6}.get(tier, 2)):
    out.append({'pool_seed': seeds[0], 'api': ['evaluate_model', 'evaluate_batch', 'evaluator_global'][i % 3],
                'batches': gen_batches(rng, rng.randrange(1, 5), sizes=(2,), fully_masked=0.0)[:(1 if i % 3 == 1 else None)],
                'model': 'pdpp', 'form': 'list'})
  # PerDomainMetric with more domains than the (uint8 / int8) domain-id dtype can count
  for i in range({'quick': 4, 'thorough': 12, 'search': 12}.get(tier, 4)):
    api = ['evaluate_batch', 'evaluate_model', 'evaluate_batch_nomask', 'evaluator_global'][i % 4]
    b = gen_batches(rng, 4, sizes=(4,), masked=False) if api.startswith('evaluate_batch') else \
        gen_batches(rng, rng.randrange(6, 11), sizes=(2,), fully_masked=0.0)
    if api == 'evaluate_batch':
      b = [{'rows': b[0]['rows'], 'mask': [True, True, False, True]}]
    out.append({'pool_seed': seeds[0], 'api': api, 'batches': b, 'model': 'pdw', 'form': 'list'})
  # narrow dtypes for the features: integer-valued metrics only (cross-entropy in float16 is not comparable at 1e-5)
  for i in range({'quick': 2, 'thorough': 30, 'search': 40}.get(tier, 2)):
    out.append({'pool_seed': seeds[0], 'api': ['evaluate_model', 'evaluator_global', 'evaluate_batch'][i % 3],
                'batches': gen_batches(rng, rng.randrange(1, 9), sizes=(4, 2))[:(1 if i % 3 == 2 else None)],
                'model': 'dict', 'pool': 'lowp', 'form': 'list', 'maskdt': 'bool', 'arr': ['np', 'jax'][i % 2]})
  # object reuse: the first configurations again at the very end (other metric configurations, other Models and
  # evaluators have been used in between), bypassing the harness cache
  for c in out[6:9] + [c for c in out if c['model'] == 'plain'][:1]:
    out.append({**c, 'again': 1})
  return out


NONFIN = {'nan': float('nan'), 'inf': float('inf'), '-inf': NINF}


def stat_cases(tier, rng):
  acc = [0.0, 1.0, -2.5, 3.75, 7.0, 0.125, 'nan', 'inf', '-inf']
  wts = [0.0, 1.0, 2.0, 0.5, 3.0, -1.0, -0.25, 'nan']
  n = {'quick': 60, 'thorough': 400, 'search': 800}.get(tier, 60)
  for a in acc:
    for w in wts:
      yield {'kind': 'stat', 'op': 'new', 'args': [a, w]}
      yield {'kind': 'stat', 'op': 'result', 'args': [a, w]}
      yield {'kind': 'stat', 'op': 'safe_div', 'args': [a, w]}
  for _ in range(n):
    yield {'kind': 'stat', 'op': 'merge', 'args': [rng.choice(acc), rng.choice(wts), rng.choice(acc), rng.choice(wts)]}
  for _ in range(n):
    k = rng.randrange(0, 6)
    fin_a = [x for x in acc if not isinstance(x, str)]
    fin_w = [x for x in wts if not isinstance(x, str)]
    if rng.random() < 0.8:
      yield {'kind': 'stat', 'op': 'reduce', 'args': [[rng.choice(fin_a) for _ in range(k)], [rng.choice(fin_w) for _ in range(k)]]}
    else:
      yield {'kind': 'stat', 'op': 'reduce', 'args': [[rng.choice(acc) for _ in range(k)], [rng.choice(wts) for _ in range(k)]]}
  for i in range(n // 3):
    bsz = rng.choice([0, 1, 3])
    rank = rng.choice(['a1-b0', 'a2-b1', 'a2-b0', 'a3-b1'])
    yield {'kind': 'stat', 'op': 'apply_mask', 'args': [[rng.random() < 0.5 for _ in range(bsz)], rank,
                                                         [rng.choice(acc) for _ in range(bsz * 6)], [rng.choice(acc[:7]) for _ in range(6)]]}
  for _ in range(n // 2):
    yield {'kind': 'stat', 'op': 'sum_merge', 'args': [rng.choice(acc), rng.choice(acc)]}
    yield {'kind': 'stat', 'op': 'sum_reduce', 'args': [[rng.choice(acc[:7]) for _ in range(rng.randrange(0, 6))]]}


def algebra_configs(tier, rng):
  """Tuples of real pool rows whose single-example statistics are merged directly with each other."""
  n = {'quick': 6, 'thorough': 60, 'search': 120}.get(tier, 6)
  seeds = [rng.randrange(1, 10 ** 6) for _ in range(1 if tier == 'quick' else 4)]
  for i in range(n):
    k = rng.choice([3, 3, 4, 5])
    rows = [rng.randrange(N_REAL) for _ in range(k)]
    if i == 0:
      rows = [0, 1, 2, 4]
    yield {'pool_seed': rng.choice(seeds), 'rows': rows, 'model': 'plain' if i % 5 == 4 else 'dict'}


def evaluator_configs(tier, rng):
  """ModelEvaluator used the way an experiment uses it: ONE evaluator object, several successive
  evaluate_* calls, several clients per call (one of them without real rows: no batches, or only
  masked rows), under the 'debug' (jit disabled) and the 'jit' for_each_client backends."""
  n = {'quick': 4, 'thorough': 24, 'search': 40}.get(tier, 4)
  seed = rng.randrange(1, 10 ** 6)
  for i in range(n):
    backend = ['debug', 'jit', 'debug', 'pmap'][i % 4] if tier == 'quick' else ['debug', 'jit', 'pmap'][i % 3]
    calls = []
    for c in range(2 if tier == 'quick' else rng.choice([2, 3])):
      small = backend == 'debug' and i % 4 == 0      # jit disabled + all metric configurations: keep it small
      clients = [gen_batches(rng, rng.randrange(1, 3 if small else 6), sizes=(2,) if backend == 'pmap' else (2, 1), fully_masked=0.0)
                 for _ in range(1 if small else rng.choice([1, 2]))]
      empty = rng.choice([[], [], [{'rows': [_garbage(rng), _garbage(rng)], 'mask': [False, False]}]])
      clients.insert(rng.randrange(0, len(clients) + 1) if c else len(clients), empty)
      calls.append({'mode': rng.choice(['global', 'per_client']), 'clients': clients})
    yield {'pool_seed': seed, 'backend': backend, 'calls': calls,
           'model': 'plain' if (i % 4 == 2 or (tier == 'quick' and backend == 'debug')) else 'dict',
           'interleave': i % 4 in (1, 2), 'idtype': ['bytes', 'str', 'int', 'sentinel'][i % 4]}


def generate(tier, rng):
  for cfg in evaluator_configs(tier, rng):
    names = METRIC_NAMES if cfg['model'] == 'dict' else PLAIN_NAMES
    slots = [(ci, cl) for ci, call in enumerate(cfg['calls']) for cl in range(len(call['clients']))]
    for j, name in enumerate(names):
      yield {'kind': 'evaluator', **cfg, 'metric': name, 'observe': list(slots[(j * 7 + 3) % len(slots)])}
  for cfg in algebra_configs(tier, rng):
    for j, name in enumerate(METRIC_NAMES if cfg['model'] == 'dict' else PLAIN_NAMES):
      yield {'kind': 'algebra', **cfg, 'metric': name, 'jit_example': tier != 'quick' or j % 5 == (len(cfg['rows']) % 5)}
  for cfg in configs(tier, rng):
    names = NAMES[cfg['model']] or METRIC_NAMES
    if cfg.get('pool') == 'lowp':
      names = LOWP_NAMES
    for name in names:
      yield {'kind': 'eval', **cfg, 'metric': name}
  yield from stat_cases(tier, rng)
  if tier != 'quick':
    # global configuration flags: ordinary cases re-run in one subprocess per flag.  The Models with per-position
    # bases under PerDomainMetric are left out for rank_promotion='raise' (same root cause as the known finding) and
    # the large Model for disable_jit (eager evaluation of ~45 metric configurations per batch is too slow)
    r2 = random.Random(rng.randrange(10 ** 6))
    seed = r2.randrange(1, 10 ** 6)
    def sub_cases(model, names):
      out = []
      for api in ('evaluate_model', 'evaluator_global', 'evaluate_batch'):
        b = gen_batches(r2, r2.randrange(2, 8), sizes=(4, 2))
        cfg = {'pool_seed': seed, 'api': api, 'batches': b[:1] if api == 'evaluate_batch' else b, 'model': model, 'form': 'list'}
        out += [{'kind': 'eval', **cfg, 'metric': n} for n in names]
      rows = [r2.randrange(N_REAL) for _ in range(3)]
      out += [{'kind': 'algebra', 'pool_seed': seed, 'rows': rows, 'model': model, 'metric': n} for n in names]
      return out
    yield {'kind': 'flagbatch', 'flag': 'jax_enable_x64', 'value': True, 'cases': sub_cases('dict', METRIC_NAMES)}
    yield {'kind': 'flagbatch', 'flag': 'jax_numpy_rank_promotion', 'value': 'raise', 'cases': sub_cases('plain', PLAIN_NAMES)}
    yield {'kind': 'flagbatch', 'flag': 'jax_disable_jit', 'value': True, 'cases': sub_cases('plain', PLAIN_NAMES)}


# ---------------------------------------------------------------------------
# running the implementation

def _resolve_batches(cfg, pool):
  """Explicit [{'rows', 'mask'}] for a config; batch sources go through the real ClientDataset views."""
  import fedjax
  b = cfg['batches']
  if isinstance(b, list):
    return b
  out = []
  if 'padded_batch' in b:
    spec = b['padded_batch']
    ds = fedjax.ClientDataset({k: v[np.array(spec['order'], dtype=np.int64)] for k, v in pool.items()})
    for batch in ds.padded_batch(batch_size=spec['batch_size'], num_batch_size_buckets=spec['buckets']):
      idx = np.asarray(batch['idx'])
      mask = [bool(t) for t in np.asarray(batch[fedjax.EXAMPLE_MASK_KEY])]
      out.append({'rows': [int(i) - 1 if i > 0 else ZERO for i in idx], 'mask': mask})
  else:
    spec = b['batch']
    ds = fedjax.ClientDataset({k: v[np.array(spec['order'], dtype=np.int64)] for k, v in pool.items()})
    for batch in ds.batch(batch_size=spec['batch_size']):
      out.append({'rows': [int(i) - 1 if i > 0 else ZERO for i in np.asarray(batch['idx'])], 'mask': None})
  return out


def _view(cfg, pool):
  import fedjax
  b = cfg['batches']
  spec = b.get('padded_batch') or b['batch']
  ds = fedjax.ClientDataset({k: v[np.array(spec['order'], dtype=np.int64)] for k, v in pool.items()})
  if 'padded_batch' in b:
    return ds.padded_batch(batch_size=spec['batch_size'], num_batch_size_buckets=spec['buckets'])
  return ds.batch(batch_size=spec['batch_size'])


LAYOUTS = ['C', 'F', 'T', 'step2', 'neg', 'col', 'ro']


def _layout(a, how):
  """The same values in another memory layout (see tools/harness/c07.py)."""
  from harness import c07
  return c07._layout(np.asarray(a), how)  # pylint: disable=protected-access


def _mk_batch(pool, b, maskdt='bool', arr='np', forder=0, layout='C', bkind='dict'):
  import fedjax
  import jax.numpy as jnp
  rows = np.array(b['rows'], dtype=np.int64)
  out = {k: v[rows] for k, v in pool.items()}
  if b['mask'] is not None:
    out[fedjax.EXAMPLE_MASK_KEY] = np.array(b['mask'], dtype=np.bool_).astype(np.dtype(maskdt))
  if layout != 'C' and arr != 'jax':
    out = {k: _layout(v, layout) for k, v in out.items()}
  if arr == 'jax':
    out = {k: jnp.asarray(v) for k, v in out.items()}
  if forder:                                     # insertion order of the features (mask first / last / in the middle)
    keys = list(out)
    r = forder % len(keys)
    out = {k: out[k] for k in keys[r:][::-1] + keys[:r]}
  if bkind == 'ordered':
    import collections
    out = collections.OrderedDict(out)
  return out


def _deliver(feed, form):
  """Delivery form of an iterable of batches / clients."""
  if form == 'tuple':
    return tuple(feed)
  if form == 'iter':
    return iter(feed)
  if form == 'gen':
    return (b for b in feed)
  if form == 'map':
    return map(lambda b: b, feed)
  if form == 'partial':
    it = iter([{'already': 'consumed'}] + list(feed))
    next(it)
    return it
  return list(feed)


def _params(pkind):
  """Model parameters in different container kinds (they are only passed through to apply_for_eval)."""
  import collections
  a, b = np.zeros(2, np.float32), np.ones((1, 2), np.float32)
  if pkind == 'tuple':
    return (a, (b, None))
  if pkind == 'namedtuple':
    return collections.namedtuple('P', ['w', 'b', 'none'])(a, b, None)
  if pkind == 'none':
    return None
  if pkind == 'ordered':
    return collections.OrderedDict([('z', a), ('a', {'b': b})])
  return {'p': a}


def _snapshot(feed, params):
  import jax
  return ([(sorted(b), type(b).__name__, {k: (np.asarray(v).dtype, np.asarray(v).tobytes()) for k, v in b.items()}) for b in feed],
          (str(jax.tree_util.tree_structure(params)), [np.asarray(v).tobytes() for v in jax.tree_util.tree_leaves(params)]))


def _kept_check_and_store(st, res):
  """Results returned by the PREVIOUS call must still be alive and unchanged; then keep this call's results."""
  import jax
  bad = False
  if st.get('kept') is not None:
    for a, snap in st['kept']:
      if (isinstance(a, jax.Array) and a.is_deleted()) or np.asarray(a).tobytes() != snap:
        bad = True
  leaves = jax.tree_util.tree_leaves(res)
  st['kept'] = [(a, np.asarray(a).tobytes()) for a in leaves]
  return bad


def _flat_result(x, shape):
  a = np.asarray(x, np.float64)
  note = a.shape != tuple(shape)
  if a.ndim < len(shape):                # zero() of per-position metrics has lower rank (see report): its axes are the LEADING ones
    a = a.reshape(a.shape + (1,) * (len(shape) - a.ndim))
  a = np.broadcast_to(a, shape)
  return [float(v) for v in a.reshape(-1)], bool(note)


def _merge_fn(which):
  """One-by-one merge of up to 16 single-example statistics with the implementation's own
  merge, for every metric of the model at once (jitted once)."""
  import jax
  import jax.numpy as jnp
  st = _setup()
  key = 'merge_fn_' + which
  if key in st:
    return st[key]
  grid = st['grid'][which]
  apply = st['apply'][which]

  def fn(rows, use):
    pred = apply(None, rows)
    out = {}
    for name, (metric, _) in grid.items():
      stats = jax.vmap(metric.evaluate_example)(rows, pred)
      s = metric.zero()
      for i in range(16):
        row = jax.tree_util.tree_map(lambda a, i=i: a[i], stats)
        m = s.merge(row)
        s = jax.tree_util.tree_map(lambda a, b, i=i: jnp.where(use[i], a, jnp.broadcast_to(b, a.shape)), m, s)
      out[name] = s.result()
    return out
  st[key] = jax.jit(fn)
  return st[key]


def _run_config(cfg):
  import contextlib
  import jax
  import fedjax
  from fedjax.core import metrics as M, models
  st = _setup()
  key = json.dumps(cfg, sort_keys=True)
  if key in st['memo']:
    return st['memo'][key]
  # thousands of large compiled programs in one process have crashed XLA's CPU compiler (segmentation fault inside
  # backend_compile_and_load): drop the compilation caches from time to time
  st['n_configs'] = st.get('n_configs', 0) + 1
  if st['n_configs'] % 250 == 0:
    jax.clear_caches()
    for k_ in [k_ for k_ in st if k_.startswith('merge_fn_')]:
      st.pop(k_)
  variant = cfg.get('pool', 'std')
  ps = pool_stats(cfg['pool_seed'], variant)
  pool = ps['pool']
  which = cfg['model']
  model, grid = st['model'][which], st['grid'][which]
  batches = _resolve_batches(cfg, pool)
  real = [r for b in batches for r, m in zip(b['rows'], b['mask'] or [True] * len(b['rows'])) if m]
  api = cfg['api']
  form, kw = cfg.get('form', 'list'), bool(cfg.get('kw'))
  res, stats, extra_ok = {}, {}, True
  feed = [_mk_batch(pool, b, cfg.get('maskdt', 'bool'), cfg.get('arr', 'np'), cfg.get('forder', 0) + j,
                    cfg.get('layout', 'C'), cfg.get('bkind', 'dict')) for j, b in enumerate(batches)]
  params = _params(cfg.get('pkind', 'dict'))
  before = _snapshot(feed, params)
  cm = jax.disable_jit() if cfg.get('ctx') == 'nojit' else contextlib.nullcontext()
  with cm:
    if api == 'evaluate_model':
      if form == 'view' and not isinstance(cfg['batches'], list):
        arg = _view(cfg, pool)                        # the library's own view object, not materialised
      else:
        arg = _deliver(feed, form)
      r = fedjax.evaluate_model(model=model, params=params, batches=arg) if kw else fedjax.evaluate_model(model, params, arg)
      res = {k: r[_mkey(which, k)] for k in grid}
      extra_ok = set(r) == {_mkey(which, k) for k in grid}
    elif api in ('evaluator_global', 'evaluator_per_client'):
      if which not in st['evaluator']:
        st['evaluator'][which] = models.ModelEvaluator(model)
      ev = st['evaluator'][which]
      me, other, none = {'bytes': (b'me', b'', b'none'), 'str': ('me', '', 'none'), 'int': (7, 0, 3),
                         'sentinel': (b'None', b'-1', b'__mask__')}[cfg.get('idtype', 'bytes')]
      if api == 'evaluator_global':
        clients = _deliver([(other, _deliver(feed[:1], form)), (me, _deliver(feed, form)), (none, [])], cfg.get('cform', 'list'))
        got = dict(ev.evaluate_global_params(params=params, clients=clients) if kw else ev.evaluate_global_params(params, clients))
      else:
        clients = _deliver([(me, _deliver(feed, form), params), (none, iter([]), {'p': np.ones(2, np.float32)})], cfg.get('cform', 'list'))
        got = dict(ev.evaluate_per_client_params(clients=clients) if kw else ev.evaluate_per_client_params(clients))
      res = {k: got[me][_mkey(which, k)] for k in grid}
      # a client without batches yields the zero statistic's result
      extra_ok = set(got) >= {me, none} and all(bool(np.all(np.asarray(v) == 0)) for v in got[none].values())
    elif api in ('evaluate_batch', 'evaluate_batch_nomask'):
      b = feed[0]
      pred = model.apply_for_eval(None, b)
      mask = b.get(fedjax.EXAMPLE_MASK_KEY) if api == 'evaluate_batch' else None
      ex = {k: v for k, v in b.items() if k != fedjax.EXAMPLE_MASK_KEY}
      for name, (metric, _) in grid.items():
        if kw:
          s = M.evaluate_batch(metric, batch_example=ex, batch_prediction=pred, batch_mask=mask)
        else:
          s = M.evaluate_batch(metric, ex, pred, mask)
        res[name] = s.result()
        stats[name] = s
    else:
      raise ValueError(api)
  res = jax.block_until_ready(res)
  # the property's reference: merge the single-example statistics one by one (implementation's merge)
  slots = (real + [ZERO] * 16)[:16]
  use = np.array([True] * min(len(real), 16) + [False] * (16 - min(len(real), 16)))
  ref = None
  if len(real) <= 16 and variant == 'std' and which != 'pdpp':
    ref = _merge_fn(which)({k: v[np.array(slots)] for k, v in pool.items()}, use)
  alt = None
  if cfg.get('nf'):
    # the same real rows, unpadded: one unmasked single-row batch per real example (same jitted code path per row)
    alt_feed = [_mk_batch(pool, {'rows': [r], 'mask': None}) for r in real]
    r2 = fedjax.evaluate_model(model, params, alt_feed)
    alt = {k: r2[_mkey(which, k)] for k in grid}
  problems = []
  if _snapshot(feed, params) != before:
    problems.append('batch-modified')
  if _kept_check_and_store(st, res):
    problems.append('kept-result-changed')
  out = {'batches': batches, 'n_real': len(real), 'extra_ok': bool(extra_ok), 'metrics': {}, 'problems': problems}
  for name in grid:
    kind, shape, _ = ps[name]
    flat, note = _flat_result(res[name], shape)
    entry = {'result': flat, 'broadcast': note, 'stat': None, 'ref': None,
             'alt': None if alt is None else _flat_result(alt[name], shape)[0]}
    if name in stats:
      s = stats[name]
      if kind == 'mean':
        a, _ = _flat_result(s.accum, shape)
        w, _ = _flat_result(s.weight, shape)
        entry['stat'] = [v for p in zip(a, w) for v in p]
      else:
        entry['stat'], _ = _flat_result(s.accum, shape)
    if ref is not None:
      entry['ref'], _ = _flat_result(ref[name], shape)
    out['metrics'][name] = entry
  st['memo'] = {key: out}
  return out


def _val(x):
  return NONFIN[x] if isinstance(x, str) else float(x)


def _fin(v):
  return v if math.isfinite(v) else None


def _run_flagbatch(case):
  from lib import flagrun
  obs, err = flagrun.run_cases('c05', case['cases'], {case['flag']: case['value']})
  return {'error': None, 'sub': obs, 'sub_error': err, 'uncovered': []}


def _run_stat(case):
  import jax.numpy as jnp
  from fedjax.core import metrics as M, util
  op, args = case['op'], case['args']
  f32 = lambda x: jnp.float32(_val(x))
  arr = lambda xs: jnp.array([_val(x) for x in xs], dtype=jnp.float32)
  stat = None
  if op == 'apply_mask':
    mask, rank, avals, bvals = args
    n = len(mask)
    ash = {'a1-b0': (n,), 'a2-b1': (n, 2), 'a2-b0': (n, 2), 'a3-b1': (n, 3, 2)}[rank]
    bsh = {'a1-b0': (), 'a2-b1': (2,), 'a2-b0': (), 'a3-b1': (2,)}[rank]
    a = np.array([_val(x) for x in avals], np.float32)[:int(np.prod(ash))].reshape(ash)
    b = np.array([_val(x) for x in bvals], np.float32)[:int(np.prod(bsh, dtype=np.int64))].reshape(bsh)
    got = np.asarray(M.apply_mask(jnp.array(mask, dtype=jnp.bool_), jnp.asarray(a), jnp.asarray(b)))
    want = np.where(np.array(mask, dtype=bool).reshape((n,) + (1,) * (len(ash) - 1)), a, b)
    same = got.shape == want.shape and got.tobytes() == np.asarray(want, np.float32).tobytes()
    return {'result': [], 'stat': None, 'apply_mask_ok': bool(same)}
  if op == 'new':
    s = M.MeanStat.new(f32(args[0]), f32(args[1]))
    return {'result': [], 'stat': [_fin(float(s.accum)), _fin(float(s.weight))]}
  if op == 'result':
    return {'result': [_fin(float(M.MeanStat(f32(args[0]), f32(args[1])).result()))], 'stat': None}
  if op == 'safe_div':
    return {'result': [_fin(float(util.safe_div(f32(args[0]), f32(args[1]))))], 'stat': None}
  if op == 'merge':
    s = M.MeanStat(f32(args[0]), f32(args[1])).merge(M.MeanStat(f32(args[2]), f32(args[3])))
    stat = [float(s.accum), float(s.weight)]
  elif op == 'reduce':
    s = M.MeanStat(arr(args[0]), arr(args[1])).reduce()
    stat = [float(s.accum), float(s.weight)]
  elif op == 'sum_merge':
    s = M.SumStat.new(f32(args[0])).merge(M.SumStat.new(f32(args[1])))
    stat = [float(s.accum)]
  elif op == 'sum_reduce':
    s = M.SumStat.new(arr(args[0])).reduce()
    stat = [float(s.accum)]
  else:
    raise ValueError(op)
  return {'result': [_fin(float(s.result()))], 'stat': [_fin(v) for v in stat]}


def _single_stat(seed, which, name, i):
  """The statistic of pool row i straight from metric.evaluate_example (no vmap, not re-wrapped)."""
  import jax.numpy as jnp
  st = _setup()
  cache = st.setdefault('single', {})
  key = (seed, which, name, i)
  if key not in cache:
    if len(cache) > 6000:
      cache.clear()
    pool = pool_stats(seed)['pool']
    ex = {k: jnp.asarray(v[i]) for k, v in pool.items()}
    metric = st['grid'][which][name][0]
    cache[key] = metric.evaluate_example(ex, st['apply'][which](None, ex))
  return cache[key]


def _stat_fields(s, shape):
  """result(), and the raw fields with their values promoted to float64 (dtype names kept)."""
  from fedjax.core import metrics as M
  res, _ = _flat_result(s.result(), shape)
  acc, _ = _flat_result(s.accum, shape)
  out = {'result': [_fin(v) for v in res], 'accum': [_fin(v) for v in acc], 'dtypes': [str(np.asarray(s.accum).dtype)]}
  if isinstance(s, M.MeanStat):
    w, _ = _flat_result(s.weight, shape)
    out['weight'] = [_fin(v) for v in w]
    out['dtypes'].append(str(np.asarray(s.weight).dtype))
  return out


def _run_algebra(case):
  st = _setup()
  which, name, seed = case['model'], case['metric'], case['pool_seed']
  metric = st['grid'][which][name][0]
  ps = pool_stats(seed)
  kind, shape, rows = ps[name]
  ss = [_single_stat(seed, which, name, i) for i in case['rows']]
  a, b, c = ss[0], ss[1], ss[2]
  z = metric.zero()
  left = z
  for x in ss:
    left = left.merge(x)
  left_nozero = ss[0]
  for x in ss[1:]:
    left_nozero = left_nozero.merge(x)
  right = ss[-1]
  for x in reversed(ss[:-1]):
    right = x.merge(right)
  right_zero = z
  for x in reversed(ss):
    right_zero = x.merge(right_zero)
  level = list(ss)
  while len(level) > 1:
    nxt = [x.merge(y) for x, y in zip(level[0::2], level[1::2])]
    if len(level) % 2:
      nxt.append(level[-1])
    level = nxt
  # doubling chain: a merged with itself 17 times has 2^17 times a's fields (an accumulator silently kept in a narrow
  # dtype - bool, uint8, int8, uint16, float16 - wraps, saturates or rounds long before that)
  dbl = a
  for _ in range(17):
    dbl = dbl.merge(dbl)
  forms = {'dbl17': dbl, 'ab_c': a.merge(b).merge(c), 'a_bc': a.merge(b.merge(c)), 'ab': a.merge(b), 'ba': b.merge(a),
           'a': a, 'za': z.merge(a), 'az': a.merge(z), 'zz': z.merge(z), 'z': z,
           'left': left, 'left_nozero': left_nozero, 'right': right, 'right_zero': right_zero, 'tree': level[0]}
  jitted = None
  if case.get('jit_example'):
    import jax
    import jax.numpy as jnp
    pool = ps['pool']
    ex = {k: jnp.asarray(v[case['rows'][0]]) for k, v in pool.items()}
    jitted = _stat_fields(jax.jit(metric.evaluate_example)(ex, st['apply'][which](None, ex)), shape)
  return {'stat_kind': kind, 'K': int(np.prod(shape, dtype=np.int64)), 'uncovered': st['uncovered'], 'jitted': jitted,
          'forms': {k: _stat_fields(v, shape) for k, v in forms.items()},
          'singles': [_stat_fields(x, shape) for x in ss],
          'vmapped': [rows[i] for i in case['rows']],
          'batches': [{'rows': [i], 'mask': [True]} for i in case['rows']],
          'rows': {str(i): rows[i] for i in case['rows']}}


def _run_evaluator_config(cfg):
  import jax
  import fedjax
  from fedjax.core import models
  st = _setup()
  key = json.dumps(['evaluator', cfg], sort_keys=True)
  if key in st['memo']:
    return st['memo'][key]
  ps = pool_stats(cfg['pool_seed'])
  pool = ps['pool']
  which = cfg['model']
  model, grid = st['model'][which], st['grid'][which]
  out = []
  def mkid(ci, i):
    t = cfg.get('idtype', 'bytes')
    if t == 'sentinel':                          # ids that look like "absent" / internal keys, not in sorted order
      return [b'None', b'-1', b'__mask__', b'c02', b'c00', b'c10', b''][(ci * 3 + i) % 7] + (b'' if ci == 0 else b'/%d' % ci)
    return (ci * 10 + i) if t == 'int' else ('' if (ci, i) == (0, 0) else 'call%d-client%d' % (ci, i)) if t == 'str' else \
        (b'' if (ci, i) == (0, 0) else b'call%d-client%d' % (ci, i))
  with fedjax.for_each_client_backend(cfg['backend']):
    ev = models.ModelEvaluator(model)          # one evaluator object for all the calls
    gens, idss = [], []
    for ci, call in enumerate(cfg['calls']):
      feeds = [[_mk_batch(pool, b) for b in client] for client in call['clients']]
      ids = [mkid(ci, i) for i in range(len(feeds))]
      if call['mode'] == 'global':
        g = ev.evaluate_global_params({'p': np.zeros(2, np.float32)}, list(zip(ids, feeds)))
      else:
        g = ev.evaluate_per_client_params(
            [(cid, f, {'p': np.full(2, i, np.float32)}) for i, (cid, f) in enumerate(zip(ids, feeds))])
      gens.append(g)
      idss.append(ids)
    gots = [dict() for _ in gens]
    if cfg.get('interleave'):
      # an abandoned result generator, then the live generators of all calls consumed alternately
      ab = ev.evaluate_global_params({'p': np.zeros(2, np.float32)}, [(b'abandoned-1', []), (b'abandoned-2', [])])
      next(iter(ab), None)
      live = [(i, iter(g)) for i, g in enumerate(gens)]
      while live:
        for item in list(live):
          try:
            cid, r = next(item[1])
            gots[item[0]][cid] = r
          except StopIteration:
            live.remove(item)
    else:
      for i, g in enumerate(gens):
        gots[i] = dict(g)
    for ci, ids in enumerate(idss):
      got = jax.block_until_ready(gots[ci])
      if set(got) != set(ids):
        raise AssertionError('ModelEvaluator did not yield exactly one result per client')
      out.append([{name: _flat_result(got[cid][_mkey(which, name)], ps[name][1])[0] for name in grid} for cid in ids])
  st['memo'] = {key: out}
  return out


def _run_evaluator(case):
  st = _setup()
  cfg = {k: case[k] for k in ('pool_seed', 'backend', 'calls', 'model', 'interleave', 'idtype') if k in case}
  try:
    full = _run_evaluator_config(cfg)
  except Exception as ex:  # pylint: disable=broad-except
    if type(ex).__name__ == 'Hang':
      raise
    return {'error': type(ex).__name__, 'message': str(ex)[:200], 'uncovered': st['uncovered']}
  ps = pool_stats(case['pool_seed'])
  kind, shape, rows = ps[case['metric']]
  results = [[[_fin(v) for v in client[case['metric']]] for client in call] for call in full]
  ci, cl = case['observe']
  batches = case['calls'][ci]['clients'][cl]
  used = {i for call in case['calls'] for client in call['clients'] for b in client for i in b['rows']}
  return {'stat_kind': kind, 'K': int(np.prod(shape, dtype=np.int64)), 'uncovered': st['uncovered'],
          'results': results, 'batches': batches, 'result': results[ci][cl], 'stat': None,
          'n_real': sum(1 for b in batches for m in (b['mask'] or [True] * len(b['rows'])) if m),
          'rows': {str(i): rows[i] for i in used}}


def run(case):
  case = case['case'] if 'kind' not in case and 'case' in case else case      # corpus entries wrap the case
  if case['kind'] == 'stat':
    return _run_stat(case)
  if case['kind'] == 'algebra':
    return _run_algebra(case)
  if case['kind'] == 'evaluator':
    return _run_evaluator(case)
  if case['kind'] == 'flagbatch':
    return _run_flagbatch(case)
  st = _setup()
  cfg = {k: case[k] for k in CFG_KEYS if k in case}
  try:
    full = _run_config(cfg)
  except Exception as ex:  # pylint: disable=broad-except
    if type(ex).__name__ == 'Hang':
      raise
    return {'error': type(ex).__name__, 'message': str(ex)[:200], 'uncovered': st['uncovered']}
  e = full['metrics'][case['metric']]
  ps = pool_stats(case['pool_seed'], case.get('pool', 'std'))
  kind, shape, rows = ps[case['metric']]
  if kind == 'error':
    return {'error': 'evaluate_example', 'message': rows, 'uncovered': st['uncovered']}
  enc = lambda xs: None if xs is None else [_fin(v) for v in xs]
  pd = None
  if case['metric'] in PD_SPEC:
    base, dims = PD_SPEC[case['metric']]
    used = sorted({i for b in full['batches'] for i in b['rows']})
    pd = {'base_kind': ps[base][0], 'dims': [d for _, d in dims],
          'rows': {str(i): {'base': ps[base][2][i], 'ids': [int(ps['pool'][f][i]) for f, _ in dims]} for i in used}}
  return {'error': None, 'pd': pd, 'api_is_model': case['api'] != 'evaluate_batch', 'batches': full['batches'], 'n_real': full['n_real'], 'extra_ok': full['extra_ok'], 'uncovered': st['uncovered'],
          'problems': full['problems'],
          'stat_kind': kind, 'K': int(np.prod(shape, dtype=np.int64)), 'broadcast': e['broadcast'],
          'result': enc(e['result']), 'stat': enc(e['stat']), 'ref': enc(e['ref']), 'alt': enc(e.get('alt')),
          'rows': {str(i): rows[i] for b in full['batches'] for i in b['rows']}}


# ---------------------------------------------------------------------------

def _value_kind(case):
  st = _setup()
  return st['grid'][case['model']][case['metric']][1]


def oracle(case, obs):
  case = case['case'] if 'kind' not in case and 'case' in case else case      # corpus entries wrap the case
  if case['kind'] == 'flagbatch':
    if obs['sub'] is None:
      return [('flag-subprocess-failed', f'{case["flag"]}={case["value"]}: {obs["sub_error"]}')]
    out = []
    for c, o in zip(case['cases'], obs['sub']):
      out += [(f'{case["flag"]}:{k}', w) for k, w in _oracle(c, o)]
    return out[:5]
  return _oracle(case, obs)


def _oracle(case, obs):
  out = []
  if obs.get('error') and case['kind'] in ('algebra', 'stat'):
    return [('raises-' + obs['error'], f'{case.get("metric", case.get("op"))} ({case["kind"]}): raised {obs["error"]}: {obs.get("message")}')]
  if case['kind'] == 'stat':
    return _stat_oracle(case, obs)
  if case['kind'] == 'algebra':
    return _algebra_oracle(case, obs)
  if case['kind'] == 'evaluator':
    return _evaluator_oracle(case, obs)
  if obs.get('error'):
    # the known finding is exactly: the per-position base under PerDomainMetric (own Model) fails with a broadcasting ValueError
    known = (case.get('model') == 'pdpp' and obs['error'] == 'ValueError' and 'broadcast' in (obs.get('message') or '').lower())
    key = 'per-domain-per-position-raises' if known else 'raises-' + obs['error']
    return [(key, f'{case["metric"]} ({case.get("api", case["kind"])}): evaluation raised {obs["error"]}: {obs.get("message")}')]
  if obs['uncovered']:
    out.append(('uncovered-metric', 'built-in metric classes without a harness entry: ' + ', '.join(obs['uncovered'])))
  for pr in obs.get('problems', []):
    out.append((pr, {'batch-modified': 'the caller\'s batch dicts / arrays / params were changed by the call',
                     'kept-result-changed': 'results returned by the previous call were deleted or changed by this call'}[pr]))
  if not obs['extra_ok']:
    out.append(('empty-client-nonzero', 'a client without batches did not yield the zero result, or results are missing'))
  res, ref = obs['result'], obs['ref']
  name = case['metric']
  tol = float(TOL_CE if _value_kind(case) == 'ce' else TOL_INT) * 4
  if case.get('nf'):
    # non-finite predictions on REAL rows: eager and jitted evaluate_example already disagree there (XLA turns the
    # multiplicative token masks into selects), so the single-example statistics are no reference; what must hold is
    # that the padded / batched evaluation and the unpadded one-row-per-batch evaluation give the SAME answer,
    # non-finite entries included
    alt = obs['alt']
    if obs['api_is_model'] and alt is not None:
      bad = [i for i, (a, b) in enumerate(zip(res, alt))
             if (a is None) != (b is None) or (a is not None and abs(a - b) > tol * (1 + abs(b)))]
      if bad:
        out.append(('nonfinite-batching-differs', f'{name}: padded / batched evaluation gives {res[bad[0]]} in entry {bad[0]}, '
                    f'the same real rows one per unpadded batch give {alt[bad[0]]}'))
    return out
  real_finite = all(_row_finite(obs['rows'][str(r)]) for b in obs['batches']
                    for r, m in zip(b['rows'], b['mask'] or [True] * len(b['rows'])) if m)
  if obs['n_real'] == 0:
    if any(v is None for v in res):
      out.append(('empty-nan', f'{name}: empty / fully masked input gives a NaN / Inf result'))
    elif any(v != 0 for v in res):
      out.append(('empty-nonzero', f'{name}: empty / fully masked input gives a non-zero result'))
  if real_finite and any(v is None for v in res):
    out.append(('masked-leak-nan', f'{name}: finite real examples but a NaN / Inf result (a masked row leaked?)'))
  if real_finite:
    # independent reference: the definition sum(accum_i) / sum(weight_i) (0 when the weights sum to 0), resp. sum(accum_i)
    reals = [obs['rows'][str(r)] for b in obs['batches']
             for r, m in zip(b['rows'], b['mask'] or [True] * len(b['rows'])) if m]
    for i in range(obs['K']):
      if obs['stat_kind'] == 'mean':
        sa, sw = sum(r[i][0] for r in reals), sum(r[i][1] for r in reals)
        want = sa / sw if sw != 0 else 0.0
      else:
        want = sum(r[i] for r in reals)
      if res[i] is None or abs(res[i] - want) > tol * (1 + abs(want)):
        out.append(('not-sum-of-fields', f'{name}: entry {i} is {res[i]}, the single-example statistics give {want}'))
        break
  if obs.get('pd') and real_finite:
    # the per-domain definition, from the BASE metric's single-example statistics and the domain features
    pd = obs['pd']
    reals_i = [r for b in obs['batches'] for r, m in zip(b['rows'], b['mask'] or [True] * len(b['rows'])) if m]
    import itertools
    kb = obs['K'] // int(np.prod(pd['dims']))
    pos = 0
    for ids in itertools.product(*[range(d) for d in pd['dims']]):
      mine = [pd['rows'][str(r)]['base'] for r in reals_i if tuple(pd['rows'][str(r)]['ids']) == ids]
      for k in range(kb):
        if pd['base_kind'] == 'mean':
          sa, sw = sum(r[k][0] for r in mine), sum(r[k][1] for r in mine)
          want = sa / sw if sw != 0 else 0.0
        else:
          want = sum(r[k] for r in mine)
        got = res[pos]
        fields_bad = False
        if obs.get('stat') is not None:          # evaluate_batch exposes the Stat: its fields must be the per-domain sums
          if pd['base_kind'] == 'mean':
            fa, fw_ = obs['stat'][2 * pos], obs['stat'][2 * pos + 1]
            fields_bad = fa is None or fw_ is None or abs(fa - sa) > tol * (1 + abs(sa)) or abs(fw_ - sw) > tol * (1 + abs(sw))
          else:
            fa = obs['stat'][pos]
            fields_bad = fa is None or abs(fa - want) > tol * (1 + abs(want))
        pos += 1
        if got is None or abs(got - want) > tol * (1 + abs(want)) or fields_bad:
          out.append(('per-domain-definition', f'{name}: domains {ids}, base entry {k}: {got}, the base metric over the examples of that domain gives {want}'))
          break
      else:
        continue
      break
  if ref is not None:
    bad = [i for i, (a, b) in enumerate(zip(res, ref))
           if (a is None) != (b is None) or (a is not None and abs(a - b) > tol * (1 + abs(b)))]
    if bad:
      out.append(('not-fold-of-examples', f'{name}: result differs from merging the single-example statistics one by one '
                  f'(entry {bad[0]}: {res[bad[0]]} vs {ref[bad[0]]})'))
  return out


def _evaluator_oracle(case, obs):
  if obs.get('error'):
    return [('raises-' + obs['error'], f'{case["metric"]}: ModelEvaluator under {case["backend"]} raised {obs["error"]}: {obs.get("message")}')]
  return _evaluator_oracle2(case, obs)


def _evaluator_oracle2(case, obs):
  """Every client of every call on the same ModelEvaluator gets the result of ITS OWN examples folded
  from zero (independent reference: sum(accum)/sum(weight) resp. sum(accum) of its real rows); a
  client without real rows gets 0."""
  out = []
  name = case['metric']
  tol = float(TOL_CE if _value_kind(case) == 'ce' else TOL_INT) * 4
  for ci, call in enumerate(case['calls']):
    for cl, client in enumerate(call['clients']):
      res = obs['results'][ci][cl]
      reals = [obs['rows'][str(r)] for b in client for r, m in zip(b['rows'], b['mask'] or [True] * len(b['rows'])) if m]
      where = f'{name}: {case["backend"]} backend, call {ci} ({call["mode"]}), client {cl} of {len(call["clients"])}'
      if not all(_row_finite(r) for r in reals):
        continue
      for i in range(obs['K']):
        if obs['stat_kind'] == 'mean':
          sa, sw = sum(r[i][0] for r in reals), sum(r[i][1] for r in reals)
          want = sa / sw if sw != 0 else 0.0
        else:
          want = sum(r[i] for r in reals)
        if res[i] is None or abs(res[i] - want) > tol * (1 + abs(want)):
          key = 'evaluator-empty-client-nonzero' if not reals else 'evaluator-client-not-own-fold'
          out.append((key, f'{where}: entry {i} is {res[i]}, its own examples give {want}'))
          break
  return out


def _algebra_oracle(case, obs):
  """The monoid laws on the implementation's own single-example statistics, merged directly
  with each other: associativity, commutativity, zero identity on both sides, every fold shape
  against the left fold from zero(), and "merge adds the fields"; through result() and through
  the raw fields (values promoted to float64)."""
  out = []
  name = case['metric']
  tol = float(TOL_CE if _value_kind(case) == 'ce' else TOL_INT) * 4
  f = obs['forms']

  def differ(x, y):
    for fld in ('result', 'accum', 'weight'):
      if fld not in x:
        continue
      for i, (p, q) in enumerate(zip(x[fld], y[fld])):
        if (p is None) != (q is None) or (p is not None and abs(p - q) > tol * (1 + abs(q))):
          return f'{fld}[{i}]: {p} vs {q} (dtypes {x["dtypes"]} / {y["dtypes"]})'
      if len(x[fld]) != len(y[fld]):
        return f'{fld}: different number of entries'
    return None
  laws = [('merge-not-associative', 'ab_c', 'a_bc', '(a.merge(b)).merge(c) differs from a.merge(b.merge(c))'),
          ('merge-not-commutative', 'ab', 'ba', 'a.merge(b) differs from b.merge(a)'),
          ('zero-not-left-identity', 'za', 'a', 'zero().merge(a) differs from a'),
          ('zero-not-right-identity', 'az', 'a', 'a.merge(zero()) differs from a'),
          ('zero-not-idempotent', 'zz', 'z', 'zero().merge(zero()) differs from zero()'),
          ('fold-shape', 'left_nozero', 'left', 'left fold without zero() differs from the left fold from zero()'),
          ('fold-shape', 'right', 'left', 'right fold differs from the left fold from zero()'),
          ('fold-shape', 'right_zero', 'left', 'right fold ending in zero() differs from the left fold from zero()'),
          ('fold-shape', 'tree', 'left', 'balanced-tree fold differs from the left fold from zero()')]
  for key, x, y, what in laws:
    d = differ(f[x], f[y])
    if d:
      out.append((key, f'{name}: {what}: {d}'))
  for fld in ('accum', 'weight'):
    if fld in f['dbl17'] and all(v is not None for v in f['a'][fld]):
      want = [v * 2.0 ** 17 for v in f['a'][fld]]
      got = f['dbl17'][fld]
      if any(g is None or abs(g - w) > tol * (1 + abs(w)) for g, w in zip(got, want)):
        out.append(('merge-narrow-accumulation', f'{name}: a merged with itself 17 times has {fld} {got[:4]} (dtypes {f["dbl17"]["dtypes"]}), '
                    f'2^17 times a\'s {fld} is {want[:4]}'))
        break
  # merge adds the fields of the single-example statistics (they are in the Stat's domain)
  singles = obs['singles']
  for fld in ('accum', 'weight'):
    if fld in f['left'] and all(v is not None for s_ in singles for v in s_[fld]):
      want = [sum(s_[fld][i] for s_ in singles) for i in range(len(f['left'][fld]))]
      for form in ('left', 'left_nozero', 'right', 'tree'):
        got = f[form][fld]
        if any(g is None or abs(g - w) > tol * (1 + abs(w)) for g, w in zip(got, want)):
          out.append(('merge-not-sum-of-fields', f'{name}: {form} fold has {fld} {got}, the single-example {fld}s sum to {want}'))
          break
  if obs.get('jitted') is not None:
    d = differ(obs['jitted'], singles[0])
    if d:
      out.append(('jit-differs', f'{name}: jax.jit(evaluate_example) differs from the eager evaluate_example: {d}'))
  # evaluate_example under vmap (what evaluate_batch uses) gives the same statistic as the direct call
  for s_, v in zip(singles, obs['vmapped']):
    flat = [x for e in v for x in (e if isinstance(e, (list, tuple)) else [e])]
    mine = [x for p in zip(s_['accum'], s_['weight']) for x in p] if 'weight' in s_ else s_['accum']
    if any((p is None) != (not math.isfinite(q)) or (p is not None and abs(p - q) > tol * (1 + abs(q))) for p, q in zip(mine, flat)):
      out.append(('vmap-differs', f'{name}: vmap(evaluate_example) row differs from evaluate_example'))
      break
  return out


def _row_finite(row):
  return all(math.isfinite(v) for e in row for v in (e if isinstance(e, (list, tuple)) else [e]))


def _stat_oracle(case, obs):
  """MeanStat / SumStat laws on finite arguments, straight from the docstrings."""
  out = []
  op, args = case['op'], case['args']
  if op == 'apply_mask':
    return [] if obs['apply_mask_ok'] else [('apply-mask', f'apply_mask{args[:2]} is not a selection of rows on the leading dimension')]
  flat = [x for a in args for x in (a if isinstance(a, list) else [a])]
  if any(isinstance(x, str) for x in flat):
    return out
  close = lambda a, b: a is not None and abs(a - b) <= 1e-6 * (1 + abs(b))
  if op == 'new':
    a, w = args
    want = [a, w] if w > 0 else [0.0, 0.0]
    if not all(close(x, y) for x, y in zip(obs['stat'], want)):
      out.append(('new-sanitise', f'MeanStat.new({a}, {w}) = {obs["stat"]}, expected {want}'))
  elif op in ('result', 'safe_div'):
    a, w = args
    want = a / w if w != 0 else 0.0
    if not close(obs['result'][0], want):
      out.append(('safe-div', f'{op}({a}, {w}) = {obs["result"][0]}, expected {want}'))
  elif op in ('merge', 'reduce'):
    if op == 'merge':
      pairs = [(args[0], args[1]), (args[2], args[3])]
    else:
      pairs = list(zip(args[0], args[1]))
    in_domain = all((a == 0 and w == 0) or w > 0 for a, w in pairs)
    if in_domain:
      sa, sw = sum(a for a, _ in pairs), sum(w for _, w in pairs)
      if not (close(obs['stat'][0], sa) and close(obs['stat'][1], sw) and close(obs['result'][0], sa / sw if sw else 0.0)):
        out.append(('merge-adds', f'{op} of in-domain statistics {pairs} = {obs["stat"]} -> {obs["result"]}'))
  elif op in ('sum_merge', 'sum_reduce'):
    want = sum(args[0]) if op == 'sum_reduce' else args[0] + args[1]
    if not close(obs['result'][0], want):
      out.append(('sum-adds', f'{op}{args} = {obs["result"]}'))
  return out


# ---------------------------------------------------------------------------

def _nq(v):
  if v is None or (isinstance(v, float) and not math.isfinite(v)):
    return 'None'
  return f'(Some {fw.qlit(float(v))})'


def _nql(vs):
  return '[' + '; '.join(_nq(v) for v in vs) + ']'


def encode(case, obs):
  case = case['case'] if 'kind' not in case and 'case' in case else case      # corpus entries wrap the case
  if obs.get('error') or case['kind'] == 'flagbatch' or case.get('nf'):
    return None
  if case['kind'] == 'stat' and case['op'] == 'apply_mask':
    return None
  if case['kind'] == 'stat':
    a = case['args']
    f = lambda x: _nq(float(np.float32(_val(x))))
    op = case['op']
    if op == 'new':
      c = f'CNew {f(a[0])} {f(a[1])}'
    elif op == 'result':
      c = f'CResult {f(a[0])} {f(a[1])}'
    elif op == 'safe_div':
      c = f'CSafeDiv {f(a[0])} {f(a[1])}'
    elif op == 'merge':
      c = 'CMerge ' + ' '.join(f(x) for x in a)
    elif op == 'reduce':
      c = f'CReduce [{"; ".join(f(x) for x in a[0])}] [{"; ".join(f(x) for x in a[1])}]'
    elif op == 'sum_merge':
      c = f'CSumMerge {f(a[0])} {f(a[1])}'
    else:
      c = f'CSumReduce [{"; ".join(f(x) for x in a[0])}]'
    st = 'None' if obs['stat'] is None else f'(Some {_nql(obs["stat"])})'
    return f'(({c})%Q, mkO05 {fw.qlit(TOL_INT)} {_nql(obs["result"])}%Q {st}%Q)'
  if case['kind'] == 'algebra':
    obs = {**obs, 'result': obs['forms']['left']['result'], 'stat': None}
    case = {**case, 'api': 'evaluate_model'}
  if case['kind'] == 'evaluator':
    case = {**case, 'api': 'evaluator_global'}
  pd = obs.get('pd')
  if pd and len(pd['dims']) == 1 and case.get('api') not in ('evaluate_batch', 'evaluate_batch_nomask') and len(obs['batches']) % 2 == 0:
    # the wrapper built INSIDE Coq from the base metric's statistics and the domain ids (translated per_domain_example)
    reals = [r for b in obs['batches'] for r, m in zip(b['rows'], b['mask'] or [True] * len(b['rows'])) if m]
    mean = pd['base_kind'] == 'mean'
    kb = obs['K'] // pd['dims'][0]
    def brow(i):
      r = pd['rows'][str(i)]
      ent = '[' + '; '.join(f'({_nq(a)}, {_nq(w)})' for a, w in r['base']) + ']' if mean else _nql(r['base'])
      return f'({r["ids"][0]}%nat, {ent})'
    c = f'{"CMeanPD" if mean else "CSumPD"} {pd["dims"][0]}%nat {kb}%nat [' + '; '.join(brow(i) for i in reals) + ']'
    tol = TOL_CE if _value_kind(case) == 'ce' else TOL_INT
    return f'(({c})%Q, mkO05 {fw.qlit(tol)} {_nql(obs["result"])}%Q None)'
  api = case['api']
  capi = {'evaluate_model': 'ApiModel', 'evaluator_global': 'ApiEvaluator', 'evaluator_per_client': 'ApiEvaluator',
          'evaluate_batch': 'ApiBatch', 'evaluate_batch_nomask': 'ApiBatch'}[api]
  mean = obs['stat_kind'] == 'mean'

  def row(i):
    r = obs['rows'][str(i)]
    if mean:
      return '[' + '; '.join(f'({_nq(a)}, {_nq(w)})' for a, w in r) + ']'
    return _nql(r)
  bs = []
  for b in obs['batches']:
    mask = 'None' if b['mask'] is None else f'(Some {fw.blist(b["mask"])})'
    bs.append(f'({mask}, [' + '; '.join(row(i) for i in b['rows']) + '])')
  c = f'{"CMean" if mean else "CSum"} {capi} {obs["K"]}%nat [' + '; '.join(bs) + ']'
  tol = TOL_CE if _value_kind(case) == 'ce' else TOL_INT
  st = 'None' if obs['stat'] is None else f'(Some {_nql(obs["stat"])})'
  return f'(({c})%Q, mkO05 {fw.qlit(tol)} {_nql(obs["result"])}%Q {st}%Q)'


def nontrivial(case, obs):
  case = case['case'] if 'kind' not in case and 'case' in case else case      # corpus entries wrap the case
  if obs.get('error') or case['kind'] == 'flagbatch':
    return False
  if case['kind'] == 'stat':
    return case['op'] in ('merge', 'reduce')
  if case['kind'] == 'algebra':
    return True
  if case['kind'] == 'evaluator':
    return True
  nb = sum(1 for b in obs['batches'] if any(b['mask'] or [True]))
  masked = any(not m for b in obs['batches'] for m in (b['mask'] or []))
  return (obs['n_real'] >= 2 and nb >= 2) or masked


def describe(case, obs):
  case = case['case'] if 'kind' not in case and 'case' in case else case      # corpus entries wrap the case
  if case['kind'] == 'flagbatch':
    return {'kind': 'flagbatch', 'flag': case['flag']}
  if obs.get('error'):
    return {'kind': case['kind'], 'error': obs['error'], 'model': case.get('model')}
  if case['kind'] == 'stat':
    return {'kind': 'stat-' + case['op']}
  if case['kind'] == 'evaluator':
    return {'kind': 'evaluator', 'backend': case['backend'], 'calls': len(case['calls']),
            'observed_client': 'no-real-rows' if obs['n_real'] == 0 else 'has-real-rows', 'metric': case['metric']}
  if case['kind'] == 'algebra':
    return {'kind': 'algebra', 'metric': case['metric'], 'field_dtypes': '/'.join(obs['singles'][0]['dtypes'])}
  bs = obs['batches']
  # hypothesis of C05_batch_is_fold_of_examples: the real rows' statistics are finite and in the Stat's domain
  reals = [obs['rows'][str(r)] for b in bs for r, m in zip(b['rows'], b['mask'] or [True] * len(b['rows'])) if m]
  indom = all((math.isfinite(e[0]) and math.isfinite(e[1]) and ((e[0] == 0 and e[1] == 0) or e[1] > 0)) if isinstance(e, (list, tuple))
              else math.isfinite(e) for r in reals for e in r)
  return {'kind': 'eval', 'api': case['api'], 'metric': case['metric'], 'hyp_real_rows_in_domain': indom, 'form': case.get('form', 'list'),
          'maskdt': case.get('maskdt', 'bool'), 'arrays': case.get('arr', 'np'), 'layout': case.get('layout', 'C'),
          'batch_kind': case.get('bkind', 'dict'), 'params_kind': case.get('pkind', 'dict'), 'kw': bool(case.get('kw')),
          'ctx': case.get('ctx', 'jit'), 'pool': case.get('pool', 'std'), 'model': case['model'], 'again': bool(case.get('again')),
          'source': 'explicit' if isinstance(case['batches'], list) else list(case['batches'])[0],
          'batches': min(len(bs), 6), 'real_rows': 'none' if obs['n_real'] == 0 else '1-3' if obs['n_real'] < 4 else '4+',
          'masked_rows': 'none' if not any(not m for b in bs for m in (b['mask'] or [])) else 'some',
          'mask_key': 'absent' if any(b['mask'] is None for b in bs) else 'present',
          'zero_result_broadcast': obs['broadcast']}


def shrink(case):
  case = case['case'] if 'kind' not in case and 'case' in case else case
  if case['kind'] == 'algebra' and len(case['rows']) > 3:
    for i in range(len(case['rows'])):
      yield {**case, 'rows': case['rows'][:i] + case['rows'][i + 1:]}
  if case['kind'] == 'evaluator':
    calls = case['calls']
    for i in range(len(calls)):
      if len(calls) > 1:
        yield {**case, 'calls': calls[:i] + calls[i + 1:], 'observe': [0, 0]}
    for i, call in enumerate(calls):
      for j in range(len(call['clients'])):
        if len(call['clients']) > 1:
          nc = {**call, 'clients': call['clients'][:j] + call['clients'][j + 1:]}
          yield {**case, 'calls': calls[:i] + [nc] + calls[i + 1:], 'observe': [0, 0]}
        if len(call['clients'][j]) > 1:
          for k in range(len(call['clients'][j])):
            nb = call['clients'][j][:k] + call['clients'][j][k + 1:]
            nc = {**call, 'clients': call['clients'][:j] + [nb] + call['clients'][j + 1:]}
            yield {**case, 'calls': calls[:i] + [nc] + calls[i + 1:], 'observe': [0, 0]}
    return
  if case['kind'] != 'eval' or not isinstance(case['batches'], list):
    return
  bs = case['batches']
  for i in range(len(bs)):
    yield {**case, 'batches': bs[:i] + bs[i + 1:]}
  for i, b in enumerate(bs):
    if len(b['rows']) > 1 and case['api'] not in ('evaluate_batch', 'evaluate_batch_nomask'):
      for size in (1, 2):
        if size < len(b['rows']):
          nb = {'rows': b['rows'][:size], 'mask': None if b['mask'] is None else b['mask'][:size]}
          yield {**case, 'batches': bs[:i] + [nb] + bs[i + 1:]}
