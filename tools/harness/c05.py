"""C05 harness: fedjax.evaluate_model / ModelEvaluator / metrics.evaluate_batch on random
partitions, orders, padded sizes and garbage-filled masked rows, for every built-in
metric class of fedjax/core/metrics.py, against the fold-of-merge model built from the
translated Stat algebra (coq/gen/Gen_metrics.v, Gen_util.v); plus the Stat algebra
(MeanStat / SumStat / safe_div) called directly, in and outside its domain."""
import inspect
import json
import math
import random
from fractions import Fraction

import numpy as np
from lib import fw

PROP = 'C05'
COQ_HEADER = 'From FV Require Import Common.NanQ Model.C05_Model.'
# (the model instantiates the functions translated into gen/Gen_metrics.v and gen/Gen_models.v)
COQ_AGREE = 'C05_agree'
COQ_MODEL_TARGETS = ['Model/C05_Model']
RULE = ('every Metric subclass of fedjax.core.metrics with a grid of constructor arguments (per-position, per-domain, '
        'confusion-matrix variants included); per-example statistics from the implementation\'s own evaluate_example over a '
        'pool of examples; random partitions into batches of 1 / 2 / 4 rows, random batch orders, masked rows at random '
        'positions filled with in-domain targets and arbitrary finite / NaN / Inf predictions, fully masked and empty inputs, '
        'ClientDataset.padded_batch / batch as batch sources, evaluate_model / ModelEvaluator (global and per-client params) / '
        'metrics.evaluate_batch (mask and None); one ModelEvaluator object used for successive calls with several clients (one without '
        'real rows) under the debug (jit disabled) and jit for_each_client backends; Stat algebra called directly on in- and out-of-domain scalars; monoid laws '
        '(associativity, commutativity, zero identity on both sides, left / right / tree folds, merge adds fields) on the '
        'implementation\'s own single-example statistics straight from evaluate_example, for every metric configuration, '
        'through result() and the raw fields; '
        'integer-valued statistics compared to 2^-22 relative (one float32 rounding of accum/weight), cross-entropy-valued '
        'ones to 1e-5(1+|x|), inside Coq; non-trivial = at least two real rows spread over at least two batches or at least '
        'one masked row; distinct = distinct case JSON')
TRUSTED = ['tools/lib/pat.py structural anchors: the recognised statement sequences of apply_mask / evaluate_batch / '
           '_evaluate_model_step / evaluate_model / ModelEvaluator client functions and their Gallina reading '
           '(rows = leading dimension, tree_map over Stat fields = per row, dict of metrics = per metric)',
           'tools/lib/qfun.py reading of jnp scalar code (+ - * /, comparisons, where, maximum, sum) over NanQ (Common/NanQ.v)',
           'jax.vmap = map over rows; jnp.where / apply_mask forward semantics (lazy selection)',
           'row-major flattening of higher-rank Stat fields = order of the entry lists handed to Coq']
ASSUMPTIONS = ['statistics of real (unmasked) examples are finite and in the Stat\'s documented domain '
               '({(0,0)} u {(a,b): b>0} for MeanStat); masked rows are arbitrary',
               'per-example statistics are taken from the implementation\'s evaluate_example (their correctness is C14)']
PARTIAL = []
CASE_TIMEOUT = 240

C, V, L, ND = 3, 4, 3, 3
N_REAL, N_GARB = 20, 8
ZERO = N_REAL + N_GARB            # pool index of the all-zero row (what padded_batch pads with)
NINF = float('-inf')
TOL_INT = Fraction(1, 1 << 22)
TOL_CE = Fraction(1, 100000)


# ---------------------------------------------------------------------------
# metric grid

def metric_grid():
  from fedjax.core import metrics as M
  g = {
      'ce': (M.CrossEntropyLoss('y', 'pred'), 'ce'),
      'acc': (M.Accuracy('y', 'pred'), 'int'),
      'top1': (M.TopKAccuracy(1, 'y', 'pred'), 'int'),
      'top2': (M.TopKAccuracy(2, 'y', 'pred'), 'int'),
      'top3': (M.TopKAccuracy(3, 'y', 'pred'), 'int'),
      'top9': (M.TopKAccuracy(9, 'y', 'pred'), 'int'),
      'stce_a': (M.SequenceTokenCrossEntropyLoss('ys', 'preds', (0,), False), 'ce'),
      'stce_b': (M.SequenceTokenCrossEntropyLoss('ys', 'preds', (0, 2), True), 'ce'),
      'stce_c': (M.SequenceTokenCrossEntropyLoss('ys', 'preds', (), False), 'ce'),
      'sce_a': (M.SequenceCrossEntropyLoss('ys', 'preds', (0,)), 'ce'),
      'sce_b': (M.SequenceCrossEntropyLoss('ys', 'preds', (1, 3)), 'ce'),
      'sta_a': (M.SequenceTokenAccuracy('ys', 'preds', (0,), None, False), 'int'),
      'sta_b': (M.SequenceTokenAccuracy('ys', 'preds', (0,), (0., 0., 0., NINF), False), 'int'),
      'sta_c': (M.SequenceTokenAccuracy('ys', 'preds', (0, 1), None, True), 'int'),
      'sttk_a': (M.SequenceTokenTopKAccuracy(2, 'ys', 'preds', (0,), None, False), 'int'),
      'sttk_b': (M.SequenceTokenTopKAccuracy(1, 'ys', 'preds', (0,), (0., 0., 0., NINF), True), 'int'),
      'sttk_c': (M.SequenceTokenTopKAccuracy(4, 'ys', 'preds', (0, 1), None, False), 'int'),
      'stc_a': (M.SequenceTokenCount('ys', (0,)), 'int'),
      'stc_b': (M.SequenceTokenCount('ys', (0, 2)), 'int'),
      'stc_c': (M.SequenceTokenCount('ys', ()), 'int'),
      'sc_a': (M.SequenceCount('ys', (0,)), 'int'),
      'sc_b': (M.SequenceCount('ys', (0, 1, 2)), 'int'),
      'str_a': (M.SequenceTruncationRate(3, 'ys', (0,)), 'int'),
      'str_b': (M.SequenceTruncationRate(1, 'ys', (0, 2)), 'int'),
      'oov_a': (M.SequenceTokenOOVRate((2,), 'ys', (0,), False), 'int'),
      'oov_b': (M.SequenceTokenOOVRate((3,), 'ys', (0,), True), 'int'),
      'oov_c': (M.SequenceTokenOOVRate((1, 2), 'ys', (0,), False), 'int'),
      'len_a': (M.SequenceLength('ys', (0,)), 'int'),
      'len_b': (M.SequenceLength('ys', (0, 3)), 'int'),
      'cm': (M.ConfusionMatrix(C, 'y', 'pred'), 'int'),
  }
  g['pd_acc'] = (M.PerDomainMetric(g['acc'][0], ND), 'int')
  g['pd_ce'] = (M.PerDomainMetric(g['ce'][0], ND, 'dom'), 'ce')
  g['pd_sta_pp'] = (M.PerDomainMetric(g['sta_c'][0], ND), 'int')
  g['pd_stce_pp'] = (M.PerDomainMetric(g['stce_b'][0], ND), 'ce')
  g['pd_stc'] = (M.PerDomainMetric(g['stc_a'][0], ND), 'int')
  g['pd_cm'] = (M.PerDomainMetric(g['cm'][0], ND), 'int')
  return g


def plain_grid():
  """Default target / prediction keys: the model's prediction is the logits array itself."""
  from fedjax.core import metrics as M
  return {'p_acc': (M.Accuracy(), 'int'), 'p_ce': (M.CrossEntropyLoss(), 'ce'), 'p_top2': (M.TopKAccuracy(2), 'int'),
          'p_cm': (M.ConfusionMatrix(C), 'int'), 'p_pd_acc': (M.PerDomainMetric(M.Accuracy(), ND), 'int')}


METRIC_NAMES = ['ce', 'acc', 'top1', 'top2', 'top3', 'top9', 'stce_a', 'stce_b', 'stce_c', 'sce_a', 'sce_b', 'sta_a', 'sta_b',
                'sta_c', 'sttk_a', 'sttk_b', 'sttk_c', 'stc_a', 'stc_b', 'stc_c', 'sc_a', 'sc_b', 'str_a', 'str_b', 'oov_a',
                'oov_b', 'oov_c', 'len_a', 'len_b', 'cm', 'pd_acc', 'pd_ce', 'pd_sta_pp', 'pd_stce_pp', 'pd_stc', 'pd_cm']
PLAIN_NAMES = ['p_acc', 'p_ce', 'p_top2', 'p_cm', 'p_pd_acc']

_STATE = {}


def _setup():
  """Models, metric grids, coverage of every Metric subclass: once per process."""
  if 'model' in _STATE:
    return _STATE
  import fedjax
  from fedjax.core import metrics as M
  grid, plain = metric_grid(), plain_grid()
  assert list(grid) == METRIC_NAMES and list(plain) == PLAIN_NAMES

  def classes(m):
    out = {type(m).__name__}
    if hasattr(m, 'base'):
      out |= classes(m.base)
    return out
  covered = set()
  for m, _ in list(grid.values()) + list(plain.values()):
    covered |= classes(m)
  all_metrics = {n for n, c in inspect.getmembers(M, inspect.isclass)
                 if issubclass(c, M.Metric) and c is not M.Metric and c.__module__ == M.__name__}
  _STATE['uncovered'] = sorted(all_metrics - covered)

  def apply_dict(params, batch):
    del params
    return {'pred': batch['pred'], 'preds': batch['preds']}

  def apply_plain(params, batch):
    del params
    return batch['pred']
  _STATE['grid'] = {'dict': grid, 'plain': plain}
  _STATE['apply'] = {'dict': apply_dict, 'plain': apply_plain}
  _STATE['model'] = {
      'dict': fedjax.Model(init=None, apply_for_train=None, apply_for_eval=apply_dict, train_loss=None,
                           eval_metrics={k: m for k, (m, _) in grid.items()}),
      'plain': fedjax.Model(init=None, apply_for_train=None, apply_for_eval=apply_plain, train_loss=None,
                            eval_metrics={k: m for k, (m, _) in plain.items()}),
  }
  _STATE['evaluator'] = {}
  _STATE['pools'] = {}
  _STATE['memo'] = {}
  return _STATE


# ---------------------------------------------------------------------------
# pool of examples

def make_pool(seed):
  rng = random.Random(seed * 7919 + 13)
  n = N_REAL + N_GARB + 1
  y = np.zeros(n, np.int32)
  pred = np.zeros((n, C), np.float32)
  ys = np.zeros((n, L), np.int32)
  preds = np.zeros((n, L, V), np.float32)
  dom = np.zeros(n, np.int32)
  special = [float('nan'), float('inf'), NINF, 1e30, -1e30, 3.0e38]
  for i in range(N_REAL + N_GARB):
    y[i] = rng.randrange(C)
    dom[i] = rng.randrange(ND)
    ys[i] = [rng.choice([0, 0, 1, 2, 3]) for _ in range(L)]
    if i % 7 == 3:
      ys[i] = 0                               # a sequence that is entirely padding
    garbage = i >= N_REAL
    for c in range(C):
      pred[i, c] = rng.choice(special) if garbage and rng.random() < 0.6 else rng.randrange(-12, 13) / 4
    for l in range(L):
      for v in range(V):
        preds[i, l, v] = rng.choice(special) if garbage and rng.random() < 0.5 else rng.randrange(-12, 13) / 4
  return {'y': y, 'pred': pred, 'ys': ys, 'preds': preds, 'domain_id': dom, 'dom': dom.copy(),
          'idx': np.arange(1, n + 1, dtype=np.int32) * (np.arange(n) != ZERO)}


def pool_stats(seed):
  """Per-example statistics of every pool row for every metric, from the implementation's
  own evaluate_example (vmapped): name -> (stat kind, entry shape, rows) with rows[i] the
  flattened entries of row i: [(accum, weight)...] for MeanStat, [accum...] for SumStat."""
  import jax
  from fedjax.core import metrics as M
  st = _setup()
  if seed in st['pools']:
    return st['pools'][seed]
  pool = make_pool(seed)
  out = {'pool': pool}
  for which in ('dict', 'plain'):
    pred = st['apply'][which](None, pool)
    for name, (metric, _) in st['grid'][which].items():
      s = jax.vmap(metric.evaluate_example)(pool, pred)
      n = len(pool['y'])
      if isinstance(s, M.MeanStat):
        a = np.asarray(s.accum, np.float64).reshape(n, -1)
        w = np.asarray(s.weight, np.float64).reshape(n, -1)
        out[name] = ('mean', tuple(np.shape(s.accum)[1:]), [list(zip(a[i].tolist(), w[i].tolist())) for i in range(n)])
      elif isinstance(s, M.SumStat):
        a = np.asarray(s.accum, np.float64).reshape(n, -1)
        out[name] = ('sum', tuple(np.shape(s.accum)[1:]), [a[i].tolist() for i in range(n)])
      else:
        raise TypeError(type(s))
  st['pools'] = {seed: out}
  return out


# ---------------------------------------------------------------------------
# generation

def _garbage(rng):
  return rng.randrange(N_REAL, N_REAL + N_GARB)


def gen_batches(rng, n_real, sizes=(4, 2, 1), masked=True, fully_masked=0.12):
  """A random partition of n_real pool rows (random order, repetitions allowed) into batches of the
  given sizes; with `masked`, batches carry a mask and masked rows (garbage or zero rows) at random
  positions, and some batches are entirely masked."""
  real = [rng.randrange(N_REAL) for _ in range(n_real)]
  batches = []
  while real:
    if masked:
      size = rng.choice(sizes)
      k = min(len(real), rng.randrange(1, size + 1))
    else:
      fit = [s for s in sizes if s <= len(real)]
      if not fit:
        break
      size = k = rng.choice(fit)
    take, real = real[:k], real[k:]
    rows = take + [rng.choice([_garbage(rng), _garbage(rng), ZERO]) for _ in range(size - k)]
    mask = [True] * k + [False] * (size - k)
    perm = list(range(size))
    rng.shuffle(perm)
    batches.append({'rows': [rows[i] for i in perm], 'mask': [mask[i] for i in perm] if masked else None})
  if masked:
    for _ in range(3):
      if rng.random() < fully_masked:
        size = rng.choice(sizes)
        batches.append({'rows': [_garbage(rng) for _ in range(size)], 'mask': [False] * size})
  rng.shuffle(batches)
  return batches


def configs(tier, rng):
  n = {'quick': 34, 'thorough': 800, 'search': 700}.get(tier, 34)
  seeds = [rng.randrange(1, 10 ** 6) for _ in range(2 if tier == 'quick' else 10)]
  out = []
  fixed = [
      ('evaluate_model', []),                                                       # empty
      ('evaluate_model', [{'rows': [_garbage(rng) for _ in range(4)], 'mask': [False] * 4}]),   # fully masked
      ('evaluator_global', []),
      ('evaluator_global', [{'rows': [_garbage(rng), _garbage(rng)], 'mask': [False, False]}] * 2),
      ('evaluate_batch', [{'rows': [_garbage(rng) for _ in range(4)], 'mask': [False] * 4}]),
      ('evaluate_model', [{'rows': [0], 'mask': [True]}]),
  ]
  for api, b in fixed:
    out.append({'pool_seed': seeds[0], 'api': api, 'batches': b, 'model': 'dict'})
  for i in range(n):
    api = rng.choice(['evaluate_model', 'evaluate_model', 'evaluator_global', 'evaluator_per_client', 'evaluate_batch',
                      'evaluate_batch_nomask', 'padded_batch', 'padded_batch', 'plain_batch'])
    seed = rng.choice(seeds)
    model = 'plain' if i % 6 == 5 else 'dict'
    if api == 'padded_batch':
      order = [rng.randrange(N_REAL) for _ in range(rng.randrange(0, 14))]
      b = {'padded_batch': {'order': order, 'batch_size': 4, 'buckets': rng.randrange(1, 4)}}
      api = rng.choice(['evaluate_model', 'evaluator_global'])
    elif api == 'plain_batch':
      m = rng.choice([0, 1, 2, 4, 5, 6, 8, 9, 10])
      b = {'batch': {'order': [rng.randrange(N_REAL) for _ in range(m)], 'batch_size': 4}}
      api = 'evaluate_model'
    elif api == 'evaluate_batch':
      b = gen_batches(rng, rng.randrange(0, 5), sizes=(4,))[:1] or [{'rows': [_garbage(rng)] * 4, 'mask': [False] * 4}]
    elif api == 'evaluate_batch_nomask':
      b = gen_batches(rng, 4, sizes=(4,), masked=False)[:1]
    else:
      masked = rng.random() < 0.8
      b = gen_batches(rng, rng.randrange(0, 13), masked=masked)
    out.append({'pool_seed': seed, 'api': api, 'batches': b, 'model': model})
  return out


NONFIN = {'nan': float('nan'), 'inf': float('inf'), '-inf': NINF}


def stat_cases(tier, rng):
  acc = [0.0, 1.0, -2.5, 3.75, 7.0, 0.125, 'nan', 'inf', '-inf']
  wts = [0.0, 1.0, 2.0, 0.5, 3.0, -1.0, -0.25, 'nan']
  n = {'quick': 60, 'thorough': 400, 'search': 800}.get(tier, 60)
  for a in acc:
    for w in wts:
      yield {'kind': 'stat', 'op': 'new', 'args': [a, w]}
      yield {'kind': 'stat', 'op': 'result', 'args': [a, w]}
      yield {'kind': 'stat', 'op': 'safe_div', 'args': [a, w]}
  for _ in range(n):
    yield {'kind': 'stat', 'op': 'merge', 'args': [rng.choice(acc), rng.choice(wts), rng.choice(acc), rng.choice(wts)]}
  for _ in range(n):
    k = rng.randrange(0, 6)
    fin_a = [x for x in acc if not isinstance(x, str)]
    fin_w = [x for x in wts if not isinstance(x, str)]
    if rng.random() < 0.8:
      yield {'kind': 'stat', 'op': 'reduce', 'args': [[rng.choice(fin_a) for _ in range(k)], [rng.choice(fin_w) for _ in range(k)]]}
    else:
      yield {'kind': 'stat', 'op': 'reduce', 'args': [[rng.choice(acc) for _ in range(k)], [rng.choice(wts) for _ in range(k)]]}
  for _ in range(n // 2):
    yield {'kind': 'stat', 'op': 'sum_merge', 'args': [rng.choice(acc), rng.choice(acc)]}
    yield {'kind': 'stat', 'op': 'sum_reduce', 'args': [[rng.choice(acc[:7]) for _ in range(rng.randrange(0, 6))]]}


def algebra_configs(tier, rng):
  """Tuples of real pool rows whose single-example statistics are merged directly with each other."""
  n = {'quick': 6, 'thorough': 60, 'search': 120}.get(tier, 6)
  seeds = [rng.randrange(1, 10 ** 6) for _ in range(1 if tier == 'quick' else 4)]
  for i in range(n):
    k = rng.choice([3, 3, 4, 5])
    rows = [rng.randrange(N_REAL) for _ in range(k)]
    if i == 0:
      rows = [0, 1, 2, 4]
    yield {'pool_seed': rng.choice(seeds), 'rows': rows, 'model': 'plain' if i % 5 == 4 else 'dict'}


def evaluator_configs(tier, rng):
  """ModelEvaluator used the way an experiment uses it: ONE evaluator object, several successive
  evaluate_* calls, several clients per call (one of them without real rows: no batches, or only
  masked rows), under the 'debug' (jit disabled) and the 'jit' for_each_client backends."""
  n = {'quick': 4, 'thorough': 24, 'search': 40}.get(tier, 4)
  seed = rng.randrange(1, 10 ** 6)
  for i in range(n):
    backend = 'debug' if i % 2 == 0 else 'jit'
    calls = []
    for c in range(2 if tier == 'quick' else rng.choice([2, 3])):
      clients = [gen_batches(rng, rng.randrange(1, 6), sizes=(2, 1), fully_masked=0.0) for _ in range(rng.choice([1, 2]))]
      empty = rng.choice([[], [], [{'rows': [_garbage(rng), _garbage(rng)], 'mask': [False, False]}]])
      clients.insert(rng.randrange(0, len(clients) + 1) if c else len(clients), empty)
      calls.append({'mode': rng.choice(['global', 'per_client']), 'clients': clients})
    yield {'pool_seed': seed, 'backend': backend, 'calls': calls, 'model': 'plain' if i % 4 == 2 else 'dict'}


def generate(tier, rng):
  for cfg in evaluator_configs(tier, rng):
    names = METRIC_NAMES if cfg['model'] == 'dict' else PLAIN_NAMES
    slots = [(ci, cl) for ci, call in enumerate(cfg['calls']) for cl in range(len(call['clients']))]
    for j, name in enumerate(names):
      yield {'kind': 'evaluator', **cfg, 'metric': name, 'observe': list(slots[(j * 7 + 3) % len(slots)])}
  for cfg in algebra_configs(tier, rng):
    for name in (METRIC_NAMES if cfg['model'] == 'dict' else PLAIN_NAMES):
      yield {'kind': 'algebra', **cfg, 'metric': name}
  for cfg in configs(tier, rng):
    names = METRIC_NAMES if cfg['model'] == 'dict' else PLAIN_NAMES
    for name in names:
      yield {'kind': 'eval', **cfg, 'metric': name}
  yield from stat_cases(tier, rng)


# ---------------------------------------------------------------------------
# running the implementation

def _resolve_batches(cfg, pool):
  """Explicit [{'rows', 'mask'}] for a config; batch sources go through the real ClientDataset views."""
  import fedjax
  b = cfg['batches']
  if isinstance(b, list):
    return b
  out = []
  if 'padded_batch' in b:
    spec = b['padded_batch']
    ds = fedjax.ClientDataset({k: v[np.array(spec['order'], dtype=np.int64)] for k, v in pool.items()})
    for batch in ds.padded_batch(batch_size=spec['batch_size'], num_batch_size_buckets=spec['buckets']):
      idx = np.asarray(batch['idx'])
      mask = [bool(t) for t in np.asarray(batch[fedjax.EXAMPLE_MASK_KEY])]
      out.append({'rows': [int(i) - 1 if i > 0 else ZERO for i in idx], 'mask': mask})
  else:
    spec = b['batch']
    ds = fedjax.ClientDataset({k: v[np.array(spec['order'], dtype=np.int64)] for k, v in pool.items()})
    for batch in ds.batch(batch_size=spec['batch_size']):
      out.append({'rows': [int(i) - 1 if i > 0 else ZERO for i in np.asarray(batch['idx'])], 'mask': None})
  return out


def _mk_batch(pool, b):
  import fedjax
  rows = np.array(b['rows'], dtype=np.int64)
  out = {k: v[rows] for k, v in pool.items()}
  if b['mask'] is not None:
    out[fedjax.EXAMPLE_MASK_KEY] = np.array(b['mask'], dtype=np.bool_)
  return out


def _flat_result(x, shape):
  a = np.asarray(x, np.float64)
  note = a.shape != tuple(shape)
  a = np.broadcast_to(a, shape)          # zero() of per-position metrics has lower rank (see report)
  return [float(v) for v in a.reshape(-1)], bool(note)


def _merge_fn(which):
  """One-by-one merge of up to 16 single-example statistics with the implementation's own
  merge, for every metric of the model at once (jitted once)."""
  import jax
  import jax.numpy as jnp
  st = _setup()
  key = 'merge_fn_' + which
  if key in st:
    return st[key]
  grid = st['grid'][which]
  apply = st['apply'][which]

  def fn(rows, use):
    pred = apply(None, rows)
    out = {}
    for name, (metric, _) in grid.items():
      stats = jax.vmap(metric.evaluate_example)(rows, pred)
      s = metric.zero()
      for i in range(16):
        row = jax.tree_util.tree_map(lambda a, i=i: a[i], stats)
        m = s.merge(row)
        s = jax.tree_util.tree_map(lambda a, b, i=i: jnp.where(use[i], a, jnp.broadcast_to(b, a.shape)), m, s)
      out[name] = s.result()
    return out
  st[key] = jax.jit(fn)
  return st[key]


def _run_config(cfg):
  import jax
  import fedjax
  from fedjax.core import metrics as M, models
  st = _setup()
  key = json.dumps([cfg['pool_seed'], cfg['api'], cfg['batches'], cfg['model']], sort_keys=True)
  if key in st['memo']:
    return st['memo'][key]
  ps = pool_stats(cfg['pool_seed'])
  pool = ps['pool']
  which = cfg['model']
  model, grid = st['model'][which], st['grid'][which]
  batches = _resolve_batches(cfg, pool)
  real = [r for b in batches for r, m in zip(b['rows'], b['mask'] or [True] * len(b['rows'])) if m]
  api = cfg['api']
  res, stats, extra_ok = {}, {}, True
  feed = [_mk_batch(pool, b) for b in batches]
  if api == 'evaluate_model':
    how = len(batches) % 3
    arg = feed if how == 0 else iter(feed) if how == 1 else (b for b in feed)
    r = fedjax.evaluate_model(model, {'p': np.zeros(2, np.float32)}, arg)
    res = {k: r[k] for k in grid}
    extra_ok = set(r) == set(grid)
  elif api in ('evaluator_global', 'evaluator_per_client'):
    if which not in st['evaluator']:
      st['evaluator'][which] = models.ModelEvaluator(model)
    ev = st['evaluator'][which]
    params = {'p': np.zeros(2, np.float32)}
    if api == 'evaluator_global':
      got = dict(ev.evaluate_global_params(params, [(b'other', feed[:1]), (b'me', feed), (b'none', [])]))
    else:
      got = dict(ev.evaluate_per_client_params([(b'me', feed, params), (b'none', [], {'p': np.ones(2, np.float32)})]))
    res = {k: got[b'me'][k] for k in grid}
    # a client without batches yields the zero statistic's result
    extra_ok = set(got) >= {b'me', b'none'} and all(
        bool(np.all(np.asarray(v) == 0)) for v in got[b'none'].values())
  elif api in ('evaluate_batch', 'evaluate_batch_nomask'):
    b = feed[0]
    pred = model.apply_for_eval(None, b)
    mask = b.get(fedjax.EXAMPLE_MASK_KEY) if api == 'evaluate_batch' else None
    ex = {k: v for k, v in b.items() if k != fedjax.EXAMPLE_MASK_KEY}
    for name, (metric, _) in grid.items():
      s = M.evaluate_batch(metric, ex, pred, mask)
      res[name] = s.result()
      stats[name] = s
  else:
    raise ValueError(api)
  res = jax.block_until_ready(res)
  # the property's reference: merge the single-example statistics one by one (implementation's merge)
  slots = (real + [ZERO] * 16)[:16]
  use = np.array([True] * min(len(real), 16) + [False] * (16 - min(len(real), 16)))
  ref = None
  if len(real) <= 16:
    ref = _merge_fn(which)({k: v[np.array(slots)] for k, v in pool.items()}, use)
  out = {'batches': batches, 'n_real': len(real), 'extra_ok': bool(extra_ok), 'metrics': {}}
  for name in grid:
    kind, shape, _ = ps[name]
    flat, note = _flat_result(res[name], shape)
    entry = {'result': flat, 'broadcast': note, 'stat': None, 'ref': None}
    if name in stats:
      s = stats[name]
      if kind == 'mean':
        a, _ = _flat_result(s.accum, shape)
        w, _ = _flat_result(s.weight, shape)
        entry['stat'] = [v for p in zip(a, w) for v in p]
      else:
        entry['stat'], _ = _flat_result(s.accum, shape)
    if ref is not None:
      entry['ref'], _ = _flat_result(ref[name], shape)
    out['metrics'][name] = entry
  st['memo'] = {key: out}
  return out


def _val(x):
  return NONFIN[x] if isinstance(x, str) else float(x)


def _fin(v):
  return v if math.isfinite(v) else None


def _run_stat(case):
  import jax.numpy as jnp
  from fedjax.core import metrics as M, util
  op, args = case['op'], case['args']
  f32 = lambda x: jnp.float32(_val(x))
  arr = lambda xs: jnp.array([_val(x) for x in xs], dtype=jnp.float32)
  stat = None
  if op == 'new':
    s = M.MeanStat.new(f32(args[0]), f32(args[1]))
    return {'result': [], 'stat': [_fin(float(s.accum)), _fin(float(s.weight))]}
  if op == 'result':
    return {'result': [_fin(float(M.MeanStat(f32(args[0]), f32(args[1])).result()))], 'stat': None}
  if op == 'safe_div':
    return {'result': [_fin(float(util.safe_div(f32(args[0]), f32(args[1]))))], 'stat': None}
  if op == 'merge':
    s = M.MeanStat(f32(args[0]), f32(args[1])).merge(M.MeanStat(f32(args[2]), f32(args[3])))
    stat = [float(s.accum), float(s.weight)]
  elif op == 'reduce':
    s = M.MeanStat(arr(args[0]), arr(args[1])).reduce()
    stat = [float(s.accum), float(s.weight)]
  elif op == 'sum_merge':
    s = M.SumStat.new(f32(args[0])).merge(M.SumStat.new(f32(args[1])))
    stat = [float(s.accum)]
  elif op == 'sum_reduce':
    s = M.SumStat.new(arr(args[0])).reduce()
    stat = [float(s.accum)]
  else:
    raise ValueError(op)
  return {'result': [_fin(float(s.result()))], 'stat': [_fin(v) for v in stat]}


def _single_stat(seed, which, name, i):
  """The statistic of pool row i straight from metric.evaluate_example (no vmap, not re-wrapped)."""
  import jax.numpy as jnp
  st = _setup()
  cache = st.setdefault('single', {})
  key = (seed, which, name, i)
  if key not in cache:
    if len(cache) > 6000:
      cache.clear()
    pool = pool_stats(seed)['pool']
    ex = {k: jnp.asarray(v[i]) for k, v in pool.items()}
    metric = st['grid'][which][name][0]
    cache[key] = metric.evaluate_example(ex, st['apply'][which](None, ex))
  return cache[key]


def _stat_fields(s, shape):
  """result(), and the raw fields with their values promoted to float64 (dtype names kept)."""
  from fedjax.core import metrics as M
  res, _ = _flat_result(s.result(), shape)
  acc, _ = _flat_result(s.accum, shape)
  out = {'result': [_fin(v) for v in res], 'accum': [_fin(v) for v in acc], 'dtypes': [str(np.asarray(s.accum).dtype)]}
  if isinstance(s, M.MeanStat):
    w, _ = _flat_result(s.weight, shape)
    out['weight'] = [_fin(v) for v in w]
    out['dtypes'].append(str(np.asarray(s.weight).dtype))
  return out


def _run_algebra(case):
  st = _setup()
  which, name, seed = case['model'], case['metric'], case['pool_seed']
  metric = st['grid'][which][name][0]
  ps = pool_stats(seed)
  kind, shape, rows = ps[name]
  ss = [_single_stat(seed, which, name, i) for i in case['rows']]
  a, b, c = ss[0], ss[1], ss[2]
  z = metric.zero()
  left = z
  for x in ss:
    left = left.merge(x)
  left_nozero = ss[0]
  for x in ss[1:]:
    left_nozero = left_nozero.merge(x)
  right = ss[-1]
  for x in reversed(ss[:-1]):
    right = x.merge(right)
  right_zero = z
  for x in reversed(ss):
    right_zero = x.merge(right_zero)
  level = list(ss)
  while len(level) > 1:
    nxt = [x.merge(y) for x, y in zip(level[0::2], level[1::2])]
    if len(level) % 2:
      nxt.append(level[-1])
    level = nxt
  forms = {'ab_c': a.merge(b).merge(c), 'a_bc': a.merge(b.merge(c)), 'ab': a.merge(b), 'ba': b.merge(a),
           'a': a, 'za': z.merge(a), 'az': a.merge(z), 'zz': z.merge(z), 'z': z,
           'left': left, 'left_nozero': left_nozero, 'right': right, 'right_zero': right_zero, 'tree': level[0]}
  return {'stat_kind': kind, 'K': int(np.prod(shape, dtype=np.int64)), 'uncovered': st['uncovered'],
          'forms': {k: _stat_fields(v, shape) for k, v in forms.items()},
          'singles': [_stat_fields(x, shape) for x in ss],
          'vmapped': [rows[i] for i in case['rows']],
          'batches': [{'rows': [i], 'mask': [True]} for i in case['rows']],
          'rows': {str(i): rows[i] for i in case['rows']}}


def _run_evaluator_config(cfg):
  import jax
  import fedjax
  from fedjax.core import models
  st = _setup()
  key = json.dumps(['evaluator', cfg['pool_seed'], cfg['backend'], cfg['calls'], cfg['model']], sort_keys=True)
  if key in st['memo']:
    return st['memo'][key]
  ps = pool_stats(cfg['pool_seed'])
  pool = ps['pool']
  which = cfg['model']
  model, grid = st['model'][which], st['grid'][which]
  out = []
  with fedjax.for_each_client_backend(cfg['backend']):
    ev = models.ModelEvaluator(model)          # one evaluator object for all the calls
    for ci, call in enumerate(cfg['calls']):
      feeds = [[_mk_batch(pool, b) for b in client] for client in call['clients']]
      ids = [b'call%d-client%d' % (ci, i) for i in range(len(feeds))]
      if call['mode'] == 'global':
        got = dict(ev.evaluate_global_params({'p': np.zeros(2, np.float32)}, list(zip(ids, feeds))))
      else:
        got = dict(ev.evaluate_per_client_params(
            [(cid, f, {'p': np.full(2, i, np.float32)}) for i, (cid, f) in enumerate(zip(ids, feeds))]))
      got = jax.block_until_ready(got)
      if set(got) != set(ids):
        raise AssertionError('ModelEvaluator did not yield exactly one result per client')
      out.append([{name: _flat_result(got[cid][name], ps[name][1])[0] for name in grid} for cid in ids])
  st['memo'] = {key: out}
  return out


def _run_evaluator(case):
  st = _setup()
  cfg = {k: case[k] for k in ('pool_seed', 'backend', 'calls', 'model')}
  full = _run_evaluator_config(cfg)
  ps = pool_stats(case['pool_seed'])
  kind, shape, rows = ps[case['metric']]
  results = [[[_fin(v) for v in client[case['metric']]] for client in call] for call in full]
  ci, cl = case['observe']
  batches = case['calls'][ci]['clients'][cl]
  used = {i for call in case['calls'] for client in call['clients'] for b in client for i in b['rows']}
  return {'stat_kind': kind, 'K': int(np.prod(shape, dtype=np.int64)), 'uncovered': st['uncovered'],
          'results': results, 'batches': batches, 'result': results[ci][cl], 'stat': None,
          'n_real': sum(1 for b in batches for m in (b['mask'] or [True] * len(b['rows'])) if m),
          'rows': {str(i): rows[i] for i in used}}


def run(case):
  if case['kind'] == 'stat':
    return _run_stat(case)
  if case['kind'] == 'algebra':
    return _run_algebra(case)
  if case['kind'] == 'evaluator':
    return _run_evaluator(case)
  st = _setup()
  cfg = {k: case[k] for k in ('pool_seed', 'api', 'batches', 'model')}
  full = _run_config(cfg)
  e = full['metrics'][case['metric']]
  ps = pool_stats(case['pool_seed'])
  kind, shape, rows = ps[case['metric']]
  enc = lambda xs: None if xs is None else [_fin(v) for v in xs]
  return {'batches': full['batches'], 'n_real': full['n_real'], 'extra_ok': full['extra_ok'], 'uncovered': st['uncovered'],
          'stat_kind': kind, 'K': int(np.prod(shape, dtype=np.int64)), 'broadcast': e['broadcast'],
          'result': enc(e['result']), 'stat': enc(e['stat']), 'ref': enc(e['ref']),
          'rows': {str(i): rows[i] for b in full['batches'] for i in b['rows']}}


# ---------------------------------------------------------------------------

def _value_kind(case):
  st = _setup()
  return st['grid'][case['model']][case['metric']][1]


def oracle(case, obs):
  out = []
  if case['kind'] == 'stat':
    return _stat_oracle(case, obs)
  if case['kind'] == 'algebra':
    return _algebra_oracle(case, obs)
  if case['kind'] == 'evaluator':
    return _evaluator_oracle(case, obs)
  if obs['uncovered']:
    out.append(('uncovered-metric', 'built-in metric classes without a harness entry: ' + ', '.join(obs['uncovered'])))
  if not obs['extra_ok']:
    out.append(('empty-client-nonzero', 'a client without batches did not yield the zero result, or results are missing'))
  res, ref = obs['result'], obs['ref']
  name = case['metric']
  tol = float(TOL_CE if _value_kind(case) == 'ce' else TOL_INT) * 4
  real_finite = all(_row_finite(obs['rows'][str(r)]) for b in obs['batches']
                    for r, m in zip(b['rows'], b['mask'] or [True] * len(b['rows'])) if m)
  if obs['n_real'] == 0:
    if any(v is None for v in res):
      out.append(('empty-nan', f'{name}: empty / fully masked input gives a NaN / Inf result'))
    elif any(v != 0 for v in res):
      out.append(('empty-nonzero', f'{name}: empty / fully masked input gives a non-zero result'))
  if real_finite and any(v is None for v in res):
    out.append(('masked-leak-nan', f'{name}: finite real examples but a NaN / Inf result (a masked row leaked?)'))
  if real_finite:
    # independent reference: the definition sum(accum_i) / sum(weight_i) (0 when the weights sum to 0), resp. sum(accum_i)
    reals = [obs['rows'][str(r)] for b in obs['batches']
             for r, m in zip(b['rows'], b['mask'] or [True] * len(b['rows'])) if m]
    for i in range(obs['K']):
      if obs['stat_kind'] == 'mean':
        sa, sw = sum(r[i][0] for r in reals), sum(r[i][1] for r in reals)
        want = sa / sw if sw != 0 else 0.0
      else:
        want = sum(r[i] for r in reals)
      if res[i] is None or abs(res[i] - want) > tol * (1 + abs(want)):
        out.append(('not-sum-of-fields', f'{name}: entry {i} is {res[i]}, the single-example statistics give {want}'))
        break
  if ref is not None:
    bad = [i for i, (a, b) in enumerate(zip(res, ref))
           if (a is None) != (b is None) or (a is not None and abs(a - b) > tol * (1 + abs(b)))]
    if bad:
      out.append(('not-fold-of-examples', f'{name}: result differs from merging the single-example statistics one by one '
                  f'(entry {bad[0]}: {res[bad[0]]} vs {ref[bad[0]]})'))
  return out


def _evaluator_oracle(case, obs):
  """Every client of every call on the same ModelEvaluator gets the result of ITS OWN examples folded
  from zero (independent reference: sum(accum)/sum(weight) resp. sum(accum) of its real rows); a
  client without real rows gets 0."""
  out = []
  name = case['metric']
  tol = float(TOL_CE if _value_kind(case) == 'ce' else TOL_INT) * 4
  for ci, call in enumerate(case['calls']):
    for cl, client in enumerate(call['clients']):
      res = obs['results'][ci][cl]
      reals = [obs['rows'][str(r)] for b in client for r, m in zip(b['rows'], b['mask'] or [True] * len(b['rows'])) if m]
      where = f'{name}: {case["backend"]} backend, call {ci} ({call["mode"]}), client {cl} of {len(call["clients"])}'
      if not all(_row_finite(r) for r in reals):
        continue
      for i in range(obs['K']):
        if obs['stat_kind'] == 'mean':
          sa, sw = sum(r[i][0] for r in reals), sum(r[i][1] for r in reals)
          want = sa / sw if sw != 0 else 0.0
        else:
          want = sum(r[i] for r in reals)
        if res[i] is None or abs(res[i] - want) > tol * (1 + abs(want)):
          key = 'evaluator-empty-client-nonzero' if not reals else 'evaluator-client-not-own-fold'
          out.append((key, f'{where}: entry {i} is {res[i]}, its own examples give {want}'))
          break
  return out


def _algebra_oracle(case, obs):
  """The monoid laws on the implementation's own single-example statistics, merged directly
  with each other: associativity, commutativity, zero identity on both sides, every fold shape
  against the left fold from zero(), and "merge adds the fields"; through result() and through
  the raw fields (values promoted to float64)."""
  out = []
  name = case['metric']
  tol = float(TOL_CE if _value_kind(case) == 'ce' else TOL_INT) * 4
  f = obs['forms']

  def differ(x, y):
    for fld in ('result', 'accum', 'weight'):
      if fld not in x:
        continue
      for i, (p, q) in enumerate(zip(x[fld], y[fld])):
        if (p is None) != (q is None) or (p is not None and abs(p - q) > tol * (1 + abs(q))):
          return f'{fld}[{i}]: {p} vs {q} (dtypes {x["dtypes"]} / {y["dtypes"]})'
      if len(x[fld]) != len(y[fld]):
        return f'{fld}: different number of entries'
    return None
  laws = [('merge-not-associative', 'ab_c', 'a_bc', '(a.merge(b)).merge(c) differs from a.merge(b.merge(c))'),
          ('merge-not-commutative', 'ab', 'ba', 'a.merge(b) differs from b.merge(a)'),
          ('zero-not-left-identity', 'za', 'a', 'zero().merge(a) differs from a'),
          ('zero-not-right-identity', 'az', 'a', 'a.merge(zero()) differs from a'),
          ('zero-not-idempotent', 'zz', 'z', 'zero().merge(zero()) differs from zero()'),
          ('fold-shape', 'left_nozero', 'left', 'left fold without zero() differs from the left fold from zero()'),
          ('fold-shape', 'right', 'left', 'right fold differs from the left fold from zero()'),
          ('fold-shape', 'right_zero', 'left', 'right fold ending in zero() differs from the left fold from zero()'),
          ('fold-shape', 'tree', 'left', 'balanced-tree fold differs from the left fold from zero()')]
  for key, x, y, what in laws:
    d = differ(f[x], f[y])
    if d:
      out.append((key, f'{name}: {what}: {d}'))
  # merge adds the fields of the single-example statistics (they are in the Stat's domain)
  singles = obs['singles']
  for fld in ('accum', 'weight'):
    if fld in f['left'] and all(v is not None for s_ in singles for v in s_[fld]):
      want = [sum(s_[fld][i] for s_ in singles) for i in range(len(f['left'][fld]))]
      for form in ('left', 'left_nozero', 'right', 'tree'):
        got = f[form][fld]
        if any(g is None or abs(g - w) > tol * (1 + abs(w)) for g, w in zip(got, want)):
          out.append(('merge-not-sum-of-fields', f'{name}: {form} fold has {fld} {got}, the single-example {fld}s sum to {want}'))
          break
  # evaluate_example under vmap (what evaluate_batch uses) gives the same statistic as the direct call
  for s_, v in zip(singles, obs['vmapped']):
    flat = [x for e in v for x in (e if isinstance(e, (list, tuple)) else [e])]
    mine = [x for p in zip(s_['accum'], s_['weight']) for x in p] if 'weight' in s_ else s_['accum']
    if any((p is None) != (not math.isfinite(q)) or (p is not None and abs(p - q) > tol * (1 + abs(q))) for p, q in zip(mine, flat)):
      out.append(('vmap-differs', f'{name}: vmap(evaluate_example) row differs from evaluate_example'))
      break
  return out


def _row_finite(row):
  return all(math.isfinite(v) for e in row for v in (e if isinstance(e, (list, tuple)) else [e]))


def _stat_oracle(case, obs):
  """MeanStat / SumStat laws on finite arguments, straight from the docstrings."""
  out = []
  op, args = case['op'], case['args']
  flat = [x for a in args for x in (a if isinstance(a, list) else [a])]
  if any(isinstance(x, str) for x in flat):
    return out
  close = lambda a, b: a is not None and abs(a - b) <= 1e-6 * (1 + abs(b))
  if op == 'new':
    a, w = args
    want = [a, w] if w > 0 else [0.0, 0.0]
    if not all(close(x, y) for x, y in zip(obs['stat'], want)):
      out.append(('new-sanitise', f'MeanStat.new({a}, {w}) = {obs["stat"]}, expected {want}'))
  elif op in ('result', 'safe_div'):
    a, w = args
    want = a / w if w != 0 else 0.0
    if not close(obs['result'][0], want):
      out.append(('safe-div', f'{op}({a}, {w}) = {obs["result"][0]}, expected {want}'))
  elif op in ('merge', 'reduce'):
    if op == 'merge':
      pairs = [(args[0], args[1]), (args[2], args[3])]
    else:
      pairs = list(zip(args[0], args[1]))
    in_domain = all((a == 0 and w == 0) or w > 0 for a, w in pairs)
    if in_domain:
      sa, sw = sum(a for a, _ in pairs), sum(w for _, w in pairs)
      if not (close(obs['stat'][0], sa) and close(obs['stat'][1], sw) and close(obs['result'][0], sa / sw if sw else 0.0)):
        out.append(('merge-adds', f'{op} of in-domain statistics {pairs} = {obs["stat"]} -> {obs["result"]}'))
  elif op in ('sum_merge', 'sum_reduce'):
    want = sum(args[0]) if op == 'sum_reduce' else args[0] + args[1]
    if not close(obs['result'][0], want):
      out.append(('sum-adds', f'{op}{args} = {obs["result"]}'))
  return out


# ---------------------------------------------------------------------------

def _nq(v):
  if v is None or (isinstance(v, float) and not math.isfinite(v)):
    return 'None'
  return f'(Some {fw.qlit(float(v))})'


def _nql(vs):
  return '[' + '; '.join(_nq(v) for v in vs) + ']'


def encode(case, obs):
  if case['kind'] == 'stat':
    a = case['args']
    f = lambda x: _nq(float(np.float32(_val(x))))
    op = case['op']
    if op == 'new':
      c = f'CNew {f(a[0])} {f(a[1])}'
    elif op == 'result':
      c = f'CResult {f(a[0])} {f(a[1])}'
    elif op == 'safe_div':
      c = f'CSafeDiv {f(a[0])} {f(a[1])}'
    elif op == 'merge':
      c = 'CMerge ' + ' '.join(f(x) for x in a)
    elif op == 'reduce':
      c = f'CReduce [{"; ".join(f(x) for x in a[0])}] [{"; ".join(f(x) for x in a[1])}]'
    elif op == 'sum_merge':
      c = f'CSumMerge {f(a[0])} {f(a[1])}'
    else:
      c = f'CSumReduce [{"; ".join(f(x) for x in a[0])}]'
    st = 'None' if obs['stat'] is None else f'(Some {_nql(obs["stat"])})'
    return f'(({c})%Q, mkO05 {fw.qlit(TOL_INT)} {_nql(obs["result"])}%Q {st}%Q)'
  if case['kind'] == 'algebra':
    obs = {**obs, 'result': obs['forms']['left']['result'], 'stat': None}
    case = {**case, 'api': 'evaluate_model'}
  if case['kind'] == 'evaluator':
    case = {**case, 'api': 'evaluator_global'}
  api = case['api']
  capi = {'evaluate_model': 'ApiModel', 'evaluator_global': 'ApiEvaluator', 'evaluator_per_client': 'ApiEvaluator',
          'evaluate_batch': 'ApiBatch', 'evaluate_batch_nomask': 'ApiBatch'}[api]
  mean = obs['stat_kind'] == 'mean'

  def row(i):
    r = obs['rows'][str(i)]
    if mean:
      return '[' + '; '.join(f'({_nq(a)}, {_nq(w)})' for a, w in r) + ']'
    return _nql(r)
  bs = []
  for b in obs['batches']:
    mask = 'None' if b['mask'] is None else f'(Some {fw.blist(b["mask"])})'
    bs.append(f'({mask}, [' + '; '.join(row(i) for i in b['rows']) + '])')
  c = f'{"CMean" if mean else "CSum"} {capi} {obs["K"]}%nat [' + '; '.join(bs) + ']'
  tol = TOL_CE if _value_kind(case) == 'ce' else TOL_INT
  st = 'None' if obs['stat'] is None else f'(Some {_nql(obs["stat"])})'
  return f'(({c})%Q, mkO05 {fw.qlit(tol)} {_nql(obs["result"])}%Q {st}%Q)'


def nontrivial(case, obs):
  if case['kind'] == 'stat':
    return case['op'] in ('merge', 'reduce')
  if case['kind'] == 'algebra':
    return True
  if case['kind'] == 'evaluator':
    return True
  nb = sum(1 for b in obs['batches'] if any(b['mask'] or [True]))
  masked = any(not m for b in obs['batches'] for m in (b['mask'] or []))
  return (obs['n_real'] >= 2 and nb >= 2) or masked


def describe(case, obs):
  if case['kind'] == 'stat':
    return {'kind': 'stat-' + case['op']}
  if case['kind'] == 'evaluator':
    return {'kind': 'evaluator', 'backend': case['backend'], 'calls': len(case['calls']),
            'observed_client': 'no-real-rows' if obs['n_real'] == 0 else 'has-real-rows', 'metric': case['metric']}
  if case['kind'] == 'algebra':
    return {'kind': 'algebra', 'metric': case['metric'], 'field_dtypes': '/'.join(obs['singles'][0]['dtypes'])}
  bs = obs['batches']
  return {'kind': 'eval', 'api': case['api'], 'metric': case['metric'],
          'source': 'explicit' if isinstance(case['batches'], list) else list(case['batches'])[0],
          'batches': min(len(bs), 6), 'real_rows': 'none' if obs['n_real'] == 0 else '1-3' if obs['n_real'] < 4 else '4+',
          'masked_rows': 'none' if not any(not m for b in bs for m in (b['mask'] or [])) else 'some',
          'mask_key': 'absent' if any(b['mask'] is None for b in bs) else 'present',
          'zero_result_broadcast': obs['broadcast']}


def shrink(case):
  if case['kind'] == 'algebra' and len(case['rows']) > 3:
    for i in range(len(case['rows'])):
      yield {**case, 'rows': case['rows'][:i] + case['rows'][i + 1:]}
  if case['kind'] == 'evaluator':
    calls = case['calls']
    for i in range(len(calls)):
      if len(calls) > 1:
        yield {**case, 'calls': calls[:i] + calls[i + 1:], 'observe': [0, 0]}
    for i, call in enumerate(calls):
      for j in range(len(call['clients'])):
        if len(call['clients']) > 1:
          nc = {**call, 'clients': call['clients'][:j] + call['clients'][j + 1:]}
          yield {**case, 'calls': calls[:i] + [nc] + calls[i + 1:], 'observe': [0, 0]}
        if len(call['clients'][j]) > 1:
          for k in range(len(call['clients'][j])):
            nb = call['clients'][j][:k] + call['clients'][j][k + 1:]
            nc = {**call, 'clients': call['clients'][:j] + [nb] + call['clients'][j + 1:]}
            yield {**case, 'calls': calls[:i] + [nc] + calls[i + 1:], 'observe': [0, 0]}
    return
  if case['kind'] != 'eval' or not isinstance(case['batches'], list):
    return
  bs = case['batches']
  for i in range(len(bs)):
    yield {**case, 'batches': bs[:i] + bs[i + 1:]}
  for i, b in enumerate(bs):
    if len(b['rows']) > 1 and case['api'] not in ('evaluate_batch', 'evaluate_batch_nomask'):
      for size in (1, 2):
        if size < len(b['rows']):
          nb = {'rows': b['rows'][:size], 'mask': None if b['mask'] is None else b['mask'][:size]}
          yield {**case, 'batches': bs[:i] + [nb] + bs[i + 1:]}
