"""C12 harness: the REAL fed_prox / hyp_cluster / mime_lite / mime / apfl run side by
side with the REAL fed_avg for 3 rounds on the same populations, keys and seeds
(oracle = that differential + the float64 definition), and each algorithm's Gallina
round skeleton against its implementation (encode)."""
import json

import numpy as np

from lib import fw
from lib import fedsim as fs

PROP = 'C12'
COQ_HEADER = 'From FV Require Import Common.QVec Model.C01_Model Model.C12_Model.\nLocal Open Scope Q_scope.'
COQ_AGREE = 'C12_agree'
COQ_MODEL_TARGETS = ['Model/C12_Model']
CASE_TIMEOUT = 180
TOL = 3e-4
GBS = 4   # batch size of the padded (evaluation / full-gradient) passes
RULE = ('for each reduction (fedprox mu=0, fedprox mu>0 vs FedAvg on the augmented loss, hypcluster 1 cluster, '
        'mimelite sgd/lr 1, mime sgd one step vs full-batch step, apfl global with key-free loss) and each '
        'non-degenerate skeleton (mimelite lr!=1 / momentum base, mime several steps, apfl key-dependent loss): '
        'optimizer / batching configurations x populations of 0..6 clients with 0..9 examples x 3 rounds; '
        'non-trivial = some round saw an example; distinct = distinct case JSON')
TRUSTED = ['XLA float32 numerics (tolerance %g, compared inside Coq on exact rationals; float reassociation between two real algorithms)' % TOL,
           'jax.grad is the gradient: the FedProx objective has gradient grad(loss) + mu*(w - w_server) (stated as a definition in the model)',
           'jax.random split/randint evaluate the key-path rule of each skeleton (nu values are model inputs)',
           'shuffle_repeat_batch / padded_batch streams are recorded from the real implementation (C03 / C04)']
ASSUMPTIONS = ['client ids within a round are distinct',
               'client optimizer / gradient / server optimizer respect == on Q and preserve lengths (proved for the evaluated instance)',
               'HypCluster: a round that saw no example skips the server optimizer, FedAvg applies it to the zero vector; '
               'equal when some example was seen or the server optimizer maps a zero gradient to an unchanged state',
               'Mime single step: every client with examples yields exactly one training batch (num_steps=1)']
PARTIAL = ['HypCluster with >1 clusters and the personalised part of APFL are modelled but not corresponded (outside the property)',
           'MimeLite client_delta_clip_norm is not modelled (None in every reduction)',
           'agnostic_fed_avg has no reduction named by the property; not modelled']

SGD = lambda lr, mom=None, nest=False: {'kind': 'sgd', 'lr': lr, 'mom': mom, 'nest': nest}
COPTS = [SGD(0.125), SGD(0.25, 0.5), SGD(0.125, 0.5, True), SGD(0.0625)]
SOPTS = [SGD(1.0), SGD(0.5), SGD(1.0, 0.5), SGD(0.5, 0.5, True)]
HPS = [(2, 1, None, False), (3, 2, None, True), (4, None, 3, False), (1, 1, 2, False), (5, 1, None, False),
       (2, None, 1, False), (3, 1, None, True), (4, 2, 3, False)]
SIZES = [[3], [0, 4], [1, 2, 3], [5, 0, 2, 9], [4, 4, 4, 4, 4, 4], [7, 1, 0, 3, 6, 2], [2, 2], [9, 8, 1], [1, 0, 0, 1], [0, 0], [0]]
KINDS = ['fedprox0', 'fedprox', 'hypcluster', 'mimelite1', 'mime1', 'apfl', 'mimelite_gen', 'mime_gen', 'apfl_noise']


def _hp(t, seed):
  return {'bs': t[0], 'epochs': t[1], 'steps': t[2], 'drop': t[3], 'seed': seed}


def _homogeneous(forms):
  """Ids of ONE type per cohort: hyp_cluster passes an id-keyed dict through jax.jit, whose pytree flattening sorts the
  keys, so ids of a cohort must be mutually comparable (None mixed with ints is not; fed_avg accepts it, see C01)."""
  if forms['ids'] == 'none0':
    forms = dict(forms, ids='negint')
  return forms


def _case(rng, kind, sizes, nrounds=3):
  pop = fs.gen_population(rng, sizes)
  ids = sorted(pop)
  rounds = []
  for _ in range(nrounds):
    k = rng.randint(0, len(ids)) if rng.random() < 0.35 else len(ids)   # 0 = a round without clients
    rounds.append([[c, rng.randint(0, 50)] for c in rng.sample(ids, k)])
  c = {'kind': kind, 'copt': rng.choice(COPTS), 'sopt': rng.choice(SOPTS), 'hp': _hp(rng.choice(HPS), rng.randint(0, 9)),
       'noise': rng.random() < 0.8, 'mu': 0.0, 'slr': 1.0, 'coef': 0.5,
       # L2 regularizer weight where the algorithm's API takes one (fed_prox does not); 0 = regularizer=None
       'reg': 0.0 if kind in ('fedprox0', 'fedprox') or rng.random() < 0.4 else rng.choice([0.125, 0.25, 0.5]),
       'init': [rng.randint(-4, 4) / 4 for _ in range(fs.D)], 'pop': pop, 'rounds': rounds,
       'forms': _homogeneous(fs.gen_forms(rng)) if rng.random() < 0.4 else dict(fs.FORMS0),
       'xdtype': 'float16' if rng.random() < 0.08 else 'float32', 'backend': 'jit', 'fresh': False}
  if kind == 'fedprox':
    c['mu'] = rng.choice([0.25, 0.5, 1.0])
  if kind in ('mimelite1', 'mime1'):
    c['copt'] = SGD(rng.choice([0.125, 0.25, 0.0625]))
  if kind == 'mimelite_gen':
    c['slr'] = rng.choice([0.5, 2.0, 1.0])
  if kind in ('mime1', 'mime_gen'):
    c['slr'] = rng.choice([0.5, 1.0, 2.0])
  if kind == 'mime1':
    c['hp'] = _hp((rng.choice([1, 2, 3, 5]), None, 1, False), rng.randint(0, 9))
  if kind == 'apfl':
    c['noise'] = False
  if kind == 'apfl_noise':
    c['noise'] = True
  return c


def generate(tier, rng):
  if tier != 'search':
    fs.prestart('c12', ['pmap3', 'rbg', 'hash1'] + ([] if tier == 'quick' else ['tfp0', 'tfp1', 'x64', 'rankraise', 'hash2']))
  reps = {'quick': 1, 'thorough': 46, 'search': 100}[tier]
  again = []
  # Every algorithm instance of the process is built from the SAME per_example_loss / grad function objects
  # (fedsim.per_example_loss, fedsim.shared_grad).  Hidden module-level or closure state keyed on them would leak
  # hyper-parameters between instances: build each family with a NON-degenerate value first, then the degenerate one,
  # then another value, and re-run the first-built objects at the very end.
  for kind, vals in (('fedprox', [0.5, 0.0, 0.25]), ('mimelite_gen', [2.0, 1.0, 0.5]), ('mime_gen', [0.5, 1.0, 2.0])):
    for noise in ((True,) if tier == 'quick' else (True, False)):
      for v in (vals if tier != 'quick' or kind == 'fedprox' else vals[:2]):
        c = _case(rng, kind, [3, 5, 2])
        c['noise'], c['copt'], c['sopt'], c['hp'] = noise, SGD(0.125), SGD(1.0), _hp(HPS[0], 3)
        if kind == 'fedprox':
          c['mu'] = v
          c['kind'] = 'fedprox' if v else 'fedprox0'
        else:
          c['slr'] = v
        yield c
        again.append(c)
  # WAVE3 item 2 (seeded C12-t2): batching seed 0 is a valid seed, not "unset": clients with several batches per epoch so
  # that the shuffle order matters; items 1 / 7: delivery forms, debug backend and the jit backend under disable_jit
  for j, kind in enumerate(KINDS):
    if tier == 'quick' and kind in ('fedprox0', 'mimelite_gen', 'mime_gen', 'apfl_noise'):
      continue
    c = _case(rng, kind, [7, 5, 9])
    c['hp'] = _hp((2, None, 1, False) if kind == 'mime1' else (2, 2, None, False), 0)
    c['rounds'] = [[['0', 0], ['1', 1], ['2', 2]], [['2', 3], ['0', 0]], [['1', 5], ['0', 7], ['2', 0]]]
    c['forms'] = {'clients': ['tuple', 'list'][j % 2], 'ids': ['int', 'str', 'bytes'][j % 3], 'init': ['numpy', 'jax'][j % 2], 'key': ['numpy', 'jax'][(j // 2) % 2]}
    c['fresh'] = j % 4 == 0
    yield c
  for j, kind in enumerate(('fedprox0', 'hypcluster', 'mime1', 'apfl', 'mimelite1')):
    c = _case(rng, kind, [3, 2])
    c['rounds'] = [[['0', 0], ['1', 1]], [['1', 2]]]
    c['hp'] = _hp((2, None, 1, False) if kind == 'mime1' else (2, 1, None, False), 0)
    c['backend'] = ['debug', 'nojit'][j % 2]
    yield c
  # WAVE4 item 5 (seeded C12-v2): every algorithm under the pmap backend (it re-orders clients by decreasing number of
  # batches) with client sizes that are NOT sorted and differ; item 7: ids not presented in sorted order; the FedAvg
  # counterpart stays on the default backend.  pmap with 3 devices runs in a subprocess.
  for j, kind in enumerate(KINDS):
    for backend in (['pmap', 'debug'] if tier == 'quick' else ['pmap', 'debug', 'pmap3']):
      if tier == 'quick' and ((backend == 'debug' and j != 2) or (backend == 'pmap' and kind in ('apfl_noise', 'mimelite_gen', 'fedprox'))):
        continue
      c = _case(rng, kind, [3, 9, 5, 0, 7])
      c['hp'] = _hp((2, None, 1, False) if kind == 'mime1' else (2, 1, None, False), rng.randint(0, 9))
      c['rounds'] = [[['2', 1], ['0', 2], ['1', 3], ['4', 4]], [['4', 5], ['3', 6], ['1', 7]]]
      c['backend'] = backend
      yield c
  for kind in (('fedprox',) if tier == 'quick' else ()):
    c = _case(rng, kind, [3, 9, 5, 7])
    c['hp'] = _hp((2, 1, None, False), 2)
    c['rounds'] = [[['2', 1], ['0', 2], ['1', 3], ['3', 4]], [['3', 5], ['1', 7]]]
    c['backend'] = 'pmap3'
    yield c
  # WAVE4 items 1-4, 6 on the reductions: chained optax transforms as optimizers, sentinel-like ids and two-leaf params,
  # magnitude sweep (data scale 2**e with the client learning rate 2**-2e), a +inf feature on a real example,
  # a global jax flag (one subprocess per setting)
  CLIP = {'kind': 'clipsgd', 'lr': 0.25, 'clip': 0.125}
  for j, kind in enumerate(('fedprox0', 'hypcluster', 'apfl', 'fedprox', 'mimelite1', 'mime1')):
    base_hp = _hp((2, None, 1, False) if kind == 'mime1' else (2, 1, None, False), 3)
    if kind in ('fedprox0', 'hypcluster', 'apfl', 'fedprox') and (tier != 'quick' or j < 2):
      c = _case(rng, kind, [5, 2, 7])
      c['copt'], c['sopt'], c['hp'], c['reg'] = CLIP, dict(CLIP, lr=1.0), base_hp, 0.0
      yield c
    c = _case(rng, kind, [3, 9, 5, 0])
    c['hp'] = base_hp
    c['forms'] = {'clients': 'list', 'ids': ['negint', 'int'][j % 2], 'init': 'jax', 'key': 'jax', 'leaves': 2}
    c['backend'] = ['pmap', 'jit'][j % 2]
    yield c
    if tier == 'quick' and j % 2:
      continue
    e = [-20, 10, 20, -10, 10, -20][j]
    c = _case(rng, kind, [4, 6, 3])
    c['scale'], c['noise'], c['hp'], c['reg'], c['xdtype'] = e, False, base_hp, 0.0, 'float32'   # 2**20 overflows float16
    c['copt'] = SGD(0.125 * 2.0 ** (-2 * e))
    if kind == 'fedprox':
      c['mu'] = 0.5 * 2.0 ** (2 * e)          # the penalty gradient mu*(w - w_s) scales like the data term
    yield c
    if tier == 'quick' and kind in ('apfl', 'fedprox'):
      continue
    c = _case(rng, kind, [4, 6, 0])
    c['noise'], c['hp'], c['poison'] = False, base_hp, ['1', 2]
    c['rounds'] = [[['0', 1], ['2', 2]], [['1', 3], ['0', 4]], [['0', 5]]]
    yield c
  # WAVE5 items 1 / 6 / 4: memory layouts of the dataset arrays and numpy params, params in tuple / NamedTuple / list /
  # nested dict / haiku FlatMap containers (result must keep the container), a second interpreter with another PYTHONHASHSEED
  for j, kind in enumerate(('fedprox', 'hypcluster', 'mimelite1', 'mime1', 'apfl', 'fedprox0')):
    c = _case(rng, kind, [5, 3, 0, 4])
    c['hp'] = _hp((2, None, 1, False) if kind == 'mime1' else (2, 1, None, False), 1 + j)
    c['layout'] = fs.LAYOUTS[1 + j]
    c['forms'] = {'clients': 'tuple', 'ids': 'str', 'init': ['numpy_ro', 'numpy_nc', 'jax'][j % 3], 'key': 'jax',
                  'leaves': ['tuple', 'named', 'list', 'nested', 'flatmap', 2][j]}
    c['backend'] = ['jit', 'pmap'][j % 2]
    yield c
  for kind, ids in (('hypcluster', 'bytes'), ('mime_gen', 'str')) if tier == 'quick' else [(k, i) for k in KINDS for i in ('bytes', 'str')]:
    c = _case(rng, kind, [4, 2, 6, 0])
    c['forms'] = {'clients': 'list', 'ids': ids, 'init': 'jax', 'key': 'jax', 'leaves': 1}
    c['hashcheck'] = 'hash1'
    yield c
  for flag in (['rbg'] if tier == 'quick' else ['rbg', 'tfp0', 'tfp1', 'x64', 'rankraise']):
    for kind in (('hypcluster', 'apfl_noise') if tier == 'quick' else KINDS):
      c = _case(rng, kind, [4, 2, 6, 0])
      c['hp'] = _hp((2, None, 1, False) if kind == 'mime1' else (2, 1, None, False), 4)
      c['noise'] = kind != 'apfl'
      c['flags'] = flag
      yield c
  # round-6 seed C01-x1: batches spanning more than one extra pass over a small dataset (batch_size 2N+1, 3N, 3N+1)
  for j, (kind, n, bs) in enumerate((('fedprox0', 2, 5), ('hypcluster', 3, 9), ('mimelite1', 2, 7), ('apfl', 3, 10), ('fedprox', 5, 11), ('mime_gen', 4, 12))):
    c = _case(rng, kind, [n, 0, n + 1])
    c['hp'] = _hp((bs, 2, None, False) if j % 2 else (bs, None, 3, False), j)
    c['rounds'] = [[['2', 1], ['0', 2], ['1', 3]], [['0', 4], ['2', 5]]]
    yield c
  # corners: a round without examples in the middle of a run, a round without clients, per kind
  for kind in KINDS:
    c = _case(rng, kind, [3, 0, 0, 4])
    c['rounds'] = [[['0', 1], ['1', 2]], [['1', 3], ['2', 4]], [['2', 5], ['3', 6], ['0', 7]]]
    if kind not in ('fedprox0', 'fedprox'):
      c['reg'] = 0.25                   # regularised objective
    # WAVE5 item 5: the round AFTER a round without examples, with a STATEFUL server / base optimizer, for every algorithm
    c['sopt'] = SGD(1.0, 0.5)
    if kind in ('mime_gen', 'mimelite_gen'):
      c['copt'] = SGD(0.125, 0.5)
    yield c
    again.append(c)
    # a single client that is the whole population, one batch holding its whole dataset, applied three times
    if not (tier == 'quick' and kind in ('fedprox0', 'apfl_noise', 'mimelite_gen', 'mime1')):
      c = _case(rng, kind, [4])
      c['hp'] = _hp((4, None, 1, False) if kind == 'mime1' else (4, 1, None, False), 2)
      c['rounds'] = [[['0', 1]], [['0', 2]], [['0', 3]]]
      c['sopt'] = SGD(0.5, 0.5)
      yield c
    if tier == 'quick' and kind in ('fedprox', 'apfl', 'apfl_noise', 'mimelite1'):
      continue
    c = _case(rng, kind, [2, 5])        # a round without clients in the middle of a run
    c['rounds'] = [[['0', 1], ['1', 2]], [], [['1', 5], ['0', 7]]]
    if kind in ('mime_gen', 'mimelite_gen'):
      c['copt'] = SGD(0.25, 0.5)        # a stateful base optimizer: its state after the empty round matters later
    yield c
  for i in range(reps):
    for kind in KINDS:
      sizes = rng.choice(SIZES) if rng.random() < 0.6 else [rng.randint(0, 9) for _ in range(rng.randint(1, 6))]
      yield _case(rng, kind, sizes)
  # the first-built algorithm objects again, after all the others exist (run on fresh populations)
  for c in again[:(4 if tier == 'quick' else 8)]:
    c2 = _case(rng, c['kind'], [4, 1, 3])
    for k in ('copt', 'sopt', 'hp', 'noise', 'mu', 'slr', 'coef', 'reg', 'kind'):
      c2[k] = c[k]
    c2['forms'], c2['xdtype'], c2['backend'] = dict(fs.FORMS0), 'float32', 'jit'
    yield c2


# ----------------------------------------------------------------------------
# the real algorithms

_ALGS = {}


def _cached(key, build):
  k = json.dumps(key, sort_keys=True)
  if k not in _ALGS:
    if len(_ALGS) > 300:
      _ALGS.clear()
    _ALGS[k] = build()
  return _ALGS[k]


_AUG = {}


def per_example_loss_aug(noise, mu):
  """loss + 0.5*mu*|w - ws|^2 with ws (the round's server params) carried by every example (one object per (noise, mu))."""
  if (noise, mu) not in _AUG:
    _AUG[(noise, mu)] = _make_aug(noise, mu)
  return _AUG[(noise, mu)]


def _make_aug(noise, mu):
  import jax.numpy as jnp
  base = fs.per_example_loss(noise)

  def pel(params, batch, rng):
    dw = fs.param_vector(params)[None, :] - batch['ws']
    return base(params, batch, rng) + 0.5 * mu * jnp.sum(dw * dw, axis=1)
  return pel


def _padded_hp():
  import fedjax
  return fedjax.PaddedBatchHParams(batch_size=GBS)


def _algo_a(case):
  import fedjax
  from fedjax.algorithms import fed_prox, hyp_cluster, mime_lite, mime, apfl
  kind = case['kind']
  pel = fs.per_example_loss(case['noise'])
  reg = fs.make_regularizer(case.get('reg', 0.0))
  copt, sopt, hp = fs.make_optimizer(case['copt']), fs.make_optimizer(case['sopt']), fs.hparams(case['hp'])
  if kind in ('fedprox0', 'fedprox'):
    return fed_prox.fed_prox(pel, copt, sopt, hp, case['mu'])
  if kind == 'hypcluster':
    return hyp_cluster.hyp_cluster(pel, copt, sopt, _padded_hp(), hp, regularizer=reg)
  if kind in ('mimelite1', 'mimelite_gen'):
    return mime_lite.mime_lite(pel, copt, hp, _padded_hp(), case['slr'], regularizer=reg)
  if kind in ('mime1', 'mime_gen'):
    return mime.mime(pel, copt, hp, _padded_hp(), case['slr'], regularizer=reg)
  if kind in ('apfl', 'apfl_noise'):
    return apfl.adaptive_personalized_federated_learning(fs.shared_grad(case['noise'], case.get('reg', 0.0)), copt, sopt, hp, case['coef'])
  raise ValueError(kind)


def _algo_b(case):
  """The real FedAvg the reduction names (None when the case has no FedAvg counterpart)."""
  import fedjax
  from fedjax.algorithms import fed_avg
  kind = case['kind']
  hp = fs.hparams(case['hp'])
  reg = fs.make_regularizer(case.get('reg', 0.0))
  if kind in ('fedprox0', 'hypcluster', 'apfl'):
    return fed_avg.federated_averaging(fs.shared_grad(case['noise'], case.get('reg', 0.0)), fs.make_optimizer(case['copt']),
                                       fs.make_optimizer(case['sopt']), hp)
  if kind == 'fedprox':
    return fed_avg.federated_averaging(fedjax.grad(per_example_loss_aug(case['noise'], case['mu'])),
                                       fs.make_optimizer(case['copt']), fs.make_optimizer(case['sopt']), hp)
  if kind == 'mimelite1':
    return fed_avg.federated_averaging(fs.shared_grad(case['noise'], case.get('reg', 0.0)), fs.make_optimizer(case['copt']),
                                       fs.make_optimizer(SGD(1.0)), hp)
  return None


def path_of(kind):
  return fs.PATH_HYPCLUSTER if kind == 'hypcluster' else fs.PATH_APFL if kind.startswith('apfl') else fs.PATH_FEDAVG


def _params_of(kind, state):
  return fs.flat(state.cluster_params[0] if kind == 'hypcluster' else state.params)


def _dataset_ws(data, ws):
  import fedjax
  n = len(data['y'])
  return fedjax.ClientDataset({
      'x': np.asarray(data['x'], dtype=np.float32).reshape(n, fs.D), 'y': np.asarray(data['y'], dtype=np.float32).reshape(n),
      'i': np.arange(n, dtype=np.int32), 'ws': np.tile(np.asarray(ws, dtype=np.float32)[None, :], (n, 1)).reshape(n, fs.D)})


def _build(case, which):
  from fedjax.core import for_each_client as fec
  if which == 'b':          # the FedAvg counterpart always runs on the default (jit) backend
    return _algo_b(case)
  with fec.for_each_client_backend(_backend_of(case)):
    return _algo_a(case)


def _backend_of(case):
  b = case.get('backend', 'jit')
  return {'nojit': 'jit', 'pmap3': 'pmap'}.get(b, b)


def run(case):
  tag = case.get('flags') or ('pmap3' if case.get('backend') == 'pmap3' else None)
  if tag is None and case.get('hashcheck'):
    obs = run_local(case)
    other = fs.run_in_worker('c12', case['hashcheck'], dict(case, hashcheck=None))
    obs['other_process'] = {'a': other.get('a'), 'err': other.get('err_a') or other.get('worker_error')}
    return obs
  if tag is None:
    return run_local(case)
  obs = fs.run_in_worker('c12', tag, case)
  if 'worker_error' in obs:
    obs = {'err_a': 'worker:' + obs['worker_error'], 'err_b': None, 'a': [], 'b': None, 'worker': obs.get('worker')}
  return obs


def _pop(case):
  """The population as the implementation sees it: scaled by 2**scale, optionally with one +inf feature."""
  pop = {c: fs.scaled(d, case.get('scale', 0)) for c, d in case['pop'].items()}
  if case.get('poison'):
    c, i = case['poison']
    pop[c] = {'x': [list(r) for r in pop[c]['x']], 'y': list(pop[c]['y'])}
    pop[c]['x'][i][0] = float('inf')
  return pop


def run_local(case):
  """A (the algorithm) and B (its real FedAvg counterpart) are stepped ALTERNATELY, round by round, in one process
  and from the same loss / grad function objects."""
  import contextlib
  import jax
  kind = case['kind']
  forms = case.get('forms', fs.FORMS0)
  backend = case.get('backend', 'jit')
  cfg = [case[k] for k in ('kind', 'copt', 'sopt', 'hp', 'noise', 'mu', 'slr', 'coef')] + [case.get('reg', 0.0)]
  alg_a = _cached(['a', _backend_of(case)] + cfg, lambda: _build(case, 'a'))
  alg_b = _cached(['b'] + cfg, lambda: _build(case, 'b'))
  pop = _pop(case)
  cds = {c: fs.client_dataset(d, case.get('xdtype', 'float32'), case.get('layout', 'c')) for c, d in pop.items()}
  obs = {'err_a': None, 'err_b': None, 'a': [], 'b': [] if alg_b is not None else None, 'a_trace': [],
         'reinit': None, 'fresh': None, 'caller': []}
  obs['streams'] = {c: fs.record_stream(cds[c], case['hp']) for c in sorted(cds)}
  obs['gstreams'] = {c: [[int(i) for i, m in zip(b['i'], b['__mask__']) if m] for b in cds[c].padded_batch(_padded_hp())]
                     for c in sorted(cds)}
  path = path_of(kind)
  nsteps = {c: max(len(obs['streams'][c]), len(obs['gstreams'][c])) for c in cds}
  obs['nus'] = [[fs.nu_stream(s, nsteps[c], path) if case['noise'] else [0.0] * nsteps[c] for c, s in rnd]
                for rnd in case['rounds']]
  watch = fs.CallerData()
  for c, d in cds.items():
    for f, a in d.raw_examples.items():
      watch.watch(f'dataset {c}.{f}', a)

  def ctx():
    return jax.disable_jit() if backend == 'nojit' else contextlib.nullcontext()

  def clients_a(rnd, w=None):
    cl = [(fs.cid_form(c, forms['ids']), cds[c], fs.make_key(s, forms['key'])) for c, s in rnd]
    cl = tuple(cl) if forms['clients'] == 'tuple' else cl
    if w is not None:
      w.watch_clients('clients', cl)
      for cid, _, k in cl:
        w.watch(f'key of {cid!r}', k)
    return cl

  def init_a(alg):
    w0 = fs.make_params(case['init'], forms['init'], forms.get('leaves', 1))
    return alg.init([w0] if kind == 'hypcluster' else w0)

  def step_a(alg, state, rnd, w=None):
    with ctx():
      state, _ = alg.apply(state, clients_a(rnd, w))
    return state

  def step_b(state, rnd):
    if kind == 'hypcluster':      # the key HypCluster trains with: jax.random.split(rng)[1]
      keys = [jax.random.split(jax.random.PRNGKey(s))[1] for _, s in rnd]
    else:
      keys = [jax.random.PRNGKey(s) for _, s in rnd]
    if kind == 'fedprox':         # the penalty pulls toward THIS round's server params
      ws = fs.flat(state.params)
      data = {c: _dataset_ws(pop[c], ws) for c, _ in rnd}
    else:
      data = cds
    with ctx():
      state, _ = alg_b.apply(state, [(fs.cid_bytes(c), data[c], k) for (c, _), k in zip(rnd, keys)])
    return state

  sa = sb = None
  kept = []
  try:
    sa = init_a(alg_a)
  except Exception as ex:
    obs['err_a'] = fs.err_name(ex)
  if alg_b is not None:
    try:
      sb = alg_b.init(fs.make_params(case['init'], 'jax', forms.get('leaves', 1)))
    except Exception as ex:
      obs['err_b'] = fs.err_name(ex)
  for rnd in case['rounds']:
    if obs['err_a'] is None:
      try:
        watch.watch('input params', fs.first_leaf(sa.cluster_params[0] if kind == 'hypcluster' else sa.params))
        before = sa.cluster_params[0] if kind == 'hypcluster' else sa.params
        sa = step_a(alg_a, sa, rnd, watch)
        if not fs.same_structure(before, sa.cluster_params[0] if kind == 'hypcluster' else sa.params):
          obs['caller'].append('the returned params do not have the tree structure / container type of the input params')
        obs['a'].append(_params_of(kind, sa))
        obs['a_trace'].append(fs.trace_of(sa.opt_states[0] if kind == 'hypcluster' else sa.opt_state))
        kept.append((sa, obs['a'][-1]))
      except Exception as ex:
        obs['err_a'] = fs.err_name(ex)
    if alg_b is not None and obs['err_b'] is None:
      try:
        sb = step_b(sb, rnd)
        obs['b'].append(fs.flat(sb.params))
      except Exception as ex:
        obs['err_b'] = fs.err_name(ex)
  if obs['err_a'] is None:
    try:
      # init() again on the same object, and (flagged cases) a freshly built object: round 0 must repeat
      obs['reinit'] = _params_of(kind, step_a(alg_a, init_a(alg_a), case['rounds'][0]))
      if case.get('fresh'):
        alg2 = _build(case, 'a')
        obs['fresh'] = _params_of(kind, step_a(alg2, init_a(alg2), case['rounds'][0]))
      for r, (st, params) in enumerate(kept):
        try:
          if _params_of(kind, st) != params:
            obs['caller'].append(f'state returned by round {r} changed after later calls')
        except Exception as ex:
          obs['caller'].append(f'state returned by round {r} unusable: {type(ex).__name__}')
      obs['caller'] += watch.check()
    except Exception as ex:
      obs['err_a'] = fs.err_name(ex)
  return obs


# ----------------------------------------------------------------------------
# oracle

def _ref_fedavg_chain(case, obs, prox_mu=None):
  """The float64 FedAvg definition along the whole run (server optimizer from its definition)."""
  p = np.array(case['init'], dtype=np.float64)
  srv = fs.RefOpt(SGD(1.0) if case['kind'] == 'mimelite1' else case['sopt'], fs.D)
  out = []
  for r, rnd in enumerate(case['rounds']):
    pop = _pop(case)
    members = [(len(pop[c]['y']), pop[c], obs['streams'][c], obs['nus'][r][j]) for j, (c, _) in enumerate(rnd)]
    mean, _ = fs.ref_mean_delta(p, members, case['copt'], prox_mu, case.get('reg', 0.0))
    p = srv.apply(mean, p)
    out.append(p.copy())
  return out


def _ref_fullbatch_chain(case, obs):
  """Mime, plain SGD, one local step: p - server_lr * eta * (gradient of the training objective over all examples of
  the cohort) = mean example gradient + the regularizer gradient 2*reg*p, the latter exactly once."""
  p = np.array(case['init'], dtype=np.float64)
  out = []
  for r, rnd in enumerate(case['rounds']):
    acc, tot = np.zeros(fs.D), 0.0
    for j, (c, _) in enumerate(rnd):
      for t, idxs in enumerate(obs['gstreams'][c]):
        acc = acc + len(idxs) * fs.ref_grad(p, _pop(case)[c], idxs, obs['nus'][r][j][t])
        tot += len(idxs)
    g = acc / tot + 2.0 * case.get('reg', 0.0) * p if tot > 0 else np.zeros(fs.D)
    p = p - case['slr'] * case['copt']['lr'] * g
    out.append(p.copy())
  return out


def oracle(case, obs):
  out = []
  kind = case['kind']
  if case.get('backend') == 'pmap3' and (obs.get('worker') or {}).get('devices') != 3:
    out.append(('harness-devices', 'the pmap worker does not have 3 devices'))
  if obs['err_a']:
    return [(f'{kind}-raised:{obs["err_a"]}', f'{kind} raised {obs["err_a"]}')]
  if obs['err_b']:
    return [(f'fedavg-raised:{obs["err_b"]}', f'the FedAvg counterpart of {kind} raised {obs["err_b"]}')]
  if case.get('poison'):
    # a +inf feature on a REAL example of a client with positive weight: the algorithm and its FedAvg counterpart must
    # both report non-finite parameters from the round in which that client trains (same rounds, nothing hidden)
    c = case['poison'][0]
    first = next((r for r, rnd in enumerate(case['rounds']) if any(cc == c for cc, _ in rnd) and obs['streams'][c]), None)
    for r, a in enumerate(obs['a']):
      bad = not fs.finite(a)
      if (first is not None and r >= first) != bad:
        out.append((f'{kind}-non-finite-mismatch', f'round {r}: params {a}; the poisoned client first trains in round {first}'))
      if obs['b'] is not None and r < len(obs['b']) and bad != (not fs.finite(obs['b'][r])):
        out.append((f'{kind}-vs-fedavg', f'round {r}: non-finite in one of {a} / {obs["b"][r]} only'))
    return out
  if any(not fs.finite(p) for p in obs['a']):
    return [(f'{kind}-non-finite', f'{kind}: non-finite server params {obs["a"]}')]
  for what in obs.get('caller', []):
    out.append((f'{kind}-tree-structure' if 'tree structure' in what else f'{kind}-caller-data', what))
  if case.get('hashcheck') and 'other_process' in obs and (obs['other_process']['err'] or json.dumps(obs['other_process']['a']) != json.dumps(obs['a'])):
    out.append((f'{kind}-process-dependent', f'another interpreter (other PYTHONHASHSEED) gives {obs["other_process"]} instead of {obs["a"]}'))
  for k in ('reinit', 'fresh'):
    if obs['a'] and (k == 'reinit' or case.get('fresh')) and (obs.get(k) is None or not fs.close(obs[k], obs['a'][0], 1e-7)):
      out.append((f'{kind}-{k}-differs', f'round 0 repeated from init() {"on a freshly built object" if k == "fresh" else "called again"}: {obs.get(k)} vs {obs["a"][0]}'))
  for c, st in obs.get('streams', {}).items():
    if not fs.stream_content_ok(len(case['pop'][c]['y']), st):
      out.append(('batch-stream-content', f'client {c}: the batches {st} are not consecutive passes over the dataset'))
      break
  if obs['b'] is not None:
    tot = [sum(len(case['pop'][c]['y']) for c, _ in rnd) for rnd in case['rounds']]
    ref = _ref_fedavg_chain(case, obs, case['mu'] if kind == 'fedprox' else None)
    d_impl = next((r for r, (a, b) in enumerate(zip(obs['a'], obs['b'])) if not fs.close(a, b, TOL)), None)
    d_def = next((r for r, (a, w) in enumerate(zip(obs['a'], ref)) if not fs.close(a, w, TOL)), None)
    first_empty = next((r for r, t in enumerate(tot) if t == 0), None)
    if kind == 'hypcluster' and case['sopt'].get('mom') and first_empty is not None and \
        all(d is None or d >= first_empty for d in (d_impl, d_def)) and (d_impl is not None or d_def is not None):
      # the run agrees with FedAvg up to the first round that saw no example and a stateful server optimizer is in use
      out.append(('hypcluster-empty-round-skips-server-optimizer',
                  f'round {first_empty} saw no example: HypCluster keeps (params, opt_state), FedAvg applies the server '
                  f'optimizer (momentum) to the zero mean; from then on {obs["a"]} vs FedAvg {obs["b"]}'))
    else:
      if d_impl is not None:
        out.append((f'{kind}-vs-fedavg', f'round {d_impl}: {kind} params {obs["a"][d_impl]}, FedAvg params {obs["b"][d_impl]}'))
      if d_def is not None:
        out.append((f'{kind}-vs-definition', f'round {d_def}: {kind} params {obs["a"][d_def]}, FedAvg definition {ref[d_def].tolist()}'))
  if kind == 'mime1':
    ref = _ref_fullbatch_chain(case, obs)
    for r, (a, w) in enumerate(zip(obs['a'], ref)):
      if not fs.close(a, w, TOL):
        out.append(('mime1-vs-fullbatch', f'round {r}: mime params {a}, full-batch step {w.tolist()}'))
        break
  return out


# ----------------------------------------------------------------------------
# Coq encoding

def _sgd(c):
  return f'(mkSgd {fw.qlit(c["lr"])} {fw.qlit(c.get("mom") or 0)} {fw.cbool(c.get("nest"))})'


def _zid(c):
  return f'({int(c)})%Z'


ALGO_TAG = {'fedprox0': 'AProx', 'fedprox': 'AProx', 'hypcluster': 'AHyp', 'mimelite1': 'AMimeLite', 'mimelite_gen': 'AMimeLite',
            'mime1': 'AMime', 'mime_gen': 'AMime', 'apfl': 'AApfl', 'apfl_noise': 'AApfl'}


def encode(case, obs):
  if obs['err_a'] or len(obs['a']) != len(case['rounds']) or case.get('poison') or 'sgd' != case['copt']['kind'] or 'sgd' != case['sopt']['kind']:
    return None
  pop = fw.clist([f'({_zid(c)}, {fw.clist(["(" + fw.qlist(x) + ", " + fw.qlit(y) + ")" for x, y in zip(d["x"], d["y"])])})'
                  for c, d in sorted(_pop(case).items())])
  streams = fw.clist([f'({_zid(c)}, {fw.clist([fw.natlist(b) for b in st])})' for c, st in sorted(obs['streams'].items())])
  gstreams = fw.clist([f'({_zid(c)}, {fw.clist([fw.natlist(b) for b in st])})' for c, st in sorted(obs['gstreams'].items())])
  rounds = fw.clist([fw.clist([f'({_zid(c)}, {fw.qlist(nus)})' for (c, _), nus in zip(rnd, obs['nus'][r])])
                     for r, rnd in enumerate(case['rounds'])])
  cterm = (f'(mkC12 {ALGO_TAG[case["kind"]]} {_sgd(case["copt"])} {_sgd(case["sopt"])} {fw.qlit(case["mu"])} {fw.qlit(case.get("reg", 0.0))} {fw.qlit(case["slr"])} '
           f'{fw.qlist(case["init"])} {pop} {streams} {gstreams} {rounds} {fw.qlit(TOL)})')
  if not all(fs.finite(p) for p in obs['a']):
    return None     # the oracle reports non-finite parameters
  oterm = fw.clist([fw.qlist(p) for p in obs['a']])
  return f'({cterm}, {oterm})'


def nontrivial(case, obs):
  return any(sum(len(case['pop'][c]['y']) for c, _ in rnd) > 0 for rnd in case['rounds'])


def describe(case, obs):
  tot = [sum(len(case['pop'][c]['y']) for c, _ in rnd) for rnd in case['rounds']]
  return {'kind': case['kind'], 'has_counterpart': obs['b'] is not None,
          'client_opt': 'sgd' + ('+mom' if case['copt'].get('mom') else '') + ('+nest' if case['copt'].get('nest') else ''),
          'server_opt': 'sgd' + ('+mom' if case['sopt'].get('mom') else '') + ('+nest' if case['sopt'].get('nest') else ''),
          'batching': f'bs={case["hp"]["bs"]},ep={case["hp"]["epochs"]},st={case["hp"]["steps"]},drop={case["hp"]["drop"]}',
          'empty_rounds': sum(1 for t in tot if t == 0), 'key_dependent_loss': case['noise'],
          'regularizer': 'none' if not case.get('reg') else 'l2', 'backend': case.get('backend', 'jit'),
          'forms': '/'.join(str(case.get('forms', fs.FORMS0).get(k, 1)) for k in ('clients', 'ids', 'init', 'key', 'leaves')),
          'xdtype': case.get('xdtype', 'float32'), 'hparams_seed0': case['hp']['seed'] == 0,
          'layout': case.get('layout', 'c'), 'hashcheck': case.get('hashcheck') or 'no',
          'data_scale_log2': case.get('scale', 0), 'jax_flags': case.get('flags') or 'default', 'poisoned': bool(case.get('poison')),
          'optimizer_chain': 'clipsgd' in (case['copt']['kind'], case['sopt']['kind']),
          # hypotheses of the theorems, checked on the generated case (a case that violates one is judged by the oracle /
          # correspondence only, which is what the guards say)
          'hyp_nodup_ids': all(len({c for c, _ in rnd}) == len(rnd) for rnd in case['rounds']),
          'hyp_every_round_has_examples': all(t > 0 for t in tot),
          'hyp_mime_one_step_clients': (all(len(st) == (1 if len(case['pop'][c]['y']) else 0) for c, st in obs['streams'].items())
                                        if case['kind'] == 'mime1' and obs.get('streams') else 'n/a'),
          'hyp_hypcluster_guard': ((all(t > 0 for t in tot) or not case['sopt'].get('mom')) if case['kind'] == 'hypcluster' else 'n/a'),
          'err': obs['err_a'] or obs['err_b']}


def shrink(case):
  if len(case['rounds']) > 1:
    yield dict(case, rounds=case['rounds'][:-1])
  for r in range(len(case['rounds'])):
    for i in range(len(case['rounds'][r])):
      if len(case['rounds'][r]) > 1:
        rr = [list(x) for x in case['rounds']]
        rr[r] = rr[r][:i] + rr[r][i + 1:]
        yield dict(case, rounds=rr)
  for c, d in case['pop'].items():
    n = len(d['y'])
    if n > 0:
      pop = dict(case['pop'])
      pop[c] = {'x': d['x'][:n - 1], 'y': d['y'][:n - 1]}
      yield dict(case, pop=pop)
  if case['noise'] and case['kind'] != 'apfl_noise':
    yield dict(case, noise=False)
