"""C14 harness: Metric.evaluate_example of every built-in metric class against
(a) an independent float64 / pure-python reference written from the docstrings
(oracle) and (b) the Gallina model Model/C14_Model.v evaluated inside Coq."""
import json
import math
from fractions import Fraction

import numpy as np
from lib import fw

PROP = 'C14'
COQ_HEADER = 'From FV Require Import Model.C14_Model.'
COQ_AGREE = 'C14_agree'
COQ_MODEL_TARGETS = ['Model/C14_Model']
RULE = ('every Metric class x constructor grid (k in -7..9, masked/oov value tuples incl. () and defaults, logits masks '
        'with finite / -inf / +inf entries, per_position on/off, target_key/pred_key variants, PerDomainMetric over every '
        'base) on random examples: classes 1..5, lengths 1..6, integer scores in -3..3 with ties, constant rows, +-0.0, '
        '+-1e30, every masking pattern incl. fully masked; non-trivial = statistic not identically zero or a corner '
        '(tie at the maximum, k<1, k>=classes, fully masked); distinct = distinct case JSON')
TRUSTED = ['tools/lib/mtr.py: the reading of the jnp constructs of the evaluate_example bodies (jnp.argmax = first index of the maximum, jnp.argsort = stable ascending, [:e] = python slice, astype(float32) of a boolean = 0/1, .at[i, j].set for in-range indices), listed in its header',
           'jax eager op semantics on CPU (argmax, argsort, log_softmax, one_hot, scatter): exercised, not modelled',
           'float32 arithmetic is exact on the generated integer scores (|x| < 2^24, or +-1e30 / +-inf combined only with 0 / +-inf mask entries)']
ASSUMPTIONS = ['targets lie in [0, num_classes) or equal a masked target value; domain ids lie in [0, num_domains); predictions are finite (logits masks may be +-inf); num_classes >= 1',
               'cross-entropy values are parameters of the model (per token); the real log-softmax is compared with a float64 log-sum-exp reference within 1e-5*(1+|x|)']
PARTIAL = []
CASE_TIMEOUT = 60

SEQ_TOKEN = ('SequenceTokenCrossEntropyLoss', 'SequenceTokenAccuracy', 'SequenceTokenTopKAccuracy', 'SequenceTokenOOVRate')
USES_PRED_SEQ = ('SequenceTokenCrossEntropyLoss', 'SequenceCrossEntropyLoss', 'SequenceTokenAccuracy', 'SequenceTokenTopKAccuracy')
USES_PRED_ONE = ('CrossEntropyLoss', 'Accuracy', 'TopKAccuracy', 'ConfusionMatrix')
NO_PRED = ('SequenceTokenCount', 'SequenceCount', 'SequenceTruncationRate', 'SequenceTokenOOVRate', 'SequenceLength')
CE_METRICS = ('CrossEntropyLoss', 'SequenceTokenCrossEntropyLoss', 'SequenceCrossEntropyLoss')
ALL_METRICS = USES_PRED_ONE + USES_PRED_SEQ + NO_PRED


# --------------------------------------------------------------------------
# score tokens: small ints, or strings for values JSON / ints cannot carry

def _fl(tok):
  return float(tok)


def _zi(tok):
  """Integer value of a finite score token as float32 sees it."""
  return int(np.float32(float(tok)))


def _ext(tok):
  v = float(tok)
  if v == math.inf:
    return 'PInf'
  if v == -math.inf:
    return 'NInf'
  return f'(Fin {fw.zlit(_zi(tok))})'


# --------------------------------------------------------------------------
# generation

MASKED_CHOICES = [None, (0,), (), (0, 2), (-1,), (1, 3, 0), (2, 2)]
OOV_CHOICES = [(2,), (), (1, 2), (3, 1, 2), (0,), (1, 1), (4, 2)]


NARROW_COUNTS = [17, 26, 100, 127, 128, 255, 256, 300]
NARROW_DTYPES = {'uint8': 255, 'int8': 127, 'uint16': 65535, 'int16': 32767, 'int32': 2**31 - 1, 'int64': 2**31 - 1}


def _narrow_cases(rng, tier):
  reps = 1 if tier == 'quick' else 4
  for n in ([26, 128, 256, 300] if tier == 'quick' else NARROW_COUNTS):
    for dt, mx in NARROW_DTYPES.items():
      if tier == 'quick' and dt in ('uint16', 'int64'):
        continue
      top = min(n - 1, mx)
      picks = [0, top, max(top - 1, 0), rng.randrange(n if n - 1 <= mx else mx + 1)]
      # metrics with class scores: n classes
      names = ['ConfusionMatrix'] + rng.sample(['CrossEntropyLoss', 'Accuracy', 'TopKAccuracy', 'SequenceTokenAccuracy',
                                               'SequenceTokenTopKAccuracy', 'SequenceCrossEntropyLoss'], reps)
      if mx < n:     # the count itself exceeds the dtype: always include the one_hot based cross-entropy metrics
        names += [m for m in ('CrossEntropyLoss', 'SequenceCrossEntropyLoss') if m not in names]
      for name in names:
        case = {'metric': name, 'args': {}, 'dom': None, 'keys': ['y', None], 'narrow': n}
        t = rng.choice(picks[:3]) if rng.random() < 0.8 else picks[3]
        if name in USES_PRED_ONE:
          case['y'] = t
          case['pred'] = _row(rng, n, 'small')
          if rng.random() < 0.5:
            case['pred'][t] = 4          # the target is the unique best class
          if name == 'TopKAccuracy':
            case['args']['k'] = rng.choice([1, 2, n - 1, n, 5])
          if name == 'ConfusionMatrix':
            case['args']['nc'] = n
        else:
          case['y'] = [t, rng.choice(picks), 0]
          case['args']['masked'] = [0]
          case['pred'] = [_row(rng, n, 'small') for _ in range(3)]
          case['pred'][0][t] = 4
          if name == 'SequenceTokenTopKAccuracy':
            case['args']['k'] = rng.choice([1, 2, n])
          if name in SEQ_TOKEN:
            case['args']['pp'] = rng.random() < 0.5
        case['form'] = {'layout': 'C', 'arr': rng.choice(['jax', 'numpy']), 'tdtype': dt, 'pdtype': 'float32', 'ctor': 'kw', 'extra': False}
        yield case
      # prediction-free sequence metrics: token ids at the top of the dtype, masked / eos / oov values there too
      name = rng.choice(list(NO_PRED))
      hi = min(mx, 10 * n)
      case = {'metric': name, 'args': {'masked': [hi]}, 'dom': None, 'keys': ['y', None], 'pred': None, 'narrow': n,
              'y': [hi, hi - 1, 0, hi - 1, rng.choice([1, hi])]}
      if name == 'SequenceTruncationRate':
        case['args']['eos'] = rng.choice([hi - 1, 1])
      if name == 'SequenceTokenOOVRate':
        case['args'].update({'oovs': [hi - 1], 'pp': rng.random() < 0.5})
      case['form'] = {'layout': 'C', 'arr': rng.choice(['jax', 'numpy']), 'tdtype': dt, 'pdtype': 'float32', 'ctor': 'kw', 'extra': False}
      yield case
      # PerDomainMetric with n domains, the domain id in the narrow dtype
      case = _one_case(rng, rng.choice(['Accuracy', 'SequenceTokenCount', 'SequenceLength', 'TopKAccuracy']), c=3, length=3)
      while case.get('sweep'):
        case = _one_case(rng, case['metric'], c=3, length=3)
      d = rng.choice([0, top, max(top - 1, 0)])
      if mx < n - 1:
        d = rng.choice([0, n - 257])        # an id whose wrapped twin id + 256 is still a domain: the wrap is visible
      case.update({'dom': [n, d], 'dkey': 'domain_id', 'narrow': n})
      case['form'].update({'ddtype': dt, 'arr': rng.choice(['jax', 'numpy']), 'extra': False})
      yield case


OFFSETS = [10**4, -10**5, 10**6, 8 * 10**6, -16000000]


def _row(rng, c, mode):
  if mode == 'offset':     # a large common offset, tiny differences (all exactly representable in float32)
    off = rng.choice(OFFSETS)
    return [off + rng.randrange(-2, 3) for _ in range(c)]
  if mode == 'const':
    v = rng.choice([0, 1, -2, '1e30', '-0.0'])
    return [v] * c
  if mode == 'extreme':
    return [rng.choice(['1e30', '-1e30', 0, 1, -1, '1e30', '-0.0']) for _ in range(c)]
  if mode == 'zeros':
    return [rng.choice([0, '-0.0']) for _ in range(c)]
  if mode == 'two':
    a, b = rng.randrange(-3, 4), rng.randrange(-3, 4)
    return [rng.choice([a, b]) for _ in range(c)]
  return [rng.randrange(-3, 4) for _ in range(c)]


SWEEP = ['0', '-0.0', '2e-38', '-2e-38', '1e-30', '1e-7', '5e-7', '1e-6', '1', '-1', '1e6', '-1e6', '1e30', '-1e30', '3e38',
         '-3e38', 'inf', '-inf']
SWEEP_CE = ['0', '2e-38', '1e-30', '1e-7', '5e-7', '1e-6', '1', '-1', '1e6', '-1e6', '1e30', '-1e30']


def _sweep_rows(rng, case):
  """Magnitude sweep (wave 4 item 3) incl. +-inf PREDICTIONS (item 4) for the order-based metrics: no logits mask."""
  pal = SWEEP_CE if case['metric'] in CE_METRICS else SWEEP
  sub = rng.sample(pal, rng.choice([2, 3, 5]))       # few distinct values: ties across magnitudes
  if case['metric'] in USES_PRED_SEQ:
    case['pred'] = [[rng.choice(sub) for _ in r] for r in case['pred']]
  else:
    case['pred'] = [rng.choice(sub) for _ in case['pred']]
  case['args'].pop('lm', None)
  case['sweep'] = True


def _mode(rng):
  return rng.choice(['small', 'small', 'small', 'two', 'two', 'const', 'extreme', 'zeros', 'offset'])


def _logits_mask(rng, c, big):
  r = rng.random()
  if r < 0.25:
    return None
  if big or r < 0.7:
    pal = [0, 0, '-inf', '-inf', 'inf']
  else:
    pal = [0, '-inf', 'inf', 1, -1, 2, -3, '-0.0']
  lm = [rng.choice(pal) for _ in range(c)]
  if rng.random() < 0.1:
    lm = [rng.choice(['-inf', 'inf'])] * c
  return lm


def _targets(rng, c, length, masked):
  mv = list(masked if masked is not None else (0,))
  pat = rng.choice(['random', 'random', 'all_masked', 'none_masked', 'tail', 'head', 'one_real'])
  real_vals = [v for v in range(c) if v not in mv]
  if pat == 'none_masked' and not real_vals:
    pat = 'all_masked'
  if pat == 'all_masked' and not mv:
    pat = 'none_masked'
  out = []
  nreal = rng.randrange(0, length + 1)
  for i in range(length):
    if pat == 'all_masked':
      m = True
    elif pat == 'none_masked':
      m = False
    elif pat == 'tail':
      m = i >= nreal
    elif pat == 'head':
      m = i < length - nreal
    elif pat == 'one_real':
      m = i != nreal % length
    else:
      m = rng.random() < 0.4
    if m and mv:
      out.append(rng.choice(mv))
    elif real_vals:
      out.append(rng.choice(real_vals))
    else:
      out.append(rng.choice(mv))
  return out


def _keys(rng):
  return rng.choice([['y', None], ['y', None], ['label', None], ['y', 'logits'], ['t', 'p'], ['', None], ['y', '']])


def _form(rng, case):
  """How the example / prediction are handed over: container kind and dtypes (wave 3: delivery forms, dtype variety)."""
  toks = []
  if case['pred'] is not None:
    toks = [v for r in (case['pred'] if case['metric'] in USES_PRED_SEQ else [case['pred']]) for v in r]
  toks += list(case['args'].get('lm', []))
  plain = all((isinstance(v, int) and abs(v) <= 256) or v in ('inf', '-inf') for v in toks)   # small integers (and +-inf mask entries) only
  ys = case['y'] if isinstance(case['y'], list) else [case['y']]
  tds = ['int32', 'int32', 'int64']
  consts = ys + list(case['args'].get('masked', [0])) + list(case['args'].get('oovs', [])) + [case['args'].get('eos', 0)]
  if all(0 <= t < 128 for t in consts):   # (a constructor value outside the dtype's range would be wrapped by jnp)
    tds += ['uint8', 'int8']
  if not isinstance(case['y'], list):
    tds.append('pyint')
  pds = ['float32', 'float32']
  if plain and not case.get('nonfinite') and case['metric'] not in CE_METRICS:
    pds += ['float16', 'bfloat16', 'int32']   # (cross-entropy values in half precision are legitimately coarse)
  return {'layout': rng.choice(['C', 'C', 'F', 'T', 'step2', 'neg', 'col', 'ro']), 'arr': rng.choice(['jax', 'numpy']), 'tdtype': rng.choice(tds), 'pdtype': rng.choice(pds),
          'ctor': rng.choice(['kw', 'pos']), 'extra': rng.random() < 0.2}


def _one_case(rng, metric, c=None, length=None):
  c = c or rng.choice([1, 2, 3, 3, 4, 5])
  length = length or rng.randrange(1, 7)
  mode = _mode(rng)
  args = {}
  case = {'metric': metric, 'args': args, 'dom': None, 'keys': _keys(rng)}
  masked = rng.choice(MASKED_CHOICES)
  if metric in USES_PRED_ONE:
    case['y'] = rng.randrange(c)
    case['pred'] = _row(rng, c, mode)
    if metric == 'TopKAccuracy':
      args['k'] = rng.randrange(-7, 10)
    if metric == 'ConfusionMatrix':
      args['nc'] = c if rng.random() < 0.93 else rng.choice([c + 1, max(c - 1, 0), c + 3])
  else:
    if masked is not None:
      args['masked'] = list(masked)
    case['y'] = _targets(rng, c, length, masked)
    if metric in USES_PRED_SEQ:
      modes = [mode if rng.random() < 0.7 else _mode(rng) for _ in range(length)]
      case['pred'] = [_row(rng, c, m) for m in modes]
      if metric in ('SequenceTokenAccuracy', 'SequenceTokenTopKAccuracy'):
        big = any(isinstance(v, str) and 'e' in v for r in case['pred'] for v in r)
        lm = _logits_mask(rng, c, big)
        if lm is not None:
          args['lm'] = lm
      if metric == 'SequenceTokenTopKAccuracy':
        args['k'] = rng.randrange(-7, 10)
    else:
      case['pred'] = None
      case['keys'][1] = None
    if metric in SEQ_TOKEN:
      args['pp'] = rng.random() < 0.5
    if metric == 'SequenceTruncationRate':
      args['eos'] = rng.choice([c - 1, c - 1, 0, 1, 4, -1])
    if metric == 'SequenceTokenOOVRate':
      args['oovs'] = list(rng.choice(OOV_CHOICES))
    if metric in NO_PRED and rng.random() < 0.1:
      # ids beyond 2^24: exact as int32, equal after a float32 round trip
      args['masked'] = [16777217]
      case['y'] = [rng.choice([16777216, 16777217, 16777218, 1]) for _ in range(length)]
      if metric == 'SequenceTokenOOVRate':
        args['oovs'] = [16777216]
      if metric == 'SequenceTruncationRate':
        args['eos'] = 16777218
  if case['pred'] is not None and rng.random() < 0.12:
    _sweep_rows(rng, case)
  case['form'] = _form(rng, case)
  if case.get('sweep'):
    case['form']['pdtype'] = 'float32'
  return case


def _with_domain(rng, case):
  nd = rng.choice([1, 2, 3, 4])
  if case['metric'] == 'ConfusionMatrix':      # a non-scalar base: D == n, D == 1 and D != n
    nd = rng.choice([case['args']['nc'] or 1, 1, case['args']['nc'] + 1, 2])
  elif not isinstance(case['y'], int) and case['args'].get('pp'):
    nd = rng.choice([len(case['y']), 1, 2, 3])     # D == length of a per-position statistic
  dkey = rng.choice(['domain_id', 'domain_id', 'dom', ''])
  if dkey == case['keys'][0]:
    dkey = 'domain_id'
  out = {**case, 'dom': [nd, rng.randrange(nd)], 'dkey': dkey}
  if rng.random() < 0.25:                       # PerDomainMetric(PerDomainMetric(m, D1), D2): D2 == D1, == 1, != D1
    nd2 = rng.choice([nd, 1, nd + 1, 2])
    out['dom2'] = [nd2, rng.randrange(nd2)]
  return out


FLAG_SETTINGS = [{'JAX_ENABLE_X64': '1'}]


def _run_flags(case):
  import os
  import subprocess
  import sys
  env = dict(os.environ)
  env.update(case['env'])
  p = subprocess.run([sys.executable, os.path.join(os.path.dirname(os.path.abspath(__file__)), 'c14c06_flagworker.py'),
                      'c14', 'quick', str(case['seed']), str(case['limit'])], env=env, capture_output=True, text=True, timeout=1500)
  for line in p.stdout.split('\n'):
    if line.startswith('FLAGWORKER '):
      return json.loads(line[len('FLAGWORKER '):])
  return {'ran': 0, 'violations': [['flag-worker-failed', (p.stderr or p.stdout)[-400:], None]]}


def generate(tier, rng):
  if tier == 'thorough':
    for env in FLAG_SETTINGS:      # the harness's own quick cases in a fresh process under a non-default global flag
      yield {'kind': 'flags', 'env': env, 'seed': rng.randrange(1000), 'limit': 300}
  per = {'quick': 62, 'thorough': 600, 'search': 900}.get(tier, 70)
  # structured corners first: k grid x ties for the top-k metrics, fully masked sequences
  for k in range(-7, 10):
    for c in (1, 2, 3, 5):
      for _ in range(2 if tier == 'quick' else 6):
        case = _one_case(rng, 'TopKAccuracy', c=c)
        case['args']['k'] = k
        yield case
        case = _one_case(rng, 'SequenceTokenTopKAccuracy', c=c, length=rng.choice([1, 2, 4]))
        case['args']['k'] = k
        yield case
  # exhaustive small grids (wave 5 item 2)
  yield {'kind': 'grid', 'which': 'topk', 'n': 3 if tier == 'quick' else 4}
  yield {'kind': 'grid', 'which': 'seq', 'n': 4 if tier == 'quick' else 6}
  # two metrics differing in ONE constructor field, evaluated one after the other through the jitted
  # metrics.evaluate_batch (metric = static argument) on same-shaped batches (wave 5 item 5 / seed C05-w1)
  for field, metric in [('lm', 'SequenceTokenAccuracy'), ('lm', 'SequenceTokenTopKAccuracy'), ('k', 'TopKAccuracy'),
                        ('k', 'SequenceTokenTopKAccuracy'), ('masked', 'SequenceTokenAccuracy'), ('masked', 'SequenceLength'),
                        ('masked', 'SequenceTokenCount'), ('pp', 'SequenceTokenOOVRate'), ('oovs', 'SequenceTokenOOVRate'),
                        ('eos', 'SequenceTruncationRate'), ('masked', 'SequenceCrossEntropyLoss'), ('pp', 'SequenceTokenCrossEntropyLoss'),
                        ('masked', 'SequenceCount'), ('nd', 'Accuracy'), ('keys', 'Accuracy')]:
    for _ in range(1 if tier == 'quick' else 4):
      case = _one_case(rng, metric, c=3, length=rng.choice([2, 4]))
      if field == 'nd':
        case = _with_domain(rng, case)
        case.pop('dom2', None)
      if field == 'lm':
        case['args']['lm'] = [0, '-inf', 0] if rng.random() < 0.5 else [2, 0, -1]
        case.pop('sweep', None)
        case['pred'] = [_row(rng, 3, 'small') for _ in case['pred']]
      if field == 'oovs' and not case['args']['oovs']:
        case['args']['oovs'] = [1]
      case['twin'] = field
      yield case
  # silent narrowing (round-6 seed C14-x1): integer targets / token ids / domain ids in NARROW dtypes with class /
  # vocabulary / domain counts so large that target * count, target + offset or the count itself exceeds the dtype
  for case in _narrow_cases(rng, tier):
    yield case
  # non-finite base statistics (a -inf logit at a real target: loss = +inf), alone and under PerDomainMetric:
  # the other domains' slots must hold exact zeros, not inf * 0 = NaN
  for i in range({'quick': 12, 'thorough': 60}.get(tier, 100)):
    for metric in CE_METRICS:
      case = _one_case(rng, metric, c=rng.choice([2, 3, 4]))
      if metric == 'CrossEntropyLoss':
        case['pred'] = [v if j != case['y'] else '-inf' for j, v in enumerate(_row(rng, len(case['pred']), 'small'))]
      else:
        masked = set(case['args']['masked']) if 'masked' in case['args'] else {0}
        real = [j for j, t in enumerate(case['y']) if t not in masked and 0 <= t < len(case['pred'][0])]
        if not real:
          continue
        case['pred'] = [_row(rng, len(r), 'small') for r in case['pred']]
        for j in rng.sample(real, rng.randrange(1, len(real) + 1)):
          case['pred'][j][case['y'][j]] = '-inf'
      case['nonfinite'] = True
      yield case if i % 3 == 0 else _with_domain(rng, case)
  n_ctx = 0
  for metric in ALL_METRICS:
    for i in range(per):
      case = _one_case(rng, metric)
      if i % 100 == 7:
        case['ctx'] = True     # also under jax.jit and jax.vmap (execution contexts)
      yield case
      if i % 4 == 0:
        case = _with_domain(rng, _one_case(rng, metric))
        if i % 200 == 8:
          case['ctx'] = True
        yield case


# --------------------------------------------------------------------------
# running the implementation

def _metric(case):
  from fedjax.core import metrics as M
  a = case['args']
  tk, pk = case['keys']
  kw = {}
  name = case['metric']
  if tk != 'y':
    kw['target_key'] = tk
  if pk is not None and name not in NO_PRED:
    kw['pred_key'] = pk
  if 'masked' in a:
    kw['masked_target_values'] = tuple(a['masked'])
  if 'lm' in a:
    kw['logits_mask'] = tuple(_fl(v) for v in a['lm'])
  if 'pp' in a:
    kw['per_position'] = bool(a['pp'])
  if 'k' in a:
    kw['k'] = a['k']
  if 'eos' in a:
    kw['eos_target_value'] = a['eos']
  if 'oovs' in a:
    kw['oov_target_values'] = tuple(a['oovs'])
  if 'nc' in a:
    kw['num_classes'] = a['nc']
  form = case.get('form') or {}
  if form.get('ctor') == 'pos' and name in ('TopKAccuracy', 'SequenceTokenTopKAccuracy', 'ConfusionMatrix',
                                            'SequenceTruncationRate', 'SequenceTokenOOVRate'):
    first = {'TopKAccuracy': 'k', 'SequenceTokenTopKAccuracy': 'k', 'ConfusionMatrix': 'num_classes',
             'SequenceTruncationRate': 'eos_target_value', 'SequenceTokenOOVRate': 'oov_target_values'}[name]
    v = kw.pop(first)
    if first == 'k' and form.get('arr') == 'numpy':
      v = np.int64(v)      # a NumPy scalar instead of a python int
    m = getattr(M, name)(v, **kw)
  else:
    m = getattr(M, name)(**kw)
  if case['dom'] is not None:
    dkey = case.get('dkey', 'domain_id')
    if dkey != 'domain_id':
      m = M.PerDomainMetric(base=m, num_domains=case['dom'][0], domain_id_key=dkey)
    else:
      m = M.PerDomainMetric(m, case['dom'][0])
    if case.get('dom2'):
      m = M.PerDomainMetric(m, case['dom2'][0], domain_id_key='outer_domain')
  return m


def _relayout(a, kind):
  """The same values in another memory layout (wave 5 item 1); `a` is a fresh C-contiguous numpy array."""
  if a.ndim == 0 or kind == 'C':
    return a
  if kind == 'F':
    return np.asfortranarray(a)
  if kind == 'T':                       # a transposed view of the transposed copy
    return np.ascontiguousarray(a.T).T
  if kind == 'step2':                   # every other row of a larger array
    big = np.zeros((2 * a.shape[0],) + a.shape[1:], a.dtype)
    big[::2] = a
    big[1::2] = 77
    return big[::2]
  if kind == 'neg':                     # negative stride
    return np.ascontiguousarray(a[::-1])[::-1]
  if kind == 'col':                     # non-contiguous slice along the last axis of a wider array
    big = np.full(a.shape[:-1] + (2 * a.shape[-1] + 1,), 55, a.dtype)
    big[..., 1::2] = a
    return big[..., 1::2]
  if kind == 'ro':
    a = a.copy()
    a.setflags(write=False)
    return a
  return a


def _example(case):
  import jax.numpy as jnp
  import types
  tk, pk = case['keys']
  form = case.get('form') or {'arr': 'jax', 'tdtype': 'int32', 'pdtype': 'float32'}
  lay = form.get('layout', 'C')
  wrap = jnp.asarray if form['arr'] == 'jax' else (lambda a: _relayout(a, lay))
  if form['tdtype'] == 'pyint':
    target = int(case['y'])
  else:
    target = wrap(np.array(case['y'], dtype=getattr(np, form['tdtype'])))
  ex = {tk: target}
  if case['dom'] is not None:
    if 'ddtype' in form:
      ex[case.get('dkey', 'domain_id')] = wrap(np.array(case['dom'][1], dtype=getattr(np, form['ddtype'])))
    else:
      ex[case.get('dkey', 'domain_id')] = wrap(np.array(case['dom'][1], dtype=np.int32)) if form['arr'] == 'jax' else int(case['dom'][1])
  if case.get('dom2'):
    ex['outer_domain'] = wrap(np.array(case['dom2'][1], dtype=np.int32))
  if form['arr'] == 'numpy':
    ex = types.MappingProxyType(ex)      # a read-only Mapping instead of a dict
  if case['pred'] is None:
    pred = jnp.array([])
  else:
    arr = np.array([[_fl(v) for v in r] for r in case['pred']] if case['metric'] in USES_PRED_SEQ
                   else [_fl(v) for v in case['pred']], dtype=np.float32)
    if form['pdtype'] == 'bfloat16':
      pred = jnp.asarray(arr).astype(jnp.bfloat16)
      if form['arr'] == 'numpy':
        pred = np.asarray(pred)
    else:
      pred = wrap(np.ascontiguousarray(arr.astype(getattr(np, form['pdtype']))))
    if pk is not None:
      pred = {pk: pred, 'other': jnp.zeros_like(jnp.asarray(pred))}
  return ex, pred


def _stat_obs(stat):
  from fedjax.core import metrics as M
  acc = np.asarray(stat.accum)
  out = {'kind': 'mean' if isinstance(stat, M.MeanStat) else 'sum' if isinstance(stat, M.SumStat) else type(stat).__name__,
         'shape': list(acc.shape), 'accum': [float(v) for v in acc.astype(np.float64).ravel()]}
  if out['kind'] in ('mean', 'sum'):
    res = np.asarray(stat.result())
    out['result'] = [float(v) for v in res.astype(np.float64).ravel()]
    out['rshape'] = list(res.shape)
  if isinstance(stat, M.MeanStat):
    w = np.asarray(stat.weight)
    out['wshape'] = list(w.shape)
    out['weight'] = [float(v) for v in w.astype(np.float64).ravel()]
  else:
    out['wshape'] = []
    out['weight'] = []
  return out


def _eval(metric, ex, pred):
  try:
    return _stat_obs(metric.evaluate_example(ex, pred))
  except ValueError:
    return {'error': 'ValueError'}
  except OverflowError as e:
    return {'error': 'OverflowError', 'message': str(e)[:120]}


def _leaves_np(tree):
  import jax
  return [np.array(x) for x in jax.tree_util.tree_leaves(tree) if hasattr(x, 'shape') or isinstance(x, (int, float))]


def _same_stat(a, b):
  import jax
  la, lb = jax.tree_util.tree_leaves(a), jax.tree_util.tree_leaves(b)
  return len(la) == len(lb) and all(np.asarray(x).shape == np.asarray(y).shape and
                                    np.array_equal(np.asarray(x, np.float64), np.asarray(y, np.float64), equal_nan=True)
                                    for x, y in zip(la, lb))


def _extras(case, metric, ex, pred, obs):
  """Wave 3: reuse of the metric object, caller-owned inputs, zero() identity, execution contexts."""
  import jax
  import jax.numpy as jnp
  if 'error' in obs:
    return
  snap = _leaves_np((dict(ex), pred))
  first = metric.evaluate_example(ex, pred)
  again = metric.evaluate_example(ex, pred)
  obs['reuse_same'] = bool(_same_stat(first, again) and hash(metric) == hash(_metric(case)) and metric == _metric(case))
  after = _leaves_np((dict(ex), pred))
  obs['inputs_unchanged'] = bool(len(snap) == len(after) and all(a.dtype == b.dtype and a.shape == b.shape and
                                                                   np.array_equal(a, b, equal_nan=a.dtype.kind == 'f')
                                                                   for a, b in zip(snap, after)))
  z = metric.zero()
  want = jax.tree_util.tree_map(lambda x: jnp.asarray(x, jnp.float32), first)
  try:
    obs['zero_identity'] = bool(_same_stat(z.merge(first), want) and _same_stat(first.merge(z), want))
  except (ValueError, TypeError) as e:
    obs['zero_identity'] = 'raises ' + type(e).__name__ + ': zero() leaves ' + \
        str([tuple(np.shape(x)) for x in jax.tree_util.tree_leaves(z)]) + ', statistic leaves ' + \
        str([tuple(np.shape(x)) for x in jax.tree_util.tree_leaves(first)])
  if case.get('ctx'):
    exd = {k: jnp.asarray(v) for k, v in dict(ex).items()}
    pr = jax.tree_util.tree_map(jnp.asarray, pred)
    obs['jit'] = _stat_obs(jax.jit(metric.evaluate_example)(exd, pr))
    stack = lambda t: jax.tree_util.tree_map(lambda x: jnp.stack([x, x]), t)
    v = jax.vmap(metric.evaluate_example)(stack(exd), stack(pr))
    obs['vmap'] = [_stat_obs(jax.tree_util.tree_map(lambda x: x[i], v)) for i in (0, 1)]
    with jax.disable_jit():
      obs['nojit'] = _stat_obs(metric.evaluate_example(exd, pr))


def _twin_case(case):
  """The same case with ONE constructor field changed."""
  t = json.loads(json.dumps(case))
  f, a = case['twin'], t['args']
  if f == 'lm':
    a['lm'] = [(-1 if v == 0 else 0) if not isinstance(v, str) else 0 for v in a['lm']]
  elif f == 'k':
    a['k'] = a['k'] + 1 if a['k'] != 1 else 2
  elif f == 'masked':
    cur = a.get('masked', [0])
    a['masked'] = [v for v in (0, 1, 2) if v not in cur][:1] or [7]
  elif f == 'pp':
    a['pp'] = not a['pp']
  elif f == 'oovs':
    a['oovs'] = [v + 1 for v in a['oovs']]
  elif f == 'eos':
    a['eos'] = a['eos'] + 1
  elif f == 'nd':
    t['dom'] = [t['dom'][0] + 1, t['dom'][1]]
  elif f == 'keys':
    t['keys'] = [t['keys'][0], 'other']
  return t


def _run_twin(case, obs):
  import jax.numpy as jnp
  import jax
  from fedjax.core import metrics as M
  metric, twin = _metric(case), _metric(_twin_case(case))
  obs['twin_distinct'] = bool(metric != twin)
  ex, pred = _example(case)
  exb = {k: jnp.stack([jnp.asarray(v)] * 2) for k, v in dict(ex).items()}
  prb = jax.tree_util.tree_map(lambda x: jnp.stack([jnp.asarray(x)] * 2), pred)
  if case['twin'] == 'keys':
    prb = dict(prb) if isinstance(prb, dict) else {'other': prb * 0 - 5.0}
    prb.setdefault('other', jax.tree_util.tree_leaves(prb)[0] * 0 - 5.0)
    prb = prb if case['keys'][1] is not None else prb
  mask = jnp.array([True, False])
  try:
    M.evaluate_batch(twin, exb, prb if (case['twin'] == 'keys' or not isinstance(pred, dict)) else prb, mask)   # the OTHER metric first
  except Exception:   # pylint: disable=broad-except
    pass
  if case['twin'] == 'keys' and case['keys'][1] is None:
    prb = jax.tree_util.tree_map(lambda x: jnp.stack([jnp.asarray(x)] * 2), pred)
  if case['dom'] is not None and case['args'].get('pp'):
    obs['twin_stat'] = _stat_obs(M.evaluate_batch(metric, exb, prb))      # (mask + per-position per-domain: known finding)
    obs['twin_rows'] = 2
  else:
    obs['twin_stat'] = _stat_obs(M.evaluate_batch(metric, exb, prb, mask))
    obs['twin_rows'] = 1


def _run_grid(case):
  import itertools
  import jax.numpy as jnp
  from fedjax.core import metrics as M
  out = []
  if case['which'] == 'topk':
    acc = M.Accuracy()
    for c in range(1, case['n'] + 1):
      tops = [M.TopKAccuracy(k=k) for k in range(-2, c + 2)]
      for s in itertools.product([0, 1, 2], repeat=c):
        pred = jnp.array(s, jnp.float32)
        for t in range(c):
          ex = {'y': jnp.array(t)}
          out.append(float(acc.evaluate_example(ex, pred).accum))
          out += [float(m.evaluate_example(ex, pred).accum) for m in tops]
  else:
    ms = [M.SequenceTruncationRate(eos_target_value=2), M.SequenceLength(), M.SequenceTokenCount(), M.SequenceCount()]
    for l in range(1, case['n'] + 1):
      for ts in itertools.product([0, 1, 2], repeat=l):
        ex = {'y': jnp.array(ts)}
        st = [m.evaluate_example(ex, None) for m in ms]
        out += [float(st[0].accum), float(st[0].weight), float(st[1].accum), float(st[1].weight), float(st[2].accum), float(st[3].accum)]
  return {'grid': out}


def _ref_grid(case):
  import itertools
  out = []
  if case['which'] == 'topk':
    for c in range(1, case['n'] + 1):
      for s in itertools.product([0, 1, 2], repeat=c):
        order = _order(list(s))
        for t in range(c):
          out.append(1 if order[0] == t else 0)
          out += [1 if (k >= 1 and t in order[:k]) else 0 for k in range(-2, c + 2)]
  else:
    for l in range(1, case['n'] + 1):
      for ts in itertools.product([0, 1, 2], repeat=l):
        real = [t for t in ts if t != 0]
        ne = 1 if real else 0
        out += [(0 if 2 in ts else 1) * ne, ne, len(real), ne, len(real), ne]
  return out


def run(case):
  if case.get('kind') == 'flags':
    return _run_flags(case)
  if case.get('kind') == 'grid':
    return _run_grid(case)
  from fedjax.core import metrics as M
  metric = _metric(case)
  ex, pred = _example(case)
  obs = _eval(metric, ex, pred)
  if case.get('form', {}).get('extra') or case.get('ctx'):
    _extras(case, metric, ex, pred, obs)
  if case.get('twin') and 'error' not in obs:
    _run_twin(case, obs)
  # the documented identities, observed on the implementation itself
  name, a = case['metric'], case['args']
  tk, pk = case['keys']
  kw = {}
  if tk != 'y':
    kw['target_key'] = tk
  if pk is not None:
    kw['pred_key'] = pk
  side = None
  if name == 'Accuracy':
    side = M.TopKAccuracy(k=1, **kw)
  elif name == 'ConfusionMatrix':
    side = M.Accuracy(**kw)
  elif name == 'SequenceTokenAccuracy':
    skw = dict(kw)
    if 'masked' in a:
      skw['masked_target_values'] = tuple(a['masked'])
    if 'lm' in a:
      skw['logits_mask'] = tuple(_fl(v) for v in a['lm'])
    side = M.SequenceTokenTopKAccuracy(k=1, per_position=bool(a['pp']), **skw)
  if side is not None:
    if case['dom'] is not None:
      side = M.PerDomainMetric(side, case['dom'][0], domain_id_key=case.get('dkey', 'domain_id'))
    if case.get('dom2'):
      side = None
    if side is not None:
      obs['side'] = _eval(side, ex, pred)
  return obs


# --------------------------------------------------------------------------
# independent reference (from the docstrings; no fedjax / jax calls)

def _order(scores):
  """Classes from best to worst; equal scores in order of lowest to highest index."""
  return sorted(range(len(scores)), key=lambda i: (-scores[i], i))


def _ce(scores, target):
  """-log softmax(scores)[target] in float64."""
  if not 0 <= target < len(scores):
    return 0.0
  m = max(scores)
  return math.log(math.fsum(math.exp(s - m) for s in scores)) - (scores[target] - m)


def _masked_scores(row, lm):
  s = [float(np.float32(_fl(v))) for v in row]
  if lm is not None:
    s = [x + _fl(v) for x, v in zip(s, lm)]
  return s


def _token_ces(case):
  return [_ce(_masked_scores(r, None), t) for r, t in zip(case['pred'], case['y'])]


def _ref_base(case):
  """Returns ('mean'|'sum', shape, accum_flat, weight_flat) or 'ValueError'."""
  name, a = case['metric'], case['args']
  if name in USES_PRED_ONE:
    t = case['y']
    s = _masked_scores(case['pred'], None)
    if name == 'CrossEntropyLoss':
      return ('mean', [], [_ce(s, t)], [1])
    if name == 'Accuracy':
      return ('mean', [], [1 if _order(s)[0] == t else 0], [1])
    if name == 'TopKAccuracy':
      k = a['k']
      top = _order(s)[:k] if k >= 1 else []
      return ('mean', [], [1 if t in top else 0], [1])
    if name == 'ConfusionMatrix':
      n = a['nc']
      if n != len(s):
        return 'ValueError'
      p = _order(s)[0]
      return ('sum', [n, n], [1 if (r == t and c == p) else 0 for r in range(n) for c in range(n)], [])
  masked = set(a['masked']) if 'masked' in a else {0}
  ts = case['y']
  real = [t not in masked for t in ts]
  n_real = sum(real)
  if name == 'SequenceTokenCount':
    return ('sum', [], [n_real], [])
  if name == 'SequenceCount':
    return ('sum', [], [1 if n_real else 0], [])
  if name == 'SequenceLength':
    return ('mean', [], [n_real], [1]) if n_real else ('mean', [], [0], [0])
  if name == 'SequenceTruncationRate':
    if not n_real:
      return ('mean', [], [0], [0])
    return ('mean', [], [0 if a['eos'] in ts else 1], [1])
  if name == 'SequenceCrossEntropyLoss':
    if not n_real:
      return ('mean', [], [0.0], [0])
    return ('mean', [], [math.fsum(l for l, r in zip(_token_ces(case), real) if r)], [1])
  # token-level metrics: a value per token, averaged over the non-masked tokens
  if name == 'SequenceTokenCrossEntropyLoss':
    vals = _token_ces(case)
  elif name == 'SequenceTokenOOVRate':
    vals = [1 if t in set(a['oovs']) else 0 for t in ts]
  else:
    lm = a.get('lm')
    vals = []
    for row, t in zip(case['pred'], ts):
      order = _order(_masked_scores(row, lm))
      if name == 'SequenceTokenAccuracy':
        vals.append(1 if order[0] == t else 0)
      else:
        k = a['k']
        vals.append(1 if t in (order[:k] if k >= 1 else []) else 0)
  if a['pp']:
    return ('mean', [len(ts)], [v if r else 0 for v, r in zip(vals, real)], [1 if r else 0 for r in real])
  return ('mean', [], [math.fsum(v for v, r in zip(vals, real) if r) if n_real else 0], [n_real])


def _ref(case):
  base = _ref_base(case)
  if base == 'ValueError' or case['dom'] is None:
    return base
  kind, shape, acc, wt = base
  nd, d = case['dom']
  acc2, wt2 = [], []
  for j in range(nd):   # statistics of domain j: the base statistic iff the example belongs to domain j
    acc2 += acc if j == d else [0] * len(acc)
    wt2 += wt if j == d else [0] * len(wt)
  kind, shape, acc, wt = (kind, [nd] + shape, acc2, wt2)
  if case.get('dom2'):
    nd2, d2 = case['dom2']
    acc3, wt3 = [], []
    for j in range(nd2):
      acc3 += acc if j == d2 else [0] * len(acc)
      wt3 += wt if j == d2 else [0] * len(wt)
    kind, shape, acc, wt = (kind, [nd2] + shape, acc3, wt3)
  return (kind, shape, acc, wt)


def _frac(x):
  if isinstance(x, float):
    if not math.isfinite(x):
      return None
    return Fraction(*x.as_integer_ratio())
  return Fraction(x)


def _corner(case):
  a = case['args']
  tags = []
  if 'k' in a:
    c = len(case['pred'][0]) if case['metric'].startswith('Sequence') else len(case['pred'])
    if a['k'] < 1:
      tags.append('k<1')
    elif a['k'] >= c:
      tags.append('k>=classes')
  if case['metric'] not in USES_PRED_ONE:
    masked = set(a['masked']) if 'masked' in a else {0}
    if all(t in masked for t in case['y']):
      tags.append('fully-masked')
  if case['metric'] == 'SequenceTokenOOVRate' and len(set(a['oovs'])) >= 2:
    tags.append('multi-oov')
  if a.get('pp'):
    tags.append('per-position')
  if case['dom'] is not None:
    tags.append('per-domain')
  if case.get('dom2'):
    tags.append('nested')
  if case.get('nonfinite'):
    tags.append('nonfinite-base')
  if case.get('narrow'):
    tags.append('narrow-int')
  return tags


def _cmp(case, obs, ref, prefix):
  out = []
  name = case['metric']
  tag = '.'.join([name] + _corner(case))
  if ref == 'ValueError':
    if obs.get('error') != 'ValueError':
      out.append((f'{tag}.{prefix}error', 'num_classes differs from the number of scores: documented ValueError not raised'))
    return out
  if 'error' in obs:
    return [(f'{tag}.{prefix}error', f'unexpected {obs["error"]}')]
  kind, shape, acc, wt = ref
  if obs['kind'] != kind:
    return [(f'{tag}.{prefix}kind', f'statistic is a {obs["kind"]} stat, documented {kind}')]
  if obs['shape'] != shape or (kind == 'mean' and obs['wshape'] != shape):
    return [(f'{tag}.{prefix}shape', f'accum/weight shape {obs["shape"]}/{obs["wshape"]}, expected {shape}')]
  for i, (x, r) in enumerate(zip(obs['weight'], wt)):
    if _frac(x) != Fraction(r):
      out.append((f'{tag}.{prefix}weight', f'weight[{i}] = {x!r}, reference {r}'))
      break
  approx = name in CE_METRICS
  for i, (x, r) in enumerate(zip(obs['accum'], acc)):
    fx = _frac(x)
    if isinstance(r, float) and math.isinf(r):
      if not (isinstance(x, float) and math.isinf(x) and (x > 0) == (r > 0)):
        out.append((f'{tag}.{prefix}accum', f'accum[{i}] = {x!r}, reference {r!r}'))
        break
      continue
    if fx is None:
      out.append((f'{tag}.{prefix}accum.nonfinite', f'accum[{i}] = {x!r} is not finite, reference {r}'))
      break
    if approx:
      if abs(fx - _frac(r)) > Fraction(1, 100000) * (1 + abs(_frac(r))):
        out.append((f'{tag}.{prefix}accum', f'accum[{i}] = {x!r}, float64 reference {r!r}'))
        break
    elif fx != Fraction(r):
      out.append((f'{tag}.{prefix}accum', f'accum[{i}] = {x!r}, reference {r}'))
      break
  return out


def _extra_oracle(case, obs, ref):
  out = []
  if 'error' in obs or ref == 'ValueError':
    return out
  name = case['metric']
  tag = '.'.join([name] + _corner(case))
  kind, shape, acc, wt = ref
  # stat.result(): weighted mean (0 for weight 0) / the sum
  if 'result' in obs and obs['kind'] == kind:
    if obs['rshape'] != shape:
      out.append((f'{tag}.result.shape', f'result shape {obs["rshape"]}, expected {shape}'))
    else:
      for i, x in enumerate(obs['result']):
        a = acc[i]
        want = a if kind == 'sum' else (0.0 if wt[i] == 0 else a / wt[i])
        okay = (math.isinf(want) and x == want) if isinstance(want, float) and math.isinf(want) else \
               (math.isfinite(x) and abs(x - want) <= 1e-5 * (1 + abs(want)))
        if not okay:
          out.append((f'{tag}.result', f'result[{i}] = {x!r}, statistic ({a}, {wt[i] if wt else None}) gives {want!r}'))
          break
  if obs.get('reuse_same') is False:
    out.append((f'{name}.reuse', 'a second evaluate_example of the same metric object on the same example differs, or equal constructor arguments give unequal / differently hashed metrics'))
  if obs.get('inputs_unchanged') is False:
    out.append((f'{name}.input-mutated', 'evaluate_example changed the caller\'s example / prediction arrays'))
  zi = obs.get('zero_identity')
  if zi is False or isinstance(zi, str):
    # PerDomainMetric over a per-position base: zero() has shape (num_domains,), the statistic (num_domains, length)
    key = 'per-domain.per-position.zero-shape' if (case['dom'] is not None and case['args'].get('pp')) else f'{name}.zero-identity'
    out.append((key, 'zero().merge(v) / v.merge(zero()) ' + (zi if isinstance(zi, str) else 'differs from v (values or shape)')))
  for ctx in ('jit', 'nojit'):
    if ctx in obs:
      out += [(k.replace(tag, f'{tag}.context-{ctx}', 1), 'under ' + ctx + ': ' + w) for k, w in _cmp(case, obs[ctx], ref, '')][:1]
  for i, o in enumerate(obs.get('vmap', [])):
    out += [(k.replace(tag, f'{tag}.context-vmap', 1), f'under vmap (row {i}): ' + w) for k, w in _cmp(case, o, ref, '')][:1]
  return out


def _narrow_key(case, obs, key):
  """Known consequences of 8-bit integer inputs (jax.nn.one_hot builds arange(count) in the INPUT's dtype; array indexing
  normalises the index in its own dtype) get their own specific keys."""
  form = case.get('form') or {}
  eight = ('uint8', 'int8')
  if key.endswith(('.accum', '.weight', '.result', '.accum.nonfinite')):
    if case['metric'] in CE_METRICS and form.get('tdtype') in eight and case['narrow'] > 256:
      return 'narrow-int.one-hot-wraps'
    if case['dom'] is not None and form.get('ddtype') in eight and case['dom'][0] > 256:
      return 'narrow-int.one-hot-wraps'
  if key.endswith('.error') and obs.get('error') == 'OverflowError' and case['metric'] == 'ConfusionMatrix' \
      and form.get('tdtype') == 'int8' and case['args']['nc'] >= 128:
    return 'narrow-int.index-overflow'
  return key


def oracle(case, obs):
  if case.get('narrow'):
    c2 = {k: v for k, v in case.items() if k != 'narrow'}
    return [(_narrow_key(case, obs, k), w) for k, w in oracle(c2, obs)]
  if case.get('kind') == 'grid':
    want = _ref_grid(case)
    bad = [i for i, (a, b) in enumerate(zip(obs['grid'], want)) if a != b]
    if len(obs['grid']) != len(want) or bad:
      return [(f'grid.{case["which"]}', f'{len(bad)} of {len(want)} grid points differ from the definition, first at index {bad[:1]}')]
    return []
  if case.get('kind') == 'flags':
    return [(k, f'under {case["env"]}: {w} (case {json.dumps(c)[:300]})') for k, w, c in obs['violations']]
  ref = _ref(case)
  out = _cmp(case, obs, ref, '')
  out += _extra_oracle(case, obs, ref)
  if 'twin_stat' in obs and ref != 'ValueError':
    name = case['metric']
    if obs.get('twin_distinct') is False:
      out.append((f'{name}.eq-ignores-{case["twin"]}', f'two {name} objects differing in `{case["twin"]}` compare equal (a jit static argument would reuse the wrong trace)'))
    kind, shape, acc, wt = ref
    n = obs['twin_rows']
    ref_b = (kind, shape, [a * n for a in acc], [w * n for w in wt])
    out += [(k.replace(name, f'{name}.static-arg-after-twin', 1), f'metrics.evaluate_batch after the same call with a {name} differing only in `{case["twin"]}`: ' + w)
            for k, w in _cmp(case, obs['twin_stat'], ref_b, '')][:1]
  if case.get('dom2') and case['args'].get('pp'):
    # the outer wrapper selects between the inner statistic (D1, length) and inner.zero() of shape (D1,): the known
    # zero()-shape defect surfacing inside evaluate_example (a broadcasting ValueError, or a mis-broadcast shape)
    out = [(('per-domain.per-position.zero-shape', 'nested PerDomainMetric over a per-position base: ' + w)
            if (k.endswith('.error') and obs.get('error') == 'ValueError') or k.endswith('.shape') else (k, w)) for k, w in out]
  name = case['metric']
  side = obs.get('side')
  if side is not None and 'error' not in obs:
    if name in ('Accuracy', 'SequenceTokenAccuracy'):
      # top-1 accuracy equals accuracy
      if ([_frac(v) for v in side.get('accum', [])] != [_frac(v) for v in obs['accum']] or
          [_frac(v) for v in side.get('weight', [])] != [_frac(v) for v in obs['weight']] or side.get('shape') != obs['shape']):
        if True:
          out.append(('identity.top1-eq-accuracy', f'top-1 accuracy statistic {side} differs from accuracy {obs["accum"]}/{obs["weight"]}'))
    if name == 'ConfusionMatrix' and 'error' not in side:
      nd = case['dom'][0] if case['dom'] is not None else 1
      n = case['args']['nc']
      m = [_frac(v) for v in obs['accum']]
      for d in range(nd):
        blk = m[d * n * n:(d + 1) * n * n]
        trace = sum(blk[i * n + i] for i in range(n))
        total = sum(blk)
        if trace != _frac(side['accum'][d]) or total != _frac(side['weight'][d]):
          out.append(('identity.confusion-trace', f'trace/total {trace}/{total} of the confusion matrix differ from the accuracy statistic {side["accum"][d]}/{side["weight"][d]}'))
          break
  return out


# --------------------------------------------------------------------------
# Coq encoding

def _zl(xs):
  return '(' + fw.zlist(xs) + ')%Z'


def _lm(a):
  if 'lm' not in a:
    return 'None'
  return '(Some ' + fw.clist([_ext(v) for v in a['lm']]) + ')'


def _scores(rows, rank=None):
  return fw.clist([_zl([_zi(v) if rank is None else rank[float(np.float32(float(v)))] for v in r]) for r in rows])


def _ranks(case):
  """Order-preserving integer relabelling of the float32 scores (sweep cases: the order-based metrics depend on the
  scores only through their order and ties; there is no logits mask in these cases)."""
  rows = case['pred'] if case['metric'] in USES_PRED_SEQ else [case['pred']]
  vals = sorted({float(np.float32(float(v))) for r in rows for v in r})
  return {v: i for i, v in enumerate(vals)}


def encode(case, obs):
  if case.get('kind') == 'flags':
    return None
  if case.get('narrow') and (case['metric'] == 'ConfusionMatrix' and case['narrow'] > 30):
    return None     # a 100 x 100 ... 300 x 300 matrix: judged by the oracle (python ints), too large as a Coq literal
  if case.get('kind') == 'grid':
    b = f'KGridTopK {case["n"]}%nat' if case['which'] == 'topk' else f'KGridSeq {case["n"]}%nat'
    vals = '[' + '; '.join(f'{int(v)}' for v in obs['grid']) + ']'
    return f'(mkC14 None ({b}), mkO14 false false [{len(obs["grid"])}]%Z (map inject_Z {vals}%Z) [])'
  if case.get('dom2'):
    return None   # nested wrappers: oracle only (C14_per_domain_restricts is polymorphic in the base statistic)
  if case.get('nonfinite'):
    return None   # the model has no non-finite statistic; these cases are judged by the oracle
  name, a = case['metric'], case['args']
  masked = _zl(a['masked'] if 'masked' in a else [0])
  rank = _ranks(case) if case.get('sweep') and name not in CE_METRICS else None
  if name in USES_PRED_ONE:
    s = _zl([_zi(v) for v in case['pred']]) if rank is None else _scores([case['pred']], rank)[1:-1]
    t = fw.zlit(case['y'])
    if name == 'CrossEntropyLoss':
      b = f'KCE {fw.qlit(_ce(_masked_scores(case["pred"], None), case["y"]))}'
    elif name == 'Accuracy':
      b = f'KAcc {s} {t}'
    elif name == 'TopKAccuracy':
      b = f'KTopK {fw.zlit(a["k"])} {s} {t}'
    else:
      b = f'KConf {fw.zlit(a["nc"])} {s} {t}'
  else:
    ts = _zl(case['y'])
    pp = fw.cbool(a.get('pp', False))
    if name == 'SequenceTokenCrossEntropyLoss':
      b = f'KSeqTokCE {masked} {pp} {ts} {fw.qlist(_token_ces(case))}'
    elif name == 'SequenceCrossEntropyLoss':
      b = f'KSeqCE {masked} {ts} {fw.qlist(_token_ces(case))}'
    elif name == 'SequenceTokenAccuracy':
      b = f'KSeqTokAcc {masked} {_lm(a)} {pp} {ts} {_scores(case["pred"], rank)}'
    elif name == 'SequenceTokenTopKAccuracy':
      b = f'KSeqTokTopK {fw.zlit(a["k"])} {masked} {_lm(a)} {pp} {ts} {_scores(case["pred"], rank)}'
    elif name == 'SequenceTokenCount':
      b = f'KTokCount {masked} {ts}'
    elif name == 'SequenceCount':
      b = f'KSeqCount {masked} {ts}'
    elif name == 'SequenceTruncationRate':
      b = f'KTrunc {fw.zlit(a["eos"])} {masked} {ts}'
    elif name == 'SequenceTokenOOVRate':
      b = f'KOOV {_zl(a["oovs"])} {masked} {pp} {ts}'
    else:
      b = f'KLen {masked} {ts}'
  dom = 'None' if case['dom'] is None else f'(Some ({case["dom"][0]}%nat, {fw.zlit(case["dom"][1])}%Z))'
  c = f'mkC14 {dom} ({b})'
  if 'error' in obs:
    o = 'mkO14 true false [] [] []'
  else:
    vals = obs['accum'] + obs['weight']
    if not all(math.isfinite(v) for v in vals) or obs['kind'] not in ('mean', 'sum'):
      return None   # judged by the oracle; the model has no non-finite statistic
    o = (f'mkO14 false {fw.cbool(obs["kind"] == "mean")} {_zl(obs["shape"])} '
         f'{fw.qlist(obs["accum"])} {fw.qlist(obs["weight"])}')
  return f'({c}, {o})'


def nontrivial(case, obs):
  if case.get('kind') == 'grid':
    return True
  if case.get('kind') == 'flags':
    return obs.get('ran', 0) > 0
  if 'error' in obs:
    return True
  return any(v != 0 for v in obs['accum']) or bool(_corner(case))


def describe(case, obs):
  if case.get('kind') == 'grid':
    return {'grid': case['which'], 'grid_points': len(obs['grid'])}
  if case.get('kind') == 'flags':
    return {'flags': json.dumps(case['env']), 'flag_cases_ran': obs.get('ran', 0)}
  d = {'metric': case['metric'], 'per_domain': case['dom'] is not None}
  for t in _corner(case):
    d['corner_' + t] = True
  if case['metric'] in USES_PRED_ONE:
    s = _masked_scores(case['pred'], None)
    d['classes'] = len(s)
    d['tie_at_max'] = s.count(max(s)) > 1
  else:
    d['length'] = len(case['y'])
    if case['pred'] is not None:
      # hypothesis `0 <= t < classes` of C14_topk_ge_classes_is_one / C14_topk_is_rank: masked values such as -1 fall
      # outside; such targets only ever carry weight 0 (the generator never makes an out-of-range target real)
      d['targets_all_in_class_range'] = all(0 <= t < len(case['pred'][0]) for t in case['y'])
  if 'lm' in case['args']:
    d['logits_mask_inf'] = any(math.isinf(_fl(v)) for v in case['args']['lm'])
  d['error'] = obs.get('error', 'none')
  return d


def shrink(case):
  if case.get('kind') == 'grid':
    return
  if case.get('kind') == 'flags':
    return
  if case['dom'] is not None:
    yield {**case, 'dom': None}
  if case['keys'] != ['y', None]:
    yield {**case, 'keys': ['y', None]}
  if case['metric'] not in USES_PRED_ONE and len(case['y']) > 1:
    for i in range(len(case['y'])):
      c = {**case, 'y': case['y'][:i] + case['y'][i + 1:]}
      if case['pred'] is not None:
        c['pred'] = case['pred'][:i] + case['pred'][i + 1:]
      yield c
  a = case['args']
  if 'k' in a:
    for k in (0, 1, 2, -1):
      if k != a['k'] and abs(k) < abs(a['k']):
        yield {**case, 'args': {**a, 'k': k}}
  if 'lm' in a:
    yield {**case, 'args': {k: v for k, v in a.items() if k != 'lm'}}
