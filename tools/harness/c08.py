"""C08 harness: InMemoryFederatedData / SQLiteFederatedData / SubsetFederatedData expose
the same mapping under every sequence of slice / subset / preprocess operations.

One case = a logical dataset (ids in insertion order, integer rows), alien ids, an
operation sequence, get_clients requests.  `run` builds four real pipelines
  mem     InMemoryFederatedData(dict)
  sql     SQLiteFederatedData over a file written by SQLiteFederatedDataBuilder
  submem  SubsetFederatedData(mem, all ids)     subsql  SubsetFederatedData(sql, all ids)
applies the operations to each (an OSubset wraps the current view in a new
SubsetFederatedData), and queries EVERY view of every pipeline through every access
path, once right after it was created and once more after all its descendants were
derived.  No JAX is touched."""
import itertools
import os
import shutil
import tempfile

import numpy as np
from lib import fw

PROP = 'C08'
COQ_HEADER = 'From FV Require Import Common.Bytes Model.C08_Model.\nLocal Open Scope Z_scope.'
COQ_AGREE = 'C08_agree'
COQ_MODEL_TARGETS = ['Model/C08_Model']
RULE = ('random logical datasets of 0..6 clients with adversarial ids (empty id, trailing zero bytes, mutual prefixes, '
        '0xff bytes, b\'\' as id and as bound), tables of 0..4 rows, random operation sequences of length 0..6 (nested / empty / inverted '
        'slices, subsets incl. refused and duplicate ids, 5 client and 2 batch preprocessor kinds), 4 pipelines (SQLite opened by .new() and by the '
        'direct constructor), every view through every access path plain and interleaved, shuffled passes replayed exactly from the recorded RandomState; '
        'non-trivial = at least one operation and at least one client; distinct = distinct case JSON')
TRUSTED = ['SQLite BLOB comparison = memcmp then length (the Bytes order) and ORDER BY rowid = insertion order '
           '(exercised on every case, not modelled below the WHERE predicate)',
           'zlib/msgpack round trip of the example tables (exercised; property C16)',
           'numpy arithmetic on small int64 values',
           'tools/anchors/federated_data.py: bytes / Optional[bytes] / object-level extension of the translator, its SQL statement parser, and the '
           'reading of generator / cursor loops as the list combinators of Common/PyIter.v (for_yield, for_raise_yield, for_keep_yield, fetch_all, sql_where, sql_by_key)',
           'C15_Model.buffered_shuffle (the mirror of client_datasets.buffered_shuffle, tied by C15)']
ASSUMPTIONS = ['client ids of the logical dataset are distinct (they are dict keys / a PRIMARY KEY)',
               'shuffled pass: buffer_size >= 1 and every rng.randint(buffer_size) draw d satisfies -buffer_size <= d (NumPy: 0 <= d < buffer_size; asserted on every recorded draw)',
               'dict(examples) and assert_consistent_rows(out) inside the preprocessor __call__s are identities on the modelled family',
               'preprocessing functions are pure (the indexed family: x+k, x*k, x+sum(id), duplicate rows, drop first row, add a constant feature)',
               'a python set is modelled as a duplicate-free list: only membership and sorted() are ever applied to it',
               'the in-memory dict is modelled as an association list: all iteration goes through sorted(keys)']
PARTIAL = ['next() on shuffled_clients() of an EMPTY view never returns (while True over an empty pass); not demanded by the property, not flagged']
CASE_TIMEOUT = 60

PIPES = ['mem', 'sql', 'submem', 'subsql']
# the extra feature column w = f(original x): dtypes the SQLite (msgpack) path supports
# the name of that column rotates over names the code uses internally for other things
WNAMES = ['w', 'data', 'client_id', 'num_examples', '__mask__', '']
WKINDS = ['none', 'float16', 'uint8', 'bool', 'int8', 'int32big', 'complex64', 'datetime64[D]', 'object', 'float64']
COQ_PIPE = {'mem': 'PMem', 'sql': 'PSql', 'submem': 'PSubMem', 'subsql': 'PSubSql'}

POOL = [b'', b'\x00', b'\x00\x00', b'a', b'a\x00', b'a\x00\x00', b'a\x01', b'aa', b'ab', b'a\xff', b'b',
        b'\x7f', b'\x80', b'\xff', b'\xff\x00', b'\xff\xff', b'B', b'ab\x00', b'\x00a',
        # values that look like the code's own placeholders / SQL text / bounds of the generator
        b'start', b':start', b'stop', b'None', b"';--", b'%', b'_', b'__mask__', b'client_id', b'\xff\xff\xff', b'\xff\xff\xff\xff']
ALPHA = [0, 1, 0x61, 0x62, 0x7f, 0x80, 0xff]


def hx(b):
  return bytes(b).hex()


def unhx(s):
  return None if s is None else bytes.fromhex(s)


# --------------------------------------------------------------------------
# generation

def _rand_id(rng):
  if rng.random() < 0.6:
    return rng.choice(POOL)
  return bytes(rng.choice(ALPHA) for _ in range(rng.randrange(0, 4)))


def _near(rng, ids):
  """An id close to the given ones in the order: successor (append 0), proper prefix, extension."""
  if not ids or rng.random() < 0.2:
    return _rand_id(rng)
  i = rng.choice(ids)
  k = rng.randrange(5)
  if k == 0:
    return i + b'\x00'
  if k == 1:
    return i[:-1]
  if k == 2:
    return i + bytes([rng.choice(ALPHA)])
  if k == 3 and i:
    return i[:-1] + bytes([(i[-1] + rng.choice([1, 255])) % 256])
  return _rand_id(rng)


def _visible(ds_ids, ops):
  """Ids visible after ops (used only to aim the generator; the oracle has its own)."""
  vis = set(ds_ids)
  for o in ops:
    if o[0] == 'slice':
      s, e = unhx(o[1]), unhx(o[2])
      vis = {i for i in vis if (s is None or s <= i) and (e is None or i < e)}
    elif o[0] == 'subset':
      ids = [unhx(x) for x in o[1]]
      if all(i in vis for i in ids):
        vis &= set(ids)
  return vis


def gen_case(rng, max_clients=6, max_ops=6):
  n = rng.choice([0, 1, 2, 3, 3, 4, 4, 5, 5, 6][:max(1, max_clients + 4)])
  n = min(n, max_clients)
  ids = []
  while len(ids) < n:
    i = _near(rng, ids) if rng.random() < 0.5 else _rand_id(rng)
    if i not in ids:
      ids.append(i)
  rng.shuffle(ids)
  # rows differ between clients (client j holds values around 13*j) so that a mis-association of ids and tables shows
  ds = [[hx(i), [13 * j + rng.randrange(-3, 10) for _ in range(rng.choice([0, 1, 1, 2, 2, 3, 4]))]] for j, i in enumerate(ids)]
  aliens = []
  for _ in range(rng.randrange(1, 4)):
    a = _near(rng, ids)
    if a not in ids and a not in aliens:
      aliens.append(a)
  universe = ids + aliens
  ops, ndup = [], 0
  for _ in range(rng.randrange(0, max_ops + 1)):
    r = rng.random()
    if r < 0.42:
      bounds = []
      for _b in range(2):
        q = rng.random()
        # None / the empty id b'' (falsy but a real bound) / an id of the universe / a near neighbour
        bounds.append(None if q < 0.3 else b'' if q < 0.37 else
                      (rng.choice(universe) if universe and rng.random() < 0.5 else _near(rng, universe)))
      s, e = bounds
      if s is not None and e is not None and s > e and rng.random() < 0.7:
        s, e = e, s            # mostly proper ranges; 30% of the inverted ones stay inverted
      vis = sorted(_visible(ids, ops))
      if vis and rng.random() < 0.65 and not any((s is None or s <= i) and (e is None or i < e) for i in vis):
        # keep the view inhabited most of the time: a range around one visible id, with tight bounds
        t = rng.choice(vis)
        lo = [c for c in universe + [t[:-1], b''] if c <= t]
        hi = [c for c in universe + [t + b'\x00', t + b'\xff', b'\xff\xff\xff'] if c > t]
        s = None if rng.random() < 0.3 else rng.choice(lo)
        e = None if rng.random() < 0.3 else rng.choice(hi)
      ops.append(['slice', None if s is None else hx(s), None if e is None else hx(e)])
    elif r < 0.62:
      vis = sorted(_visible(ids, ops))
      sub = [i for i in vis if rng.random() < 0.7]
      q = rng.random()
      if q < 0.15 and universe:
        sub.append(rng.choice(universe))     # maybe outside the view: refused with ValueError
      elif q < 0.3 and sub:
        sub.append(rng.choice(sub))          # duplicate
      rng.shuffle(sub)
      ops.append(['subset', [hx(i) for i in sub]])
    elif r < 0.84:
      kinds = ['add', 'mul', 'addid', 'tail', 'mark', 'yz'] + (['dup'] if ndup < 2 else [])
      earlier = [o[1] for o in ops if o[0] == 'prec' and (o[1][0] != 'dup' or ndup < 2)]
      if earlier and rng.random() < 0.35:     # the SAME function (object) registered once more
        spec = list(rng.choice(earlier))
      else:
        k = rng.choice(kinds)
        spec = [k, rng.randrange(-2, 4)] if k in ('add', 'mul') else [k]
      ndup += spec[0] == 'dup'
      ops.append(['prec', spec])
    else:
      earlier = [o[1] for o in ops if o[0] == 'preb']
      if earlier and rng.random() < 0.35:
        ops.append(['preb', list(rng.choice(earlier))])
      else:
        ops.append(['preb', [rng.choice(['add', 'mul', 'ymul']), rng.randrange(-2, 4)]])
  reqs = []
  vis = sorted(_visible(ids, ops))
  for q in range(rng.randrange(1, 4)):
    src = vis if (q == 0 and vis) else universe
    req = [rng.choice(src) for _ in range(rng.randrange(0, 5))] if src else []
    if rng.random() < 0.5 and universe:
      req.insert(rng.randrange(len(req) + 1), rng.choice(universe))
    reqs.append([hx(i) for i in req])
  return {'ds': ds, 'aliens': [hx(a) for a in aliens], 'ops': ops, 'reqs': reqs,
          'mid': rng.randrange(0, len(ops) + 1), 'buf': rng.choice([rng.randrange(1, n + 3)] * 9 + [1000]),
          'seed': rng.choice([0, 0, None, rng.randrange(1000), rng.randrange(1000), rng.randrange(1000)]),
          'wk': rng.randrange(0, len(WKINDS)),       # dtype of the extra feature column w
          'wn': rng.randrange(0, len(WNAMES)),       # its name
          'lay': rng.randrange(0, 1000),             # rotates the memory layout of every stored feature array
          'forms': rng.randrange(0, 1000),           # rotates argument delivery / call forms
          'bufnp': rng.random() < 0.3}               # buffer_size as np.int64


def _fixed_cases():
  """Hand-written corners named by the property's quantifier."""
  a, a0, a00 = hx(b'a'), hx(b'a\x00'), hx(b'a\x00\x00')
  ds = [[a0, [1, 2]], [hx(b''), [3]], [a00, []], [a, [4, 5, 6]], [hx(b'\xff'), [7]], [hx(b'ab'), [8]]]
  base = {'ds': ds, 'aliens': [hx(b'a\x01'), hx(b'\xff\xff'), hx(b'\x00')], 'mid': 1, 'buf': 2, 'seed': 1,
          'reqs': [[a, a0, a], [a00, hx(b'a\x01'), a], []]}
  seqs = [
      [],
      [['slice', a, a00]],                                   # exactly {a, a\0}
      [['slice', a0, a0]],                                   # empty: start == stop
      [['slice', hx(b'b'), a]],                              # start > stop
      [['slice', None, a00], ['slice', a, None]],            # nested = intersection
      [['slice', a, None], ['slice', hx(b''), hx(b'\xff')]], # second slice must not enlarge
      [['slice', None, hx(b'')]],                            # nothing is below the empty id
      [['slice', hx(b''), hx(b'\x00')]],                     # only the empty id
      [['slice', None, hx(b'\xff')], ['slice', None, hx(b'')]],   # nested: the NEW stop is the (falsy) empty id
      [['slice', hx(b'a'), None], ['slice', hx(b''), None]],      # nested: the NEW start is the empty id
      [['slice', None, hx(b'')], ['slice', None, hx(b'b')]],      # nested: the CURRENT stop is the empty id
      [['slice', hx(b''), hx(b'')]],
      [['subset', [a, a00]], ['slice', a0, None]],           # slice of subset
      [['slice', a, hx(b'b')], ['subset', [a0, hx(b'ab')]]], # subset of slice
      [['slice', a, hx(b'b')], ['subset', [hx(b'\xff')]]],   # subset outside the slice: refused
      [['subset', []], ['slice', None, None]],               # empty subset
      [['prec', ['add', 1]], ['prec', ['mul', 2]], ['preb', ['add', 3]], ['prec', ['dup']], ['preb', ['mul', -1]], ['prec', ['tail']]],
      [['preb', ['mul', 2]], ['prec', ['addid']], ['slice', a, None], ['prec', ['tail']], ['subset', [a, a0]], ['prec', ['dup']]],
      [['prec', ['mark']], ['preb', ['add', 1]], ['slice', a, None]],
      # the same non-idempotent function object registered repeatedly: adjacent, separated, around view operations
      [['prec', ['mul', 2]], ['prec', ['mul', 2]]],
      [['prec', ['add', 1]], ['prec', ['mul', 2]], ['prec', ['add', 1]]],
      [['prec', ['dup']], ['slice', a, None], ['prec', ['dup']], ['subset', [a, a0]], ['prec', ['tail']], ['prec', ['tail']]],
      [['preb', ['mul', 2]], ['preb', ['mul', 2]], ['preb', ['add', 1]], ['slice', None, hx(b'b')], ['preb', ['mul', 2]]],
      [['prec', ['add', 2]], ['preb', ['add', 2]], ['prec', ['add', 2]], ['preb', ['add', 2]]],     # a feature added at client level, seen on the empty client a\0\0 too
  ]
  for s in seqs:
    yield {**base, 'ops': s, 'mid': min(1, len(s))}
  yield {'ds': [], 'aliens': [a], 'ops': [['slice', None, a], ['prec', ['dup']], ['subset', []]], 'reqs': [[], [a]],
         'mid': 1, 'buf': 1, 'seed': 0}


GRID_IDS = [b'', b'a', b'a\x00', b'a\x00\x00', b'a\x01', b'ab', b'b', b'\xff', b'\xff\xff', b'\x00', b'aa']


def _grid_cases(tier, rng):
  """Exhaustive grids on small universes.
  shuffle grid: n clients (0..6) x buffer_size 1..8 x 3 consecutive passes, every pipeline;
  slice grid:   EVERY (start, stop) pair over a universe of 9-11 ids (prefixes, trailing zero bytes, b'', 0xff) and None,
                sliced off the final view of every pipeline (after 0-2 earlier operations)."""
  base = {'aliens': [], 'reqs': [[]], 'mid': 0, 'buf': 2, 'wk': 0, 'wn': 0, 'forms': 0, 'bufnp': False}
  for n in range(0, 7):
    ids = [b'c%d' % j + (b'\x00' if j % 3 == 0 else b'') for j in range(n)]
    rng.shuffle(ids)
    ds = [[hx(i), [13 * j + 1] * (j % 3)] for j, i in enumerate(ids)]
    yield {**base, 'ds': ds, 'ops': [], 'seed': n, 'lay': n, 'bufs': list(range(1, 9)), 'npass': 3, 'kind': 'shuffle-grid'}
    if n >= 3 and tier != 'quick':
      yield {**base, 'ds': ds, 'ops': [['slice', hx(b'c1'), None], ['prec', ['dup']]], 'seed': 0, 'lay': n + 1,
             'bufs': list(range(1, 9)), 'npass': 3, 'kind': 'shuffle-grid'}
  for g in range(4 if tier == 'quick' else 24):
    uni = list(GRID_IDS[:9 + g % 3])
    rng.shuffle(uni)
    k = rng.randrange(5, len(uni) - 1)
    ds = [[hx(i), [13 * j + 2] * (j % 2)] for j, i in enumerate(uni[:k])]
    aliens = [hx(i) for i in uni[k:]]
    pre = [[], [['slice', hx(b'a'), hx(b'b')]], [['subset', [hx(i) for i in uni[:k:2]]]],
           [['slice', None, hx(b'\xff')], ['slice', hx(b''), None]]][g % 4]
    yield {**base, 'ds': ds, 'aliens': aliens, 'ops': pre, 'seed': g, 'lay': g, 'forms': g,
           'bounds': [None] + [hx(i) for i in uni], 'kind': 'slice-grid'}


def _xproc_cases(tier, rng):
  """Cases whose final views are observed a second time in ANOTHER interpreter process (different
  PYTHONHASHSEED) that opens the SQLite file this process wrote."""
  for _ in range(1 if tier == 'quick' else 6):
    c = gen_case(rng)
    while len(c['ds']) < 3 or not c['ops'] or c['seed'] is None:
      c = gen_case(rng)
    yield {**c, 'xproc': rng.randrange(1, 10 ** 6), 'kind': 'cross-process'}


def _chunk_cases(tier):
  """Datasets whose number of clients sits at and around 256 / 512 / 1024 (typical insert-chunk sizes of a
  writer), written by one add_many call or by several calls of different sizes: tiny one-row clients."""
  plans = [[255], [256], [257], [3, 256], [256, 3], [256, 256]]
  if tier != 'quick':
    plans += [[511], [512], [513], [1023], [1024], [1025], [512, 3], [256, 256, 256], [1, 255], [255, 1], [1024, 256]]
  for k, calls in enumerate(plans):
    yield {'kind': 'chunk', 'calls': calls, 'salt': k, 'ds': [], 'ops': [], 'aliens': [], 'reqs': [], 'seed': k, 'buf': 2}


def generate(tier, rng):
  if tier != 'search':
    yield from _chunk_cases(tier)
    yield from _fixed_cases()
    yield from _grid_cases(tier, rng)
    yield from _xproc_cases(tier, rng)
  n = {'quick': 280, 'thorough': 2400, 'search': 4000}[tier]
  for _ in range(n):
    yield gen_case(rng)


# --------------------------------------------------------------------------
# the real implementation

_FN_OBJECTS = {}


def _cfn(spec):
  """The client-level function of a spec.  Equal specs give the SAME function object, so an operation
  sequence that repeats a spec registers one object several times (the chain is a list with repeats)."""
  key = ('c',) + tuple(spec)
  if key not in _FN_OBJECTS:
    _FN_OBJECTS[key] = _make_cfn(spec)
  return _FN_OBJECTS[key]


def _bfn(spec):
  key = ('b',) + tuple(spec)
  if key not in _FN_OBJECTS:
    _FN_OBJECTS[key] = _make_bfn(spec)
  return _FN_OBJECTS[key]


def _make_cfn(spec):
  k = spec[0]
  if k == 'add':
    return lambda cid, ex: {**ex, 'x': ex['x'] + spec[1]}
  if k == 'mul':
    return lambda cid, ex: {**ex, 'x': ex['x'] * spec[1]}
  if k == 'addid':
    return lambda cid, ex: {**ex, 'x': ex['x'] + sum(cid)}
  if k == 'dup':
    return lambda cid, ex: {f: np.concatenate([v, v], axis=0) for f, v in ex.items()}
  if k == 'tail':
    return lambda cid, ex: {f: v[1:] for f, v in ex.items()}
  if k == 'mark':   # adds a feature: visible in the feature set / dtypes even on a client without examples
    return lambda cid, ex: {**ex, 'z': (ex['x'] * 0 + 7).astype(np.int16)}
  if k == 'yz':     # uses the feature an EARLIER client function may have added (preprocessing of preprocessed data)
    return lambda cid, ex: {**ex, 'y': ex['y'] + ex['z'][:, None].astype(np.int32)} if 'z' in ex else dict(ex)
  raise ValueError(spec)


def _make_bfn(spec):
  if spec[0] == 'add':
    return lambda ex: {**ex, 'x': ex['x'] + spec[1]}
  if spec[0] == 'mul':
    return lambda ex: {**ex, 'x': ex['x'] * spec[1]}
  if spec[0] == 'ymul':
    return lambda ex: {**ex, 'y': ex['y'] * np.int32(spec[1])}
  raise ValueError(spec)


def _wcol(orig, wk):
  """The extra column as a function of the ORIGINAL x value of each row."""
  x = np.array(orig, dtype=np.int64).reshape(len(orig))
  k = WKINDS[wk]
  special = np.where(x % 5 == 0, np.nan, np.where(x % 5 == 1, np.inf, np.where(x % 5 == 2, -np.inf, 0.0)))
  if k == 'float16':
    return (x / 2 + special).astype(np.float16)       # NaN / +inf / -inf on real rows
  if k == 'uint8':
    return (x % 256).astype(np.uint8)
  if k == 'bool':
    return x % 2 == 0
  if k == 'int8':
    return (x * 13 - 128).astype(np.int8)
  if k == 'int32big':
    return (x + 2 ** 24 + 1).astype(np.int32)      # not representable in float32
  if k == 'complex64':
    return (x + 1j * (x + 1)).astype(np.complex64)
  if k == 'datetime64[D]':
    return x.astype('datetime64[D]')
  if k == 'object':
    return np.array([b'r%d\x00' % v for v in orig] + [None], dtype=object)[:-1]
  if k == 'float64':
    return x * 0.1 + special
  return None


def _wobs(w):
  if w is None:
    return None
  w = np.asarray(w)
  if w.dtype == object:
    return [w.dtype.name, list(w.shape), [hx(v) for v in w]]
  return [w.dtype.name, list(w.shape), np.ascontiguousarray(w.astype(w.dtype.newbyteorder('='))).tobytes('C').hex()]


LAYOUTS = ['plain', 'fortran', 'transposed-view', 'strided', 'negative-stride', 'column-slice', 'read-only', 'byte-swapped']


def _layout(a, sel):
  """An array with the SAME shape, dtype kind and element values as `a` in another memory layout."""
  kind = LAYOUTS[sel % len(LAYOUTS)]
  if kind == 'fortran':
    return np.asfortranarray(a)
  if kind == 'transposed-view':              # a view (has a base) whose strides are those of Fortran order
    return np.ascontiguousarray(a.T).T
  if kind == 'strided':                      # every other row of a larger array
    big = np.zeros((2 * a.shape[0],) + a.shape[1:], dtype=a.dtype)
    big[1::2] = 1 if a.dtype.kind in 'iub' else 0      # junk between the real rows
    big[::2] = a
    return big[::2]
  if kind == 'negative-stride':
    return a[::-1].copy()[::-1]
  if kind == 'column-slice' and a.ndim >= 2:  # non-contiguous columns of a wider array
    big = np.zeros((a.shape[0], a.shape[1] + 3) + a.shape[2:], dtype=a.dtype)
    big[:, 2:2 + a.shape[1]] = a
    return big[:, 2:2 + a.shape[1]]
  if kind == 'read-only':
    b = a.copy()
    b.setflags(write=False)
    return b
  if kind == 'byte-swapped' and a.dtype.kind in 'iufc' and a.dtype.itemsize > 1:
    return a.astype(a.dtype.newbyteorder('S'))
  return a


def _vcol(orig):
  """A rank-3 feature (n, 3, 2): v[r, a, b] = x_r + 3a + b."""
  x = np.array(orig, dtype=np.int64).reshape(len(orig))
  return (x[:, None, None] + 3 * np.arange(3)[None, :, None] + np.arange(2)[None, None, :]).astype(np.int16)


def _examples(rows, wk=0, rot=0, wn=0, lay=None):
  """The stored examples of one client.  `rot` rotates the ORDER of the feature keys (the order of a
  client's feature mapping carries no meaning: the same logical dataset); `lay` rotates the MEMORY
  LAYOUT of every feature array (same values: Fortran order, views, strides, read-only, byte-swapped)
  and adds the rank-3 feature v."""
  x = np.array(rows, dtype=np.int64).reshape(len(rows))
  y = np.stack([x * 2, x * 2 + 1], axis=1).astype(np.int32).reshape(len(rows), 2)
  ex = {'x': x, 'y': y}
  w = _wcol(rows, wk)
  if w is not None:
    ex[WNAMES[wn]] = w
  if lay is not None:
    ex['v'] = _vcol(rows)
    for j, k in enumerate(list(ex)):
      if ex[k].dtype != object:
        ex[k] = _layout(ex[k], lay + 3 * j)
  keys = list(ex)
  r = rot % len(keys)
  return {k: ex[k] for k in keys[r:] + keys[:r]}


def _err(ex):
  return ['K'] if isinstance(ex, KeyError) else ['X', type(ex).__name__ + ': ' + str(ex)[:80]]


def _call(f):
  try:
    return ['V', f()]
  except Exception as ex:  # pylint: disable=broad-except
    return _err(ex)


def _dsobs(d):
  raw, al = d.raw_examples, d.all_examples()
  # dtype by NAME (byte order is storage, not content)
  meta = ';'.join(f'{k}:{v.dtype.name}:{"x".join(map(str, v.shape[1:]))}' for k, v in sorted(raw.items()))
  meta_a = ';'.join(f'{k}:{v.dtype.name}:{"x".join(map(str, v.shape[1:]))}' for k, v in sorted(al.items()))
  r = {'x': [int(v) for v in raw['x']], 'ax': [int(v) for v in al['x']],
       'y': [int(v) for v in np.asarray(raw['y']).reshape(-1)], 'ay': [int(v) for v in np.asarray(al['y']).reshape(-1)],
       'n': len(d), 'meta': meta if meta == meta_a else meta + ' / ' + meta_a}
  if 'v' in raw or 'v' in al:      # element-wise, in index order
    r['v'] = [[int(e) for e in np.asarray(m['v']).reshape(-1)] if 'v' in m else None for m in (raw, al)]
  extra = sorted(set(k for k in list(raw) + list(al) if k not in ('x', 'y', 'z', 'v')))
  if extra:
    r['w'] = _wobs(raw.get(extra[0]))
    r['aw'] = _wobs(al.get(extra[0]))
  return r


def _end(ex):
  return 'K' if isinstance(ex, KeyError) else 'X:' + type(ex).__name__ + ': ' + str(ex)[:80]


def _stream(it, after=None):
  """[items, ending]: the (id, dataset) pairs an iterator yields and how it ended ('D' done, 'K'
  KeyError, 'X:..' other).  `after(k)` runs after the k-th yielded item (interleaved access)."""
  out = []
  try:
    for cid, d in it:
      out.append([hx(cid), _dsobs(d)])
      if after is not None:
        after(len(out))
  except Exception as ex:  # pylint: disable=broad-except
    return [out, _end(ex)]
  return [out, 'D']


def _plain(it, conv, after):
  out = []
  try:
    for x in it:
      out.append(conv(x))
      after(len(out))
  except Exception as ex:  # pylint: disable=broad-except
    return [out, _end(ex)]
  return [out, 'D']


class RecRng(np.random.RandomState):
  """RandomState recording what the model needs as its oracle: the Lehmer code of every
  shuffle(list) and the value of every scalar randint(B) draw."""
  made = []
  max_passes = 10**9

  def __init__(self, seed=None):
    super().__init__(seed)
    self.codes, self.draws, self.contract = [], [], True
    RecRng.made.append(self)

  def shuffle(self, x):
    if len(self.codes) >= RecRng.max_passes:
      # an implementation whose passes yield nothing would spin in its `while True` for ever
      raise RuntimeError('shuffled_clients started more passes than items were requested')
    before = list(x)
    super().shuffle(x)
    rem, code = list(before), []
    for v in list(x):
      k = next((j for j, u in enumerate(rem) if u is v), None)
      if k is None:
        self.contract = False
        break
      code.append(k)
      rem.pop(k)
    if rem:
      self.contract = False
    self.codes.append(code)

  def randint(self, low, high=None, size=None, dtype=int):
    r = super().randint(low, high, size, dtype)
    if size is None and high is None:
      self.draws.append([int(low), int(r)])
      if not 0 <= int(r) < low:
        self.contract = False
    else:
      self.contract = False
    return r


def _shuffled(fd, buf, seed, count, after=None, kw=False):
  """`count` items of shuffled_clients(buf, seed), with the random choices of the RandomState the
  implementation creates (np.random.RandomState is replaced by the recording subclass meanwhile)."""
  orig = np.random.RandomState
  RecRng.made = []
  RecRng.max_passes = count + 2      # every pass of a non-empty view yields at least one client
  np.random.RandomState = RecRng
  try:
    it = fd.shuffled_clients(buffer_size=buf, seed=seed) if kw else fd.shuffled_clients(buf, seed)
    out = _stream(itertools.islice(it, count), after)
  finally:
    np.random.RandomState = orig
  made = RecRng.made
  RecRng.made = []
  rec = {'n_rng': len(made), 'codes': [c for r in made for c in r.codes],
         'draws': [d for r in made for d in r.draws], 'contract': all(r.contract for r in made)}
  return out + [rec]


class OneShot:
  """A one-shot iterator that counts how far it was consumed."""

  def __init__(self, items):
    self._it, self.taken, self.exhausted = iter(list(items)), 0, False

  def __iter__(self):
    return self

  def __next__(self):
    try:
      v = next(self._it)
    except StopIteration:
      self.exhausted = True
      raise
    self.taken += 1
    return v


FORMS = ['list', 'tuple', 'generator', 'iter', 'map', 'dictkeys', 'oneshot', 'set', 'frozenset']


def _deliver(ids, sel, allow_sets=False):
  """The same ids delivered as another kind of iterable (request order kept unless a set is allowed)."""
  ids = list(ids)
  names = FORMS if allow_sets else FORMS[:7]
  form = names[sel % len(names)]
  if form == 'dictkeys' and len(set(ids)) != len(ids):
    form = 'tuple'          # a dict view cannot repeat an id
  if form == 'list':
    return form, list(ids)
  if form == 'tuple':
    return form, tuple(ids)
  if form == 'generator':
    return form, (i for i in ids)
  if form == 'iter':
    return form, iter(ids)
  if form == 'map':
    return form, map(bytes, ids)
  if form == 'dictkeys':
    return form, dict.fromkeys(ids).keys()
  if form == 'oneshot':
    return form, OneShot(ids)
  if form == 'set':
    return form, set(ids)
  return form, frozenset(ids)


def _np_id(i, sel):
  """Every third eligible id is passed as numpy.bytes_ (a bytes subclass; it cannot hold a trailing NUL)."""
  return np.bytes_(i) if (sel % 3 == 0 and i and not i.endswith(b'\x00')) else i


def _interleaved(fd, o, universe, others, buf, seed):
  """Every lazily-read access path of `fd` once more, but after each yielded item OTHER access paths
  are used: on fd itself (point lookups, metadata, a fresh partially consumed clients() / client_ids()
  iterator, a bulk get) and on the related views `others` (root, parent, child).  Returns the outer
  iterations and whether every probe on fd answered as in the un-interleaved observation `o`."""
  state = {'k': 0, 'ok': True, 'first_bad': None}
  nu = len(universe)

  def expect(what, got, want):
    if got != want and state['ok']:
      state['ok'] = False
      state['first_bad'] = f'{what}: {got} instead of {want}'

  def probe(_k):
    for _ in range(2):
      j = state['k'] % 7
      u = (state['k'] // 7 + state['k']) % nu if nu else 0
      state['k'] += 1
      i = universe[u] if nu else b'?'
      if j == 0 and nu:
        expect(f'get_client({i!r})', _call(lambda: _dsobs(fd.get_client(i))), o['get'][u])
      elif j == 1 and nu:
        expect(f'client_size({i!r})', _call(lambda: int(fd.client_size(i))), o['size'][u])
      elif j == 2:
        expect('num_clients()', _call(lambda: int(fd.num_clients())), o['num'])
      elif j == 3:
        expect('first two of a fresh clients()', _stream(itertools.islice(fd.clients(), 2))[0], o['clients'][0][:2])
      elif j == 4:
        expect('first of a fresh client_ids()', _call(lambda: [hx(x) for x in itertools.islice(fd.client_ids(), 1)]),
               ['V', o['ids'][1][:1]] if o['ids'][0] == 'V' else o['ids'])
      elif j == 5:
        for v in others:
          _call(lambda v=v: int(v.num_clients()))
          _stream(itertools.islice(v.clients(), 1))
          _call(lambda v=v: [x for x in itertools.islice(v.client_sizes(), 2)])
          if nu:
            _call(lambda v=v: _dsobs(v.get_client(i)))
      elif j == 6 and nu:
        _stream(fd.get_clients([i, i]))

  n = o['num'][1] if o['num'][0] == 'V' else 0
  r = {}
  r['clients'] = _stream(fd.clients(), probe)
  r['ids'] = _plain(fd.client_ids(), hx, probe)
  r['sizes'] = _plain(fd.client_sizes(), lambda kv: [hx(kv[0]), int(kv[1])], probe)
  r['shuffled'] = _shuffled(fd, buf, seed, n, probe) if n > 0 else [[], 'D', {'n_rng': 0, 'codes': [], 'draws': [], 'contract': True}]
  # two live iterators over the same view, advanced alternately
  a, b = fd.clients(), fd.clients()
  la, lb = [], []
  try:
    for _ in range(n + 1):
      for it_, l_ in ((a, la), (b, lb)):
        x = next(it_, None)
        if x is not None:
          l_.append([hx(x[0]), _dsobs(x[1])])
    r['two_live'] = [la, lb]
  except Exception as ex:  # pylint: disable=broad-except
    r['two_live'] = [la, lb, _end(ex)]
  ia, ib = fd.client_ids(), fd.client_ids()
  r['two_live_ids'] = _call(lambda: [[hx(x), hx(y)] for x, y in zip(ia, ib)])
  # one pass consumed in pieces: islice, a bare iter(), then the rest; and a broken for loop before a full pass
  def pieces():
    it_ = fd.clients()
    first = list(itertools.islice(it_, 1))
    rest = list(iter(it_))
    return [[hx(c), _dsobs(d)] for c, d in first + rest]
  r['pieces'] = _call(pieces)
  def broken():
    for _x in fd.clients():
      break
    for _x in fd.client_sizes():
      break
    return _stream(fd.clients())
  r['broken_for'] = _call(broken)
  r['probes_ok'] = state['ok']
  r['first_bad'] = state['first_bad']
  return r


def _observe(fd, universe, reqs, buf, seed, others=None, forms=0):
  o = {}
  o['num'] = _call(lambda: int(fd.num_clients()))
  o['ids'] = _call(lambda: [hx(i) for i in fd.client_ids()])
  o['sizes'] = _call(lambda: [[hx(i), int(n)] for i, n in fd.client_sizes()])
  o['size'] = [_call(lambda i=i, k=k: int(fd.client_size(_np_id(i, forms + k)))) for k, i in enumerate(universe)]
  o['clients'] = _stream(fd.clients())
  o['det'] = _stream(fd.clients()) == o['clients'] and _call(lambda: [hx(i) for i in fd.client_ids()]) == o['ids']
  n = o['num'][1] if o['num'][0] == 'V' else 0
  if n > 0:   # two passes of the endless shuffled stream (an empty view has nothing to take)
    o['shuffled'] = _shuffled(fd, buf, seed, 2 * n, kw=bool(forms % 2))
  else:
    o['shuffled'] = [[], 'D', {'n_rng': 0, 'codes': [], 'draws': [], 'contract': True}]
  o['get'] = [_call(lambda i=i, k=k: _dsobs(fd.get_client(_np_id(i, forms + k + 1)))) for k, i in enumerate(universe)]
  o['gets'], o['gets_form'] = [], []
  for k, r in enumerate(reqs):      # the request delivered as a list / tuple / generator / iterator / map / dict view / one-shot
    form, arg = _deliver(r, forms + k)
    g = _stream(fd.get_clients(arg))
    o['gets'].append(g)
    o['gets_form'].append([form, arg.taken, arg.exhausted] if form == 'oneshot' else [form])
  if others is not None:
    o['inter'] = _interleaved(fd, o, universe, others, buf, seed)
  return o


def _final_views(case, path):
  """The four pipelines of `case` over an EXISTING SQLite file; returns the plain observation of each final view."""
  import sqlite3
  from fedjax.core import federated_data as fdm
  from fedjax.core import in_memory_federated_data as imm
  from fedjax.core import sqlite_federated_data as sqm
  wk, forms, wn, lay = case.get('wk', 0), case.get('forms', 0), case.get('wn', 0), case.get('lay')
  ds = [(unhx(i), rows) for i, rows in case['ds']]
  ids = [i for i, _ in ds]
  universe = ids + [unhx(a) for a in case['aliens']]
  reqs = [[unhx(i) for i in r] for r in case['reqs']]
  buf = np.int64(case['buf']) if case.get('bufnp') else case['buf']
  owned = {i: _examples(rows, wk, forms + k if k else 0, wn, None if lay is None else lay + k) for k, (i, rows) in enumerate(ds)}
  mem = imm.InMemoryFederatedData(owned)
  sql = sqm.SQLiteFederatedData.new(path)
  conn2 = sqlite3.connect(path)
  sql2 = sqm.SQLiteFederatedData(conn2, sqm.decompress_and_deserialize)
  roots = {'mem': mem, 'sql': sql, 'submem': fdm.SubsetFederatedData(mem, set(ids)), 'subsql': fdm.SubsetFederatedData(sql2, set(ids))}
  out = {}
  for pi, p in enumerate(PIPES):
    cur = roots[p]
    for oi, o in enumerate(case['ops']):
      cur, _r, _ok = _apply(fdm, cur, o, forms + oi + pi)
    out[p] = _observe(cur, universe, reqs, buf, case['seed'], None, forms + pi)
  conn2.close()
  return out


def _second_process(case, path, mine):
  """Runs _final_views in a fresh interpreter with another PYTHONHASHSEED on the file written here."""
  import json
  import subprocess
  import sys
  env = dict(os.environ)
  env['PYTHONHASHSEED'] = str(case['xproc'])
  cj = os.path.join(os.path.dirname(path), 'case.json')
  with open(cj, 'w') as f:
    json.dump({'case': case, 'path': path}, f)
  r = subprocess.run([sys.executable, os.path.abspath(__file__), cj], env=env, capture_output=True, text=True, timeout=50)
  if r.returncode != 0:
    return {'error': (r.stderr or r.stdout)[-400:]}
  theirs = json.loads(r.stdout.strip().split('\n')[-1])
  mine = json.loads(json.dumps(mine))
  return {'differs': [p for p in PIPES if theirs.get(p) != mine[p]], 'hashseed': case['xproc']}


def _snapshot(mapping):
  """Array-level and container-level state of a caller-owned {id: {feature: array}} mapping."""
  return [[hx(i), [[k, v.dtype.str, list(v.shape), ([hx(e) for e in v] if v.dtype == object else v.tobytes().hex()), id(v)]
                   for k, v in ex.items()]] for i, ex in mapping.items()]


def _apply(fdm, cur, o, sel):
  """One operation on a view, through a rotating call form.  Returns (new view, refused, caller container intact)."""
  if o[0] == 'slice':
    st, sp = unhx(o[1]), unhx(o[2])
    f = sel % 3
    if f == 0:
      return cur.slice(st, sp), False, True
    if f == 1:
      return cur.slice(start=st, stop=sp), False, True
    kw = {k: v for k, v in (('start', st), ('stop', sp)) if v is not None}   # omitted = None
    return cur.slice(**kw), False, True
  if o[0] == 'subset':
    ids = [unhx(x) for x in o[1]]
    form, arg = _deliver(ids, sel, allow_sets=True)
    before = list(arg) if form in ('list', 'tuple', 'dictkeys') else (set(arg) if form in ('set', 'frozenset') else None)
    try:
      new = fdm.SubsetFederatedData(cur, arg) if sel % 2 else fdm.SubsetFederatedData(base=cur, client_ids=arg, validate=True)
      refused = False
    except ValueError:
      new, refused = cur, True
    intact = before is None or (list(arg) == before if isinstance(before, list) else set(arg) == before)
    return new, refused, intact
  if o[0] == 'prec':
    return cur.preprocess_client(_cfn(o[1])), False, True
  if o[0] == 'preb':
    return cur.preprocess_batch(_bfn(o[1])), False, True
  raise ValueError(o)


def _run_chunk(case):
  """A large dataset of one-row clients through SQLiteFederatedDataBuilder (add_many called once per entry of
  case['calls'], list / generator alternating) against the same dataset in memory: counts, ids, sizes, samples."""
  from fedjax.core import federated_data as fdm
  from fedjax.core import in_memory_federated_data as imm
  from fedjax.core import sqlite_federated_data as sqm
  n = sum(case['calls'])
  ids = [b'k%05d' % ((7919 * (j + 1) + 31 * case.get('salt', 0)) % 100003) for j in range(n)]   # distinct, unsorted
  data = {i: {'x': np.array([j], dtype=np.int64)} for j, i in enumerate(ids)}
  tmp = tempfile.mkdtemp(prefix='c08-')
  try:
    path = os.path.join(tmp, 'fd.sqlite')
    with sqm.SQLiteFederatedDataBuilder(path) as b:
      pos = 0
      for k, c in enumerate(case['calls']):
        part = ids[pos:pos + c]
        pos += c
        b.add_many([(i, data[i]) for i in part] if k % 2 == 0 else ((i, data[i]) for i in part))
    sql = sqm.SQLiteFederatedData.new(path)
    mem = imm.InMemoryFederatedData(data)
    try:
      got_ids = list(sql.client_ids())
      sizes = dict(sql.client_sizes())
      yielded = [(k, int(d.raw_examples['x'][0])) for k, d in sql.clients()]
      sample = [ids[0], ids[n // 2], ids[-1]]
      gets = []
      for i in sample:
        try:
          gets.append(int(sql.get_client(i).raw_examples['x'][0]))
        except KeyError:
          gets.append('K')
      try:
        sub_num = int(fdm.SubsetFederatedData(sql, ids).num_clients())
      except ValueError:
        sub_num = 'ValueError'
      return {'chunk': {'n': n, 'sql_num': int(sql.num_clients()), 'mem_num': int(mem.num_clients()),
                        'missing': [hx(i) for i in ids if i not in set(got_ids)][:5], 'n_missing': len(set(ids) - set(got_ids)),
                        'order_ok': got_ids == ids[:len(got_ids)] if len(got_ids) <= n else False,
                        'sizes_ok': sizes == {i: 1 for i in got_ids},
                        'clients_ok': yielded == [(i, ids.index(i)) for i in got_ids],
                        'gets': gets, 'gets_want': [ids.index(i) for i in sample], 'sub_num': sub_num}}
    finally:
      sql._connection.close()
  finally:
    shutil.rmtree(tmp, ignore_errors=True)


def run(case):
  if case.get('kind') == 'chunk':
    return _run_chunk(case)
  import collections
  import sqlite3
  import types
  from fedjax.core import client_datasets as cdm
  from fedjax.core import federated_data as fdm
  from fedjax.core import in_memory_federated_data as imm
  from fedjax.core import sqlite_federated_data as sqm
  wk, forms, wn, lay = case.get('wk', 0), case.get('forms', 0), case.get('wn', 0), case.get('lay')
  ds = [(unhx(i), rows) for i, rows in case['ds']]
  ids = [i for i, _ in ds]
  universe = ids + [unhx(a) for a in case['aliens']]
  reqs = [[unhx(i) for i in r] for r in case['reqs']]
  buf = np.int64(case['buf']) if case.get('bufnp') else case['buf']
  seed = case['seed']
  tmp = tempfile.mkdtemp(prefix='c08-')
  conns = []
  # the module-level default preprocessors are shared by every dataset of the process: they must be empty.
  # (If an implementation grew them, say so and empty them again, or every later case would inherit the chains.)
  defaults_clean = fdm.NoOpClientPreprocessor._fns == () and cdm.NoOpBatchPreprocessor._fns == ()
  fdm.NoOpClientPreprocessor._fns = ()
  cdm.NoOpBatchPreprocessor._fns = ()
  try:
    path = os.path.join(tmp, 'fd.sqlite')
    # the caller's data: must stay as it is.  Clients list their features in different key orders.
    owned = {i: _examples(rows, wk, forms + k if k else 0, wn, None if lay is None else lay + k) for k, (i, rows) in enumerate(ds)}
    snap = _snapshot(owned)
    with sqm.SQLiteFederatedDataBuilder(path) as b:
      if forms % 2:
        b.add_many((i, owned[i]) for i in ids)               # a generator
      else:
        b.add_many([(i, owned[i]) for i in ids])
    mapping = [owned, collections.OrderedDict(owned),
               types.MappingProxyType({i: types.MappingProxyType(e) for i, e in owned.items()})][forms % 3]
    try:
      mem = imm.InMemoryFederatedData(mapping)
    except ValueError as ex:
      if 'Inconsistent features' in str(ex):     # the same features in another key order were refused
        return {'inmemory_rejects_feature_order': str(ex)[:200]}
      raise
    sql = sqm.SQLiteFederatedData.new(path)      # the documented way to open a file
    conn2, conn3 = sqlite3.connect(path), sqlite3.connect(path)
    sql2 = sqm.SQLiteFederatedData(conn2, sqm.decompress_and_deserialize)   # the direct constructor
    conns += [getattr(sql, '_connection', None), conn2, conn3]  # closed below; the file is removed with the directory
    all_ids_set = set(ids)
    roots = {'mem': mem, 'sql': sql,
             'submem': fdm.SubsetFederatedData(mem, _deliver(ids, forms + 3, True)[1]),
             'subsql': fdm.SubsetFederatedData(sql2, all_ids_set)}
    kept = {p: (roots[p].get_client(ids[0]) if ids else None) for p in PIPES}   # results the caller keeps
    kept_before = {p: (_dsobs(kept[p]) if ids else None) for p in PIPES}
    views, before, refused, intact = {}, {}, {}, True
    for pi, p in enumerate(PIPES):
      cur = roots[p]
      views[p], before[p], refused[p] = [cur], [_observe(cur, universe, reqs, buf, seed, None, forms + pi)], []
      for oi, o in enumerate(case['ops']):
        cur, r, ok = _apply(fdm, cur, o, forms + oi + pi)
        intact &= ok
        refused[p].append(r)
        views[p].append(cur)
        before[p].append(_observe(cur, universe, reqs, buf, seed, None, forms + pi))
    # siblings: from EVERY view derive further, different children and use them; none of this may be
    # visible through the views built above
    alt = unhx(case['aliens'][0]) if case['aliens'] else b'a'
    nops = len(case['ops'])
    focus = sorted({0, min(case.get('mid', 0), nops), nops})    # root, one intermediate view, final view
    for p in PIPES:
      for v in [views[p][k] for k in focus]:
        for child in (v.preprocess_client(_cfn(['mark'])), v.preprocess_batch(_bfn(['mul', 3])), v.slice(alt, None),
                      v.slice(None, b''), fdm.SubsetFederatedData(v, [])):
          _call(lambda c=child: int(c.num_clients()))
          _stream(child.clients())
    # the same chains given to the constructors directly (another entry point): slices / subsets applied afterwards
    nc, nb = sum(o[0] == 'prec' for o in case['ops']), sum(o[0] == 'preb' for o in case['ops'])
    kc, kb = (nc, nb) if forms % 2 == 0 else (nc // 2, (nb + 1) // 2)     # all of the chains, or their first parts
    cfns = [_cfn(o[1]) for o in case['ops'] if o[0] == 'prec'][:kc]
    bfns = [_bfn(o[1]) for o in case['ops'] if o[0] == 'preb'][:kb]
    ctor = {'mem': imm.InMemoryFederatedData(mapping, fdm.ClientPreprocessor(cfns), cdm.BatchPreprocessor(bfns)),
            'sql': sqm.SQLiteFederatedData(conn3, sqm.decompress_and_deserialize, None, None,
                                           preprocess_client=fdm.ClientPreprocessor(cfns),
                                           preprocess_batch=cdm.BatchPreprocessor(bfns))}
    ctor_obs = {}
    for p, cur in ctor.items():
      seen = {'prec': 0, 'preb': 0}
      for oi, o in enumerate(case['ops']):
        if o[0] in ('prec', 'preb'):
          seen[o[0]] += 1
          if seen[o[0]] <= (kc if o[0] == 'prec' else kb):
            continue            # already inside the constructor-supplied chain
        cur, _r, _ok = _apply(fdm, cur, o, forms + oi + 1)
      ctor_obs[p] = _observe(cur, universe, reqs, buf, seed, None, forms)
    # every view again, after all of its descendants exist
    # (this time with interleaved access: while one path is iterated, others are used on the same
    # view, on the root, on the parent and on the child)
    after = {}
    for pi, p in enumerate(PIPES):
      after[p] = []
      for k, v in enumerate(views[p]):
        others = [w for w in {id(w): w for w in [views[p][0], views[p][max(k - 1, 0)], views[p][min(k + 1, len(views[p]) - 1)]]}.values()
                  if w is not v]
        after[p].append(_observe(v, universe, reqs, buf, seed, others if k in focus else None, forms + pi))

    def stable(o):   # with seed=None two shuffles legitimately differ
      return {f: x for f, x in o.items() if f != 'inter' and not (f == 'shuffled' and seed is None)}
    changed = [[p, k] for p in PIPES for k in range(len(views[p])) if stable(before[p][k]) != stable(after[p][k])]
    grid = {}
    if case.get('bufs') or case.get('bounds'):
      for p in PIPES:
        v = views[p][-1]
        g = {}
        n = after[p][-1]['num'][1] if after[p][-1]['num'][0] == 'V' else 0
        if case.get('bufs') and n > 0:      # buffer sizes x consecutive passes
          g['shuf'] = [[b_] + _shuffled(v, b_, seed, case.get('npass', 3) * n) for b_ in case['bufs']]
        if case.get('bounds'):              # every (start, stop) pair
          masks = []
          bnds = [unhx(h) for h in case['bounds']]
          for st in bnds:
            for sp in bnds:
              def one(st=st, sp=sp):
                w = v.slice(st, sp)
                got = list(w.client_ids())
                if int(w.num_clients()) != len(got) or len(set(got)) != len(got) or any(i not in universe for i in got):
                  return -2
                return sum(1 << universe.index(i) for i in got)
              r = _call(one)
              masks.append(r[1] if r[0] == 'V' else -3)
          g['slice'] = masks
        grid[p] = g
    xproc = None
    if case.get('xproc'):
      xproc = _second_process(case, path, {p: stable(after[p][-1]) for p in PIPES})
    return {'views': after, 'refused': refused, 'changed': changed, 'ctor': ctor_obs, 'grid': grid, 'xproc': xproc,
            'caller_intact': bool(intact and _snapshot(owned) == snap and all_ids_set == set(ids) and
                                  list(owned) == ids and
                                  all(list(e) == list(_examples([], wk, forms + k if k else 0, wn, lay)) for k, e in enumerate(owned.values()))),
            'kept_intact': all((_dsobs(kept[p]) if ids else None) == kept_before[p] for p in PIPES),
            'defaults_intact': defaults_clean and fdm.NoOpClientPreprocessor._fns == () and cdm.NoOpBatchPreprocessor._fns == ()}
  finally:
    fdm.NoOpClientPreprocessor._fns = ()
    cdm.NoOpBatchPreprocessor._fns = ()
    for c in conns:
      try:
        c.close()
      except Exception:  # pylint: disable=broad-except
        pass
    shutil.rmtree(tmp, ignore_errors=True)


# --------------------------------------------------------------------------
# the property's own wording, computed independently

def _ble(a, b):
  """a <= b in the order of byte strings: first differing byte decides, a proper prefix is smaller."""
  for x, y in zip(a, b):
    if x != y:
      return x < y
  return len(a) <= len(b)


def _blt(a, b):
  return _ble(a, b) and a != b


def _ref_c(spec, cid, x, y):
  k = spec[0]
  if k == 'add':
    return [v + spec[1] for v in x], y
  if k == 'mul':
    return [v * spec[1] for v in x], y
  if k == 'addid':
    s = sum(cid)
    return [v + s for v in x], y
  if k == 'dup':
    return x + x, y + y
  if k == 'tail':
    return x[1:], y[1:]
  if k in ('mark', 'yz'):
    return x, y
  raise ValueError(spec)


def _ref_b(spec, x):
  return [v + spec[1] for v in x] if spec[0] == 'add' else [v * spec[1] for v in x] if spec[0] == 'mul' else x


def reference(case):
  """[(visible id set, client chain, batch chain)] per step and the refused flags."""
  stored = {unhx(i): list(rows) for i, rows in case['ds']}
  vis, cc, bc = set(stored), [], []
  out, refused = [(set(vis), [], [])], []
  for o in case['ops']:
    r = False
    if o[0] == 'slice':
      s, e = unhx(o[1]), unhx(o[2])
      vis = {i for i in vis if (s is None or _ble(s, i)) and (e is None or _blt(i, e))}
    elif o[0] == 'subset':
      ids = [unhx(x) for x in o[1]]
      if all(i in vis for i in ids):
        vis = vis & set(ids)
      else:
        r = True
    elif o[0] == 'prec':
      cc = cc + [o[1]]
    elif o[0] == 'preb':
      bc = bc + [o[1]]
    refused.append(r)
    out.append((set(vis), list(cc), list(bc)))
  return stored, out, refused


def _ref_dataset(stored, cid, cc, bc, wk=0, wn=0, lay=None):
  x = list(stored[cid])
  rows = [(o, 0) for o in x]   # per surviving row: its stored x (y and w are functions of it) and what was added to y
  marked = False
  for f in cc:            # client-level functions first, in registration order
    if f[0] == 'mark':
      marked = True
    if f[0] == 'yz' and marked:            # z exists (= 7) only if a mark was registered BEFORE
      rows = [(o, a + 7) for o, a in rows]
    x, rows = _ref_c(f, cid, x, rows)
  ax = list(x)
  ym = 1
  for g in bc:            # then batch-level functions, in registration order
    ax = _ref_b(g, ax)
    if g[0] == 'ymul':
      ym *= g[1]
  orig = [o for o, _ in rows]
  fy = [v for o, a in rows for v in (2 * o + a, 2 * o + 1 + a)]
  fay = [v * ym for v in fy]
  w = _wcol(orig, wk)
  feats = {'x': 'x:int64:', 'y': 'y:int32:2'}
  if w is not None:
    feats[WNAMES[wn]] = WNAMES[wn] + ':' + ('bool' if WKINDS[wk] == 'bool' else 'int32' if WKINDS[wk] == 'int32big' else WKINDS[wk]) + ':'
  if lay is not None:
    feats['v'] = 'v:int16:3x2'
  if marked:
    feats['z'] = 'z:int16:'
  meta = ';'.join(feats[k] for k in sorted(feats))
  r = {'x': x, 'ax': ax, 'y': fy, 'ay': fay, 'n': len(x), 'meta': meta}
  if lay is not None:
    fv = [o + 3 * a + b for o in orig for a in range(3) for b in range(2)]
    r['v'] = [fv, fv]
  if w is not None:
    r['w'] = r['aw'] = _wobs(w)
  return r


def _canon(o):
  """Order-insensitive form of a view observation (for the pairwise differential)."""
  c = dict(o)
  c['ids'] = [o['ids'][0], sorted(o['ids'][1])] if o['ids'][0] == 'V' else o['ids']
  c['sizes'] = [o['sizes'][0], sorted(o['sizes'][1])] if o['sizes'][0] == 'V' else o['sizes']
  c['clients'] = [sorted(o['clients'][0], key=lambda kv: kv[0])] + o['clients'][1:]
  c['shuffled'] = [sorted(o['shuffled'][0], key=lambda kv: kv[0]), o['shuffled'][1]]
  c.pop('inter', None)
  c.pop('gets_form', None)
  return c


def oracle(case, obs):
  out = []

  def bad(key, msg):
    if not any(k == key for k, _ in out):
      out.append((key, msg))

  if 'chunk' in obs:
    c = obs['chunk']
    if (c['sql_num'] != c['n'] or c['mem_num'] != c['n'] or c['n_missing'] or not c['order_ok'] or not c['sizes_ok']
        or not c['clients_ok'] or c['gets'] != c['gets_want'] or c['sub_num'] != c['n']):
      return [('sqlite-builder-lost-clients',
               f'{c["n"]} clients written by add_many calls of sizes {case["calls"]}: the SQLite dataset exposes num_clients={c["sql_num"]} '
               f'(in-memory: {c["mem_num"]}), {c["n_missing"]} ids missing (e.g. {c["missing"]}), order ok={c["order_ok"]}, sizes ok={c["sizes_ok"]}, '
               f'clients() ok={c["clients_ok"]}, get_client samples {c["gets"]} (want {c["gets_want"]}), subset of all ids: {c["sub_num"]}')]
    return []
  if 'inmemory_rejects_feature_order' in obs:
    return [('inmemory-rejects-feature-order',
             'InMemoryFederatedData refuses a mapping whose clients hold the same features in a different key order '
             '(SQLiteFederatedData accepts the same logical dataset): ' + obs['inmemory_rejects_feature_order'])]

  stored, ref, ref_refused = reference(case)
  for a, b in ((b'a', b'a\x00'), (b'a\x00', b'a\x00\x00'), (b'', b'\x00'), (b'a\xff', b'b'), (b'\x7f', b'\x80')):
    assert _blt(a, b) and a < b and not _blt(b, a)
  universe = [unhx(i) for i, _ in case['ds']] + [unhx(a) for a in case['aliens']]
  reqs = [[unhx(i) for i in r] for r in case['reqs']]
  wk, seed = case.get('wk', 0), case['seed']

  def check_view(where, o, vis, cc, bc, bad):
    want = {i: _ref_dataset(stored, i, cc, bc, wk, case.get('wn', 0), case.get('lay')) for i in vis}
    items = [[hx(i), want[i]] for i in vis]
    if o['num'] != ['V', len(vis)]:
      bad('num-clients', f'{where}: num_clients {o["num"]}, the view has {len(vis)} clients')
    if o['ids'][0] != 'V' or sorted(o['ids'][1]) != sorted(hx(i) for i in vis):
      bad('client-ids', f'{where}: client_ids {o["ids"]} differ from the ids inside every requested range and subset {sorted(hx(i) for i in vis)}')
    if o['sizes'][0] != 'V' or sorted(o['sizes'][1]) != sorted([hx(i), len(stored[i])] for i in vis):
      bad('client-sizes', f'{where}: client_sizes {o["sizes"]} differ from the stored example counts of the view')
    for i, r in zip(universe, o['size']):
      if i in vis and r != ['V', len(stored[i])]:
        bad('client-size', f'{where}: client_size({i!r}) = {r}, stored count is {len(stored[i])}')
      if i not in vis and r != ['K']:
        bad('outside-keyerror', f'{where}: client_size({i!r}) = {r} for an id outside the view (KeyError expected)')
    cl = o['clients']
    if cl[1] != 'D' or sorted(cl[0], key=lambda kv: kv[0]) != sorted(items, key=lambda kv: kv[0]):
      bad('clients', f'{where}: clients() does not yield every client of the view once with its preprocessed examples '
          f'(got {[c for c, _ in cl[0]]} ending {cl[1]})')
    if not o['det']:
      bad('deterministic-order', f'{where}: two iterations of clients() / client_ids() differ')
    sh = o['shuffled']
    n = len(vis)

    def is_pass(ps):
      return sorted(ps, key=lambda kv: kv[0]) == sorted(items, key=lambda kv: kv[0])
    if sh[1] != 'D' or len(sh[0]) != 2 * n or not is_pass(sh[0][:n]) or not is_pass(sh[0][n:]):
      bad('shuffled-pass', f'{where}: a pass of shuffled_clients() does not visit every client of the view exactly once')
    it = o.get('inter')
    if it is not None:
      plain = {'clients': o['clients'], 'ids': [o['ids'][1], 'D'] if o['ids'][0] == 'V' else [[], 'raised ' + str(o['ids'])],
               'sizes': [o['sizes'][1], 'D'] if o['sizes'][0] == 'V' else [[], 'raised ' + str(o['sizes'])],
               'shuffled': [sh[0][:n], sh[1]]}
      for path in ('clients', 'ids', 'sizes', 'shuffled'):
        same = it[path][:2] == plain[path]
        if path == 'shuffled' and seed is None:       # unseeded: any permutation
          same = it[path][1] == 'D' and is_pass(it[path][0])
        if not same:
          bad('interleaved-iteration-differs',
              f'{where}: {path} iterated while other access paths are used in between yields '
              f'{[x[0] if isinstance(x, list) else x for x in it[path][0]]} ending {it[path][1]}, but '
              f'{[x[0] if isinstance(x, list) else x for x in plain[path][0]]} ending {plain[path][1]} when iterated alone')
      if not it['probes_ok']:
        bad('interleaved-iteration-differs', f'{where}: a query made during an iteration answers differently: {it["first_bad"]}')
      if it['two_live'] != [cl[0], cl[0]]:
        bad('interleaved-iteration-differs', f'{where}: two live clients() iterators advanced alternately yield '
            f'{[[c for c, _ in l] if isinstance(l, list) else l for l in it["two_live"]]}, each should yield {[c for c, _ in cl[0]]}')
      if o['ids'][0] == 'V' and it['two_live_ids'] != ['V', [[i, i] for i in o['ids'][1]]]:
        bad('interleaved-iteration-differs', f'{where}: two live client_ids() iterators zipped yield {it["two_live_ids"]}')
      if it['pieces'] != ['V', cl[0]]:
        bad('interleaved-iteration-differs', f'{where}: one clients() pass consumed in pieces (islice, iter(), rest) yields '
            f'{it["pieces"] if it["pieces"][0] != "V" else [c for c, _ in it["pieces"][1]]}')
      if it['broken_for'] != ['V', cl]:
        bad('interleaved-iteration-differs', f'{where}: a full clients() pass after an abandoned for loop differs')
    if not sh[2]['contract']:
      bad('rng-contract', f'{where}: shuffled_clients used its RandomState outside the modelled contract '
          '(shuffle(list) permutes, randint(buffer_size) in [0, buffer_size))')
    for i, r in zip(universe, o['get']):
      if i in vis and r != ['V', want[i]]:
        # the clause "preprocessors run in registration order (client-level before batch-level)" has its own key:
        # the observed examples are what ANOTHER order of the same functions would produce
        alts = []
        if r[0] == 'V' and 2 <= len(cc) + len(bc) and len(cc) <= 4 and len(bc) <= 4:
          alts = [(c2, b2) for c2 in itertools.permutations(cc) for b2 in itertools.permutations(bc)
                  if (list(c2), list(b2)) != (cc, bc)]
        if any(r[1] == _ref_dataset(stored, i, list(c2), list(b2), wk, case.get('wn', 0), case.get('lay')) for c2, b2 in alts):
          bad('preprocess-order', f'{where}: get_client({i!r}) returns the examples another ORDER of the registered functions '
              f'would give; registered: client chain {cc}, then batch chain {bc}')
        bad('get-client', f'{where}: get_client({i!r}) = {r}, expected {want[i]} (client chain {cc} then batch chain {bc})')
      if i not in vis and r != ['K']:
        bad('outside-keyerror', f'{where}: get_client({i!r}) = {r} for an id outside the view (KeyError expected)')
    for req, g, form in zip(reqs, o['gets'], o.get('gets_form', [['list']] * len(reqs))):
      exp, end = [], 'D'
      for i in req:
        if i not in vis:
          end = 'K'
          break
        exp.append([hx(i), want[i]])
      if g[0] != exp or g[1] != end:
        bad('get-clients-order', f'{where}: get_clients({req!r} as {form[0]}) gave {[c for c, _ in g[0]]} ending {g[1:]}, '
            f'expected {[c for c, _ in exp]} in request order ending {end}')
      if form[0] == 'oneshot' and (form[1] > len(req) or (end == 'D' and (form[1] != len(req) or not form[2]))):
        bad('argument-form', f'{where}: get_clients consumed {form[1]} of {len(req)} ids of a one-shot iterator '
            f'(exhausted: {form[2]}); a complete request must be consumed exactly once and completely')

  for p in PIPES:
    if obs['refused'][p] != ref_refused:
      bad('subset-validation', f'{p}: SubsetFederatedData accepted ids outside its base or refused ids inside it: '
          f'{obs["refused"][p]} expected {ref_refused}')
    for k, o in enumerate(obs['views'][p]):
      vis, cc, bc = ref[k]
      check_view(f'{p} after {k} operations', o, vis, cc, bc, bad)
  for p, o in obs.get('ctor', {}).items():
    vis, cc, bc = ref[-1]
    check_view(f'{p} built with the preprocessor chains as constructor arguments, then sliced', o, vis, cc, bc,
               lambda key, msg: bad('ctor-chain-differs', f'[{key}] {msg}'))
  for p, g in obs.get('grid', {}).items():
    vis, cc, bc = ref[-1]
    want = {i: _ref_dataset(stored, i, cc, bc, wk, case.get('wn', 0), case.get('lay')) for i in vis}
    items = sorted(([hx(i), want[i]] for i in vis), key=lambda kv: kv[0])
    n = len(vis)
    for b_, got, end, rec in g.get('shuf', []):
      npass = case.get('npass', 3)
      if end != 'D' or len(got) != npass * n or any(sorted(got[k * n:(k + 1) * n], key=lambda kv: kv[0]) != items for k in range(npass)):
        bad('shuffled-pass', f'{p}, {n} clients, buffer_size {b_}: one of {npass} consecutive passes of shuffled_clients() does not visit '
            f'every client exactly once: {[c for c, _ in got]} ending {end}')
      if not rec['contract']:
        bad('rng-contract', f'{p}, buffer_size {b_}: RandomState used outside the modelled contract')
    if 'slice' in g:
      bnds = [unhx(h) for h in case['bounds']]
      k = 0
      for st in bnds:
        for sp in bnds:
          exp = sum(1 << universe.index(i) for i in vis if (st is None or _ble(st, i)) and (sp is None or _blt(i, sp)))
          if g['slice'][k] != exp:
            bad('slice-grid', f'{p}: slice({st!r}, {sp!r}) of the final view exposes the id set {g["slice"][k]:#b} (bit j = universe[j]; '
                f'negative = inconsistent count / foreign id / exception), expected {exp:#b}: exactly the ids with start <= id < stop')
          k += 1
  xp = obs.get('xproc')
  if xp is not None:
    if 'error' in xp:
      bad('cross-process-differs', 'the second interpreter process failed: ' + xp['error'])
    elif xp['differs']:
      bad('cross-process-differs', f'another interpreter process (PYTHONHASHSEED={xp["hashseed"]}) reading the same SQLite file / the same '
          f'mapping observes different final views for {xp["differs"]} (ids, order, sizes, examples or the seeded shuffled pass)')
  for p, k in obs['changed']:
    bad('parent-changed', f'{p}: the view after {k} operations answers differently once further views were derived from it')
  if not obs.get('caller_intact', True):
    bad('caller-data-changed', 'the mapping / arrays / id containers handed to the constructors were modified')
  if not obs.get('kept_intact', True):
    bad('kept-result-changed', 'a ClientDataset obtained at the start reads differently after later operations')
  if not obs.get('defaults_intact', True):
    bad('shared-default-mutated', 'NoOpClientPreprocessor / NoOpBatchPreprocessor (shared defaults) now hold functions')
  for p, q in itertools.combinations(PIPES, 2):
    for k, (a, b) in enumerate(zip(obs['views'][p], obs['views'][q])):
      if _canon(a) != _canon(b):
        bad(f'differential-{p}-{q}', f'{p} and {q} expose different content after {k} operations')
  return out


# --------------------------------------------------------------------------
# encoding for Coq

def _B(b):
  return 'B ' + fw.zlist(list(b)) if b else 'B []'


def _optB(h):
  return 'None' if h is None else f'(Some ({_B(unhx(h))}))'


def _op(o):
  if o[0] == 'slice':
    return f'OSlice {_optB(o[1])} {_optB(o[2])}'
  if o[0] == 'subset':
    return 'OSubset ' + fw.clist([_B(unhx(x)) for x in o[1]])
  if o[0] == 'prec':
    k = o[1][0]
    return 'OPreClient ' + {'add': lambda: f'(CAdd {fw.zlit(o[1][1])})', 'mul': lambda: f'(CMul {fw.zlit(o[1][1])})',
                            'addid': lambda: 'CAddId', 'dup': lambda: 'CDup', 'tail': lambda: 'CTail',
                            'mark': lambda: 'CMark', 'yz': lambda: 'CYz'}[k]()
  k = o[1][0]
  return 'OPreBatch ' + (f'(BAdd {fw.zlit(o[1][1])})' if k == 'add' else f'(BMul {fw.zlit(o[1][1])})' if k == 'mul'
                         else f'(BYmul {fw.zlit(o[1][1])})')


def encode(case, obs):
  if 'views' not in obs:
    return None
  universe = [i for i, _ in case['ds']] + list(case['aliens'])

  def ix(h):
    return universe.index(h) if h in universe else len(universe) + 7

  def er(r, f):
    return f'V {f(r[1])}' if r[0] == 'V' else r[0]

  def dobs(d):
    return f'({fw.zlist(d["x"])}, {fw.zlist(d["ax"])})'

  def stream(s, limit=None):
    items = s[0] if limit is None else s[0][:limit]
    end = {'D': 0, 'K': 1}.get(s[1], 2)
    return '(' + fw.clist([f'({ix(c)}, {dobs(d)})' for c, d in items]) + f', {end})'

  B = case['buf']

  def grid_passes(p, n):
    out = []
    for b_, got, _end, rec in obs.get('grid', {}).get(p, {}).get('shuf', []):
      npass = case.get('npass', 3)
      per = max(0, n - b_)
      for k in range(npass):
        code = rec['codes'][k] if k < len(rec['codes']) else []
        dr = [d[1] if d[0] == b_ else -b_ - 1 for d in rec['draws'][k * per:(k + 1) * per]]
        out.append(f'({b_}, {fw.natlist(code)}, {fw.zlist(dr)}, ' +
                   fw.clist([f'({ix(c)}, {dobs(d)})' for c, d in got[k * n:(k + 1) * n]]) + ')')
    return out

  def passes(o, n, npass=2, extra=()):
    """[(code, draws, items)] for the two recorded passes; a recording of another shape is passed on
    as it is (the model then disagrees: fail closed)."""
    items, rec = o['shuffled'][0], o['shuffled'][2]
    if n == 0:
      return fw.clist(list(extra))
    per = max(0, n - B)
    out = []
    for k in range(npass):
      code = rec['codes'][k] if k < len(rec['codes']) else []
      dr = [d[1] if d[0] == B else -B - 1 for d in rec['draws'][k * per:(k + 1) * per]]
      out.append(f'({B}, {fw.natlist(code)}, {fw.zlist(dr)}, ' +
                 fw.clist([f'({ix(c)}, {dobs(d)})' for c, d in items[k * n:(k + 1) * n]]) + ')')
    if len(rec['codes']) != npass or len(rec['draws']) != npass * per or rec['n_rng'] != 1:
      out.append('(0, [], [], [])')
    return fw.clist(out + list(extra))

  entries = []
  nops = len(case['ops'])
  for p in PIPES:
    todo = [(k, obs['views'][p][k], 2, k == nops) for k in sorted({min(case.get('mid', 0), nops), nops})]
    it = obs['views'][p][nops].get('inter')
    if it is not None and p in ('sql', 'submem'):   # (the oracle judges all four; Coq re-evaluates two to keep the shard small)
      # the final view once more with its INTERLEAVED iterations in place of the plain ones (one shuffled pass)
      o2 = dict(obs['views'][p][nops])
      o2['clients'] = it['clients']
      o2['ids'] = ['V', it['ids'][0]] if it['ids'][1] == 'D' else ['X']
      o2['sizes'] = ['V', it['sizes'][0]] if it['sizes'][1] == 'D' else ['X']
      o2['shuffled'] = it['shuffled']
      todo.append((nops, o2, 1, False))
    for k, o, npass, with_grid in todo:
      n = o['num'][1] if o['num'][0] == 'V' else 0
      v = ('mkV (' + er(o['num'], fw.zlit) + ') (' + er(o['ids'], lambda l: fw.zlist([ix(h) for h in l])) + ') (' +
           er(o['sizes'], lambda l: fw.clist([f'({ix(h)}, {fw.zlit(z)})' for h, z in l])) + ') ' +
           fw.clist([er(r, fw.zlit) for r in o['size']]) + ' ' + stream(o['clients']) + ' ' +
           passes(o, n, npass, grid_passes(p, n) if with_grid else ()) + ' ' +
           fw.clist([er(r, dobs) for r in o['get']]) + ' ' + fw.clist([stream(g) for g in o['gets']]))
      entries.append(f'({COQ_PIPE[p]}, {k}, {fw.blist(obs["refused"][p][:k])}, {v})')
  ds = fw.clist([f'({_B(unhx(i))}, {fw.zlist(rows)})' for i, rows in case['ds']])
  c = (f'mkC08 {ds} {fw.clist([_B(unhx(a)) for a in case["aliens"]])} {fw.clist([_op(o) for o in case["ops"]])} '
       f'{fw.clist([fw.clist([_B(unhx(i)) for i in r]) for r in case["reqs"]])} '
       f'{fw.clist([_optB(h) for h in case.get("bounds", [])])}')
  grids = [f'({COQ_PIPE[p]}, {fw.zlist(g["slice"])})' for p, g in obs.get('grid', {}).items() if 'slice' in g]
  return f'({c},\n ({fw.clist(entries)}, ({fw.clist(grids)} : list (pipeline * list Z))))'


def nontrivial(case, obs):
  return 'views' in obs and len(case['ops']) > 0 and len(case['ds']) > 0


def describe(case, obs):
  if case.get('kind') == 'chunk':
    return {'kind': 'chunk', 'clients': sum(case['calls'])}
  _, ref, refused = reference(case)
  kinds = sorted({o[0] for o in case['ops']})
  return {'clients': len(case['ds']), 'ops': len(case['ops']), 'final_view_size': min(len(ref[-1][0]), 4),
          'op_kinds': '+'.join(kinds) or 'none', 'refused_subsets': sum(refused),
          'slices': min(sum(o[0] == 'slice' for o in case['ops']), 3),
          # hypothesis of the theorems: distinct client ids (a case that violated it would be counted here; none can,
          # ids are drawn without repetition and become dict keys / a PRIMARY KEY)
          'hyp_distinct_ids': len({i for i, _ in case['ds']}) == len(case['ds']),
          'kind': case.get('kind', 'random'),
          'w_dtype': WKINDS[case.get('wk', 0)], 'w_name': WNAMES[case.get('wn', 0)] or "''"}


def shrink(case):
  if case.get('kind') == 'chunk':
    return
  ops = case['ops']
  for k in range(len(ops)):
    yield {**case, 'ops': ops[:k] + ops[k + 1:], 'mid': min(case.get('mid', 0), len(ops) - 1)}
  for k in range(len(case['ds'])):
    yield {**case, 'ds': case['ds'][:k] + case['ds'][k + 1:]}
  for k in range(len(case['reqs'])):
    yield {**case, 'reqs': case['reqs'][:k] + case['reqs'][k + 1:]}
  for k in range(len(case['aliens'])):
    yield {**case, 'aliens': case['aliens'][:k] + case['aliens'][k + 1:]}
  for k, (i, rows) in enumerate(case['ds']):
    if rows:
      yield {**case, 'ds': case['ds'][:k] + [[i, rows[:-1]]] + case['ds'][k + 1:]}


if __name__ == '__main__':     # the second interpreter process of a cross-process case
  import json
  import sys
  with open(sys.argv[1]) as _f:
    _j = json.load(_f)
  _o = _final_views(_j['case'], _j['path'])
  _seed = _j['case']['seed']
  print(json.dumps({p: {f: x for f, x in o.items() if f != 'inter' and not (f == 'shuffled' and _seed is None)} for p, o in _o.items()}))
