"""Runs a subset of the C18 / C11 harness cases in THIS process, which the parent started
with non-default global JAX configuration (environment variables JAX_THREEFRY_PARTITIONABLE,
JAX_DEFAULT_PRNG_IMPL, JAX_ENABLE_X64, JAX_NUMPY_RANK_PROMOTION, JAX_DISABLE_JIT).
usage: python c11_c18_cfg_worker.py <c18|c11> <seed>      -> one JSON line on stdout:
{"n": cases run, "config": {...}, "violations": [[key, message, case], ...]}"""
import json
import os
import random
import sys

sys.path.insert(0, os.path.dirname(os.path.dirname(os.path.abspath(__file__))))


def main():
  which, seed = sys.argv[1], int(sys.argv[2])
  import jax
  cfg = {'threefry_partitionable': bool(jax.config.jax_threefry_partitionable),
         'prng_impl': str(jax.config.jax_default_prng_impl), 'x64': bool(jax.config.jax_enable_x64),
         'rank_promotion': str(jax.config.jax_numpy_rank_promotion), 'disable_jit': bool(jax.config.jax_disable_jit)}
  rng = random.Random(seed)
  viol, n = [], 0
  import hashlib
  dig = hashlib.sha1()
  if which == 'c18':
    from harness import c18 as h
    cases = [h._r(shape, rng) for shape in ([], [1], [3], [5, 7], [2, 3, 4], [129], [33], [6], [127])]
    cases += [{'kind': 'P', 'tree': t, 'seed': rng.randrange(1, 2 ** 30), 'key': rng.randrange(2 ** 31)} for t in range(len(h.TREES))]
    cases += [{'kind': 'B', 'shape': [1000], 'seed': rng.randrange(1, 2 ** 30), 'key': rng.randrange(2 ** 31), 'cseed': 7}]
    cases += [{'kind': 'X', 'sub': s, 'seed': rng.randrange(1, 2 ** 30), 'key': rng.randrange(2 ** 31)} for s in ('forms', 'boundary', 'interleave')]
  else:
    from harness import c11 as h
    cases = []
    for agg, tree, share in (('rusq', 5, False), ('rusq', 8, True), ('rusq', 4, False), ('drive', 5, False), ('drive', 8, True),
                             ('usq', 0, False), ('tern', 5, False)):
      cases.append({'kind': 'A', 'agg': agg, 'L': rng.choice([2, 3, 17]), 'tree': tree, 'clients': 2, 'rounds': 2,
                    'weights': [1.0, 2.0], 'seed': rng.randrange(1, 2 ** 30), 'key': rng.randrange(2 ** 31),
                    'share_clients': share})
    cases += [{'kind': 'X', 'sub': 'contexts', 'agg': None, 'L': 3, 'seed': rng.randrange(1, 2 ** 30), 'key': rng.randrange(2 ** 31)}]
    cases += [{'kind': 'X', 'sub': 'reuse', 'agg': 'rusq', 'L': 3, 'seed': rng.randrange(1, 2 ** 30), 'key': rng.randrange(2 ** 31)}]
  for c in cases:
    n += 1
    try:
      obs = h.run(c)
      dig.update(json.dumps(obs, sort_keys=True, default=str).encode())
      for k, m in h.oracle(c, obs):
        viol.append([k, m, c])
    except Exception as ex:  # pylint: disable=broad-except
      viol.append(['exception', f'{type(ex).__name__}: {str(ex)[:200]}', c])
  print('CFGRESULT ' + json.dumps({'n': n, 'config': cfg, 'violations': viol[:20], 'digest': dig.hexdigest()}))


if __name__ == '__main__':
  main()
