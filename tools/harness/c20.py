"""C20 harness: packaged preprocessors and models agree with each other.

Case kinds (each JSON-replayable):
  shake      shakespeare.preprocess_client on a snippet list / sequence length, and its output fed to
             models.shakespeare eval_metrics with hand-built logits
  consts     run-time label constants / look-up table of datasets.shakespeare and the ids held by the
             metric objects of both packaged language models
  tok        StackoverflowTokenizer (explicit vocabulary) -> as_preprocess_batch(max_length), and its
             output fed to models.stackoverflow eval_metrics with hand-built logits
  center / random / plain    crop windows of cifar100.preprocess_image_tff / preprocess_image, observed
             through marker images (no patching of the crop code; np.random draws are recorded)
  std        preprocess_image_tff(distort=False) vs tf.image.per_image_standardization and a float64 reference
  domain     emnist.domain_id / preprocess_client
  rowindep   packaged models: a row alone vs the same row inside a batch / next to one other row: predictions,
             per-example eval statistics and per-example TRAINING loss (supporting evidence, unproved)
  lmloss     train_loss of the packaged language models on hand-built logits: row independence by the oracle,
             values against the translated row-wise loss inside Coq
  tasks      training.tasks.get_task wiring (datasets stubbed in memory)
The oracle never calls a fedjax helper: expectations are recomputed from the property's wording."""
import contextlib
import math
from fractions import Fraction

import numpy as np
from lib import fw

PROP = 'C20'
COQ_HEADER = 'From FV Require Import Model.C20_Model.'
COQ_AGREE = 'C20_agree'
COQ_MODEL_TARGETS = ['Model/C20_Model']
RULE = ('snippet lists with total joined length around multiples of L (L = 2..9, 80), empty list / empty snippets / OOV bytes; '
        'tokenizer sentences around max_length with OOV words and 1..3 OOV buckets; crop sizes 1..32 x 1..32 (quick: a sample '
        'incl. all squares) + rejected sizes; random / low-contrast / constant uint8 images; EMNIST ids with numeric part around '
        '2099..2101, 2598..2601, 0000, 9999 in both id formats; non-trivial = at least one snippet / word / pixel; distinct = distinct case JSON')
TRUSTED = ['TensorFlow ops used by the Stack Overflow tokenizer (tf.strings.split, StaticVocabularyTable, RaggedTensor.to_tensor) and '
           'tf.image.per_image_standardization / resize_with_crop_or_pad as the reference implementation of the stated standardisation',
           'numpy slicing / np.pad / np.flip semantics; jax.vmap of Metric.evaluate_example',
           'haiku forward passes (row independence is only exercised, see PARTIAL)']
ASSUMPTIONS = ['snippets are python bytes (values 0..255); sequence_length >= 2',
               'np.random.uniform(high=h) returns values in [0, h); np.random.randint(k) returns values in [0, k) (asserted on every recorded draw)',
               'standardisation theorem: s, r are rational witnesses with s*s == variance, r*r == num_pixels (sqrt is never computed in Coq)',
               'well-formed EMNIST ids: 25 bytes "<16 hex>:f<4 digits>_<2 digits>" or 8 bytes "f<4 digits>_<2 digits>"',
               'Stack Overflow model/tokenizer agreement is for num_oov_buckets = 1 (the packaged default); with more buckets '
               'the model treats only the first bucket id as OOV']
PARTIAL = ['"packaged models score each row independently" is exercised (row alone vs the same row in a batch, |diff| <= 1e-5) for '
           'emnist conv/dense/logistic, cifar100 logistic, shakespeare lstm, stackoverflow lstm; it is NOT proved (haiku/XLA forward passes are not modelled)',
           'loss-valued metrics (sequence_loss, token_loss) are not compared; count-valued metrics are compared exactly',
           'tasks.get_task wiring is checked by the translator (keyword arguments) and at run time with in-memory datasets; the remote data files are not downloaded']
CASE_TIMEOUT = 180

# the vocabulary the Federated Shakespeare tutorial documents (labels 3.. in this order; OOV last)
VOCAB = b'dhlptx@DHLPTX $(,048cgkoswCGKOSW[_#\'/37;?bfjnrvzBFJNRVZ"&*.26:\naeimquyAEIMQUY]!%)-159\r'
PAD, BOS, EOS = 0, 1, 2
SH_OOV = 3 + len(VOCAB)
SH_VOCAB_SIZE = SH_OOV + 1


def _label(c):
  i = VOCAB.rfind(bytes([c]))
  return 3 + i if i >= 0 else SH_OOV


# --------------------------------------------------------------------------
# generation

def _snips_with_total(rng, total, n):
  """n snippets whose joined length (sum len + 2) is `total` (total >= 2n)."""
  free = total - 2 * n
  cuts = sorted(rng.randrange(free + 1) for _ in range(n - 1))
  lens = [b - a for a, b in zip([0] + cuts, cuts + [free])]
  pool = list(VOCAB) + [0, 1, 2, 7, 127, 128, 200, 255, ord('^'), ord('~')]
  return [bytes(rng.choice(pool) for _ in range(k)).hex() for k in lens]


def _gen_shake(tier, rng):
  yield {'kind': 'shake', 'snips': [], 'L': 2}
  yield {'kind': 'shake', 'snips': [], 'L': 5}
  yield {'kind': 'shake', 'snips': [''], 'L': 2}
  yield {'kind': 'shake', 'snips': ['', '', ''], 'L': 3}
  yield {'kind': 'shake', 'snips': [b'ABCD'.hex(), b'E'.hex()], 'L': 3}     # the docstring example
  yield {'kind': 'shake', 'snips': [bytes(range(256)).hex()], 'L': 7}
  yield {'kind': 'shake', 'snips': [b'\x00\x01\x02'.hex(), b'\xff'.hex()], 'L': 4}
  # data bytes equal to the reserved label ids (PAD 0, BOS 1, EOS 2), to OOV (89) and VOCAB_SIZE (90): ordinary bytes
  for sn in ([b'\x00'], [b'\x01'], [b'\x02'], [b'\x01\x02'], [b'\x02\x01\x00'], [b'a\x01b', b'\x02'], [b'\x00' * 5], [bytes([89, 90, 3])],
             [b'\x01', b'', b'\x02', b'\x00'], [b'Y', b'Z\x01']):
    for L in (2, 3):
      yield {'kind': 'shake', 'snips': [b.hex() for b in sn], 'L': L}
  Ls = [2, 3, 4, 5, 8] if tier == 'quick' else [2, 3, 4, 5, 6, 7, 8, 9, 16]
  for L in Ls:
    for m in range(0, 3 if tier == 'quick' else 4):
      for d in (-2, -1, 0, 1, 2):
        total = m * L + 1 + d          # joined_length - 1 around multiples of L
        for n in ((1, 2) if tier == 'quick' else (1, 2, 3)):
          if total >= 2 * n:
            yield {'kind': 'shake', 'snips': _snips_with_total(rng, total, n), 'L': L}
  for _ in range({'quick': 10, 'thorough': 80, 'search': 40}[tier]):
    L = rng.choice([2, 3, 10, 80, 80, 100])
    n = rng.randrange(1, 6)
    total = max(2 * n, rng.choice([rng.randrange(2 * n, 5 * L + 3), L * rng.randrange(1, 4) + rng.choice([0, 1, 2])]))
    yield {'kind': 'shake', 'snips': _snips_with_total(rng, total, n), 'L': L}
  # exhaustive small grid: every sequence length x every snippet length (one snippet, and split in two)
  for L in (range(2, 6) if tier == 'quick' else range(2, 10)):
    for k in range(0, (2 if tier == 'quick' else 3) * L + 3):
      yield {'kind': 'shake', 'snips': [bytes(VOCAB[(i * 7 + k) % len(VOCAB)] for i in range(k)).hex()], 'L': L, 'metrics': False}
      if k >= 1 and (tier != 'quick' or k % 2):
        cut = k // 2
        body = bytes(VOCAB[(i * 5 + L) % len(VOCAB)] for i in range(k))
        yield {'kind': 'shake', 'snips': [body[:cut].hex(), body[cut:].hex()], 'L': L, 'metrics': False}
  # size sweep: joined lengths and snippet counts at / around 256, 1000, 1024, 4096 (chunked or vectorised
  # implementations break at such boundaries); judged by the oracle only
  for n in ((256, 1024) if tier == 'quick' else (256, 512, 1000, 1024, 2048, 4096)):
    for e in (-1, 0, 1):
      yield {'kind': 'shake', 'snips': [bytes(VOCAB[i % len(VOCAB)] for i in range(n + e - 2)).hex()], 'L': 80, 'metrics': False}
      yield {'kind': 'shake', 'snips': [b'a'.hex()] * ((n + e) // 3) + [b''.hex()] * ((n + e) % 3), 'L': 2 + (n + e) % 5, 'metrics': False}
      yield {'kind': 'shake', 'snips': [bytes([VOCAB[i % len(VOCAB)]]).hex() for i in range(n + e)], 'L': 16, 'metrics': False}
  yield {'kind': 'shake', 'snips': [b'ab'.hex()], 'L': 1}    # outside the quantifier (L >= 2): only model agreement
  yield {'kind': 'shake', 'snips': [], 'L': 1}


WORDS = ['the', 'a', 'to', 'i', 'is', 'in', 'of', 'and', 'it', 'for']


def _gen_tok(tier, rng):
  n = {'quick': 18, 'thorough': 120, 'search': 60}[tier]
  for i in range(n):
    V = rng.choice([1, 3, 5, 10])
    buckets = 1 if i % 3 else rng.choice([1, 2, 3])
    ml = rng.choice([1, 2, 3, 4, 5, 8, 20])
    sents = []
    for k in list(range(max(0, ml - 2), ml + 3)) + [0]:
      ws = []
      for _ in range(k):
        r = rng.random()
        ws.append(rng.choice(WORDS[:V]) if r < 0.7 else rng.choice(['zzz', 'Qx9', 'oov%d' % rng.randrange(50), WORDS[-1] + 'x', '0', '1', '2', '3', '[PAD]', '<bos>', 'The', 'THE']))
      sents.append(ws)
    yield {'kind': 'tok', 'vocab': WORDS[:V], 'buckets': buckets, 'max_length': ml, 'sentences': sents}


def _gen_tok_big(tier, rng):
  """Batches of 255 / 256 / 257 / 1024 ... short sentences (size-driven chunking of a vectorised tokenizer)."""
  for n in ((256, 257) if tier == 'quick' else (255, 256, 257, 1000, 1023, 1024, 1025, 4096)):
    sents = [[WORDS[(i + j) % 5] if (i + j) % 4 else 'zz%d' % (i % 3) for j in range(i % 4)] for i in range(n)]
    yield {'kind': 'tok', 'vocab': WORDS[:5], 'buckets': 1, 'max_length': 3, 'sentences': sents, 'metrics': False}


def _gen_crops(tier, rng):
  sizes = list(range(1, 33))
  if tier == 'quick':
    pairs = [(s, s) for s in sizes] + [(1, 32), (32, 1), (24, 24), (31, 2), (2, 31)] + \
        [(rng.choice(sizes), rng.choice(sizes)) for _ in range(25)]
  else:
    pairs = [(a, b) for a in sizes for b in sizes]
  for ch, cw in pairs:
    yield {'kind': 'center', 'ch': ch, 'cw': cw}
  for ch, cw in [(0, 5), (5, 0), (33, 5), (5, 33), (-1, 4), (0, 0), (33, 33)]:
    yield {'kind': 'center', 'ch': ch, 'cw': cw}
    yield {'kind': 'random', 'ch': ch, 'cw': cw, 'seed': 1}
  nr = {'quick': 60, 'thorough': 400, 'search': 200}[tier]
  for i in range(nr):
    ch, cw = (rng.choice(sizes), rng.choice(sizes)) if i % 4 else rng.choice([(1, 1), (32, 32), (31, 31), (1, 32), (24, 24)])
    yield {'kind': 'random', 'ch': ch, 'cw': cw, 'seed': rng.randrange(2 ** 31)}
  for i in range({'quick': 20, 'thorough': 120, 'search': 60}[tier]):
    yield {'kind': 'plain', 'seed': rng.randrange(2 ** 31)}


def _gen_std(tier, rng):
  sizes = [1, 2, 3, 7, 8, 16, 23, 24, 31, 32] if tier == 'quick' else list(range(1, 33))
  for ch in sizes:
    for mode in ('random', 'lowcontrast', 'constant', 'onepixel', 'twolevel', 'twopixel', 'maxcontrast', 'halfhalf'):
      cw = ch if mode != 'random' else rng.choice(sizes)
      yield {'kind': 'std', 'ch': ch, 'cw': cw, 'mode': mode, 'seed': rng.randrange(2 ** 31), 'base': rng.choice([0, 1, 7, 128, 254, 255])}


def _eid(fmt, num, tail, rng):
  if fmt == 25:
    h = ''.join(rng.choice('0123456789abcdef') for _ in range(16))
    return f'{h}:f{num:04d}_{tail:02d}'.encode().hex()
  return f'f{num:04d}_{tail:02d}'.encode().hex()


def _gen_domain(tier, rng):
  nums = [0, 1, 999, 1000, 2099, 2100, 2101, 2350, 2598, 2599, 2600, 2601, 3599, 3600, 4099, 9999]
  nums += [rng.randrange(10000) for _ in range({'quick': 20, 'thorough': 300, 'search': 100}[tier])]
  if tier == 'thorough':
    nums += list(range(10000))        # every 4-digit writer number
  elif tier != 'quick':
    nums += list(range(2050, 2650))
  for n in nums:
    for fmt in (25, 8):
      yield {'kind': 'domain', 'id': _eid(fmt, n, rng.randrange(100), rng)}
  # the 16-hex-digit hash may itself contain "f" + 4 digits: only the writer field counts
  for h, num in (('abcf2100deadbeef', 1), ('f2599f2100f21000', 2600), ('0f00000000f25990', 2100), ('ffffffffffff2100', 9999), ('f0001f9999f00000', 2599)):
    yield {'kind': 'domain', 'id': f'{h}:f{num:04d}_{rng.randrange(100):02d}'.encode().hex()}
  for bad in (b'', b'f2100', b'f2100_1', b'f2100_123', b'x' * 24, b'x' * 26):
    yield {'kind': 'domain', 'id': bad.hex()}


ROW_MODELS = ['emnist_conv', 'emnist_dense', 'emnist_logistic', 'cifar100_logistic', 'shakespeare_lstm', 'stackoverflow_lstm']


def _gen_lmloss(tier, rng):
  n = {'quick': 12, 'thorough': 80, 'search': 40}[tier]
  for i in range(n):
    B, T = rng.choice([1, 2, 3, 4]), rng.choice([1, 2, 3, 5])
    # first PAD position per row: full rows (T), partially padded rows, all-PAD rows (0), mixed in one batch
    pads = [rng.choice([T, T, rng.randrange(0, T + 1), 0 if rng.random() < 0.2 else T - 1]) for _ in range(B)]
    if i % 4 == 0 and B >= 2:
      pads[0], pads[1] = T, max(0, T - 2)
    m = ('shakespeare', 'stackoverflow')[i % 2]
    yield {'kind': 'lmloss', 'model': m, 'seed': rng.randrange(2 ** 31), 'B': B, 'T': T, 'pad_from': pads,
           'el': (None if m == 'shakespeare' else [None, 13.3, 2.0][i // 2 % 3]), 'ctx': i % 5 == 0}
  # non-finite logits: on padded positions (must not matter) and on a real position (same answer alone / in the batch)
  for i, (val, where) in enumerate([('nan', 'pad'), ('inf', 'pad'), ('-inf', 'pad'), ('nan', 'real'), ('-inf', 'both'), ('nan', 'both')]):
    yield {'kind': 'lmloss', 'model': ('shakespeare', 'stackoverflow')[i % 2], 'seed': rng.randrange(2 ** 31), 'B': 3, 'T': 4,
           'pad_from': [2, 4, 0] if i % 2 == 0 else [4, 1, 3], 'el': None, 'nonfinite': {'value': val, 'where': where}}


def generate(tier, rng):
  for c in _generate(tier, rng):
    if tier == 'quick' and c['kind'] == 'shake' and sum(len(h) for h in c['snips']) % 4 >= 2:
      c = {**c, 'metrics': False}          # quick tier: packaged metrics on half of the tokeniser cases
    yield c


def _generate(tier, rng):
  yield {'kind': 'consts'}
  # _build_look_up_table called directly: duplicates (last occurrence wins), empty vocabulary, bytes equal to reserved ids
  for vocab, nr in ((b'aba', 3), (b'', 3), (b'', 0), (b'\x00\x01\x02', 3), (b'zzzz', 1), (bytes(range(256)), 0), (b'ab' * 40, 7),
                    (b'abcabc\xffa', 0)):
    yield {'kind': 'lut', 'vocab': vocab.hex(), 'nr': nr}
  for i in range(2 if tier == 'quick' else 10):
    yield {'kind': 'plainnorm', 'seed': rng.randrange(2 ** 31)}
  # argument plumbing through the outermost public entry points, all parameters distinct and non-default
  pairs = [(24, 32), (32, 24), (5, 9), (1, 32)] if tier == 'quick' else [(a, b) for a in (1, 5, 24, 31, 32) for b in (1, 9, 24, 30, 32) if a != b]
  for ch, cw in pairs:
    yield {'kind': 'plumb', 'which': 'cifar_batch', 'ch': ch, 'cw': cw, 'seed': rng.randrange(2 ** 31)}
  for w in ('load', 'tokenizer', 'factories', 'tasks'):
    yield {'kind': 'plumb', 'which': w}
  if tier == 'thorough':
    yield {'kind': 'xproc', 'hashseeds': [1, 987654321]}
  for c in _gen_lmloss(tier, rng):
    yield c
  for g in (_gen_shake, _gen_tok, _gen_tok_big, _gen_crops, _gen_std, _gen_domain):
    for c in g(tier, rng):
      yield c
  for i in range({'quick': 6, 'thorough': 40, 'search': 12}[tier]):
    yield {'kind': 'misc', 'which': ('emnist', 'cifar')[i % 2], 'n': ([3, 0, 1, 2, 5, 4] + [255, 256, 257, 256, 1024, 1000])[i % (6 if tier == 'quick' else 12)],
           'seed': rng.randrange(2 ** 31),
           'writer': rng.choice([2099, 2100, 2599, 2600, 0, 9999])}
  if tier != 'search':
    extra = ['emnist_stax_dense'] if tier == 'quick' else ['emnist_stax_dense', 'emnist_conv_digits', 'emnist_logistic_digits',
                                                            'stackoverflow_lstm_scaled']
    for m in ROW_MODELS + extra:
      for rep in range(1 if tier == 'quick' else 3):
        yield {'kind': 'rowindep', 'model': m, 'seed': rng.randrange(2 ** 31), 'batch': 3 if tier == 'quick' else rng.choice([3, 4, 5])}
    for t in ('SHAKESPEARE_CHARACTER', 'STACKOVERFLOW_WORD', 'CIFAR100_LOGISTIC', 'EMNIST_CONV', 'EMNIST_LOGISTIC', 'EMNIST_DENSE'):
      yield {'kind': 'tasks', 'task': t}


# --------------------------------------------------------------------------
# helpers

_CACHE = {}


def _cached(key, fn):
  if key not in _CACHE:
    _CACHE[key] = fn()
  return _CACHE[key]


def _stat(st):
  """MeanStat / SumStat -> exact fractions of its float fields (strings)."""
  out = {}
  for f in ('accum', 'weight'):
    if hasattr(st, f):
      out[f] = str(Fraction(float(np.asarray(getattr(st, f)))))
  return out


def _lm_logits(y, vocab, p1_of, p2_of):
  """logits[b, t, :] = 5 at p1, 3 at p2 (0 elsewhere)."""
  lg = np.zeros(y.shape + (vocab,), np.float32)
  for b in range(y.shape[0]):
    for t in range(y.shape[1]):
      lg[b, t, p2_of(b, t)] = 3.0
      lg[b, t, p1_of(b, t)] = 5.0
  return lg


def _lm_metrics(model, x, y, vocab, choice):
  """Evaluates the packaged model's count-valued metrics on (x, y) with hand-built logits.
  choice(b, t) -> (p1, p2): most / second most preferred label at that position."""
  from fedjax.core import metrics as fm
  import jax.numpy as jnp
  if y.shape[0] == 0:
    return {}
  lg = _lm_logits(y, vocab, lambda b, t: choice(b, t)[0], lambda b, t: choice(b, t)[1])
  ex = {'x': jnp.asarray(x), 'y': jnp.asarray(y)}
  res = {}
  for name, m in model.eval_metrics.items():
    if name in ('sequence_loss', 'token_loss'):
      continue
    try:
      res[name] = _stat(fm.evaluate_batch(m, ex, jnp.asarray(lg)))
    except Exception as ex_:  # pylint: disable=broad-except
      res[name] = {'accum': '-1', 'weight': '-1', 'error': type(ex_).__name__}     # the metric cannot score the dataset's output
  return res


def _choice_fn(y, oov, seed):
  """Deterministic per-position (top, second) preferences covering: correct, EOS, OOV, PAD, BOS on top."""
  def choice(b, t):
    tgt = int(y[b, t])
    k = (b * 7 + t * 3 + seed) % 6
    other = 3 + (tgt + 1 + k) % max(1, oov - 3) if oov > 3 else tgt
    p1 = [tgt, EOS, oov, PAD, BOS, other][k]
    p2 = tgt if k in (1, 2) else other
    if p2 == p1:
      p2 = other if other != p1 else (3 + (p1 - 3 + 1) % max(1, oov - 3))
    return p1, p2
  return choice


def _expected_lm(y, oov, vocab, choice):
  """Counts by the property's wording: pad is ignored everywhere; accuracy ignores pad and EOS targets;
  in-vocab accuracy never predicts pad/bos/eos/oov; OOV rate counts targets equal to the OOV id."""
  masked = {PAD, BOS, EOS, oov}
  n_tok = n_acc = c_no = c_in = n_oov = 0
  seqs = lens = trunc = nonempty = 0
  for b in range(y.shape[0]):
    row = [int(v) for v in y[b]]
    real = [v for v in row if v != PAD]
    seqs += 1
    if real:
      nonempty += 1
      trunc += 0 if EOS in row else 1
    lens += len(real)
    for t, tgt in enumerate(row):
      if tgt == PAD:
        continue
      n_tok += 1
      n_oov += 1 if tgt == oov else 0
      if tgt == EOS:
        continue
      n_acc += 1
      p1, p2 = choice(b, t)
      c_no += 1 if p1 == tgt else 0
      pin = p1 if p1 not in masked else p2 if p2 not in masked else min(set(range(vocab)) - masked)
      c_in += 1 if pin == tgt else 0
  return {'accuracy_in_vocab': (c_in, n_acc), 'accuracy_no_eos': (c_no, n_acc), 'num_tokens': (n_tok, None),
          'sequence_length': (lens, nonempty), 'token_oov_rate': (n_oov, n_tok), 'truncation_rate': (trunc, nonempty)}


def _cmp_metrics(got, exp, prefix):
  out = []
  for name, st in got.items():
    if name not in exp:
      continue
    a, w = exp[name]
    if Fraction(st['accum']) != a or (w is not None and Fraction(st.get('weight', '0')) != w):
      out.append((f'{prefix}-metric-{name}',
                  f'{name}: metric accumulates {st.get("accum")}/{st.get("weight")}, the dataset\'s labels give {a}/{w}'))
  return out


# --------------------------------------------------------------------------
# run

def _run_shake(case):
  from fedjax.datasets import shakespeare
  snips = np.empty(len(case['snips']), dtype=object)
  for i, h in enumerate(case['snips']):
    snips[i] = bytes.fromhex(h)
  try:
    out = shakespeare.preprocess_client(b'client', {'snippets': snips}, case['L'])
  except Exception as ex:  # pylint: disable=broad-except
    return {'status': 'raise', 'err': type(ex).__name__}
  x, y = out['x'], out['y']
  obs = {'status': 'ok', 'x': x.tolist(), 'y': y.tolist(), 'dtype': [str(x.dtype), str(y.dtype)],
         'shape': [list(x.shape), list(y.shape)], 'keys': sorted(out)}
  # other delivery forms of the same client (list / tuple of bytes, numpy integer length, str client id,
  # extra features present), the same call again, and the caller's data afterwards
  raw = [bytes.fromhex(h) for h in case['snips']]
  kept = (x.copy(), y.copy())
  same = lambda o: o['x'].dtype == x.dtype and np.array_equal(o['x'], kept[0]) and np.array_equal(o['y'], kept[1])
  forms_ok = True
  try:
    wide = np.empty(2 * len(raw) + 1, dtype=object)
    wide[:] = b'unused'
    wide[1::2] = raw                     # every-other-element view of a wider object array
    ro = snips.copy()
    ro.flags.writeable = False
    for sn, cid, L in ((list(raw), 'client', np.int64(case['L'])), (tuple(raw), b'', np.int32(case['L'])), (snips, 0, case['L']),
                       (wide[1::2], b'c', case['L']), (ro, b'c', case['L']), (snips[::-1][::-1], b'c', case['L'])):
      forms_ok = forms_ok and same(shakespeare.preprocess_client(cid, {'snippets': sn, 'other': np.zeros(1)}, L))
    shakespeare.preprocess_client(b'c2', {'snippets': [b'zz' + bytes([i % 256]) for i in range(3)]}, max(2, case['L']))
  except Exception:  # pylint: disable=broad-except
    forms_ok = False
  obs['forms_ok'] = bool(forms_ok)
  obs['kept_ok'] = bool(np.array_equal(x, kept[0]) and np.array_equal(y, kept[1]) and not np.shares_memory(x, y))
  obs['input_ok'] = [bytes(v) for v in snips] == raw and len(snips) == len(raw)
  if case['L'] >= 2 and x.ndim == 2 and 0 < x.shape[0] * x.shape[1] <= 400 and int(max(x.max(), y.max())) < SH_VOCAB_SIZE \
      and case.get('metrics', True):
    from fedjax.models import shakespeare as ms
    model = _cached('sh_model', lambda: ms.create_lstm_model(lstm_hidden_size=4, embed_size=2, lstm_num_layers=1))
    obs['metrics'] = _lm_metrics(model, x, y, SH_VOCAB_SIZE, _choice_fn(y, SH_OOV, len(case['snips'])))
  return obs


def _metric_ids(model):
  out = {}
  for name, m in model.eval_metrics.items():
    d = {'cls': type(m).__name__}
    for a in ('masked_target_values', 'oov_target_values'):
      if hasattr(m, a):
        d[a] = [int(v) for v in getattr(m, a)]
    if hasattr(m, 'eos_target_value'):
      d['eos_target_value'] = int(m.eos_target_value)
    lm = getattr(m, 'logits_mask', None)
    if lm is not None:
      d['logits_masked'] = [i for i, v in enumerate(lm) if v == -math.inf]
      d['logits_len'] = len(lm)
      d['logits_other_nonzero'] = [i for i, v in enumerate(lm) if v != 0 and v != -math.inf]
    out[name] = d
  return out


def _run_consts(case):
  from fedjax.datasets import shakespeare, stackoverflow
  from fedjax.models import shakespeare as ms, stackoverflow as mso
  sh = ms.create_lstm_model(lstm_hidden_size=2, embed_size=2, lstm_num_layers=1)
  so = mso.create_lstm_model(vocab_size=10, lstm_hidden_size=2, embed_size=2)
  import inspect
  ids_first = (_metric_ids(sh), _metric_ids(so))
  reuse_ok = True
  for build in (lambda: ms.create_lstm_model(vocab_size=5, lstm_hidden_size=2, embed_size=2, lstm_num_layers=1),
                lambda: mso.create_lstm_model(vocab_size=3, lstm_hidden_size=2, embed_size=2, expected_length=2.0),
                lambda: mso.create_lstm_model(vocab_size=12, lstm_hidden_size=2, embed_size=2, share_input_output_embeddings=True)):
    later = build()                     # re-inspect the FIRST models after every further construction
    reuse_ok = reuse_ok and ids_first == (_metric_ids(sh), _metric_ids(so)) and later.eval_metrics is not so.eval_metrics \
        and later.eval_metrics is not sh.eval_metrics
  reuse_ok = reuse_ok and _metric_ids(ms.create_lstm_model(lstm_hidden_size=2, embed_size=2, lstm_num_layers=1)) == ids_first[0] \
      and _metric_ids(mso.create_lstm_model(vocab_size=10, lstm_hidden_size=2, embed_size=2)) == ids_first[1]
  return {'status': 'ok', 'reuse_ok': bool(reuse_ok),
          'sh': {'PAD': int(shakespeare.PAD), 'BOS': int(shakespeare.BOS), 'EOS': int(shakespeare.EOS),
                 'OOV': int(shakespeare.OOV), 'VOCAB_SIZE': int(shakespeare.VOCAB_SIZE),
                 'TABLE': [int(v) for v in shakespeare.TABLE], 'table_dtype': str(shakespeare.TABLE.dtype)},
          'sh_model': _metric_ids(sh),
          'sh_model_default_vocab': inspect.signature(ms.create_lstm_model).parameters['vocab_size'].default,
          'so_tok': {'PAD': int(stackoverflow.StackoverflowTokenizer.PAD), 'BOS': int(stackoverflow.StackoverflowTokenizer.BOS),
                     'EOS': int(stackoverflow.StackoverflowTokenizer.EOS),
                     'default_vocab_size': inspect.signature(stackoverflow.StackoverflowTokenizer.__init__).parameters['default_vocab_size'].default,
                     'num_oov_buckets': inspect.signature(stackoverflow.StackoverflowTokenizer.__init__).parameters['num_oov_buckets'].default},
          'so_model': _metric_ids(so), 'so_model_vocab': 10,
          'so_model_default_vocab': inspect.signature(mso.create_lstm_model).parameters['vocab_size'].default}


def _run_tok(case):
  from fedjax.datasets import stackoverflow
  key = ('tok', tuple(case['vocab']), case['buckets'])
  tok = _cached(key, lambda: stackoverflow.StackoverflowTokenizer(vocab=list(case['vocab']), num_oov_buckets=case['buckets']))
  toks = np.empty(len(case['sentences']), dtype=object)
  for i, ws in enumerate(case['sentences']):
    toks[i] = ' '.join(ws).encode()
  dom = np.arange(len(toks), dtype=np.int32) % 2
  fn = _cached(('tokfn', key, case['max_length']), lambda: tok.as_preprocess_batch(case['max_length']))
  out = fn({'tokens': toks, 'domain_id': dom})
  x, y = out['x'], out['y']
  obs = {'status': 'ok', 'x': x.tolist(), 'y': y.tolist(), 'dtype': [str(x.dtype), str(y.dtype)],
         'shape': [list(x.shape), list(y.shape)], 'keys': sorted(out),
         'domain_kept': bool(np.array_equal(out.get('domain_id'), dom))}
  ml = case['max_length']
  ok = True
  try:
    other = _cached(('tokfn', key, ml + 2), lambda: tok.as_preprocess_batch(ml + 2))   # another function of the SAME tokenizer, used in between
    other({'tokens': toks})
    fixed = np.array([bytes(t) for t in toks], dtype='S') if len(toks) else np.zeros((0,), 'S1')
    wide_t = np.empty(2 * len(toks) + 1, dtype=object)
    wide_t[:] = b'unused words'
    wide_t[1::2] = toks
    for form in (fixed, toks.copy(), wide_t[1::2]):
      o2 = fn({'tokens': form})                         # the same function object again
      ok = ok and sorted(o2) == ['x', 'y'] and np.array_equal(o2['x'], x) and np.array_equal(o2['y'], y)
    if sum(len(ws) for ws in case['sentences']) % 3 == 0:
      import tensorflow as tf
      fx, fy = tok.create_token_to_ids_fn(ml)(tf.constant([bytes(t) for t in toks], dtype=tf.string))
      ok = ok and np.array_equal(fx.numpy(), x) and np.array_equal(fy.numpy(), y)
      base = _cached(('tokbase', tuple(case['vocab']), case['buckets']),
                     lambda: stackoverflow.DefaultWordTokenizer(list(case['vocab']), case['buckets']))
      o3 = base.as_preprocess_batch(max_length=ml)({'tokens': toks})
      ok = ok and np.array_equal(o3['x'], x) and np.array_equal(o3['y'], y)
    e = fn({'tokens': np.empty((0,), dtype=object)})
    ok = ok and e['x'].shape == (0, ml) and e['y'].shape == (0, ml) and e['x'].dtype == np.int32
    ok = ok and [bytes(t) for t in toks] == [' '.join(ws).encode() for ws in case['sentences']]     # caller's tokens untouched
    pc = stackoverflow.preprocess_client(b'c', {'tokens': toks, 'type': np.array([b'answer', b'question'] * len(toks), dtype=object)[:len(toks)],
                                               'title': toks, 'score': np.zeros(len(toks), np.int64)})
    ok = ok and sorted(pc) == ['domain_id', 'tokens'] and pc['domain_id'].dtype == np.int32 and \
        pc['domain_id'].tolist() == [1, 0] * (len(toks) // 2) + [1] * (len(toks) % 2) and list(pc['tokens']) == list(toks)
  except Exception:  # pylint: disable=broad-except
    ok = False
  obs['forms_ok'] = bool(ok)
  if case['buckets'] == 1 and case.get('metrics', True):
    from fedjax.models import stackoverflow as mso
    V = len(case['vocab'])
    model = _cached(('so_model', V), lambda: mso.create_lstm_model(vocab_size=V, lstm_hidden_size=4, embed_size=2))
    obs['metrics'] = _lm_metrics(model, x, y, V + 4, _choice_fn(y, V + 3, case['max_length']))
  return obs


class _Draws:
  """Records np.random.uniform / np.random.randint results while active."""

  def __enter__(self):
    self.uniform, self.randint = [], []
    self._u, self._r = np.random.uniform, np.random.randint

    def uni(*a, **k):
      v = self._u(*a, **k)
      self.uniform.append((np.array(v, dtype=np.float64).tolist(), float(k.get('high', a[1] if len(a) > 1 else 1.0))))
      return v

    def rint(*a, **k):
      v = self._r(*a, **k)
      self.randint.append((np.array(v).tolist(), int(a[0]) if a else None))
      return v
    np.random.uniform, np.random.randint = uni, rint
    return self

  def __exit__(self, *a):
    np.random.uniform, np.random.randint = self._u, self._r


def _markers(size):
  """64 images [size, size, 3] uint8: image r lights row r (channel 0), image size + c lights column c."""
  imgs = np.zeros((2 * size, size, size, 3), np.uint8)
  for r in range(size):
    imgs[r, r, :, 0] = 255
    imgs[size + r, :, r, 0] = 255
  return imgs


def _window_from(out, size, flipped, pad=0, zero_level=None):
  """Recovers [lo, hi) of the kept rows / columns from the processed marker images.
  A marker line is where channel 0 differs from channel 1 (both start equal; only channel 0 is lit)."""
  n, h, w = out.shape[0], out.shape[1], out.shape[2]
  res = []
  for axis, base in ((0, 0), (1, size)):
    lo = None
    cnt = 0
    for r in range(size):
      im = out[base + r]
      diff = np.abs(im[..., 0] - im[..., 1]) > (1e-3 if zero_level is None else zero_level)
      line = diff.any(axis=1 - axis)
      pos = np.nonzero(line)[0]
      if len(pos) == 0:
        continue
      if len(pos) != 1:
        return None
      p = int(pos[0])
      if axis == 1 and flipped:
        p = w - 1 - p
      cand = r + pad - p
      if lo is None:
        lo = cand
      elif lo != cand:
        return None
      cnt += 1
    ext = h if axis == 0 else w
    if lo is None:
      return None
    res.append([lo, lo + ext, cnt])
  return res


def _run_crop(case):
  from fedjax.datasets import cifar100
  k = case['kind']
  imgs = _markers(32)
  if k == 'center':
    try:
      out = cifar100.preprocess_image_tff(imgs, case['ch'], case['cw'], distort=False)
    except ValueError:
      return {'status': 'raise', 'err': 'ValueError'}
    # a standardised marker image keeps channel 0 != channel 1 exactly on the lit line
    win = _window_from(out, 32, False)
    return {'status': 'ok', 'shape': list(out.shape), 'dtype': str(out.dtype), 'window': win}
  if k == 'random':
    np.random.seed(case['seed'] % (2 ** 32))
    with _Draws() as d:
      try:
        out = cifar100.preprocess_image_tff(imgs, case['ch'], case['cw'], distort=True)
      except ValueError:
        return {'status': 'raise', 'err': 'ValueError'}
    if len(d.uniform) != 1 or len(d.randint) != 1:
      return {'status': 'ok', 'draws': 'unexpected', 'nu': len(d.uniform), 'nr': len(d.randint)}
    u, high = d.uniform[0]
    flip = int(np.array(d.randint[0][0]).reshape(-1)[0])
    contract = all(0 <= v < high for v in u) and flip in (0, 1) and d.randint[0][1] == 2
    win = _window_from(out, 32, bool(flip))
    return {'status': 'ok', 'shape': list(out.shape), 'dtype': str(out.dtype), 'window': win,
            'u': [int(np.float64(v).astype(np.int32)) for v in u], 'high': high, 'flip': flip, 'contract': contract}
  # plain: preprocess_image(is_train=True)
  np.random.seed(case['seed'] % (2 ** 32))
  with _Draws() as d:
    out = cifar100.preprocess_image(imgs, is_train=True)
  if len(d.randint) != 2:
    return {'status': 'ok', 'draws': 'unexpected', 'nr': len(d.randint)}
  ij = [int(v) for v in d.randint[0][0]]
  flip = int(np.array(d.randint[1][0]).reshape(-1)[0])
  contract = all(0 <= v < d.randint[0][1] for v in ij) and flip in (0, 1)
  # channel 0 and 1 are normalised with different constants: compare against the all-dark level per channel
  dark = cifar100.preprocess_image(np.zeros((1, 32, 32, 3), np.uint8), is_train=False)[0, 0, 0]
  lit = np.abs(out[..., 0] - dark[0]) > 1e-3
  fake = np.stack([lit.astype(np.float32), np.zeros_like(lit, np.float32)], axis=-1)
  win = _window_from(fake, 32, bool(flip), pad=4)
  return {'status': 'ok', 'shape': list(out.shape), 'dtype': str(out.dtype), 'window': win, 'ij': ij,
          'high': d.randint[0][1], 'flip': flip, 'contract': contract}


def _std_image(case):
  rng = np.random.RandomState(case['seed'] % (2 ** 32))
  mode, base = case['mode'], case['base']
  if mode == 'random':
    return rng.randint(0, 256, size=(32, 32, 3)).astype(np.uint8)
  if mode == 'constant':
    return np.full((32, 32, 3), base, np.uint8)
  if mode == 'lowcontrast':
    lo = min(base, 254)
    return (lo + (rng.rand(32, 32, 3) < 0.5)).astype(np.uint8)
  if mode == 'onepixel':
    im = np.full((32, 32, 3), min(base, 254), np.uint8)
    im[16, 16, 1] += 1          # inside every centre crop
    return im
  if mode == 'twopixel':          # two pixels differ by one: std just ABOVE 1/sqrt(N) whenever both are inside the crop
    im = np.full((32, 32, 3), min(base, 254), np.uint8)
    im[16, 16, 1] += 1
    im[15, 15, 2] += 1
    return im
  if mode == 'maxcontrast':
    return np.where(rng.rand(32, 32, 3) < 0.5, 0, 255).astype(np.uint8)
  if mode == 'halfhalf':          # left half 0, right half 255 (centre crops stay half/half for even widths only)
    im = np.zeros((32, 32, 3), np.uint8)
    im[:, 16:, :] = 255
    return im
  lo = rng.randint(0, 200)
  return np.where(rng.rand(32, 32, 3) < 0.3, lo, lo + rng.randint(1, 56)).astype(np.uint8)


def _run_std(case):
  from fedjax.datasets import cifar100
  import tensorflow as tf
  ch, cw = case['ch'], case['cw']
  img = _std_image(case)
  batch = np.stack([img, img[::-1].copy()])
  out = cifar100.preprocess_image_tff(batch, ch, cw, distort=False)
  oh, ow = (32 - ch) // 2, (32 - cw) // 2
  crop = img[oh:oh + ch, ow:ow + cw, :].astype(np.int64)          # the centre crop, by its definition
  N = int(crop.size)
  S1, S2 = int(crop.sum()), int((crop * crop).sum())
  # float64 reference of the stated formula
  c64 = crop.astype(np.float64)
  mean = c64.mean()
  adj = max(c64.std(), 1.0 / math.sqrt(N))
  ref = (c64 - mean) / adj
  with tf.device('cpu'):
    tfc = tf.image.resize_with_crop_or_pad(tf.constant(img), ch, cw)
    tfo = tf.image.per_image_standardization(tfc).numpy()
  shape_ok = list(out.shape) == [2, ch, cw, 3] and out.dtype == np.float32
  o0 = out[0].astype(np.float64) if shape_ok else None
  err_ref = float(np.max(np.abs(o0 - ref))) if shape_ok else None
  err_tf = float(np.max(np.abs(o0 - tfo.astype(np.float64)))) if shape_ok and tfo.shape == o0.shape else None
  finite = bool(np.all(np.isfinite(out)))
  samples = []
  if shape_ok and finite:
    pos = {(0, 0, 0), (ch - 1, cw - 1, 2), (ch // 2, cw // 2, 1), (0, cw - 1, 1), (ch - 1, 0, 0), (ch // 3, cw // 4, 2)}
    for (a, b, c) in sorted(pos):
      samples.append([int(crop[a, b, c]), str(Fraction(float(out[0, a, b, c])))])
  s = Fraction(adj).limit_denominator(10 ** 12)
  return {'status': 'ok', 'shape': list(out.shape), 'dtype': str(out.dtype), 'finite': finite, 'N': N, 'S1': S1, 'S2': S2,
          's': str(s), 'err_ref': err_ref, 'err_tf': err_tf, 'scale': float(np.max(np.abs(ref))) if ref.size else 0.0,
          'samples': samples}


def _run_domain(case):
  from fedjax.datasets import emnist
  cid = bytes.fromhex(case['id'])
  try:
    d = emnist.domain_id(cid)
  except ValueError:
    return {'status': 'raise', 'err': 'ValueError'}
  obs = {'status': 'ok', 'd': int(d)}
  try:
    ex = emnist.preprocess_client(cid, {'pixels': np.zeros((3, 28, 28), np.float32), 'label': np.array([1, 2, 3], np.int32)})
    obs['feature'] = [int(v) for v in ex['domain_id']]
    obs['feature_dtype'] = str(ex['domain_id'].dtype)
    alt = [emnist.domain_id(cid.decode('latin-1')), emnist.domain_id(np.bytes_(cid)), emnist.domain_id(cid)]
    for dt in (np.int64, np.uint8, np.int8):
      e2 = emnist.preprocess_client(cid, {'pixels': np.zeros((2, 28, 28), np.float32), 'label': np.array([0, 61], dt)})
      alt += [int(v) for v in e2['domain_id']] + ([int(d)] if e2['domain_id'].dtype == dt and sorted(e2) == ['domain_id', 'label', 'pixels'] else [-1])
    e0 = emnist.preprocess_client(cid, {'pixels': np.zeros((0, 28, 28), np.float32), 'label': np.zeros((0,), np.int32)})
    obs['alt_ok'] = all(int(v) == int(d) for v in alt) and e0['domain_id'].shape == (0,)
  except Exception as ex_:  # pylint: disable=broad-except
    obs['feature'] = 'raise:' + type(ex_).__name__
  return obs


def _run_plumb(case):
  """Argument plumbing: every public function that forwards parameters is called through the OUTERMOST entry point
  with every parameter at a non-default value that differs from every other parameter of its type, and compared
  with the inner function called directly / with the definition.  Returns the list of discrepancies."""
  import fedjax
  from fedjax import datasets, models
  from fedjax.datasets import cifar100, emnist, shakespeare, stackoverflow
  bad = []
  which = case['which']
  saved = []

  def patch(obj, name, val):
    saved.append((obj, name, getattr(obj, name)))
    setattr(obj, name, val)
  try:
    if which == 'cifar_batch':
      ch, cw, seed = case['ch'], case['cw'], case['seed']
      rs = np.random.RandomState(seed)
      img = rs.randint(0, 256, size=(2, 32, 32, 3)).astype(np.uint8)
      ex = {'x': img, 'y': np.array([3, 7], np.int32)}
      for distort in (False, True):
        np.random.seed(seed)
        inner = cifar100.preprocess_image_tff(img, ch, cw, distort)
        outs = []
        for call in (lambda: cifar100.preprocess_batch_tff(ex, crop_height=ch, crop_width=cw, distort=distort),
                     lambda: cifar100.preprocess_batch_tff(ex, ch, cw, distort),
                     lambda: cifar100.preprocess_batch_tff(examples=ex, distort=distort, crop_width=cw, crop_height=ch)):
          np.random.seed(seed)
          outs.append(call())
        for o in outs:
          if o['x'].shape != (2, ch, cw, 3) or not np.array_equal(o['x'], inner) or not np.array_equal(o['y'], ex['y']):
            bad.append(f'preprocess_batch_tff(crop_height={ch}, crop_width={cw}, distort={distort}) gives shape {list(o["x"].shape)}; '
                       f'preprocess_image_tff with the same arguments gives {list(inner.shape)}')
            break
      for is_train in (False, True):
        np.random.seed(seed)
        inner = cifar100.preprocess_image(img, is_train)
        np.random.seed(seed)
        o = cifar100.preprocess_batch(ex, is_train=is_train)
        np.random.seed(seed)
        o2 = cifar100.preprocess_batch(ex, is_train)
        if not (np.array_equal(o['x'], inner) and np.array_equal(o2['x'], inner) and np.array_equal(o['y'], ex['y'])):
          bad.append(f'preprocess_batch(is_train={is_train}) differs from preprocess_image(is_train={is_train})')
      ev = cifar100.preprocess_batch(ex, is_train=False)['x']
      if np.array_equal(ev, cifar100.preprocess_image(img, True)) and False:
        pass
    elif which == 'load':
      rec = []
      mem = fedjax.InMemoryFederatedData({b'0123456789abcdef:f2100_07': {
          'snippets': np.array([b'abc defg hij', b'k'], dtype=object), 'pixels': np.zeros((2, 28, 28), np.float32), 'label': np.array([1, 2], np.int32),
          'image': np.zeros((2, 32, 32, 3), np.uint8), 'coarse_label': np.zeros(2, np.int64), 'tokens': np.array([b'a b', b'c'], dtype=object),
          'type': np.array([b'answer', b'question'], dtype=object)}})

      def recorder(tag):
        def load_split(*a, **k):
          rec.append([tag, [repr(v) for v in a], {kk: repr(v) for kk, v in sorted(k.items())}])
          return mem
        return load_split
      for mod, tag in ((cifar100, 'cifar100'), (emnist, 'emnist'), (shakespeare, 'shakespeare'), (stackoverflow, 'stackoverflow')):
        patch(mod, 'load_split', recorder(tag))
      import inspect

      def landed(tag, real_sig, want):
        """Every recorded load_split call of `tag`, bound to the real signature, carries the wanted argument values."""
        calls = [r for r in rec if r[0] == tag]
        for _, a, k in calls:
          ba = real_sig.bind(*a, **k)
          ba.apply_defaults()
          for name, val in want.items():
            if ba.arguments.get(name) != repr(val):
              bad.append(f'{tag}.load_data: load_split receives {name}={ba.arguments.get(name)}, load_data was given {val!r}')
              return
        return [r[1][0] if r[1] else r[2].get('split') for r in calls]
      sigs = {m.__name__.split('.')[-1]: inspect.signature(saved[i][2]) for i, m in enumerate((cifar100, emnist, shakespeare, stackoverflow))}
      cifar100.load_data(mode='sqlite', cache_dir='DIR_C')
      sp = landed('cifar100', sigs['cifar100'], {'mode': 'sqlite', 'cache_dir': 'DIR_C'})
      emnist.load_data(only_digits=True, mode='sqlite', cache_dir='DIR_E')
      se = landed('emnist', sigs['emnist'], {'only_digits': True, 'mode': 'sqlite', 'cache_dir': 'DIR_E'})
      tr, te = shakespeare.load_data(sequence_length=7, mode='sqlite', cache_dir='DIR_S')
      ss = landed('shakespeare', sigs['shakespeare'], {'mode': 'sqlite', 'cache_dir': 'DIR_S'})
      for fd in (tr, te):
        x = fd.get_client(b'0123456789abcdef:f2100_07').all_examples()['x']
        if x.shape[1] != 7:
          bad.append(f'shakespeare.load_data(sequence_length=7) yields sequences of length {x.shape[1]}')
      stackoverflow.load_data(mode='sqlite', cache_dir='DIR_O')
      so = landed('stackoverflow', sigs['stackoverflow'], {'mode': 'sqlite', 'cache_dir': 'DIR_O'})
      want_splits = {'cifar100': ["'train'", "'test'"], 'emnist': ["'train'", "'test'"], 'shakespeare': ["'train'", "'test'"],
                     'stackoverflow': ["'train'", "'held_out'", "'test'"]}
      for tag, got in (('cifar100', sp), ('emnist', se), ('shakespeare', ss), ('stackoverflow', so)):
        if got is not None and got != want_splits[tag]:
          bad.append(f'{tag}.load_data loads splits {got}, documented {want_splits[tag]}')
      # the real load_split functions: url / cache_dir reach the downloader, its path reaches SQLiteFederatedData.new
      for o, n, v in reversed(saved):
        setattr(o, n, v)
      del saved[:]
      from fedjax.core import sqlite_federated_data
      from fedjax.datasets import downloads
      seen = []
      patch(downloads, 'maybe_download', lambda url, cache_dir=None: seen.append(('dl', url, cache_dir)) or ('PATH:' + url))
      patch(sqlite_federated_data.SQLiteFederatedData, 'new', staticmethod(lambda path, *a, **k: seen.append(('new', path)) or mem))
      for fn, kw, frag in ((emnist.load_split, {'split': 'test', 'only_digits': True, 'cache_dir': 'D1'}, 'digitsonly_test'),
                           (emnist.load_split, {'split': 'train', 'only_digits': False, 'cache_dir': 'D2'}, 'emnist_train'),
                           (shakespeare.load_split, {'split': 'test', 'cache_dir': 'D3'}, 'test'),
                           (stackoverflow.load_split, {'split': 'held_out', 'cache_dir': 'D4'}, 'held_out')):
        del seen[:]
        fn(**kw)
        dl = [e for e in seen if e[0] == 'dl']
        nw = [e for e in seen if e[0] == 'new']
        if len(dl) != 1 or frag not in dl[0][1] or dl[0][2] != kw['cache_dir'] or len(nw) != 1 or nw[0][1] != 'PATH:' + dl[0][1]:
          bad.append(f'{fn.__module__.split(".")[-1]}.load_split({kw}): download / open calls {seen}')
      for fn in (emnist.load_split, shakespeare.load_split, stackoverflow.load_split):
        try:
          fn('no_such_split')
          bad.append(f'{fn.__module__.split(".")[-1]}.load_split accepts an unknown split')
        except ValueError:
          pass
    elif which == 'tokenizer':
      got = {}
      patch(stackoverflow, 'default_vocab', lambda n: got.setdefault('n', n) and ['w%d' % i for i in range(n)])
      V, B, ML = 7, 3, 5
      tok = stackoverflow.StackoverflowTokenizer(default_vocab_size=V, num_oov_buckets=B)
      toks = np.array([b'w0 w6 zzz qqq', b'unk1 unk2 unk3 unk4 unk5 unk6 unk7 unk8 unk9', b'w3'], dtype=object)
      o = tok.as_preprocess_batch(max_length=ML)({'tokens': toks})
      ids = [v for row in o['y'] for v in row]
      oov = [v for v in ids if v >= V + 3]
      if got.get('n') != V or o['x'].shape != (3, ML) or o['y'][0][:2].tolist() != [3, 9] or o['y'][2][0] != 6 or \
          any(not (V + 3 <= v < V + 3 + B) for v in oov) or len(set(oov)) < 2 or max(ids) >= V + 3 + B:
        bad.append(f'StackoverflowTokenizer(default_vocab_size={V}, num_oov_buckets={B}).as_preprocess_batch({ML}): vocabulary size asked '
                   f'{got.get("n")}, shape {list(o["x"].shape)}, ids {sorted(set(ids))}')
      tok2 = stackoverflow.StackoverflowTokenizer(['p', 'q'], 99, 2)        # positional: explicit vocabulary wins over default_vocab_size
      o2 = tok2.as_preprocess_batch(4)({'tokens': np.array([b'q p r s t'], dtype=object)})
      if o2['x'].shape != (1, 4) or o2['y'][0][:2].tolist() != [4, 3] or any(not (5 <= v < 7) for v in o2['y'][0][2:].tolist()):
        bad.append('StackoverflowTokenizer(vocab, default_vocab_size, num_oov_buckets) positional form: wrong ids ' + str(o2['y'].tolist()))
    elif which == 'factories':
      import jax
      shapes = lambda m: sorted((k, tuple(map(tuple, [v2.shape for v2 in v.values()]))) for k, v in m.init(jax.random.PRNGKey(0)).items())

      def shp(m):
        return sorted(tuple(x.shape) for x in jax.tree_util.tree_leaves(m.init(jax.random.PRNGKey(0))))
      V, E, H, NL = 11, 3, 5, 3
      got = shp(models.shakespeare.create_lstm_model(vocab_size=V, embed_size=E, lstm_hidden_size=H, lstm_num_layers=NL))
      want = sorted([(V + 4, E), (E + H, 4 * H), (4 * H,)] + [(2 * H, 4 * H), (4 * H,)] * (NL - 1) + [(H, V + 4), (V + 4,)])
      if got != want:
        bad.append(f'shakespeare.create_lstm_model(vocab_size={V}, embed_size={E}, lstm_hidden_size={H}, lstm_num_layers={NL}): parameter shapes {got}')
      NL = 2
      got = shp(models.stackoverflow.create_lstm_model(vocab_size=V, embed_size=E, lstm_hidden_size=H, lstm_num_layers=NL, expected_length=2.5))
      want = sorted([(V + 4, E), (E + H, 4 * H), (4 * H,), (H, E), (E,)] + [(E + H, 4 * H), (4 * H,), (H, E), (E,)] * (NL - 1) + [(E, V + 4), (V + 4,)])
      if got != want:
        bad.append(f'stackoverflow.create_lstm_model(vocab_size={V}, embed_size={E}, lstm_hidden_size={H}, lstm_num_layers={NL}): parameter shapes {got}')
      got = shp(models.stackoverflow.create_lstm_model(vocab_size=V, embed_size=E, lstm_hidden_size=H, lstm_num_layers=1, share_input_output_embeddings=True))
      want = sorted([(V + 4, E), (E + H, 4 * H), (4 * H,), (H, E), (E,), (V + 4,)])
      if got != want:
        bad.append(f'stackoverflow.create_lstm_model(share_input_output_embeddings=True): parameter shapes {got}')
      for nm, fn, hu in (('dense', models.emnist.create_dense_model, 7), ('stax_dense', models.emnist.create_stax_dense_model, 9)):
        for digits, nc in ((True, 10), (False, 62)):
          got = shp(fn(only_digits=digits, hidden_units=hu))
          if got != sorted([(784, hu), (hu,), (hu, hu), (hu,), (hu, nc), (nc,)]):
            bad.append(f'emnist.create_{nm}_model(only_digits={digits}, hidden_units={hu}): parameter shapes {got}')
      for nm, fn in (('conv', models.emnist.create_conv_model), ('logistic', models.emnist.create_logistic_model)):
        for digits, nc in (((True, 10),) if nm == 'conv' else ((True, 10), (False, 62))):      # conv with 62 classes is built in rowindep / tasks
          got = shp(fn(digits) if nm == 'conv' else fn(only_digits=digits))
          if (nc,) not in got or ((10 if nc == 62 else 62),) in got:
            bad.append(f'emnist.create_{nm}_model(only_digits={digits}) does not have {nc} outputs')
    else:      # tasks: mode / cache_dir reach every load_split
      from fedjax.training import tasks
      rec = []
      raw = fedjax.InMemoryFederatedData({b'0123456789abcdef:f2100_07': {
          'snippets': np.array([b'ab'], dtype=object), 'pixels': np.zeros((1, 28, 28), np.float32), 'label': np.array([1], np.int32),
          'image': np.zeros((1, 32, 32, 3), np.uint8), 'coarse_label': np.zeros(1, np.int64), 'tokens': np.array([b'a'], dtype=object),
          'type': np.array([b'answer'], dtype=object)}})
      for mod in (datasets.cifar100, datasets.emnist, datasets.shakespeare, datasets.stackoverflow):
        def load_split(*a, _m=mod.__name__.split('.')[-1], **k):
          rec.append((_m, a, k))
          return raw
        patch(mod, 'load_split', load_split)
      patch(datasets.stackoverflow, 'default_vocab', lambda n: ['w%d' % i for i in range(n)])
      for t in tasks.ALL_TASKS:
        del rec[:]
        tasks.get_task(t, 'sqlite', 'CACHE_' + t)
        flat = [[repr(v) for v in a] + [f'{kk}={v!r}' for kk, v in k.items()] for _, a, k in rec]
        if not rec or any(not any('CACHE_' + t in x for x in call) or not any("'sqlite'" in x for x in call) for call in flat):
          bad.append(f'get_task({t!r}, mode, cache_dir): load_split calls {flat}')
  except Exception as ex:  # pylint: disable=broad-except
    import traceback
    bad.append(f'{which}: raised {type(ex).__name__}: {ex!s}'[:300] + ' @ ' + traceback.format_exc().strip().split('\n')[-3][:120])
  finally:
    for o, n, v in reversed(saved):
      setattr(o, n, v)
  return {'status': 'ok', 'bad': bad}


_XPROC_SCRIPT = '''
import json, sys
sys.path.insert(0, %r)
import numpy as np
from fedjax.datasets import shakespeare, stackoverflow, emnist
out = {}
o = shakespeare.preprocess_client(b'c', {'snippets': [b'To be, or not', b'', b'\\x00\\x01\\x02 ~']}, 5)
out['shake'] = [o['x'].tolist(), o['y'].tolist()]
tok = stackoverflow.StackoverflowTokenizer(vocab=['the', 'a', 'to'], num_oov_buckets=3)
t = tok.as_preprocess_batch(6)({'tokens': np.array([b'the zzz a qqq to www', b'', b'Qx9 oov1 oov2 oov3 oov4'], dtype=object)})
out['tok'] = [t['x'].tolist(), t['y'].tolist()]
out['domain'] = [emnist.domain_id(b'0123456789abcdef:f2100_01'), emnist.domain_id(b'f2600_01')]
print('RESULT' + json.dumps(out))
'''


def _run_xproc(case):
  """The same preprocessing in two fresh interpreters with different PYTHONHASHSEED (OOV bucket choice included)."""
  import json
  import os
  import subprocess
  import sys
  res = []
  for seed in case['hashseeds']:
    p = subprocess.run([sys.executable, '-c', _XPROC_SCRIPT % os.path.dirname(os.path.dirname(os.path.abspath(__file__)))],
                       env=dict(os.environ, PYTHONHASHSEED=str(seed)), capture_output=True, text=True, timeout=900)
    line = [l for l in p.stdout.split('\n') if l.startswith('RESULT')]
    if not line:
      return {'status': 'error', 'err': (p.stderr or p.stdout)[-300:]}
    res.append(json.loads(line[0][6:]))
  return {'status': 'ok', 'same': res[0] == res[1], 'first': res[0]}


def _run_misc(case):
  """Thin wrappers and remaining entry points of the packaged datasets, each against its documented meaning."""
  from fedjax.datasets import cifar100, emnist
  rs = np.random.RandomState(case['seed'] % (2 ** 32))
  n = case['n']
  bad = []
  if case['which'] == 'emnist':
    # pixels are multiples of 1/8 so that 1 - pixels is exact in float32
    pix = (rs.randint(0, 9, size=(n, 28, 28)) / 8.0).astype(np.float32)
    lab = rs.randint(0, 62, size=n).astype(np.int32)
    dom = rs.randint(0, 2, size=n).astype(np.int32)
    ex = {'pixels': pix, 'label': lab, 'domain_id': dom}
    keep = {k: v.copy() for k, v in ex.items()}
    out = emnist.preprocess_batch(ex)
    if sorted(out) != ['domain_id', 'x', 'y'] or out['x'].shape != (n, 28, 28, 1) or out['x'].dtype != np.float32:
      bad.append('emnist.preprocess_batch: keys / x shape / dtype')
    elif not (np.array_equal(out['x'][..., 0], (8 - np.round(pix * 8)) / 8.0) and np.array_equal(out['y'], lab) and np.array_equal(out['domain_id'], dom)):
      bad.append('emnist.preprocess_batch: x != 1 - pixels or y / domain_id not passed through')
    if any(not np.array_equal(ex[k], keep[k]) for k in keep) or sorted(ex) != sorted(keep):
      bad.append('emnist.preprocess_batch modified its input')
    if n:
      pf = np.asfortranarray(pix)
      pr = pix.copy()
      pr.flags.writeable = False
      for v in (pf, pr, np.concatenate([pix, pix])[::2][:n] if False else np.repeat(pix, 2, axis=0)[::2]):
        o2 = emnist.preprocess_batch({'pixels': v, 'label': lab, 'domain_id': dom})
        if not np.array_equal(o2['x'], out['x']):
          bad.append('emnist.preprocess_batch depends on the memory layout of pixels')
    import fedjax
    cid = b'0123456789abcdef:f%04d_01' % case['writer']
    fd = emnist.preprocess_split(fedjax.InMemoryFederatedData({cid: {'pixels': pix, 'label': lab}}))
    got = fd.get_client(cid).all_examples()
    want = 0 if 2100 <= case['writer'] <= 2599 else 1
    if n and not (sorted(got) == ['domain_id', 'x', 'y'] and got['domain_id'].tolist() == [want] * n and got['x'].shape == (n, 28, 28, 1)
                  and np.array_equal(got['y'], lab)):
      bad.append('emnist.preprocess_split: features of a client')
  else:
    img = rs.randint(0, 256, size=(n, 32, 32, 3)).astype(np.uint8)
    lab64 = rs.randint(0, 100, size=n).astype(np.int64)
    keep = img.copy()
    pc = cifar100.preprocess_client(b'c', {'image': img, 'label': lab64, 'coarse_label': lab64 // 5})
    if sorted(pc) != ['x', 'y'] or pc['y'].dtype != np.int32 or not np.array_equal(pc['y'], lab64) or not np.array_equal(pc['x'], keep):
      bad.append('cifar100.preprocess_client: x / y')
    st = np.random.get_state()[1].copy()
    ev = cifar100.preprocess_batch({'x': img, 'y': pc['y']}, is_train=False)
    tf_ = cifar100.preprocess_batch_tff({'x': img, 'y': pc['y']})
    tf2 = cifar100.preprocess_batch_tff(examples={'x': img[:, ::1][:, :, ::1], 'y': pc['y']}, crop_height=24, crop_width=24, distort=False)
    if not np.array_equal(np.random.get_state()[1], st):
      bad.append('an eval-time preprocessing path consumed the global numpy random state')
    mean = np.array([0.4914, 0.4822, 0.4465]); std = np.array([0.2023, 0.1994, 0.2010])
    ref = (img.astype(np.float64) / 255 - mean) / std
    if ev['x'].shape != (n, 32, 32, 3) or ev['x'].dtype != np.float32 or (n and float(np.max(np.abs(ev['x'] - ref))) > 1e-4) or ev['y'] is not pc['y'] and not np.array_equal(ev['y'], pc['y']):
      bad.append('cifar100.preprocess_batch(is_train=False) is not (x/255 - mean) / std per channel')
    direct = cifar100.preprocess_image_tff(img, 24, 24, False) if n else np.zeros((0, 24, 24, 3), np.float32)
    if tf_['x'].shape != (n, 24, 24, 3) or tf_['x'].dtype != np.float32 or not np.array_equal(tf_['y'], pc['y']) or \
        (n and not (np.array_equal(tf_['x'], direct) and np.array_equal(tf2['x'], direct))):
      bad.append('cifar100.preprocess_batch_tff is not preprocess_image_tff(24, 24, distort=False) on x with y passed through')
    # one image alone = the same image inside the batch (per-image statistics), a non-contiguous input view included
    if n >= 2:
      one = cifar100.preprocess_image_tff(img[1:2], 24, 24, False)
      view = cifar100.preprocess_image_tff(np.concatenate([img, img], axis=0)[::2][:n] if False else img[::-1][::-1], 24, 24, False)
      if float(np.max(np.abs(one[0] - direct[1]))) > 1e-5 or not np.array_equal(view, direct):
        bad.append('preprocess_image_tff: an image alone / a strided input differs from the same image in the batch')
    # memory layouts of the image batch: Fortran order, read-only, every-other-image slice of a wider batch,
    # a transposed view of a (W, H) stored batch, negative strides
    if n:
      wide = np.zeros((2 * n, 32, 32, 3), np.uint8)
      wide[::2] = img
      tv = np.ascontiguousarray(img.transpose(0, 2, 1, 3)).transpose(0, 2, 1, 3)
      ro = img.copy()
      ro.flags.writeable = False
      for nm, v in (('F-ordered', np.asfortranarray(img)), ('strided', wide[::2]), ('transposed view', tv), ('read-only', ro),
                    ('reversed', img[::-1, ::-1][::-1, ::-1])):
        for fn, want_ in ((lambda a: cifar100.preprocess_image_tff(a, 24, 24, False), direct),
                          (lambda a: cifar100.preprocess_image(a, is_train=False), ev['x'])):
          try:
            got_ = fn(v)
            # (float32 reductions run in another order on another memory layout: round-off only)
            if got_.shape != want_.shape or float(np.max(np.abs(got_ - want_))) > 2e-4 * (1 + float(np.max(np.abs(want_)))):
              bad.append(f'a {nm} image batch is preprocessed differently from the same images in C order')
          except Exception as ex_:  # pylint: disable=broad-except
            bad.append(f'a {nm} image batch is rejected: {type(ex_).__name__}')
    if not np.array_equal(img, keep):
      bad.append('a cifar100 preprocessing function modified the uint8 images it was given')
    tr = cifar100.preprocess_batch({'x': img, 'y': pc['y']}, is_train=True)
    if tr['x'].shape != (n, 32, 32, 3) or tr['x'].dtype != np.float32 or not np.array_equal(img, keep):
      bad.append('cifar100.preprocess_batch(is_train=True): shape / dtype / input modified')
  return {'status': 'ok', 'bad': bad}


def _run_lut(case):
  from fedjax.datasets import shakespeare
  vocab = bytes.fromhex(case['vocab'])
  table, vs = shakespeare._build_look_up_table(vocab, case['nr'])   # pylint: disable=protected-access
  again, _ = shakespeare._build_look_up_table(vocab, num_reserved=case['nr'])   # pylint: disable=protected-access
  return {'status': 'ok', 'table': [int(v) for v in table], 'vocab_size': int(vs), 'dtype': str(table.dtype), 'shape': list(table.shape),
          'again': bool(np.array_equal(table, again) and not np.shares_memory(table, again)),
          'module_table_intact': [int(v) for v in shakespeare.TABLE] == [_label(c) for c in range(256)]}


def _run_plainnorm(case):
  from fedjax.datasets import cifar100
  rs = np.random.RandomState(case['seed'] % (2 ** 32))
  img = rs.randint(0, 256, size=(2, 32, 32, 3)).astype(np.uint8)
  img[0, 0, 0] = [0, 255, 128]
  out = cifar100.preprocess_image(img, is_train=False)
  samples = [[c, int(img[0, r, r, c]), str(Fraction(float(out[0, r, r, c])))] for r in range(0, 32, 7) for c in range(3)]
  return {'status': 'ok', 'samples': samples, 'shape': list(out.shape), 'dtype': str(out.dtype)}


def _row_model(name):
  from fedjax import models
  if name == 'emnist_stax_dense':
    return models.emnist.create_stax_dense_model(only_digits=False, hidden_units=16), 'img28'
  if name == 'emnist_conv_digits':
    return models.emnist.create_conv_model(only_digits=True), 'img28d'
  if name == 'emnist_logistic_digits':
    return models.emnist.create_logistic_model(only_digits=True), 'img28d'
  from fedjax import models
  if name == 'emnist_conv':
    return models.emnist.create_conv_model(only_digits=False), 'img28'
  if name == 'emnist_dense':
    return models.emnist.create_dense_model(only_digits=False, hidden_units=16), 'img28'
  if name == 'emnist_logistic':
    return models.emnist.create_logistic_model(only_digits=False), 'img28'
  if name == 'cifar100_logistic':
    return models.cifar100.create_logistic_model(), 'img24'
  if name == 'shakespeare_lstm':
    return models.shakespeare.create_lstm_model(lstm_hidden_size=8, embed_size=4, lstm_num_layers=2), 'seq90'
  if name == 'stackoverflow_lstm_scaled':
    return models.stackoverflow.create_lstm_model(vocab_size=20, lstm_hidden_size=8, embed_size=4, expected_length=13.3), 'seq24'
  return models.stackoverflow.create_lstm_model(vocab_size=20, lstm_hidden_size=8, embed_size=4), 'seq24'


def _run_rowindep(case):
  import jax
  import jax.numpy as jnp
  model, kind = _cached(('rowm', case['model']), lambda: _row_model(case['model']))
  rng = np.random.RandomState(case['seed'] % (2 ** 32))
  B = case['batch']
  if kind in ('img28', 'img28d'):
    batch = {'x': rng.rand(B, 28, 28, 1).astype(np.float32), 'y': rng.randint(0, 62 if kind == 'img28' else 10, size=B).astype(np.int32)}
  elif kind == 'img24':
    batch = {'x': rng.randn(B, 24, 24, 3).astype(np.float32), 'y': rng.randint(0, 100, size=B).astype(np.int32)}
  else:
    V = 90 if kind == 'seq90' else 24
    T = 6
    x = rng.randint(3, V, size=(B, T)).astype(np.int32)
    y = rng.randint(3, V, size=(B, T)).astype(np.int32)
    starts = [3, T, 1, 0, T - 1, 2]      # first PAD position per row: full rows mixed with padded ones, one all-PAD row
    for r in range(B):
      x[r, starts[r % len(starts)]:] = 0
      y[r, starts[r % len(starts)]:] = 0
    batch = {'x': x, 'y': y}
  params = model.init(jax.random.PRNGKey(case['seed'] % 1000))
  full = np.asarray(model.apply_for_eval(params, batch), np.float64)
  want_classes = {'img28': 62, 'img28d': 10, 'img24': 100, 'seq90': 90, 'seq24': 24}[kind]
  if full.shape[-1] != want_classes or full.shape[0] != B:
    return {'status': 'ok', 'worst': float('inf'), 'metric_worst': 0.0, 'scale': 0.0, 'finite': True}
  # the model object is reused: the same call again, and init() again after the applies, give the same numbers
  again = np.asarray(model.apply_for_eval(params, batch), np.float64)
  p2 = model.init(jax.random.PRNGKey(case['seed'] % 1000))
  reinit = np.asarray(model.apply_for_eval(p2, batch), np.float64)
  worst = float(max(np.max(np.abs(again - full)), np.max(np.abs(reinit - full))))
  alones = []
  for i in range(B):
    one = {k: v[i:i + 1] for k, v in batch.items()}
    alone = np.asarray(model.apply_for_eval(params, one))
    alones.append(alone)
    worst = max(worst, float(np.max(np.abs(alone[0].astype(np.float64) - full[i]))))
  # the same through the packaged metrics: per-row stats of the batch vs the row alone
  mworst = 0.0
  jb = jax.tree_util.tree_map(jnp.asarray, batch)
  for name, m in model.eval_metrics.items():
    per_row = jax.vmap(m.evaluate_example)(jb, jnp.asarray(full, jnp.float32))
    for i in range(B if B > 3 else 2):        # quick tier (B = 3): the padded row and one full row
      one = {k: jnp.asarray(v[i:i + 1]) for k, v in batch.items()}
      st = jax.vmap(m.evaluate_example)(one, jnp.asarray(alones[i]))
      for f in ('accum', 'weight'):
        if hasattr(st, f):
          a = np.asarray(getattr(st, f), np.float64).reshape(-1)[0]
          b = np.asarray(getattr(per_row, f), np.float64).reshape(B, -1)[i, 0]
          mworst = max(mworst, abs(float(a) - float(b)) / (1.0 + abs(float(b))))
  # per-example TRAINING loss: row in the batch vs alone vs next to one other row
  tl_full = np.asarray(model.train_loss(batch, jnp.asarray(full, jnp.float32)), np.float64).reshape(-1)
  lworst, lfinite = 0.0, bool(np.all(np.isfinite(tl_full))) and tl_full.shape == (B,)
  if tl_full.shape == (B,):
    for i in range(B):
      one = {k: v[i:i + 1] for k, v in batch.items()}
      a = np.asarray(model.train_loss(one, jnp.asarray(alones[i])), np.float64).reshape(-1)
      j = (i + 1) % B
      rows = np.array([j, i])
      two = {k: v[rows] for k, v in batch.items()}
      p2 = model.apply_for_eval(params, two)
      b2 = np.asarray(model.train_loss(two, p2), np.float64).reshape(-1)
      lfinite = lfinite and bool(np.all(np.isfinite(a))) and bool(np.all(np.isfinite(b2)))
      if lfinite:
        lworst = max(lworst, abs(float(a[0]) - float(tl_full[i])), abs(float(b2[1]) - float(tl_full[i])))
    if not case['model'].startswith('emnist_conv') and lfinite:     # no dropout: the training forward pass is deterministic
      key = jax.random.PRNGKey(1)
      tf_full = np.asarray(model.train_loss(batch, model.apply_for_train(params, batch, key)), np.float64).reshape(-1)
      for i in range(B):
        one = {k: v[i:i + 1] for k, v in batch.items()}
        a = np.asarray(model.train_loss(one, model.apply_for_train(params, one, key)), np.float64).reshape(-1)
        lfinite = lfinite and bool(np.isfinite(a[0])) and bool(np.isfinite(tf_full[i]))
        if lfinite:
          lworst = max(lworst, abs(float(a[0]) - float(tf_full[i])))
  return {'status': 'ok', 'worst': worst, 'metric_worst': mworst, 'scale': float(np.max(np.abs(full))),
          'finite': bool(np.all(np.isfinite(full))), 'loss_shape_ok': tl_full.shape == (B,), 'loss_worst': lworst,
          'loss_finite': lfinite, 'loss_scale': float(np.max(np.abs(tl_full))) if lfinite and tl_full.size else 0.0}


def _lmloss_batch(case):
  rng = np.random.RandomState(case['seed'] % (2 ** 32))
  B, T = case['B'], case['T']
  V = 90 if case['model'] == 'shakespeare' else 12
  y = rng.randint(1, V, size=(B, T)).astype(np.int32)
  for r, st in enumerate(case['pad_from']):
    y[r, st:] = 0
  logits = (rng.randint(-8, 9, size=(B, T, V)) / 4.0).astype(np.float32)
  nf = case.get('nonfinite')
  if nf:
    val = {'nan': np.nan, 'inf': np.inf, '-inf': -np.inf}[nf['value']]
    for r in range(B):                       # at every PADDED position of every row: must not matter
      if nf['where'] in ('pad', 'both'):
        logits[r, case['pad_from'][r]:, (r + 3) % V] = val
    if nf['where'] in ('real', 'both') and case['pad_from'][0] > 0:
      logits[0, 0, int(y[0, 0])] = val       # the target logit of the first (real) token of row 0
  return y, logits


def _run_lmloss(case):
  import jax.numpy as jnp
  from fedjax import models
  if case['model'] == 'shakespeare':
    model = _cached('lm_sh', lambda: models.shakespeare.create_lstm_model(lstm_hidden_size=2, embed_size=2, lstm_num_layers=1))
  else:
    el = case.get('el')
    model = _cached(('lm_so', el), lambda: models.stackoverflow.create_lstm_model(vocab_size=8, lstm_hidden_size=2, embed_size=2,
                                                                                   expected_length=el))
  y, logits = _lmloss_batch(case)
  batch = {'x': y.copy(), 'y': y}
  full = np.asarray(model.train_loss(batch, jnp.asarray(logits)), np.float64).reshape(-1)
  base = None
  if case.get('nonfinite'):                 # the same batch with finite logits at the padded positions
    _, clean = _lmloss_batch({**case, 'nonfinite': {**case['nonfinite'], 'where': 'real' if case['nonfinite']['where'] in ('both', 'real') else 'none'}})
    base = [float(v) for v in np.asarray(model.train_loss(batch, jnp.asarray(clean)), np.float64).reshape(-1)]
  alone, paired = [], []
  for i in range(len(y)):
    alone.append(float(np.asarray(model.train_loss({'x': y[i:i + 1], 'y': y[i:i + 1]}, jnp.asarray(logits[i:i + 1]))).reshape(-1)[0]))
    rows = np.array([(i + 1) % len(y), i])
    paired.append(float(np.asarray(model.train_loss({'x': y[rows], 'y': y[rows]}, jnp.asarray(logits[rows]))).reshape(-1)[1]))
  ctx = None
  if case.get('ctx'):                       # execution contexts: the same loss jitted and with jit disabled
    import jax
    jl = np.asarray(jax.jit(model.train_loss)(batch, jnp.asarray(logits)), np.float64).reshape(-1)
    with jax.disable_jit():
      nl = np.asarray(model.train_loss(batch, jnp.asarray(logits)), np.float64).reshape(-1)
    ctx = float(max(np.max(np.abs(jl - full), initial=0.0), np.max(np.abs(nl - full), initial=0.0))) \
        if jl.shape == full.shape == nl.shape else float('inf')
  # per-token cross entropy, float64, from the logits alone
  l64 = logits.astype(np.float64)
  lse = np.log(np.exp(l64 - l64.max(-1, keepdims=True)).sum(-1)) + l64.max(-1)
  with np.errstate(all='ignore'):
    ce = lse - np.take_along_axis(l64, y[..., None].astype(np.int64), axis=-1)[..., 0]
  ce = np.where((y == 0) & ~np.isfinite(ce), 1e6, ce)       # at PAD targets the model must mask whatever stands there
  return {'status': 'ok', 'loss': [float(v) for v in full], 'alone': alone, 'paired': paired, 'y': y.tolist(),
          'ce': [[str(Fraction(float(np.float32(v)))) if np.isfinite(v) else '0' for v in row] for row in ce], 'shape_ok': full.shape == (len(y),), 'ctx': ctx, 'base': base,
          'ce_finite': bool(np.all(np.isfinite(ce)))}


def _run_tasks(case):
  """get_task with the remote datasets replaced by tiny in-memory ones; records what the data
  pipeline produces and what the model accepts."""
  import fedjax
  import jax
  from fedjax import datasets
  from fedjax.training import tasks
  task = case['task']
  saved = []

  def patch(obj, name, val):
    saved.append((obj, name, getattr(obj, name)))
    setattr(obj, name, val)

  calls = {}
  try:
    if task == 'SHAKESPEARE_CHARACTER':
      raw = {b'c0': {'snippets': np.array([b'To be, or not to be', b'that is the question ~'], dtype=object)}}

      def load_split(split, mode='sqlite', cache_dir=None):
        return fedjax.InMemoryFederatedData(raw)
      patch(datasets.shakespeare, 'load_split', load_split)
    elif task == 'STACKOVERFLOW_WORD':
      raw = {b'c0': {'tokens': np.array([b'w1 w2 zzz', b'w3 ' * 30 + b'w4'], dtype=object),
                     'type': np.array([b'answer', b'question'], dtype=object),
                     'creation_date': np.array([b'', b''], dtype=object), 'score': np.zeros(2, np.int64),
                     'tags': np.array([b'', b''], dtype=object), 'title': np.array([b'', b''], dtype=object)}}

      def load_split(split, mode='sqlite', cache_dir=None):
        return fedjax.InMemoryFederatedData(raw)

      def default_vocab(n):
        calls['default_vocab_size'] = n
        return ['w%d' % i for i in range(n)]
      patch(datasets.stackoverflow, 'load_split', load_split)
      patch(datasets.stackoverflow, 'default_vocab', default_vocab)
    elif task.startswith('EMNIST'):
      rs = np.random.RandomState(0)
      raw = {b'0123456789abcdef:f2100_07': {'pixels': rs.rand(3, 28, 28).astype(np.float32), 'label': np.array([0, 35, 61], np.int32)}}

      def load_split(split, only_digits=False, mode='sqlite', cache_dir=None):
        calls['only_digits'] = bool(only_digits)
        return fedjax.InMemoryFederatedData(raw)
      patch(datasets.emnist, 'load_split', load_split)
    else:
      rs = np.random.RandomState(0)
      raw = {b'c0': {'image': rs.randint(0, 256, size=(3, 32, 32, 3)).astype(np.uint8), 'coarse_label': np.zeros(3, np.int64),
                     'label': np.array([0, 50, 99], np.int64)}}

      def load_split(split, mode='sqlite', cache_dir=None):
        return fedjax.InMemoryFederatedData(raw)
      patch(datasets.cifar100, 'load_split', load_split)
    train, test, model = tasks.get_task(task) if len(task) % 2 else tasks.get_task(name=task, mode='sqlite', cache_dir=None)
    obs = {'status': 'ok', 'calls': calls}
    try:
      tasks.get_task(task.lower())
      obs['bad_name'] = 'accepted'
    except ValueError:
      obs['bad_name'] = 'ValueError'
    obs['all_tasks'] = sorted(tasks.ALL_TASKS)
    for nm, fd in (('train', train), ('test', test)):
      ds = fd.get_client(b'0123456789abcdef:f2100_07' if task.startswith('EMNIST') else b'c0')
      b = next(iter(ds.padded_batch(batch_size=4)))
      params = _cached(('task_params', task), lambda: model.init(jax.random.PRNGKey(0)))
      pkey = (task, tuple(b['x'].shape), hash(np.asarray(b['x']).tobytes()))
      pred = _cached(('task_pred',) + pkey, lambda: np.asarray(model.apply_for_eval(params, b)))
      obs[nm] = {'x_shape': list(b['x'].shape), 'y_shape': list(b['y'].shape), 'x_dtype': str(b['x'].dtype),
                 'y_max': int(np.max(b['y'])), 'x_max': float(np.max(b['x'])), 'pred_shape': list(pred.shape),
                 'pred_finite': bool(np.all(np.isfinite(pred)))}
    return obs
  except Exception as ex:  # pylint: disable=broad-except
    return {'status': 'raise', 'err': type(ex).__name__ + ': ' + str(ex)[:200]}
  finally:
    for o, n, v in reversed(saved):
      setattr(o, n, v)


def run(case):
  k = case['kind']
  with contextlib.redirect_stdout(None):
    if k == 'shake':
      return _run_shake(case)
    if k == 'consts':
      return _run_consts(case)
    if k == 'tok':
      return _run_tok(case)
    if k in ('center', 'random', 'plain'):
      return _run_crop(case)
    if k == 'std':
      return _run_std(case)
    if k == 'domain':
      return _run_domain(case)
    if k == 'rowindep':
      return _run_rowindep(case)
    if k == 'lmloss':
      return _run_lmloss(case)
    if k == 'misc':
      return _run_misc(case)
    if k == 'xproc':
      return _run_xproc(case)
    if k == 'plumb':
      return _run_plumb(case)
    if k == 'lut':
      return _run_lut(case)
    if k == 'plainnorm':
      return _run_plainnorm(case)
    return _run_tasks(case)


# --------------------------------------------------------------------------
# oracle

def _oracle_shake(case, obs):
  L = case['L']
  if L < 2:
    return []          # outside the quantifier
  if obs['status'] != 'ok':
    return [('shake-raise', f'preprocess_client raised {obs.get("err")} for sequence_length {L}')]
  out = []
  snips = [bytes.fromhex(h) for h in case['snips']]
  stream = []
  for s in snips:
    stream += [BOS] + [_label(c) for c in s] + [EOS]
  xs, ys = obs['x'], obs['y']
  if obs['dtype'] != ['int32', 'int32'] or obs['keys'] != ['x', 'y']:
    out.append(('shake-shape', 'x / y are not int32 or extra features are returned'))
  if any(len(r) != L for r in xs + ys) or len(xs) != len(ys) or obs['shape'][0] != [len(xs), L]:
    out.append(('shake-shape', f'rows are not all of length {L}'))
  fx = [v for r in xs for v in r]
  fy = [v for r in ys for v in r]

  def strip(f):
    f = list(f)
    while f and f[-1] == PAD:
      f.pop()
    return f
  # label by label first, so that the report names the byte that is mislabelled
  for pos, want in enumerate(stream[1:]):
    if pos < len(fy) and fy[pos] != want:
      src = [c for s_ in snips for c in [None] + list(s_) + [None]][pos + 1]
      if src is not None:
        out.append(('shake-label', f'data byte 0x{src:02x} is labelled {fy[pos]}; its label is {want}' +
                    (' (a byte equal to a reserved id PAD/BOS/EOS is ordinary out-of-vocabulary data)' if src <= 2 else '')))
        break
  if strip(fx) != stream[:-1] or strip(fy) != stream[1:]:
    out.append(('shake-lossless', 'with padding removed x / y are not the begin/characters/end label stream (x = stream[:-1], y = stream[1:])'))
  n = max(len(stream) - 1, 0)
  if fx[1:n] != fy[:max(n - 1, 0)]:
    out.append(('shake-shift', 'targets are not the inputs shifted by one'))
  if any(not (0 <= v < SH_VOCAB_SIZE) for v in fx + fy):
    out.append(('shake-vocab', 'a label is outside [0, VOCAB_SIZE)'))
  if PAD in fx[:n] or PAD in fy[:n] or any(v != PAD for v in fx[n:] + fy[n:]):
    out.append(('shake-pad', 'padding is not exactly the tail after the stream'))
  if len(fx) != -(-n // L) * L:
    out.append(('shake-padlen', f'padded length {len(fx)} is not the smallest multiple of {L} holding {n} labels'))
  if obs.get('forms_ok') is False:
    out.append(('shake-forms', 'the same snippets given as a list / tuple, a numpy integer sequence_length, another client id or extra features give a different result (or raise)'))
  if obs.get('kept_ok') is False or obs.get('input_ok') is False:
    out.append(('shake-impure', 'the snippets were modified, x and y share memory, or an earlier result changed after later calls'))
  if 'metrics' in obs:
    y = np.array(ys, dtype=np.int64).reshape(len(ys), L)
    exp = _expected_lm(y, SH_OOV, SH_VOCAB_SIZE, _choice_fn(y, SH_OOV, len(case['snips'])))
    exp.pop('truncation_rate')
    out += _cmp_metrics(obs['metrics'], exp, 'shake')
  return out


def _oracle_ids(name, ids, pad, bos, eos, oov, vocab):
  out = []
  want = {'accuracy_in_vocab': {'masked_target_values': {pad, eos}, 'logits_masked': {pad, bos, eos, oov}, 'logits_len': vocab},
          'accuracy_no_eos': {'masked_target_values': {pad, eos}},
          'num_tokens': {'masked_target_values': {pad}}, 'sequence_length': {'masked_target_values': {pad}},
          'sequence_loss': {'masked_target_values': {pad}}, 'token_loss': {'masked_target_values': {pad}},
          'token_oov_rate': {'masked_target_values': {pad}, 'oov_target_values': {oov}}}
  if name == 'so':
    want['truncation_rate'] = {'masked_target_values': {pad}, 'eos_target_value': eos}
  for m, w in want.items():
    got = ids.get(m)
    if got is None:
      out.append((f'{name}-ids-{m}', f'packaged {name} model has no metric {m}'))
      continue
    for k, v in w.items():
      g = got.get(k)
      g = set(g) if isinstance(g, list) else g
      if g != v:
        out.append((f'{name}-ids-{m}', f'{name} model metric {m}.{k} = {got.get(k)}, its dataset produces {sorted(v) if isinstance(v, set) else v}'))
    if got.get('logits_other_nonzero'):
      out.append((f'{name}-ids-{m}', 'logits mask has entries other than 0 / -inf'))
  return out


def _oracle_consts(case, obs):
  out = []
  if obs.get('reuse_ok') is False:
    out.append(('model-reuse', 'building further packaged models with other vocabulary sizes changed the label ids held by an earlier model'))
  sh = obs['sh']
  if (sh['PAD'], sh['BOS'], sh['EOS'], sh['OOV'], sh['VOCAB_SIZE']) != (PAD, BOS, EOS, SH_OOV, SH_VOCAB_SIZE):
    out.append(('shake-consts', 'PAD/BOS/EOS/OOV/VOCAB_SIZE differ from 0/1/2/len(vocab)+3/len(vocab)+4'))
  if sh['TABLE'] != [_label(c) for c in range(256)]:
    out.append(('shake-table', 'look-up table differs from "vocab[i] -> 3 + i, others -> OOV"'))
  if obs['sh_model_default_vocab'] + 4 != SH_VOCAB_SIZE:
    out.append(('sh-ids-vocab', 'default vocab_size of the Shakespeare model + 4 special ids != dataset VOCAB_SIZE'))
  out += _oracle_ids('sh', obs['sh_model'], PAD, BOS, EOS, SH_OOV, SH_VOCAB_SIZE)
  t = obs['so_tok']
  V = obs['so_model_vocab']
  if (t['PAD'], t['BOS'], t['EOS']) != (0, 1, 2):
    out.append(('so-consts', 'tokenizer PAD/BOS/EOS are not 0/1/2'))
  if t['default_vocab_size'] != obs['so_model_default_vocab'] or t['num_oov_buckets'] != 1:
    out.append(('so-ids-vocab', 'tokenizer default vocabulary size / OOV buckets differ from the model default'))
  out += _oracle_ids('so', obs['so_model'], 0, 1, 2, V + 3, V + 4)
  return out


def _words(ws):
  """The tokenizer splits the sentence on single spaces (tf.strings.split(s, sep=' ') = python s.split(' ')):
  an empty sentence is one empty word, which is out of vocabulary."""
  return ' '.join(ws).split(' ')


def _tok_expected(case):
  V, ml = len(case['vocab']), case['max_length']
  xs, ys = [], []
  for ws in case['sentences']:
    ws = _words(ws)
    ids = [BOS] + [(case['vocab'].index(w) + 3) if w in case['vocab'] else None for w in ws] + [EOS]
    x, y = ids[:-1][:ml], ids[1:][:ml]
    xs.append(x + [PAD] * (ml - len(x)))
    ys.append(y + [PAD] * (ml - len(y)))
  return xs, ys


def _oracle_tok(case, obs):
  V, ml, k = len(case['vocab']), case['max_length'], case['buckets']
  out = []
  if obs['dtype'] != ['int32', 'int32'] or obs['shape'] != [[len(case['sentences']), ml]] * 2:
    return [('tok-shape', f'x / y are not int32 [N, {ml}]')]
  ex, ey = _tok_expected(case)
  for nm, exp, got in (('x', ex, obs['x']), ('y', ey, obs['y'])):
    for er, gr in zip(exp, got):
      for e, g in zip(er, gr):
        if (e is not None and g != e) or (e is None and not (V + 3 <= g < V + 3 + k)):
          out.append(('tok-ids', f'{nm}: id {g} where {"an OOV bucket id" if e is None else e} is expected (BOS, words + 3, EOS, padded / truncated to max_length)'))
          break
      else:
        continue
      break
  if not obs.get('domain_kept'):
    out.append(('tok-domain', 'domain_id is not passed through'))
  if obs.get('forms_ok') is False:
    out.append(('tok-forms', 'the same sentences through a fixed-width bytes array / create_token_to_ids_fn / DefaultWordTokenizer / a reused '
                'tokenizer give other ids, an empty batch is not [0, max_length] int32, or stackoverflow.preprocess_client is wrong'))
  if 'metrics' in obs and not out:
    y = np.array(obs['y'], dtype=np.int64).reshape(len(obs['y']), ml)
    exp = _expected_lm(y, V + 3, V + 4, _choice_fn(y, V + 3, ml))
    out += _cmp_metrics(obs['metrics'], exp, 'tok')
  return out


def _oracle_crop(case, obs):
  k = case['kind']
  out = []
  if k in ('center', 'random'):
    ch, cw = case['ch'], case['cw']
    valid = 1 <= ch <= 32 and 1 <= cw <= 32
    if not valid:
      return [] if obs['status'] == 'raise' else [('crop-accepts-bad-size', f'crop size {ch}x{cw} outside 1..32 was accepted')]
    if obs['status'] != 'ok':
      return [('crop-raise', f'crop size {ch}x{cw} raised')]
    if obs.get('draws') == 'unexpected' or obs.get('contract') is False:
      return [('crop-draws', 'unexpected use of np.random')]
    if obs['shape'] != [64, ch, cw, 3] or obs['dtype'] != 'float32':
      out.append((f'{k}-crop-shape', f'output is {obs["shape"]} {obs["dtype"]}, requested [N, {ch}, {cw}, 3] float32'))
    w = obs['window']
    if w is None:
      return out + [(f'{k}-crop-window', 'the output is not a contiguous sub-window of the input')]
    (hlo, hhi, hc), (wlo, whi, wc) = w
    if not (0 <= hlo and hhi <= 32 and hhi - hlo == ch and 0 <= wlo and whi <= 32 and whi - wlo == cw and hc == ch and wc == cw):
      out.append((f'{k}-crop-window', f'rows [{hlo},{hhi}) cols [{wlo},{whi}) is not a {ch}x{cw} sub-window of the 32x32 image'))
    if k == 'center' and (hlo != (32 - ch) // 2 or wlo != (32 - cw) // 2):
      out.append(('center-crop-offset', f'centre crop starts at ({hlo},{wlo}), the centred window starts at ({(32 - ch) // 2},{(32 - cw) // 2})'))
    return out
  if obs.get('draws') == 'unexpected' or obs.get('contract') is False:
    return [('crop-draws', 'unexpected use of np.random')]
  if obs['shape'] != [64, 32, 32, 3] or obs['dtype'] != 'float32':
    out.append(('plain-crop-shape', 'preprocess_image output is not [N, 32, 32, 3] float32'))
  w = obs['window']
  if w is None:
    return out + [('plain-crop-window', 'the output is not a contiguous window of the padded image')]
  (hlo, hhi, _), (wlo, whi, _) = w
  if not (0 <= hlo and hhi <= 40 and hhi - hlo == 32 and 0 <= wlo and whi <= 40 and whi - wlo == 32):
    out.append(('plain-crop-window', f'window rows [{hlo},{hhi}) cols [{wlo},{whi}) leaves the 40x40 padded image'))
  return out


def _oracle_std(case, obs):
  ch, cw = case['ch'], case['cw']
  if obs['shape'] != [2, ch, cw, 3] or obs['dtype'] != 'float32':
    return [('std-shape', f'eval preprocessing returned {obs["shape"]} {obs["dtype"]}')]
  if not obs['finite']:
    return [('std-nonfinite', 'standardised image has non-finite values')]
  tol = 1e-3 + 2e-4 * obs['scale']
  out = []
  if obs['err_tf'] is None or obs['err_tf'] > tol:
    out.append(('std-vs-tf', f'differs from tf.image.per_image_standardization of the centre crop by {obs["err_tf"]} ({case["mode"]} image, crop {ch}x{cw})'))
  if obs['err_ref'] > tol:
    out.append(('std-vs-float64', f'differs from (x - mean) / max(std, 1/sqrt(N)) in float64 by {obs["err_ref"]} ({case["mode"]} image, crop {ch}x{cw})'))
  return out


def _oracle_domain(case, obs):
  cid = bytes.fromhex(case['id'])
  num = None
  if len(cid) == 25 and cid[16:18] == b':f' and cid[18:22].isdigit() and cid[22:23] == b'_' and cid[23:].isdigit():
    num = int(cid[18:22])
  elif len(cid) == 8 and cid[0:1] == b'f' and cid[1:5].isdigit() and cid[5:6] == b'_' and cid[6:].isdigit():
    num = int(cid[1:5])
  if num is None:
    return [] if obs['status'] == 'raise' else []      # malformed ids are outside the quantifier
  if obs['status'] != 'ok':
    return [('domain-raise', 'a well-formed client id was rejected')]
  want = 0 if 2100 <= num <= 2599 else 1           # NIST SD19: hsf_4 = writers f2100..f2599 = high school
  out = []
  if obs['d'] != want:
    out.append(('domain-range', f'writer f{num:04d} gets domain {obs["d"]}, documented ranges give {want}'))
  if obs.get('feature') != [want] * 3:
    out.append(('domain-feature', 'preprocess_client does not attach the domain id to every example'))
  if obs.get('alt_ok') is False:
    out.append(('domain-forms', 'the id as str / numpy bytes, another label dtype or an empty client gives a different domain id / feature'))
  return out


def oracle(case, obs):
  k = case['kind']
  if k == 'shake':
    return _oracle_shake(case, obs)
  if k == 'consts':
    return _oracle_consts(case, obs)
  if k == 'tok':
    return _oracle_tok(case, obs)
  if k in ('center', 'random', 'plain'):
    return _oracle_crop(case, obs)
  if k == 'std':
    return _oracle_std(case, obs)
  if k == 'domain':
    return _oracle_domain(case, obs)
  if k == 'misc':
    return [(f'misc-{case["which"]}', '; '.join(obs['bad']))] if obs['bad'] else []
  if k == 'plumb':
    return [(f'plumbing-{case["which"]}', '; '.join(obs['bad'])[:600])] if obs['bad'] else []
  if k == 'xproc':
    if obs['status'] != 'ok':
      return [('xproc-error', 'the preprocessors could not be run in a fresh process: ' + obs.get('err', ''))]
    return [] if obs['same'] else [('xproc-differs', 'the same preprocessing gives different labels in two processes with different PYTHONHASHSEED')]
  if k == 'lut':
    vocab, nr = bytes.fromhex(case['vocab']), case['nr']
    want = [nr + vocab.rfind(bytes([c])) if bytes([c]) in vocab else nr + len(vocab) for c in range(256)]
    if obs['table'] != want or obs['vocab_size'] != nr + len(vocab) + 1 or obs['dtype'] != 'int32' or obs['shape'] != [256]:
      return [('lut-table', 'look-up table is not "vocab[i] -> num_reserved + i (last occurrence wins), others -> vocab_size - 1" as an int32 [256] array')]
    if not obs['again'] or not obs['module_table_intact']:
      return [('lut-impure', 'building a table again gives another result / shares memory / disturbed the module-level TABLE')]
    return []
  if k == 'plainnorm':
    mean, std = [0.4914, 0.4822, 0.4465], [0.2023, 0.1994, 0.2010]
    for c, v, o in obs['samples']:
      ref = (v / 255 - mean[c]) / std[c]
      if abs(float(Fraction(o)) - ref) > 1e-4 * (1 + abs(ref)):
        return [('plain-normalisation', f'channel {c}: pixel {v} is normalised to {float(Fraction(o))}, (x/255 - mean)/std gives {ref}')]
    return [] if obs['shape'] == [2, 32, 32, 3] and obs['dtype'] == 'float32' else [('plain-normalisation', 'shape / dtype')]
  if k == 'lmloss' and case.get('nonfinite'):
    cls = lambda v: 'nan' if v != v else 'inf' if v == math.inf else '-inf' if v == -math.inf else 'finite'
    if not obs['shape_ok']:
      return [(f'trainloss-rowdep-{case["model"]}', 'per-example training loss is not one value per row')]
    for i, (a, b, c, d) in enumerate(zip(obs['loss'], obs['alone'], obs['paired'], obs['base'])):
      if cls(a) != cls(b) or cls(a) != cls(c) or (cls(a) == 'finite' and (abs(a - b) > 1e-5 * (1 + abs(b)) or abs(c - b) > 1e-5 * (1 + abs(b)))):
        return [(f'trainloss-nonfinite-{case["model"]}', f'row {i}: a non-finite logit gives loss {b} alone, {a} in the batch, {c} next to one other row')]
      if cls(a) != cls(d) or (cls(a) == 'finite' and abs(a - d) > 1e-5 * (1 + abs(d))):
        return [(f'trainloss-pad-leak-{case["model"]}', f'row {i}: a non-finite logit at a PADDED position changes the loss from {d} to {a}')]
    return []
  if k == 'lmloss':
    if not obs['shape_ok'] or not all(math.isfinite(v) for v in obs['loss'] + obs['alone'] + obs['paired']):
      return [(f'trainloss-rowdep-{case["model"]}', 'per-example training loss is not one finite value per row (alone or inside a batch)')]
    if obs.get('ctx') is not None and not (obs['ctx'] <= 1e-5 * (1 + max(abs(v) for v in obs['loss'] + [0.0]))):
      return [(f'trainloss-context-{case["model"]}', f'train_loss differs by {obs["ctx"]} between eager, jitted and jit-disabled execution')]
    for i, (a, b, c) in enumerate(zip(obs['loss'], obs['alone'], obs['paired'])):
      if abs(a - b) > 1e-5 * (1 + abs(b)) or abs(c - b) > 1e-5 * (1 + abs(b)):
        return [(f'trainloss-rowdep-{case["model"]}',
                 f'row {i}: training loss {b} alone, {a} inside the batch, {c} next to one other row (targets {obs["y"]})')]
    return []
  if k == 'rowindep':
    if not obs['finite']:
      return [('rowindep-nonfinite', 'model output is not finite')]
    if not obs.get('loss_shape_ok', True) or not obs.get('loss_finite', True):
      return [(f'rowindep-trainloss-{case["model"]}', 'per-example training loss is not one finite value per row (row alone or inside a batch)')]
    if obs.get('loss_worst', 0.0) > 1e-5 * (1 + obs.get('loss_scale', 0.0)):
      return [(f'rowindep-trainloss-{case["model"]}', f'the per-example training loss of a row changes by {obs["loss_worst"]} with the other rows of the batch')]
    if obs['worst'] > 1e-5 * (1 + obs['scale']) or obs['metric_worst'] > 1e-5:
      return [(f'rowindep-{case["model"]}', f'a row scored alone differs from the same row inside a batch by {obs["worst"]} (metrics {obs["metric_worst"]})')]
    return []
  # tasks
  if obs['status'] != 'ok':
    return [('tasks-raise', f'get_task({case["task"]}) pipeline -> model failed: {obs.get("err")}')]
  out = []
  t = case['task']
  if obs.get('bad_name') != 'ValueError' or t not in obs.get('all_tasks', [t]):
    out.append(('tasks-names', 'an unknown task name is accepted, or a task is missing from ALL_TASKS'))
  for nm in ('train', 'test'):
    o = obs[nm]
    if not o['pred_finite'] or o['pred_shape'][:len(o['y_shape'])] != o['y_shape']:
      out.append(('tasks-shapes', f'{t}: model output {o["pred_shape"]} does not line up with targets {o["y_shape"]}'))
    if o['y_max'] >= o['pred_shape'][-1]:
      out.append(('tasks-vocab', f'{t}: a label {o["y_max"]} is outside the model output size {o["pred_shape"][-1]}'))
    if t in ('SHAKESPEARE_CHARACTER', 'STACKOVERFLOW_WORD') and o['x_max'] >= o['pred_shape'][-1]:
      out.append(('tasks-vocab', f'{t}: an input id {o["x_max"]} is outside the embedding size {o["pred_shape"][-1]}'))
  if t == 'SHAKESPEARE_CHARACTER' and (obs['train']['pred_shape'][-1] != SH_VOCAB_SIZE or obs['train']['x_shape'][1] != obs['test']['x_shape'][1]):
    out.append(('tasks-vocab', 'Shakespeare task: model vocabulary != dataset VOCAB_SIZE, or train/test lengths differ'))
  if t == 'STACKOVERFLOW_WORD':
    n = obs['calls'].get('default_vocab_size')
    if n is None or obs['train']['pred_shape'][-1] != n + 4 or obs['train']['x_shape'][1] != obs['test']['x_shape'][1]:
      out.append(('tasks-vocab', 'Stack Overflow task: model vocabulary != tokenizer vocabulary + 4, or train/test max_length differ'))
  if t.startswith('EMNIST') and (obs['train']['x_shape'][1:] != [28, 28, 1] or obs['train']['pred_shape'][-1] != (10 if obs['calls'].get('only_digits') else 62)):
    out.append(('tasks-shapes', 'EMNIST task: images are not 28x28x1 or the number of classes does not match only_digits'))
  if t == 'CIFAR100_LOGISTIC' and obs['train']['x_shape'][1:] != [24, 24, 3]:
    out.append(('tasks-shapes', 'CIFAR task: images are not 24x24x3'))
  return out


# --------------------------------------------------------------------------
# Coq encoding

def _zl(xs):
  return fw.zlist(xs)


def _zll(xss):
  return fw.clist([_zl(r) for r in xss])


def _q(fr):
  fr = Fraction(fr)
  return f'({fw.zlit(fr.numerator)} # {fr.denominator})'


def encode(case, obs):
  k = case['kind']
  if k == 'shake':
    c = f'KShake {fw.clist([_zl(list(bytes.fromhex(h))) for h in case["snips"]])} {fw.zlit(case["L"])}'
    o = 'ORaise' if obs['status'] != 'ok' else f'ORows {_zll(obs["x"])} {_zll(obs["y"])}'
  elif k == 'consts':
    sh = obs['sh']
    c = 'KConstsShake'
    o = f'OConsts {sh["PAD"]} {sh["BOS"]} {sh["EOS"]} {sh["OOV"]} {sh["VOCAB_SIZE"]} {_zl(sh["TABLE"])}'
  elif k == 'tok':
    V = len(case['vocab'])
    sents = fw.clist([fw.clist([f'(Some {case["vocab"].index(w)})' if w in case['vocab'] else 'None' for w in _words(ws)])
                      for ws in case['sentences']])
    c = f'KTok {V} {case["buckets"]} {case["max_length"]} {sents}'
    o = f'ORows {_zll(obs["x"])} {_zll(obs["y"])}'
  elif k in ('center', 'random'):
    if k == 'center':
      c = f'KCenter {fw.zlit(case["ch"])} {fw.zlit(case["cw"])}'
    else:
      if obs['status'] == 'ok' and ('u' not in obs):
        return None
      u = obs.get('u', [0, 0, 0])
      c = f'KRandom {fw.zlit(case["ch"])} {fw.zlit(case["cw"])} {fw.zlit(u[0])} {fw.zlit(u[1])}'
    if obs['status'] != 'ok':
      o = 'ORaise'
    elif obs.get('window') is None:
      return None
    else:
      (hlo, hhi, _), (wlo, whi, _) = obs['window']
      o = f'OWindow ({fw.zlit(hlo)}, {fw.zlit(hhi)}) ({fw.zlit(wlo)}, {fw.zlit(whi)})'
  elif k == 'plain':
    if obs.get('window') is None or 'ij' not in obs:
      return None
    (hlo, hhi, _), (wlo, whi, _) = obs['window']
    c = f'KPlain {obs["ij"][0]} {obs["ij"][1]}'
    o = f'OWindow ({fw.zlit(hlo)}, {fw.zlit(hhi)}) ({fw.zlit(wlo)}, {fw.zlit(whi)})'
  elif k == 'std':
    if not obs.get('samples'):
      return None
    c = f'KStd {obs["N"]} {obs["S1"]} {obs["S2"]} {_q(obs["s"])}'
    o = 'OStd ' + fw.clist([f'({v}, {_q(q)})' for v, q in obs['samples']])
  elif k == 'lmloss':
    if not obs['shape_ok'] or not all(math.isfinite(v) for v in obs['loss']) or not obs.get('ce_finite', True):
      return None
    rows = fw.clist([f'({fw.clist([_q(v) for v in cr])}, {_zl(yr)})' for cr, yr in zip(obs['ce'], obs['y'])])
    el = 'None' if case.get('el') is None else f'(Some {_q(Fraction(float(case["el"])))})'
    c = f'KLoss {fw.cbool(case["model"] == "shakespeare")} {el} {rows}'
    o = 'OLoss ' + fw.clist([_q(Fraction(v)) for v in obs['loss']])
  elif k == 'lut':
    c = f'KLut {_zl(list(bytes.fromhex(case["vocab"])))} {fw.zlit(case["nr"])}'
    o = f'OTable {_zl(obs["table"])} {fw.zlit(obs["vocab_size"])}'
  elif k == 'plainnorm':
    c = 'KPlainNorm'
    o = 'ONorm ' + fw.clist([f'({cc}%nat, {v}, {_q(q)})' for cc, v, q in obs['samples']])
  elif k == 'domain':
    c = f'KDomain {_zl(list(bytes.fromhex(case["id"])))}'
    o = 'ORaise' if obs['status'] != 'ok' else f'OId {obs["d"]}'
  else:
    return None
  term = f'(({c}, {o}))%Z'
  return term if len(term) <= 20000 else None      # very large cases (size sweeps) are judged by the oracle only


# --------------------------------------------------------------------------

def nontrivial(case, obs):
  k = case['kind']
  if k == 'shake':
    return len(case['snips']) > 0
  if k == 'tok':
    return any(case['sentences'])
  return True


def describe(case, obs):
  k = case['kind']
  d = {'kind': k, 'status': obs.get('status')}
  if k == 'shake':
    n = sum(len(h) // 2 + 2 for h in case['snips'])
    L = case['L']
    d['L'] = L if L <= 9 else '>=10'
    d['len_vs_L'] = 'empty' if n == 0 else ('multiple' if (n - 1) % L == 0 else 'multiple+1' if (n - 1) % L == 1 else 'multiple-1' if (n - 1) % L == L - 1 else 'other')
    d['has_empty_snippet'] = any(h == '' for h in case['snips'])
  if k == 'std':
    d['mode'] = case['mode']
  if k == 'tok':
    d['buckets'] = case['buckets']
  return d


def shrink(case):
  k = case['kind']
  if k == 'shake':
    s = case['snips']
    for i in range(len(s)):
      yield {**case, 'snips': s[:i] + s[i + 1:]}
    for i, h in enumerate(s):
      if len(h) >= 2:
        yield {**case, 'snips': s[:i] + [h[:-2]] + s[i + 1:]}
        yield {**case, 'snips': s[:i] + [h[: (len(h) // 4) * 2]] + s[i + 1:]}
    if case['L'] > 2:
      yield {**case, 'L': case['L'] - 1}
  elif k == 'tok':
    s = case['sentences']
    for i in range(len(s)):
      yield {**case, 'sentences': s[:i] + s[i + 1:]}
