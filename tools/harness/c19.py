"""C19 harness: maybe_download / maybe_lzma_decompress under I/O errors and crashes.

`open`, `os`, `requests`, `lzma` of fedjax.datasets.downloads are replaced (module
attributes, this process only) by recording proxies over the real local file system
(lib/crashfs.py) and a fake HTTP response.  A case is a payload size plus a list
of faulty attempts; run() makes each attempt, then one fault-free attempt, then one
attempt with a network / decompressor that records being touched.

fault:  ['get'] connection error | ['status'] HTTP error | ['nolen'] no content-length
        | ['read', j] error in the j-th raw.read | ['zerr', j] error in the j-th read
        of the LZMA stream | ['corrupt', num, den] the .lzma file on disk is cut to
        num/den of its size (real lzma raises) | ['crash', k, sub, cls] process death
        at model-level effect k (sub / cls: see lib/crashfs.py; bytes not yet flushed by the code
        survive only as the prefix class cls) | ['flusherr', cls] the close of the written file fails
        with an I/O error after the prefix class cls of the unflushed bytes reached the disk
        | ['readp', j] PERSISTENT read failure: every raw.read call from the j-th on raises
        (ConnectionResetError / TimeoutError / OSError in rotation), in every response of the call
        | ['once', <get|status|nolen|read j>] TRANSIENT: only the first response of the call
        misbehaves, every later request of the same call is served correctly.
"""
import builtins
import lzma as real_lzma
import os
import shutil
import tempfile

from lib import fw
from lib import crashfs
from lib import deathbox

PROP = 'C19'
COQ_HEADER = 'From FV Require Import Model.C19_Model.\nLocal Open Scope Z_scope.'
COQ_AGREE = 'C19_agree'
COQ_MODEL_TARGETS = ['Model/C19_Model']
RULE = ('payload sizes 0, 1, B-1, B, B+1, 2B-1, 2B, 2B+1, 3B+5 (B = 1<<18 transfer block; decompression: B = '
        'shutil.COPY_BUFSIZE); an I/O error at the connection, the status, the header and EVERY block index; a crash '
        'at EVERY effect index with the three torn-prefix classes for writes; sequences of up to 3 (quick) / 4 '
        '(thorough) interruptions followed by a successful call and by a call that must not touch the network; '
        'non-trivial = at least one interruption happened; distinct = distinct case JSON')
TRUSTED = [
    'os.rename is atomic; files appear only through the recorded effects (open / write / close / rename)',
    'process death is simulated by a BaseException at an effect boundary or inside a write (prefix on disk)',
    'requests / urllib3 report a broken transfer as an exception (the fake response does); a server that lies in '
    'content-length is outside the property',
]
ASSUMPTIONS = [
    'source oracle: each read yields a block, end of data, or an I/O error; it is honest: absent an error the '
    'blocks are the payload in order and content-length is its size',
    'the compressed path is <non-empty basename>.lzma (os.path.splitext gives (.., ".lzma"))',
    'one process at a time uses the cache directory (the code has a TODO about concurrent downloads)',
    'honest_valid: validate_file (size + sha256) accepts only the complete converted split file',
]
PARTIAL = ['cifar100.load_split: download, validation and decompression of the real 153 MB TFF file are stubbed; the '
           'conversion runs for real on a 3-client fake TFF iterator and validate_file is replaced by a content check']
CASE_TIMEOUT = 300

BS = 1 << 18                      # the property's "transfer block size" (generation hint only)
URL_BASE = 'https://example.invalid/some/dir/'
FINAL = {'download': 'data.lzma', 'decompress': 'data'}
# base names of the downloaded file (case field 'name'): blanks and parentheses, several dots, a hidden file, a name
# that itself ends in the temporary suffix, percent escapes (the URL path is NOT unquoted by the code)
NAMES = ['data.lzma', 'my file (1).v2.lzma', '.hidden.lzma', 'x.partial.lzma', 'a%20b.tar.lzma', 'UPPER.Lzma.lzma']


def _final(case):
  name = NAMES[case.get('name', 0)]
  return name if case['kind'] == 'download' else name[:-5]



def _payload(n, fill=0):
  """fill 0: a pattern that is not periodic in the block size (duplicated / shifted blocks are visible; compresses
  moderately); 1: highly compressible (a 3-block payload compresses to a few hundred bytes); 2: incompressible
  (the compressed file is larger than the payload, so larger than one copy buffer whenever the payload is)."""
  import numpy as np
  if fill == 1:
    return b'\x00' * (n - n // 3) + b'\x01' * (n // 3)
  if fill == 2:
    return np.random.RandomState(1234).randint(0, 256, size=n, dtype=np.uint8).tobytes()
  i = np.arange(n, dtype=np.int64)
  return ((i * 7 + (i >> 8) * 13 + (i >> 16) + 3) & 0xFF).astype(np.uint8).tobytes()


_PAY = {}


def _data(case):
  """(payload the final file must equal, compressed bytes or None)"""
  key = (case['kind'], case['size'], case.get('fill', 0))
  if key not in _PAY:
    p = _payload(case['size'], case.get('fill', 0))
    _PAY[key] = (p, real_lzma.compress(p, preset=0) if case['kind'] == 'decompress' else None)
  return _PAY[key]


class _IOFault(IOError):
  pass


_INTR = (KeyboardInterrupt, SystemExit)     # interruptions that are BaseException but NOT Exception (Ctrl-C, sys.exit)


class _Env:

  def __init__(self, root, rec, payload, fault):
    self.root, self.rec, self.payload, self.fault = root, rec, payload, fault
    self.net_touched = False
    self.read_sizes = []
    self.responses = 0      # requests.get calls made during this call of the function under test

  def response_fault(self, idx):
    """The fault that applies to the idx-th requests.get of this call."""
    f = self.fault
    if f and f[0] == 'once':
      return list(f[1:]) if idx == 0 else None
    return f

  def rel(self, path):
    r = self.root.rstrip('/')
    path = os.path.normpath(path)
    if path == r:
      return ''
    return path[len(r) + 1:] if path.startswith(r + '/') else '//' + path

  def decode(self, name, data):
    return len(data) if self.payload[:len(data)] == data else -1


class _OsPath:

  def __init__(self, env):
    self._env = env

  def __getattr__(self, n):
    return getattr(os.path, n)

  def exists(self, path):
    self._env.rec.effect(('ex', self._env.rel(path)))
    return os.path.exists(path)


class _Os:

  def __init__(self, env):
    self._env = env
    self.path = _OsPath(env)

  def __getattr__(self, n):
    return getattr(os, n)

  def makedirs(self, path, exist_ok=False):
    self._env.rec.effect(('mk', self._env.rel(path)))
    return os.makedirs(path, exist_ok=exist_ok)

  def rename(self, a, b):
    self._env.rec.effect(('rn', self._env.rel(a), self._env.rel(b)))
    return os.rename(a, b)

  def replace(self, a, b):
    self._env.rec.effect(('rn', self._env.rel(a), self._env.rel(b)))
    return os.replace(a, b)

  def remove(self, a):
    self._env.rec.effect(('rm', self._env.rel(a)))
    return os.remove(a)


class _Raw:

  def __init__(self, env, fault):
    self._env, self._pos, self._j, self._fault = env, 0, 0, fault

  def read(self, n=-1):
    env = self._env
    j = self._j
    self._j += 1
    env.rec.effect(('read', j))
    if self._fault == ['read', j]:
      raise _IOFault('connection reset (injected)')
    if self._fault and self._fault[:2] == ['kread', j]:
      raise _INTR[self._fault[2]]('interrupted in read %d (injected)' % j)
    if self._fault and self._fault[0] == 'readp' and j >= self._fault[1]:
      # PERSISTENT: every read from call j on fails, with the OSError family in rotation
      exc = (ConnectionResetError, TimeoutError, OSError)[(j - self._fault[1]) % 3]
      raise exc(f'read {j} failed (injected, persistent)')
    if n is None or n < 0:
      n = len(env.payload)
    b = env.payload[self._pos:self._pos + n]
    self._pos += len(b)
    env.read_sizes.append(len(b))
    return b


class _Response:

  def __init__(self, env, fault):
    self._env, self._fault = env, fault
    self.raw = _Raw(env, fault)
    self.headers = {} if fault == ['nolen'] else {'content-length': str(len(env.payload))}
    self.status_code = 503 if fault == ['status'] else 200

  def raise_for_status(self):
    self._env.rec.effect(('status',))
    if self._fault == ['status']:
      import requests
      raise requests.exceptions.HTTPError('503 (injected)')

  def iter_content(self, chunk_size=1):
    while True:
      b = self.raw.read(chunk_size)
      if not b:
        return
      yield b

  def close(self):
    pass

  def __enter__(self):
    return self

  def __exit__(self, *a):
    return False


class _Requests:

  def __init__(self, env, real):
    self._env, self._real = env, real

  def __getattr__(self, n):
    return getattr(self._real, n)

  def get(self, url, **kw):
    env = self._env
    env.net_touched = True
    env.rec.effect(('get',))
    fault = env.response_fault(env.responses)
    env.responses += 1
    if fault and fault[0] == 'kget':
      raise _INTR[fault[1]]('interrupted while connecting (injected)')
    if fault == ['get'] or fault == ['forbidden']:
      raise self._real.exceptions.ConnectionError('no route (injected)')
    return _Response(env, fault)


class _ZFile:

  def __init__(self, env, f):
    self._env, self._f, self._j = env, f, 0

  def read(self, n=-1):
    env = self._env
    j = self._j
    self._j += 1
    env.rec.effect(('zread', j))
    if env.fault == ['zerr', j]:
      raise real_lzma.LZMAError('corrupt input data (injected)')
    if env.fault and env.fault[:2] == ['kzerr', j]:
      raise _INTR[env.fault[2]]('interrupted in decompression read %d (injected)' % j)
    b = self._f.read(n)
    env.read_sizes.append(len(b))
    return b

  def close(self):
    self._f.close()

  def __enter__(self):
    return self

  def __exit__(self, *a):
    self._f.close()
    return False


class _Lzma:

  def __init__(self, env):
    self._env = env

  def __getattr__(self, n):
    return getattr(real_lzma, n)

  def open(self, path, mode='rb', **kw):
    env = self._env
    env.net_touched = True
    env.rec.effect(('zopen', env.rel(path)))
    if 'r' not in mode:
      raise AssertionError('lzma.open for writing')
    return _ZFile(env, real_lzma.open(path, mode, **kw))


_SAVED = {}


class _Patched:

  def __init__(self, env):
    self.env = env

  def __enter__(self):
    from fedjax.datasets import downloads as dl
    import requests
    if not _SAVED:
      _SAVED.update(os=dl.os, requests=dl.requests, lzma=dl.lzma, log=dl.log, has_open=hasattr(dl, 'open'),
                    dcd=dl.default_cache_dir)
    env = self.env

    def fake_open(path, mode='r', *a, **k):
      if 'w' in mode or 'a' in mode or '+' in mode or 'x' in mode:
        name = env.rel(path)
        if 'w' not in mode:
          env.rec.effect(('open?', name, mode))
        return crashfs.RecFile(env.rec, name, lambda: builtins.open(path, mode, *a, **k), env.decode)
      return builtins.open(path, mode, *a, **k)
    dl.open = fake_open
    dl.os = _Os(env)
    dl.requests = _Requests(env, requests)
    dl.lzma = _Lzma(env)
    dl.log = lambda *a, **k: None
    return env

  def __exit__(self, *a):
    from fedjax.datasets import downloads as dl
    dl.os, dl.requests, dl.lzma, dl.log = _SAVED['os'], _SAVED['requests'], _SAVED['lzma'], _SAVED['log']
    dl.default_cache_dir = _SAVED['dcd']
    if hasattr(dl, 'open'):
      del dl.open
    return False


def _file_state(root, name, payload):
  p = os.path.join(root, name)
  if not os.path.exists(p):
    return None
  with open(p, 'rb') as f:
    data = f.read()
  return ['w', len(data)] if payload[:len(data)] == data else ['g', len(data)]


def _attempt_core(case, root, fault, real_death=False):
  """One call of the function under test with the given fault; real_death: the crash kills this process."""
  from fedjax.datasets import downloads as dl
  payload, compressed = _data(case)
  kind = case['kind']
  crash = fault[1:] if fault and fault[0] == 'crash' else None
  rec = crashfs.Recorder(*(crash if crash else (None, 0, 0)),
                         close_error=fault[1] if fault and fault[0] == 'flusherr' else None)
  env = _Env(root, rec, payload, fault)
  if real_death:
    rec.on_death = lambda r: deathbox.die_now({'fault': fault, 'outcome': 'crash', 'trace': [list(e) for e in r.trace],
                                                'raw_writes': {str(k): v for k, v in r.raw_writes.items()},
                                                'net_touched': env.net_touched, 'read_sizes': env.read_sizes})
  final = _final(case)
  src_name = NAMES[case.get('name', 0)]
  if kind == 'decompress':
    src = os.path.join(root, src_name)
    data = compressed
    if fault and fault[0] == 'corrupt':
      data = compressed[:len(compressed) * fault[1] // fault[2]]
    with open(src, 'wb') as f:
      f.write(data)
  out = {'fault': fault}
  with _Patched(env):
    try:
      if kind == 'download':
        form = case.get('form', 0)
        URL = URL_BASE + src_name
        if form == 1:      # query string and fragment are not part of the file name; progress_ = range
          r = dl.maybe_download(URL + '?alt=media&x=a/b.c#frag/x.y', root, range)
        elif form == 2:    # cache_dir omitted: default_cache_dir(); progress_ a one-shot iterator factory, by keyword
          dl.default_cache_dir = lambda: root
          r = dl.maybe_download(url=URL, progress_=lambda n: iter(range(n)))
        elif form == 3:    # cache_dir with a trailing separator, keywords
          r = dl.maybe_download(URL, cache_dir=root + os.sep)
        else:
          r = dl.maybe_download(URL, root)
      else:
        r = dl.maybe_lzma_decompress(os.path.join(root, src_name))
      out['outcome'] = 'ret'
      out['ret_ok'] = (os.path.normpath(r) == os.path.join(root, final))
    except crashfs.SimCrash:
      out['outcome'] = 'crash'
    except (Exception, KeyboardInterrupt, SystemExit) as ex:  # pylint: disable=broad-except
      out['outcome'] = 'raise:' + type(ex).__name__
  out['trace'] = [list(e) for e in rec.trace]
  out['raw_writes'] = {str(k): v for k, v in rec.raw_writes.items()}
  out['net_touched'] = env.net_touched
  out['read_sizes'] = env.read_sizes
  return out


def _attempt_child(case, root, fault):
  return _attempt_core(case, root, fault, real_death=True)


REAL_DEATH = os.environ.get('VERIF_NO_FORK') != '1'


def _killed(fn, args):
  """Runs harness function fn(*args) in a forked child that really dies at the crash effect."""
  r = deathbox.box(1).call('harness.c19', fn, args)
  if r['error'] or (r['result'] is None and r['death'] is None):
    raise RuntimeError('deathbox child failed: %s' % (r['error'] or r['exit']))
  if r['death'] is not None and r['exit'] != deathbox.DEATH_EXIT:
    raise RuntimeError('deathbox child: unexpected exit code %s' % r['exit'])
  return r['result'] if r['result'] is not None else r['death']


def _attempt(case, root, fault, compressed=None):
  """One call with the given fault.  A crash is a REAL process death: the call runs in a forked child that
  os._exit()s at the chosen effect, so no cleanup code of the implementation can run after it."""
  payload, _ = _data(case)
  final = _final(case)
  src_name = NAMES[case.get('name', 0)]
  if fault and fault[0] == 'crash' and REAL_DEATH:
    out = _killed('_attempt_child', [case, root, fault])
  else:
    out = _attempt_core(case, root, fault)
  out['final'] = _file_state(root, final, payload)
  out['partial'] = _file_state(root, final + '.partial', payload)
  out['others'] = [n for n in crashfs.listing(root) if n not in (final, final + '.partial', src_name)]
  return out


def _run_attempts(case, faults):
  import fedjax.datasets.downloads  # noqa: F401  pylint: disable=unused-import
  _, compressed = _data(case)
  base = tempfile.mkdtemp(prefix='C19-')
  outs = []
  try:
    root = os.path.join(base, 'cache')
    if case['kind'] == 'decompress' or case.get('stale'):
      os.makedirs(root)
    if case.get('stale'):     # a stale temporary, longer than the payload and not a prefix of it
      with open(os.path.join(root, _final(case) + '.partial'), 'wb') as f:
        f.write(b'\xff' * (case['size'] + case['stale']))
    for f in faults:
      outs.append(_attempt(case, root, f, compressed))
  finally:
    shutil.rmtree(base, ignore_errors=True)
  return outs



# --------------------------------------------------------------------------
# cifar100.load_split's own cache file federated_cifar100_<split>.sqlite (converted from the
# decompressed TFF database).  Download / validation of the TFF file / decompression are stubbed
# (153 MB, pinned digests); the conversion runs for real on a 3-client fake TFF iterator:
# SQLiteFederatedDataBuilder writes a real SQLite file.  Faults: ['cerr', j] the iterator raises
# at client j | ['short'] it silently yields one client too few (only validate_file can notice)
# | ['crash', k, 0, 0] | None | ['forbidden'] (the converter must not be touched).

SPLIT_TOTAL = 3


def _split_ids(n=SPLIT_TOTAL):
  return [b'c%d' % i for i in range(n)]


def _db_state(path):
  """None | ['w', n] the table holds exactly the first n expected clients | ['g', -1] anything else"""
  import sqlite3
  if not os.path.exists(path):
    return None
  try:
    con = sqlite3.connect('file:' + path + '?mode=ro', uri=True)
    try:
      ids = [r[0] for r in con.execute('SELECT client_id FROM federated_data ORDER BY rowid')]
    finally:
      con.close()
  except Exception:  # pylint: disable=broad-except
    return ['g', -1]
  return ['w', len(ids)] if ids == _split_ids(len(ids)) and len(ids) <= SPLIT_TOTAL else ['g', -1]


def _split_core(case, root, fault, real_death=False):
  import numpy as np
  from fedjax.datasets import cifar100
  from fedjax.datasets import downloads as dl
  from fedjax.core import sqlite_federated_data as sfd
  split = case['split']
  crash = fault[1:] if fault and fault[0] == 'crash' else None
  rec = crashfs.Recorder(*(crash if crash else (None, 0, 0)))
  env = _Env(root, rec, b'', fault)
  if real_death:
    rec.on_death = lambda r: deathbox.die_now({'fault': fault, 'outcome': 'crash', 'trace': [list(e) for e in r.trace],
                                                'raw_writes': {}, 'net_touched': env.net_touched, 'read_sizes': []})
  final = f'federated_cifar100_{split}.sqlite'
  saved = (dl.maybe_download, dl.maybe_lzma_decompress, dl.validate_file, dl.log, sfd.TFFSQLiteClientsIterator,
           sfd.SQLiteFederatedDataBuilder, cifar100.os)
  real_builder = sfd.SQLiteFederatedDataBuilder
  total = SPLIT_TOTAL - 1 if fault == ['short'] else SPLIT_TOTAL

  class Clients:

    def __init__(self, *a):
      self.i = 0
      env.net_touched = True

    def __iter__(self):
      return self

    def __next__(self):
      j = self.i
      rec.effect(('client', j))
      if fault == ['cerr', j]:
        raise IOError('interrupted while converting (injected)')
      if fault and fault[:2] == ['kcerr', j]:
        raise _INTR[fault[2]]('interrupted while converting (injected)')
      if j >= total:
        raise StopIteration
      self.i += 1

      class C:

        def all_examples(self):
          return {'image': np.zeros((2, 32, 32, 3), np.uint8), 'label': np.zeros(2, np.int64),
                  'coarse_label': np.zeros(2, np.int64)}
      return (b'c%d' % j, C())

  class Builder(real_builder):

    def __init__(self, path):
      env.net_touched = True
      self._name = env.rel(path)
      self._path = path
      rec.effect(('cr', self._name))
      super().__init__(path)

    def __exit__(self, *a):
      if rec.dead:                       # the process is gone: the connection dies uncommitted
        self._connection.close()
        return False
      try:
        rec.effect(('cl', self._name, None))
      except crashfs.SimCrash:
        self._connection.close()
        raise
      r = super().__exit__(*a)             # the real close: uncommitted rows are rolled back
      st = _db_state(self._path)
      rec.trace[-1] = ('cl', self._name, st[1] if st else -1)
      return r

  def validate(path, nbytes, digest):
    if path.endswith('.lzma'):
      return
    rec.effect(('validate', env.rel(path)))
    st = _db_state(path)
    if st != ['w', SPLIT_TOTAL]:
      raise ValueError(f'Expected file content hash ... but found {st}')

  out = {'fault': fault}
  try:
    dl.maybe_download = lambda url, cache_dir=None, **k: os.path.join(cache_dir, 'cifar100.sqlite.lzma')
    dl.maybe_lzma_decompress = lambda p: p[:-5]
    dl.validate_file = validate
    dl.log = lambda *a, **k: None
    sfd.TFFSQLiteClientsIterator = Clients
    sfd.SQLiteFederatedDataBuilder = Builder
    cifar100.os = _Os(env)
    try:
      fd = cifar100.load_split(split, cache_dir=root)
      out['outcome'] = 'ret'
      out['ret_ok'] = int(fd.num_clients()) == SPLIT_TOTAL
    except crashfs.SimCrash:
      out['outcome'] = 'crash'
    except (Exception, KeyboardInterrupt, SystemExit) as ex:  # pylint: disable=broad-except
      out['outcome'] = 'raise:' + type(ex).__name__
  finally:
    (dl.maybe_download, dl.maybe_lzma_decompress, dl.validate_file, dl.log, sfd.TFFSQLiteClientsIterator,
     sfd.SQLiteFederatedDataBuilder, cifar100.os) = saved
  out['trace'] = [list(e) for e in rec.trace]
  out['raw_writes'] = {}
  out['net_touched'] = env.net_touched
  out['read_sizes'] = []
  return out


def _split_child(case, root, fault):
  return _split_core(case, root, fault, real_death=True)


def _split_attempt(case, root, fault):
  final = f'federated_cifar100_{case["split"]}.sqlite'
  if fault and fault[0] == 'crash' and REAL_DEATH:
    out = _killed('_split_child', [case, root, fault])
  else:
    out = _split_core(case, root, fault)
  out['final'] = _db_state(os.path.join(root, final))
  out['partial'] = _db_state(os.path.join(root, final + '.partial'))
  out['others'] = [n for n in crashfs.listing(root) if n not in (final, final + '.partial', 'cifar100.sqlite.lzma',
                                                                  'cifar100.sqlite')]
  return out


def _split_faults(case):
  if 'attempts' in case:
    return [list(f) for f in case['attempts']]
  return [['cerr', case['stop_after']]]      # the original corpus case


def _run_cifar(case, faults=None):
  import fedjax.datasets.cifar100  # noqa: F401  pylint: disable=unused-import
  base = tempfile.mkdtemp(prefix='C19-cifar-')
  outs = []
  try:
    open(os.path.join(base, 'cifar100.sqlite.lzma'), 'wb').close()
    open(os.path.join(base, 'cifar100.sqlite'), 'wb').close()
    if case.get('stale'):
      with open(os.path.join(base, f'federated_cifar100_{case["split"]}.sqlite.partial'), 'wb') as f:
        f.write(b'not a database ' * case['stale'])
    for f in (faults if faults is not None else _split_faults(case) + [None, ['forbidden']]):
      outs.append(_split_attempt(case, base, f))
  finally:
    shutil.rmtree(base, ignore_errors=True)
  return {'attempts': outs, 'size': SPLIT_TOTAL}


# --------------------------------------------------------------------------
# validate_file (the "size + sha256 validation" mechanism) and argument errors, judged by the oracle alone

def _run_validate(case):
  import hashlib
  from fedjax.datasets import downloads as dl
  data = _payload(case['size'])
  base = tempfile.mkdtemp(prefix='C19-val-')
  try:
    p = os.path.join(base, 'f')
    with open(p, 'wb') as f:
      f.write(data)
    nbytes = len(data) + case['dsize']
    other = data[:-1] + bytes([data[-1] ^ 1]) if case['flip'] and data else data
    digest = hashlib.sha256(other).hexdigest()
    if case['flip'] and not data:
      digest = hashlib.sha256(b'x').hexdigest()
    if case['upper']:
      digest = digest.upper()
    try:
      r = dl.validate_file(p, nbytes, digest)
      out = 'ret:' + repr(r)
    except ValueError:
      out = 'ValueError'
    except Exception as ex:  # pylint: disable=broad-except
      out = 'raise:' + type(ex).__name__
    with open(p, 'rb') as f:
      unchanged = f.read() == data
  finally:
    shutil.rmtree(base, ignore_errors=True)
  return {'validate': out, 'unchanged': unchanged}


def _run_misc(case):
  """Calls that must raise ValueError and leave the cache directory untouched."""
  from fedjax.datasets import cifar100
  from fedjax.datasets import downloads as dl
  base = tempfile.mkdtemp(prefix='C19-misc-')
  try:
    before = crashfs.listing(base)
    try:
      if case['what'] == 'not-lzma':
        p = os.path.join(base, case['name'])
        with open(p, 'wb') as f:
          f.write(b'abc')
        before = crashfs.listing(base)
        dl.maybe_lzma_decompress(p)
      elif case['what'] == 'bad-split':
        cifar100.load_split(case['name'], cache_dir=base)
      else:
        cifar100.load_split('train', mode=case['name'], cache_dir=base)
      out = 'ret'
    except ValueError:
      out = 'ValueError'
    except Exception as ex:  # pylint: disable=broad-except
      out = 'raise:' + type(ex).__name__
    after = crashfs.listing(base)
  finally:
    shutil.rmtree(base, ignore_errors=True)
  return {'misc': out, 'untouched': before == after}


def _oracle_extra(case, obs):
  if case['kind'] == 'validate':
    bad = case['dsize'] != 0 or case['flip'] or case['upper']     # hexdigest() is lower case
    want = 'ValueError' if bad else 'ret:None'
    out = []
    if obs['validate'] != want:
      out.append(('validate-file-verdict', f'validate_file on {case} gave {obs["validate"]}, expected {want}'))
    if not obs['unchanged']:
      out.append(('validate-file-modifies', 'validate_file changed the file'))
    return out
  out = []
  if obs['misc'] != 'ValueError' or not obs['untouched']:
    out.append(('argument-error', f'{case}: outcome {obs["misc"]}, cache untouched: {obs["untouched"]}'))
  return out


def _extra_cases():
  for size in (0, 1, 1000):
    for dsize in (0, 1, -1):
      for flip in (0, 1):
        for upper in (0, 1):
          if size == 0 and dsize < 0:
            continue
          yield {'kind': 'validate', 'size': size, 'dsize': dsize, 'flip': flip, 'upper': upper}
  for name in ('data.sqlite', 'data.lzma.txt', 'lzma', 'data.LZMA', 'data', '.lzma', 'data.lzma.partial'):
    yield {'kind': 'misc', 'what': 'not-lzma', 'name': name}
  for name in ('', 'Train', 'valid'):
    yield {'kind': 'misc', 'what': 'bad-split', 'name': name}
  yield {'kind': 'misc', 'what': 'bad-mode', 'name': 'tff'}


# --------------------------------------------------------------------------
# two URLs whose cached names collide with the temporary-name scheme (<name> and <name>.partial in one cache).
# NOT generated: URL names are not in the property's quantifier; replayable, see known_findings_proposed/C19.json.

def _run_collide(case):
  from fedjax.datasets import downloads as dl
  import requests
  pay = {'x': _payload(case['size']), 'x.partial': b'B' * 10}
  state = {'fail': None}
  saved = (dl.requests, dl.log)

  class Raw:

    def __init__(self, data):
      self.d, self.p, self.j = data, 0, 0

    def read(self, n):
      if self.j == state['fail']:
        raise IOError('reset (injected)')
      self.j += 1
      b = self.d[self.p:self.p + n]
      self.p += len(b)
      return b

  class Resp:

    def __init__(self, data):
      self.raw, self.headers = Raw(data), {'content-length': str(len(data))}

    def raise_for_status(self):
      pass

  class Req:
    exceptions = requests.exceptions

    @staticmethod
    def get(url, **kw):
      return Resp(pay[os.path.basename(url)])

  base = tempfile.mkdtemp(prefix='C19-collide-')
  try:
    dl.requests, dl.log = Req, (lambda *a, **k: None)
    p2 = dl.maybe_download(URL_BASE + 'x.partial', base)
    state['fail'] = case['fail_at']
    try:
      dl.maybe_download(URL_BASE + 'x', base)
      first = 'ret'
    except IOError:
      first = 'raise'
    ok = os.path.exists(p2) and open(p2, 'rb').read() == pay['x.partial']
    absent = not os.path.exists(p2)
  finally:
    dl.requests, dl.log = saved
    shutil.rmtree(base, ignore_errors=True)
  return {'collide': first, 'other_complete': ok, 'other_absent': absent}


# --------------------------------------------------------------------------
# the loader sequence ACROSS both functions: download, decompress, download again, decompress again (what
# cifar100.load_split does on every call).  The second round must not touch the network or the decompressor and every
# cache file that was complete must still be there with the same bytes.  Judged by the oracle alone.

def _run_loader(case):
  from fedjax.datasets import downloads as dl
  payload = _payload(case['size'], case.get('fill', 0))
  compressed = real_lzma.compress(payload, preset=0)
  base = tempfile.mkdtemp(prefix='C19-loader-')
  steps = []
  try:
    root = os.path.join(base, 'cache')
    known = {}      # cache file -> bytes it had when it was first complete
    for rnd in range(case.get('rounds', 2)):
      for fn in ('download', 'decompress'):
        rec = crashfs.Recorder()
        env = _Env(root, rec, compressed if fn == 'download' else payload, None)
        st = {'fn': fn, 'round': rnd}
        with _Patched(env):
          try:
            if fn == 'download':
              r = dl.maybe_download(URL_BASE + 'data.lzma', root)
              want = os.path.join(root, 'data.lzma')
            else:
              r = dl.maybe_lzma_decompress(os.path.join(root, 'data.lzma'))
              want = os.path.join(root, 'data')
            st['outcome'] = 'ret' if os.path.normpath(r) == want else 'ret-wrong-path'
          except Exception as ex:  # pylint: disable=broad-except
            st['outcome'] = 'raise:' + type(ex).__name__
        st['requests'] = env.responses
        st['touched'] = bool(env.net_touched)
        lost = []
        for name, data in known.items():
          p = os.path.join(root, name)
          if not os.path.exists(p):
            lost.append([name, 'missing'])
          else:
            with open(p, 'rb') as f:
              if f.read() != data:
                lost.append([name, 'changed'])
        st['lost'] = lost
        for name, data in (('data.lzma', compressed), ('data', payload)):
          p = os.path.join(root, name)
          if name not in known and os.path.exists(p):
            with open(p, 'rb') as f:
              if f.read() == data:
                known[name] = data
        st['files'] = crashfs.listing(root)
        steps.append(st)
  finally:
    shutil.rmtree(base, ignore_errors=True)
  return {'loader': steps}


def _oracle_loader(case, obs):
  out = []
  for st in obs['loader']:
    if st['outcome'] != 'ret':
      out.append(('loader-call-fails', f'{st["fn"]} of round {st["round"]}: {st["outcome"]}'))
      break
    if st['lost']:
      out.append(('loader-cache-file-lost', f'after {st["fn"]} of round {st["round"]} a cache file that had been '
                  f'complete is {st["lost"]}'))
      break
    if st['round'] >= 1 and (st['requests'] or st['touched']):
      out.append(('loader-refetches', f'{st["fn"]} of round {st["round"]}: every cache file had been complete, yet the '
                  f'{"network was contacted " + str(st["requests"]) + " time(s)" if st["requests"] else "decompressor ran again"}'))
      break
  if not out and obs['loader'] and obs['loader'][0]['requests'] != 1:
    out.append(('loader-request-count', f'the first download made {obs["loader"][0]["requests"]} requests, expected 1'))
  return out


def run(case):
  if case['kind'] == 'loader':
    return _run_loader(case)
  if case['kind'] == 'collide':
    return _run_collide(case)
  if case['kind'] == 'validate':
    return _run_validate(case)
  if case['kind'] == 'misc':
    return _run_misc(case)
  if case['kind'] == 'cifar_split':
    return _run_cifar(case)
  faults = [list(f) for f in case['attempts']] + [None, ['forbidden']]
  return {'attempts': _run_attempts(case, faults), 'size': case['size']}


# --------------------------------------------------------------------------

def oracle(case, obs):
  if case['kind'] == 'loader':
    return _oracle_loader(case, obs)
  if case['kind'] == 'collide':
    if not (obs['other_complete'] or obs['other_absent']):
      return [('partial-name-collision', 'downloading <name> wrote through the complete cached file of another URL '
               'whose base name is <name>.partial: that final path now holds a prefix of the wrong payload')]
    return []
  if case['kind'] in ('validate', 'misc'):
    return _oracle_extra(case, obs)
  out = []
  n = obs['size']
  kind = 'split' if case['kind'] == 'cifar_split' else case['kind']
  unit = 'clients' if kind == 'split' else 'bytes'
  att = obs['attempts']
  for i, a in enumerate(att):
    if a['final'] is not None and a['final'] != ['w', n]:
      # byte comparison with the payload: 'w' = a strict prefix of it, 'g' = not even a prefix
      key = f'{kind}-final-truncated' if a['final'][0] == 'w' else f'{kind}-final-corrupt'
      out.append((key, f'attempt {i} ({a["fault"]}, outcome {a["outcome"]}): the final cache path exists with '
                  f'{a["final"][1]} {unit} ({"a strict prefix of" if a["final"][0] == "w" else "NOT a prefix of"} '
                  f'the {n} {unit} of the complete content)'))
      break
  if kind == 'download':
    # exact integer arithmetic: a call that fetches the file reads ceil(n / B) blocks, no more and no fewer
    for i, a in enumerate(att):
      if a['outcome'] == 'ret' and a['net_touched']:
        reads = sum(1 for e in a['trace'] if e[0] == 'read')
        if reads != -(-n // BS):
          out.append(('download-read-count', f'attempt {i}: {reads} raw.read calls for a {n}-byte payload, '
                      f'ceil(n / {BS}) = {-(-n // BS)}'))
          break
  for i, a in enumerate(att):
    if a['outcome'] == 'ret' and not a.get('ret_ok'):
      out.append((f'{kind}-returned-path', f'attempt {i}: the call returned something else than the final cache path'))
      break
  ok = att[-2]
  if not (ok['outcome'] == 'ret' and ok.get('ret_ok') and ok['final'] == ['w', n]):
    out.append((f'{kind}-retry-does-not-repair',
                f'after {case.get("attempts", case.get("stop_after"))} a fault-free call gave outcome {ok["outcome"]}, final file {ok["final"]}'))
  re = att[-1]
  if not (re['outcome'] == 'ret' and re.get('ret_ok') and re['final'] == ['w', n] and not re['net_touched']):
    out.append((f'{kind}-cache-not-reused',
                f'with a complete cached file the call gave {re["outcome"]}, touched the '
                f'{dict(download="network", decompress="decompressor", split="converter")[kind]}: {re["net_touched"]}'))
  return out


# --------------------------------------------------------------------------

def _oev(e, final, src_name):
  part = final + '.partial'
  k = e[0]
  if k == 'mk':
    return 'OMk' if e[1] == '' else 'OBad'
  if k == 'ex':
    return 'OEx true' if e[1] == final else 'OEx false' if e[1] == part else 'OBad'
  if k == 'rm':
    return 'ORm' if e[1] == part else 'OBad'
  if k == 'client':
    return f'OClient {e[1]}%nat'
  if k == 'validate':
    return 'OValidate' if e[1] == part else 'OBad'
  if k == 'cr':
    return 'OCr true' if e[1] == part else 'OBad'
  if k == 'wr':
    return 'OWr' if e[1] == part else 'OBad'
  if k == 'cl':
    return f'OCl {fw.zlit(e[2])}' if e[1] == part and e[2] >= 0 else 'OBad'
  if k == 'clerr':
    return 'OClErr' if e[1] == part else 'OBad'
  if k == 'rn':
    return 'ORn' if (e[1], e[2]) == (part, final) else 'OBad'
  if k == 'get':
    return 'OGet'
  if k == 'status':
    return 'OStatus'
  if k == 'read':
    return f'ORead {e[1]}%nat'
  if k == 'zopen':
    return 'OZOpen' if e[1] == src_name else 'OBad'
  if k == 'zread':
    return f'OZRead {e[1]}%nat'
  return 'OBad'


def _ofile(s):
  if s is None:
    return 'None'
  return f'(Some (OWhole {s[1]}))' if s[0] == 'w' else '(Some OGarbage)'


def _optlist(xs):
  return '[' + '; '.join('None' if x is None else f'Some {fw.zlit(x)}' for x in xs) + ']'


def _encode_split(case, obs):
  final = f'federated_cifar100_{case["split"]}.sqlite'
  calls, ocalls = [], []
  for a in obs['attempts']:
    f = a['fault']
    clients = [1] * SPLIT_TOTAL
    if f and f[0] in ('cerr', 'kcerr'):
      clients = clients[:f[1]] + [None]
    elif f == ['short']:
      clients = clients[:-1]
    crash = f'(Some {f[1]}%nat)' if f and f[0] == 'crash' else 'None'
    calls.append(f'(KConvert {_optlist(clients)} {fw.zlist([1] * SPLIT_TOTAL)}, {crash})')
    code = {'ret': 0, 'crash': 2}.get(a['outcome'], 1)
    ocalls.append(f'(mkOCall {fw.clist([_oev(e, final, '') for e in a["trace"]])} {code} {_ofile(a["final"])} '
                  f'{_ofile(a["partial"])})')
  return f'(mkC19 {fw.clist(calls)} {fw.cbool(bool(case.get("stale")))}, mkO19 {fw.clist(ocalls)})'


def encode(case, obs):
  if case['kind'] in ('validate', 'misc', 'collide', 'loader'):
    return None
  if case['kind'] == 'cifar_split':
    return _encode_split(case, obs)
  att = obs['attempts']
  kind = case['kind']
  good = att[-2]
  if good['outcome'] != 'ret':
    return None
  sizes = [s for s in good['read_sizes'] if s > 0]   # what an honest source delivers, block by block
  if att[-2]['trace'] == att[-1]['trace']:
    # the fault-free attempt found a complete file (an earlier call returned): take the sizes from that call
    for a in att[:-2]:
      if a['outcome'] == 'ret' and a['read_sizes']:
        sizes = [s for s in a['read_sizes'] if s > 0]
  if sum(sizes) != case['size']:
    return None
  calls, ocalls = [], []
  for a in att:
    f = a['fault']
    if f and f[0] in ('kget', 'kread', 'kzerr'):
      # an interruption that is not an Exception: on code whose only handlers are `with` blocks it is the same
      # effect sequence as an I/O error at that point
      f = ['get'] if f[0] == 'kget' else [f[0][1:], f[1]]
    if f and f[0] == 'once':
      f = list(f[1:])       # on the code as the model describes it (no retry inside a call) a transient fault
                            # is the same as a persistent one
    closes = fw.cbool(not (f and f[0] == 'flusherr'))
    crash = 'None'
    if kind == 'download':
      g, s, ln, rd = True, True, f'(Some {case["size"]})', list(sizes)
      if f == ['get'] or f == ['forbidden']:
        g = False
      elif f == ['status']:
        s = False
      elif f == ['nolen']:
        ln = 'None'
      elif f and f[0] in ('read', 'readp'):   # on code without a retry the first failing read ends the call
        rd = rd[:f[1]] + [None] if f[1] <= len(rd) else rd + [0] * (f[1] - len(rd)) + [None]
      c = f'KDownload {fw.cbool(g)} {fw.cbool(s)} {ln} {_optlist(rd)} {closes}'
    else:
      rd = list(sizes)
      opened = True
      if f and f[0] == 'zerr':
        rd = rd[:f[1]] + [None] if f[1] <= len(rd) else rd
      elif f and f[0] == 'corrupt':
        # the real decoder decides where the cut stream fails: take the index from the observation
        nread = sum(1 for e in a['trace'] if e[0] == 'zread')
        rd = rd[:max(nread - 1, 0)] + [None]
      c = f'KDecompress {fw.cbool(opened)} {_optlist(rd)} {closes}'
    if f and f[0] == 'crash':
      crash = f'(Some {f[1]}%nat)'
    calls.append(f'({c}, {crash})')
    code = {'ret': 0, 'crash': 2}.get(a['outcome'], 1)
    ocalls.append(f'(mkOCall {fw.clist([_oev(e, _final(case), NAMES[case.get("name", 0)]) for e in a["trace"]])} {code} {_ofile(a["final"])} '
                  f'{_ofile(a["partial"])})')
  return f'(mkC19 {fw.clist(calls)} {fw.cbool(bool(case.get("stale")))}, mkO19 {fw.clist(ocalls)})'


# --------------------------------------------------------------------------

def _crash_points(trace, raw_writes, full, rot):
  """Every effect index 0..len; while a written file is open (its bytes may still be unflushed) every
  prefix class of the unflushed bytes (full) or `none` + a rotating second class."""
  pts = []
  nopen = 0
  for k, e in enumerate(trace + [('end',)]):
    if nopen > 0 or e[0] == 'wr':
      classes = range(3) if full else sorted({0, 1 + (rot + k) % 2})
    else:
      classes = [0]
    pts += [['crash', k, 0, c] for c in classes]
    if e[0] == 'cr':
      nopen += 1
    elif e[0] in ('cl', 'clerr'):
      nopen -= 1
  return pts


def _probe(case, faults):
  outs = _run_attempts(case, [list(f) for f in faults] + [None])
  return outs[-1]['trace'], outs[-1]['raw_writes']


def _single_faults(case, full, rot):
  kind = case['kind']
  tr, rw = _probe(case, [])
  nreads = sum(1 for e in tr if e[0] in ('read', 'zread'))
  fs = []
  if kind == 'download':
    inner = [['get'], ['status'], ['nolen']] + [['read', j] for j in range(nreads)]
    fs += inner + [['once'] + f for f in inner] + [['readp', j] for j in range(nreads)]
    fs += [['kget', rot % 2], ['kget', 1 - rot % 2]] + [['kread', j, (j + rot) % 2] for j in range(nreads)]
    fs += [['kread', j, (j + rot + 1) % 2] for j in range(nreads)] if full else []
  else:
    fs += [['zerr', j] for j in range(nreads)] + [['corrupt', 1, 2], ['corrupt', 9, 10]]
    fs += [['kzerr', j, (j + rot) % 2] for j in range(nreads)] + ([['kzerr', j, (j + rot + 1) % 2] for j in range(nreads)] if full else [])
  fs += [['flusherr', c] for c in range(3)]
  pts = _crash_points(tr, rw, full, rot)
  return fs + pts


def generate(tier, rng):
  import shutil as _sh
  cb = getattr(_sh, 'COPY_BUFSIZE', 64 * 1024)
  full = tier != 'quick'
  sizes = {'download': [0, 1, BS - 1, BS, BS + 1, 2 * BS - 1, 2 * BS, 2 * BS + 1, 3 * BS + 5],
           'decompress': [0, 1, cb - 1, cb, cb + 1, 2 * cb, 3 * cb + 7]}
  if full:
    sizes['download'] += [2, BS // 2, 3 * BS - 1, 3 * BS, 4 * BS, 4 * BS + 1] + [rng.randrange(2, 5 * BS) for _ in range(4)]
    sizes['decompress'] += [2, cb // 2, 2 * cb - 1, 2 * cb + 1, 4 * cb, 5 * cb + 1] + [rng.randrange(2, 8 * cb) for _ in range(4)]
  if tier == 'search':
    for i in range(300):
      kind = rng.choice(['download', 'decompress'])
      b = BS if kind == 'download' else cb
      case = {'kind': kind, 'size': rng.choice([0, 1, b - 1, b, b + 1, 2 * b + rng.randrange(-2, 3), rng.randrange(0, 4 * b)]),
              'attempts': []}
      hist = []
      for _ in range(rng.randrange(1, 5)):
        hist.append(rng.choice(_single_faults(case, True, i)))
        yield {**case, 'attempts': list(hist)}
    return
  yield from _extra_cases()
  for j, n in enumerate([0, 1, 1000, cb - 1, cb, cb + 1, 3 * cb + 7, BS + 1]):
    for fill in range(3):
      yield {'kind': 'loader', 'size': n, 'fill': fill, 'rounds': 2 + (j + fill) % 2}
  for split in ('train', 'test'):
    case = {'kind': 'cifar_split', 'split': split, 'attempts': []}
    yield case
    yield {**case, 'stale': 3}
    yield {**case, 'stale': 3, 'attempts': [['cerr', 1]]}
    tr = _run_cifar(case, [None])['attempts'][-1]['trace']
    singles = [['cerr', j] for j in range(SPLIT_TOTAL + 1)] + [['short']] + [['crash', k, 0, 0] for k in range(len(tr) + 1)]
    singles += [['kcerr', j, j % 2] for j in range(SPLIT_TOTAL + 1)]
    for f in singles:
      yield {**case, 'attempts': [f]}
    for f in singles:                         # twice: the retry finds the stale .partial of the first
      yield {**case, 'attempts': [f, f]}
    for _ in range(30 if full else 8):
      yield {**case, 'attempts': [rng.choice(singles) for _ in range(rng.randrange(2, 5))]}
  # every size k*B + d, k = 0..4, d = -2..2: block count / chunk count against exact arithmetic, uninterrupted
  for kind, b in (('download', BS), ('decompress', cb)):
    for k in range(0, 5 if full else 4):
      for d in range(-2, 3):
        if k * b + d >= 0:
          yield {'kind': kind, 'size': k * b + d, 'attempts': [], 'fill': (k + d) % 3}
  for kind in ('download', 'decompress'):
    for i, n in enumerate(sizes[kind]):
      case = {'kind': kind, 'size': n, 'attempts': [], 'form': i % 4, 'name': i % len(NAMES), 'fill': i % 3}
      yield case
      for fill in range(3):                                 # fast paths by size of the COMPRESSED file / of the payload
        if fill != case['fill']:
          yield {**case, 'fill': fill}
          yield {**case, 'fill': fill, 'attempts': [['crash', 4 + (i + fill) % 4, 0, (i + fill) % 3]]}
      yield {**case, 'stale': 1 + i}                       # a stale .partial longer than the payload
      singles = _single_faults(case, full, i)
      yield {**case, 'stale': 1 + i, 'attempts': [singles[i % len(singles)]]}
      for f in singles:
        yield {**case, 'attempts': [f]}
      # repeated interruptions, then success
      nseq = 40 if full else 5
      for _ in range(nseq):
        depth = rng.randrange(2, 5 if full else 4)
        yield {**case, 'attempts': [rng.choice(singles) for _ in range(depth)]}
      # the same interruption twice (stale .partial of the same length)
      for f in rng.sample(singles, min(len(singles), 6 if full else 3)):
        yield {**case, 'attempts': [f, f]}


def nontrivial(case, obs):
  if case['kind'] in ('validate', 'misc', 'collide', 'loader'):
    return True
  return any(a['outcome'] != 'ret' for a in obs['attempts'])


def describe(case, obs):
  if case['kind'] in ('validate', 'misc', 'collide', 'loader'):
    return {'kind': case['kind']}
  if case['kind'] == 'cifar_split':
    fs = _split_faults(case)
    return {'kind': 'cifar_split', 'interruptions': len(fs), 'faults': '+'.join(sorted({f[0] for f in fs})) or '-',
            'outcomes': '+'.join(sorted({a['outcome'].split(':')[0] for a in obs['attempts']}))}
  b = BS if case['kind'] == 'download' else 64 * 1024
  n = case['size']
  cls = 'empty' if n == 0 else 'lt-block' if n < b else 'eq-block' if n == b else 'multiple' if n % b == 0 else 'several'
  served = [sum(x for x in a['read_sizes'] if x > 0) for a in obs['attempts'] if a['outcome'] == 'ret' and a['read_sizes']]
  honest = all(x == n for x in served)     # the fake source / the real LZMA decoder delivered exactly the payload
  return {'hyp_honest_source(blocks served = payload)': 'holds' if honest else 'VIOLATED (case not sent to Coq)',
          'name': case.get('name', 0), 'form': case.get('form', 0), 'stale': 1 if case.get('stale') else 0,
          'kind': case['kind'], 'size_class': cls, 'interruptions': len(case['attempts']),
          'faults': '+'.join(sorted({f[0] for f in case['attempts']})) or '-',
          'outcomes': '+'.join(sorted({a['outcome'].split(':')[0] for a in obs['attempts']}))}


def shrink(case):
  if case['kind'] in ('validate', 'misc', 'collide', 'loader'):
    return
  if case['kind'] == 'cifar_split':
    fs = _split_faults(case)
    for j in range(len(fs)) if len(fs) > 1 else []:
      yield {'kind': 'cifar_split', 'split': case['split'], 'attempts': fs[:j] + fs[j + 1:]}
    return
  if len(case['attempts']) > 1:
    for j in range(len(case['attempts'])):
      yield {**case, 'attempts': case['attempts'][:j] + case['attempts'][j + 1:]}
  b = BS if case['kind'] == 'download' else 64 * 1024
  for n in (0, 1, b, b + 1):
    if n < case['size']:
      yield {**case, 'size': n}
