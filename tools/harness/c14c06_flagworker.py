"""Runs a slice of a harness's own cases (implementation + oracle) in a fresh process under non-default global JAX
configuration flags given through the environment (WAVE4 item 6); prints the oracle violations as JSON."""
import importlib
import json
import random
import sys

if __name__ == '__main__':
  name, tier, seed, limit = sys.argv[1], sys.argv[2], int(sys.argv[3]), int(sys.argv[4])
  sys.path.insert(0, __file__.rsplit('/harness/', 1)[0])
  mod = importlib.import_module('harness.' + name)
  out, n = [], 0
  for case in mod.generate(tier, random.Random(seed)):
    if case.get('kind') == 'flags' or n >= limit:
      continue
    if n % 1 == 0:
      pass
    n += 1
    case = json.loads(json.dumps(case))
    try:
      obs = json.loads(json.dumps(mod.run(case)))
      for key, what in mod.oracle(case, obs):
        out.append([key, what[:300], case])
    except Exception as e:   # pylint: disable=broad-except
      out.append(['flag-exception', f'{type(e).__name__}: {str(e)[:200]}', case])
    if len(out) > 20:
      break
  print('FLAGWORKER ' + json.dumps({'ran': n, 'violations': out}))
