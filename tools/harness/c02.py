"""C02 harness: fedjax.for_each_client under the jit, debug and pmap backends against
the sequential per-client fold, the validity of the caller's buffers, and the
thread-scoped backend choice.

The implementation runs in worker processes (tools/harness/c02_worker.py), one per
host-device count k (XLA_FLAGS=--xla_force_host_platform_device_count=k has to be set
before jax is imported).  Cases are prefetched: `generate` records the plan, the
first `run` starts the workers (at most 4 at a time), `run(case)` waits for that
case's observation.

Client-program DSL (JSON), interpreted three times independently:
  * c02_worker.build_program   -> jax.numpy functions given to fedjax (implementation)
  * `_ref_client` below        -> numpy float64 / int64, per client (the ORACLE: the
                                  property's own definition final(shared, fold(step, init)))
  * Model/C02_Model.v d_init/d_step/d_final -> NanQ, evaluated inside Coq (the MODEL)

  prog   = {leaves: [leaf...], res: {ru, rv, rw, rinv, rleaf}}
  leaf   = {int, shape, init(0 shared[k] | 1 cin[k] | 2 ia*shared[k]+ib*cin[k]), ia, ib,
            step(0 a*s + b*g + d [+ e/bsum | + e*bsum/bsum] | 1 batch.x | 2 s), a, b, d, e, inv,
            final(0 s | 1 fa*s + fb*shared[k] | 2 shared[k]), fa, fb}
           g = sum(batch.y) for int leaves, bsum = sum(batch.x) for float leaves
  result = {r0: ru*bsum + rv [+ rw/bsum | + rw*bsum/bsum], leaf: new_state[rleaf]}
"""
import atexit
import concurrent.futures
import json
import math
import os
import subprocess
import sys
import threading
import time

from lib import fw

PROP = 'C02'
COQ_HEADER = 'From FV Require Import Common.NanQ Model.C02_Model.\nLocal Open Scope Z_scope.'
COQ_AGREE = 'C02_agree'
COQ_MODEL_TARGETS = ['Model/C02_Model']
RULE = ('client programs drawn from a DSL (1-3 state leaves of int32/float32 with shapes (), (1), (2), (3), (2,2); affine '
        'steps with optional 1/sum(batch) or sum/sum term that is Inf/NaN on the zero padding batch; pass-through '
        '(aliasing) init/step/final modes; with and without step results) x client counts 0..2D+1 x batch-count profiles '
        '(all zero, equal, unequal, ascending, one long) x numpy / jax-array inputs x device counts; every case runs the '
        'jit, debug and pmap backends; thread cases: random nested set/with/raise/get scripts on 2-4 real threads in a '
        'generated global order (ops: set, get, bind = fedjax.for_each_client(...), with, raise, unsupported names); duplicate client ids in a few cases; yields compared as multisets.  non-trivial = at least one client with at least one batch (run cases) or at least one '
        'get (thread cases); distinct = distinct case JSON')
TRUSTED = ['XLA / jax.numpy numerics on small dyadic values are exact (exercised: the oracle recomputes in float64)',
           'jnp.where forward semantics = selection; jax.pmap = map over the leading axis (exercised, not modelled)',
           'threading.local gives each thread its own attribute dictionary (exercised by the thread cases)',
           'JAX buffer donation happens only at the donate_argnums call sites; jax.Array.is_deleted() reports it',
           'tools/anchors/for_each_client.py: structural translator of _blockify / the pmap backend / the jit donation '
           'sites / the backend-choice code (fail-closed recogniser + translate.Ctx for the index expressions)',
           'tools/harness/c02_worker.py (DSL -> jax functions, observation canonicaliser) and the script flattener _flatten']
ASSUMPTIONS = ['client ids are hashable; duplicate ids are generated too: the code (and the Permutation theorem) gives one '
               'result per input ENTRY, nothing is merged',
               'all batches of one call have the same pytree structure / shapes (pmap stacks them), block_size >= 1',
               'client_init / client_step / client_final are pure jax-traceable functions of their arguments',
               'section variables of the theorems: init, step, final, zeros_like functions are ARBITRARY (no hypothesis); '
               'C02_jit_equals_seq assumes jnp.copy is the identity on values',
               'C02_caller_buffers_not_donated: on a runtime that forwards pass-through outputs as the input buffer, '
               'client_step does not return its batch as part of the new state (C02_step_alias_refuted shows the '
               'hypothesis is needed; the installed JAX 0.11.2 never forwards, so there it is vacuous)']
PARTIAL = ['real XLA donation and pmap scheduling are runtime behaviour: the model exhibits donation only as the abstract '
           'effect at the donate_argnums call sites (store model, jit backend); validity of the caller buffers is '
           'additionally observed on every case and every backend (is_deleted / bit-equality)',
           'dtype and shape of every output / step-result leaf are compared in Coq as tags next to the flattened values (the model predicts them from the program: lp_int, lp_shape); the generic theorems do not speak about dtypes',
           'the zeroing of masked step results in p_client_step is modelled but neither anchored nor observable (results '
           'of padding batches are always truncated away): removing it is an equivalent change',
           'jit_client_init without the copy is unobservable on the installed JAX (jit returns fresh buffers); it is caught '
           'by the translator tie (jit_init_copies) only, reported as broken tie without failing input']
CASE_TIMEOUT = 240

HERE = os.path.dirname(os.path.abspath(__file__))
SHAPES = [[], [1], [2], [3], [2, 2]]


# --------------------------------------------------------------------------
# generation

def _size(shape):
  n = 1
  for d in shape:
    n *= d
  return n


def _dy(rng, generic):
  """A small value: dyadic (exact in float32 under the DSL arithmetic) or generic."""
  if generic:
    return round(rng.uniform(-3, 3), 3)
  return rng.choice([-2, -1.5, -1, -0.5, -0.25, 0, 0.25, 0.5, 1, 1.5, 2, 3])


def _gen_prog(rng, m, generic, stress):
  nleaves = rng.choice([1, 2, 2, 3])
  leaves = []
  for k in range(nleaves):
    is_int = rng.random() < 0.35
    shape = rng.choice(SHAPES)
    lp = {'int': is_int, 'shape': shape, 'init': rng.choice([0, 1, 2, 2]), 'step': 0, 'inv': 0,
          'final': rng.choice([0, 0, 1, 1, 2])}
    if is_int:
      lp.update(ia=rng.choice([1, -1, 2]), ib=rng.choice([1, 0, 3]), a=rng.choice([1, 1, -1, 2, 0]),
                b=rng.choice([0, 1, -1, 2]), d=rng.choice([0, 1, 1, -2]), e=0, fa=rng.choice([1, -1, 2]),
                fb=rng.choice([0, 1]))
    else:
      lp.update(ia=rng.choice([1.0, -1.0, 0.5, 2.0]), ib=rng.choice([1.0, 0.0, 0.5]),
                a=rng.choice([1.0, 1.0, -1.0, 2.0, 0.5, 0.0]), b=rng.choice([0.0, 1.0, -1.0, 0.5]),
                d=float(_dy(rng, generic)), e=rng.choice([1.0, -2.0, 0.5]), fa=rng.choice([1.0, -1.0, 0.5]),
                fb=rng.choice([0.0, 1.0, -0.5]))
      lp['inv'] = rng.choice([0, 1, 1, 2]) if stress else 0
      r = rng.random()
      if r < 0.12:
        lp['step'], lp['shape'] = 1, [m]        # the new state leaf IS the batch array (aliasing)
      elif r < 0.2:
        lp['step'] = 2                          # the state leaf is passed through
    if rng.random() < 0.18 and not generic:     # a leaf of a narrow / boolean dtype (restricted operations)
      dt = rng.choice(['f16', 'bf16', 'i8', 'u8', 'bool'])
      lp.update(dtype=dt, int=dt in ('i8', 'u8', 'bool'), init=rng.choice([0, 1]), inv=0, final=rng.choice([0, 0, 2]),
                step=4 if dt == 'bool' and rng.random() < 0.7 else rng.choice([2, 3, 3]) if dt != 'bool' else 2,
                d=0 if dt == 'bool' else 0.5 if dt in ('f16', 'bf16') else 1, shape=rng.choice(SHAPES))
    elif rng.random() < 0.08 and not generic:   # a complex64 leaf carried unchanged ((re, im) pairs in the value lists)
      lp.update(dtype='c64', int=False, init=rng.choice([0, 1]), step=2, inv=0, final=rng.choice([0, 0, 2]),
                shape=rng.choice(SHAPES))
    elif rng.random() < 0.12 and not generic:   # a float32 leaf carried unchanged, holding extreme magnitudes
      lp.update(dtype='f32', int=False, init=rng.choice([0, 1]), step=2, inv=0, final=rng.choice([0, 0, 2]), extreme=True,
                shape=rng.choice(SHAPES))
    lp.setdefault('dtype', 'i32' if lp['int'] else 'f32')
    leaves.append(lp)
  if stress and not any((not lp['int']) and lp['step'] == 0 and lp['inv'] for lp in leaves):
    for lp in leaves:
      if not lp['int'] and lp['step'] == 0:
        lp['inv'] = 1
        break
  res = {'ru': rng.choice([1.0, -1.0, 0.5, 0.0]), 'rv': float(_dy(rng, generic)), 'rw': rng.choice([1.0, -1.0, 2.0]),
         'rinv': rng.choice([0, 1, 2]) if stress else 0, 'rleaf': rng.randrange(nleaves)}
  return {'leaves': leaves, 'res': res}


def _f32(v):
  import numpy as np
  return float(np.float32(v))


# (subnormals are NOT in the list: the pmap executable flushes them to zero even on a pure pass-through while jit /
#  debug keep them -- observed on /repo with JAX 0.11.2 CPU; an absolute error < 1.2e-38 is inside the property's
#  "up to floating-point rounding", and the exact comparison used here could not express it)
EXTREME = [0.0, _f32(1.2e-38), _f32(1e-30), _f32(1e-7), _f32(5e-7), _f32(1e-6), 1.0, _f32(1e6), _f32(1e30), _f32(3.4028235e38),
           -_f32(3.4028235e38), -_f32(1.2e-38), 'inf', '-inf', 'nan']


def _gen_leafvals(rng, lp, generic, large=False, nonfinite=False):
  n = _size(lp['shape'])
  dt = lp.get('dtype', 'i32' if lp['int'] else 'f32')
  if dt == 'c64':
    return [float(rng.choice([-2, -1.5, -0.5, 0, 0.25, 1, 3])) for _ in range(2 * n)]
  if dt == 'bool':
    return [rng.randrange(2) for _ in range(n)]
  if dt in ('i8', 'u8'):
    return [rng.randrange(0, 20) for _ in range(n)]
  if dt in ('f16', 'bf16'):
    return [rng.choice([-2, -1.5, -1, -0.5, 0, 0.5, 1, 1.5, 2, 3]) for _ in range(n)]
  if lp.get('extreme'):      # 0, subnormal, 1e-30 .. float32 max (as exact float32 values), and non-finite values
    return [rng.choice(EXTREME) for _ in range(n)]
  if lp['int']:
    if large:      # beyond 2^24: a detour through float32 would be visible
      return [rng.choice([16777217, -16777217, 16777219, 33554433 // 2]) for _ in range(n)]
    return [rng.randrange(-4, 6) for _ in range(n)]
  if nonfinite and rng.random() < 0.5:       # a non-finite value on a REAL position of a real client
    return [rng.choice(['inf', '-inf', 'nan']) if rng.random() < 0.5 else float(_dy(rng, generic)) for _ in range(n)]
  return [float(_dy(rng, generic)) for _ in range(n)]


def _gen_batch(rng, m, ny, generic, zero_ok):
  """batch.x sums to +-2^j (so that 1/sum is exact) unless generic; a real all-zero
  batch (legitimately giving Inf/NaN in the sequential fold too) only when zero_ok."""
  if zero_ok and rng.random() < 0.5:
    return [[0.0] * m, [rng.randrange(0, 4) for _ in range(ny)]]
  if generic:
    while True:
      x = [round(rng.uniform(-2, 2), 3) for _ in range(m)]
      if abs(sum(x)) >= 0.3:
        break
  else:
    target = rng.choice([1, 2, 4, 0.5, 0.25, 8]) * rng.choice([1, 1, -1])
    x = [float(rng.choice([-1, -0.5, 0, 0.5, 1, 2])) for _ in range(m - 1)]
    x.append(float(target - sum(x)))
  return [x, [rng.randrange(-2, 5) for _ in range(ny)]]


def _profile(rng, n, kind):
  if kind == 'zeros':
    return [0] * n
  if kind == 'equal':
    return [rng.randrange(1, 4)] * n
  if kind == 'ascending':     # the input order is the opposite of blockify's
    return [min(i, 5) for i in range(n)]
  if kind == 'onelong':
    p = [rng.choice([0, 1])] * n
    if n:
      p[rng.randrange(n)] = rng.randrange(3, 6)
    return p
  return [rng.choice([0, 0, 1, 2, 3, 4]) for _ in range(n)]


PROFILES = ['zeros', 'equal', 'ascending', 'onelong', 'random', 'random']


FORMS = ['list', 'list', 'tuple', 'gen', 'iter', 'map']


def _gen_run(rng, k, D, n, profile, generic=False, stress=True, zero_batch=False, dup=False, nonfinite=False, x64=False):
  m = rng.choice([1, 2, 3])
  ny = rng.choice([1, 2])
  prog = _gen_prog(rng, m, generic, stress)
  leaves = prog['leaves']
  large = (not generic) and rng.random() < 0.15 and any(lp['dtype'] == 'i32' for lp in leaves)
  if large:
    for lp in leaves:
      if lp['dtype'] == 'i32':      # keep |values| far below 2^31 over 5 steps
        lp.update(a=rng.choice([1, -1, 0]), ia=rng.choice([1, -1]), ib=rng.choice([0, 1]), fa=rng.choice([1, -1]))
  ids = rng.sample(range(100), n)          # distinct, NOT in positional order
  if n and 0 not in ids and rng.random() < 0.5:
    ids[rng.randrange(n)] = 0              # the falsy id: 0 / b'' / '' / () depending on idkind
  if n and rng.random() < 0.4:             # legal ids equal to internal sentinels: None, -1, False, (None,)
    for code in rng.sample([900, 901, 903] + ([902] if 0 not in ids else []), rng.randrange(1, 3)):
      ids[rng.randrange(n)] = code
    ids = [i if ids.index(i) == j else 1000 + j for j, i in enumerate(ids)]
  if dup and n >= 2:                       # duplicate client ids: one result per input ENTRY is expected
    for _ in range(rng.randrange(1, 3)):
      i, j = rng.sample(range(n), 2)
      ids[i] = ids[j]
  counts = _profile(rng, n, profile)
  clients = []
  for cid, nb in zip(ids, counts):
    batches = [_gen_batch(rng, m, ny, generic, zero_batch and rng.random() < 0.3) for _ in range(nb)]
    clients.append([cid, batches, [_gen_leafvals(rng, lp, generic, large, nonfinite) for lp in leaves]])
  case = {'kind': 'run', 'k': k, 'D': D, 'wsr': rng.random() < 0.7, 'jaxin': rng.random() < 0.6,
          'batches_form': rng.choice(FORMS), 'clients_form': rng.choice(FORMS + ['list', 'dictitems']),
          'idkind': rng.choice(['int', 'int', 'bytes', 'str', 'tuple']),
          'scalar_form': rng.choice(['array', 'array', 'np', 'py']),
          'via': rng.choice(['ctx', 'ctx', 'set', 'direct', 'instance']), 'kw': rng.random() < 0.3,
          'second': rng.choice(['repeat', 'interleave', 'pieces', 'abandon', 'disable_jit']),
          'order': rng.sample(['jit', 'debug', 'pmap'], 3),
          'tol': 1 if generic else 0, 'prog': prog,
          'shared': [_gen_leafvals(rng, lp, generic, large, nonfinite and rng.random() < 0.3) for lp in leaves],
          'clients': clients, 'layouts': rng.random() < 0.5, 'layout_seed': rng.randrange(7),
          'state_nest': rng.choice(['tuple', 'tuple', 'dict', 'nested', 'namedtuple', 'list', 'dataclass']),
          'batch_keys': rng.choice(['xy', 'yx', 'mixed'])}
  if x64:
    case['x64'] = True                     # worker started with JAX_ENABLE_X64=1
    if case['scalar_form'] == 'py':
      case['scalar_form'] = 'np'
  if all(lp['final'] == 0 for lp in leaves) and rng.random() < 0.7:
    case['default_final'] = True           # client_final omitted: the documented default `lambda _, s: s`
    if case['state_nest'] in ('dict', 'nested'):      # (the output then IS the state: keep the leaf order of the DSL)
      case['state_nest'] = rng.choice(['tuple', 'namedtuple', 'list', 'dataclass'])
  if all(lp['init'] == 0 for lp in leaves) and rng.random() < 0.8:
    case['cin_form'] = rng.choice(['empty', 'none'])      # the program never reads the client input
  if all(lp['init'] == 1 and lp['final'] == 0 for lp in leaves) and rng.random() < 0.8:
    case['shared_form'] = 'none'
  return case


BACKENDS = [None, 'jit', 'debug', 'pmap', 10, 11]


def _gen_script(rng, depth, budget):
  ops = []
  n = rng.randrange(1, 5)
  for _ in range(n):
    if budget[0] <= 0:
      break
    budget[0] -= 1
    r = rng.random()
    if r < 0.2:
      ops.append({'op': 'get'})
    elif r < 0.3:
      ops.append({'op': 'bind'})      # fedjax.for_each_client(...): which backend does it bind?
    elif r < 0.5:
      b = rng.choice(BACKENDS)
      ops.append({'op': 'set', 'b': b})
      if rng.random() < 0.5:       # enter a context with the selection that is ALREADY active, change it inside
        budget[0] -= 1
        ops.append({'op': 'with', 'b': b, 'catch': rng.random() < 0.5,
                    'body': [{'op': 'get'}, {'op': 'set', 'b': rng.choice(BACKENDS)}, {'op': 'get'}] +
                            ([{'op': 'raise'}] if rng.random() < 0.3 else [])})
        ops.append({'op': 'get'})
    elif r < 0.55:
      ops.append({'op': 'setbad'})
    elif r < 0.6:
      ops.append({'op': 'enterbad'})
    elif r < 0.68 and depth > 0:
      ops.append({'op': 'raise'})
    elif depth < 3:
      body = _gen_script(rng, depth + 1, budget)
      body.append({'op': 'get'})
      ops.append({'op': 'with', 'b': rng.choice(BACKENDS), 'body': body, 'catch': rng.random() < 0.6})
      ops.append({'op': 'get'})
    else:
      ops.append({'op': 'get'})
  return ops


def _flatten(block):
  """Turns of one thread, each a list of primitive model operations, in the order
  the worker's interpreter takes them.  Returns (turns, raised)."""
  turns = []
  for op in block:
    k = op['op']
    if k == 'set':
      turns.append([('set', op['b'])])
    elif k == 'setbad':
      turns.append([('setbad', None)])
    elif k in ('get', 'bind'):
      turns.append([('get', None)])   # for_each_client() reads the choice through get_for_each_client_backend()
    elif k == 'enterbad':
      turns.append([('enterbad', None)])
    elif k == 'raise':
      turns.append([])            # the unwinding exits are added by the enclosing `with`s
      return turns, True
    elif k == 'with':
      turns.append([('enter', op['b'])])
      inner, raised = _flatten(op['body'])
      turns += inner
      if raised:
        turns[-1] = turns[-1] + [('exitexc', None)]
        if not op['catch']:
          return turns, True
      else:
        turns.append([('exit', None)])
  return turns, False


def _gen_threads(rng, k):
  n = rng.choice([2, 2, 3, 4])
  scripts = [_gen_script(rng, 0, [rng.randrange(4, 12)]) + [{'op': 'get'}] for _ in range(n)]
  counts = [len(_flatten(s)[0]) for s in scripts]
  order = [t for t, c in enumerate(counts) for _ in range(c)]
  rng.shuffle(order)
  return {'kind': 'threads', 'k': k, 'nthreads': n, 'scripts': scripts, 'order': order}


def _force(rng, case, what):
  """Rewrites a generated case so that the program never reads the client input (init0:
  then the input is the empty pytree () or None, and client_final may be omitted) or never
  reads the shared input (init1: shared_input=None)."""
  for lp in case['prog']['leaves']:
    lp['final'] = 0
    lp['init'] = 0 if what == 'init0' else 1
  case.pop('cin_form', None)
  case.pop('shared_form', None)
  if what == 'init0':
    case['cin_form'] = rng.choice(['empty', 'none'])
  else:
    case['shared_form'] = 'none'
  case['default_final'] = rng.random() < 0.7
  if case['default_final'] and case['state_nest'] in ('dict', 'nested'):
    case['state_nest'] = rng.choice(['tuple', 'namedtuple', 'list', 'dataclass'])
  return case


def _gen_cases(tier, rng):
  cases = []
  if tier == 'quick':
    plan = [(1, 1), (3, 3), (3, 2)]          # (host device count k of the worker, pmap block size D)
    nprof, nthreads = 6, 40
  elif tier == 'search':
    plan = [(1, 1), (3, 3), (3, 2)]
    nprof, nthreads = 12, 80
  else:
    plan = [(k, k) for k in range(1, 9)] + [(8, 7), (4, 3), (6, 5)]
    nprof, nthreads = 6, 200
  for k, D in plan:
    for n in range(0, 2 * D + 2):
      if n == 0:
        cases.append(_gen_run(rng, k, D, 0, 'zeros'))
        continue
      for i in range(nprof):
        cases.append(_gen_run(rng, k, D, n, PROFILES[i % len(PROFILES)]))
    # targeted extras per device count
    cases.append(_gen_run(rng, k, D, D + 1, 'ascending'))
    cases.append(_gen_run(rng, k, D, 2 * D + 1, 'onelong'))
    for _ in range(3):
      cases.append(_gen_run(rng, k, D, rng.randrange(1, 2 * D + 2), 'random', generic=True))
      cases.append(_gen_run(rng, k, D, max(2, rng.randrange(1, 2 * D + 2)), 'random', zero_batch=True))
      cases.append(_gen_run(rng, k, D, rng.randrange(1, 2 * D + 2), 'random', stress=False))
      cases.append(_gen_run(rng, k, D, rng.randrange(2, 2 * D + 3), 'random', dup=True))
      cases.append(_gen_run(rng, k, D, rng.randrange(1, 2 * D + 2), 'random', nonfinite=True))
      if k == 3 or (tier == 'thorough' and k in (2, 8)):
        cases.append(_gen_run(rng, k, D, rng.randrange(1, 2 * D + 2), 'random', x64=True))
        cases.append(_gen_run(rng, k, D, rng.randrange(1, 2 * D + 2), 'ascending', x64=True))
      cases.append(_force(rng, _gen_run(rng, k, D, rng.randrange(1, 2 * D + 2), 'random'), 'init0'))
      cases.append(_force(rng, _gen_run(rng, k, D, rng.randrange(1, 2 * D + 2), 'random'), 'init1'))
  # exhaustive grid over _blockify: all count vectors in [0, base)^n for every block size
  if tier == 'thorough':
    grid = [(D, n, 4 if n <= 5 else 3) for D in range(1, 9) for n in range(0, 8)]
  else:
    grid = [(D, n, 3) for D in range(1, 5) for n in range(0, 6)]
  for D, n, base in grid:
    cases.append({'kind': 'grid', 'k': 1, 'D': D, 'n': n, 'base': base})
  ks = sorted({k for k, _ in plan})[:4]
  for i in range(nthreads):
    cases.append(_gen_threads(rng, ks[i % len(ks)]))
  cases.sort(key=lambda c: (c['k'], bool(c.get('x64'))))       # workers are started in this order, four at a time
  return cases


_PLAN = None


def generate(tier, rng):
  global _PLAN
  cases = _gen_cases(tier, rng)
  if tier != 'search':
    _PLAN = cases
  for c in cases:
    yield c


# --------------------------------------------------------------------------
# worker processes

def _wkey(case):
  return (case['k'], bool(case.get('x64')))


class Worker:
  def __init__(self, key):
    k, x64 = key
    self.k, self.x64 = k, x64
    env = dict(os.environ)
    env['PYTHONPATH'] = os.environ.get('PYTHONPATH', fw.REPO + ':' + os.path.dirname(HERE))
    if x64:      # the second interpreter also hashes bytes / str ids differently (determinism across processes)
      env['PYTHONHASHSEED'] = '4242'
    self.p = subprocess.Popen([sys.executable, '-m', 'harness.c02_worker', str(k)] + (['x64'] if x64 else []), stdin=subprocess.PIPE,
                              stdout=subprocess.PIPE, stderr=subprocess.DEVNULL, text=True, env=env, bufsize=1)
    self.lock = threading.Lock()
    self.ready = False

  def _read(self, timeout):
    box = []

    def rd():
      while True:
        line = self.p.stdout.readline()
        if not line:
          box.append(None)
          return
        if line.startswith('@@'):
          box.append(json.loads(line[2:]))
          return
    th = threading.Thread(target=rd, daemon=True)
    th.start()
    th.join(timeout)
    if th.is_alive():
      return 'timeout'
    return box[0]

  def ask(self, case, timeout=150):
    with self.lock:
      if not self.ready:
        r = self._read(180)
        if not isinstance(r, dict) or not r.get('ready') or r.get('devices') != self.k or bool(r.get('x64')) != self.x64:
          self.kill()
          return {'worker_error': f'worker for {self.k} devices did not start: {r!r}'}
        self.ready = True
      try:
        self.p.stdin.write(json.dumps(case) + '\n')
        self.p.stdin.flush()
      except (BrokenPipeError, OSError):
        return {'worker_error': 'worker pipe closed'}
      r = self._read(timeout)
      if r == 'timeout':
        self.kill()
        return {'hang': True}
      if r is None:
        return {'worker_error': 'worker died'}
      return r

  def alive(self):
    return self.p.poll() is None

  def kill(self):
    try:
      self.p.kill()
    except OSError:
      pass

  def close(self):
    try:
      self.p.stdin.close()
      self.p.wait(timeout=5)
    except Exception:  # pylint: disable=broad-except
      self.kill()


_RESULTS = {}      # case key -> (threading.Event, [obs])
_ONDEMAND = {}
_STARTED = False
_POOL = None


def _key(case):
  return json.dumps(case, sort_keys=True)


def _job(k, cases):
  w = None
  try:
    for c in cases:
      obs = None
      for attempt in (0, 1):      # a worker process that dies (not a hang) is restarted once: a crash that does not
        try:                      # reproduce on a fresh process is an environment event, one that does is reported
          if w is None or not w.alive():
            w = Worker(k)
          obs = w.ask(c)
        except Exception as ex:  # pylint: disable=broad-except
          obs = {'worker_error': f'{type(ex).__name__}: {ex}'}
        if 'worker_error' not in obs:
          break
        w.kill()
        w = None
      ev, box = _RESULTS[_key(c)]
      box.append(obs)
      ev.set()
  finally:
    if w is not None:
      w.close()


def _start_plan():
  global _STARTED, _POOL
  _STARTED = True
  if not _PLAN:
    return
  by_k = {}
  for c in _PLAN:
    kk = _key(c)
    if kk not in _RESULTS:
      _RESULTS[kk] = (threading.Event(), [])
      by_k.setdefault(_wkey(c), []).append(c)
  _POOL = concurrent.futures.ThreadPoolExecutor(4)
  for k in sorted(by_k):
    _POOL.submit(_job, k, by_k[k])


def _cleanup():
  for w in _ONDEMAND.values():
    w.close()


atexit.register(_cleanup)


def run(case):
  if not _STARTED:
    _start_plan()
  kk = _key(case)
  if kk in _RESULTS:
    ev, box = _RESULTS[kk]
    ev.wait()
    obs = box[0]
  else:
    for attempt in (0, 1):
      w = _ONDEMAND.get(_wkey(case))
      if w is None or not w.alive():
        w = _ONDEMAND[_wkey(case)] = Worker(_wkey(case))
      obs = w.ask(case)
      if 'worker_error' not in obs:
        break
      w.kill()
  if obs.get('hang'):
    raise fw.Hang()
  if 'worker_error' in obs:
    raise RuntimeError(obs['worker_error'])
  return obs


# --------------------------------------------------------------------------
# oracle: the property's own wording, computed independently (numpy float64 / int64)

def _ref_client(np, prog, wsr, shared, batches, cin):
  leaves = prog['leaves']

  def arr(vals, lp):
    vals = [float(v) if isinstance(v, str) else v for v in vals]
    shape = list(lp['shape']) + [2] if lp.get('dtype') == 'c64' else lp['shape']      # (re, im) pairs
    return np.array(vals, dtype=np.int64 if lp['int'] else np.float64).reshape(shape)
  sh = [arr(shared[k], lp) for k, lp in enumerate(leaves)]
  ci = [arr(cin[k], lp) for k, lp in enumerate(leaves)]
  state = []
  for k, lp in enumerate(leaves):
    if lp['init'] == 0:
      state.append(sh[k])
    elif lp['init'] == 1:
      state.append(ci[k])
    else:
      state.append(lp['ia'] * sh[k] + lp['ib'] * ci[k])

  def inv(mode, coef, bsum):
    with np.errstate(all='ignore'):
      if mode == 1:
        return coef * (np.float64(1.0) / bsum)
      if mode == 2:
        return coef * (bsum / bsum)
    return np.float64(0.0)
  results = []
  for bxv, byv in batches:
    x = np.array(bxv, dtype=np.float64)
    bsum = np.float64(x.sum())
    bn = int(np.array(byv, dtype=np.int64).sum())
    new = []
    with np.errstate(all='ignore'):
      for k, lp in enumerate(leaves):
        if lp['step'] == 1:
          new.append(x.copy())
        elif lp['step'] == 2:
          new.append(state[k])
        elif lp['step'] == 3:
          new.append(state[k] + lp['d'])
        elif lp['step'] == 4:
          new.append(1 - state[k])
        elif lp['int']:
          new.append(lp['a'] * state[k] + (lp['b'] * bn + lp['d']))
        else:
          new.append(lp['a'] * state[k] + ((lp['b'] * bsum + lp['d']) + inv(lp['inv'], lp['e'], bsum)))
      state = new
      if wsr:
        r = prog['res']
        results.append([np.asarray((r['ru'] * bsum + r['rv']) + inv(r['rinv'], r['rw'], bsum)), state[r['rleaf']]])
  out = []
  with np.errstate(all='ignore'):
    for k, lp in enumerate(leaves):
      if lp['final'] == 0:
        out.append(state[k])
      elif lp['final'] == 1:
        out.append(lp['fa'] * state[k] + lp['fb'] * sh[k])
      else:
        out.append(sh[k])
  return out, results


DTNAME = {'f32': 'float32', 'i32': 'int32', 'f16': 'float16', 'bf16': 'bfloat16', 'i8': 'int8', 'u8': 'uint8', 'bool': 'bool',
          'c64': 'complex64'}
WEAK = {'float32': ('float32', 'float64'), 'int32': ('int32', 'int64')}


def _leaf_matches(np, obs_leaf, exp, is_int, shape, tol, dtype=None, weak=False):
  """(values ok, dtype/shape ok).  weak: the leaf was delivered as a Python scalar, whose
  weak type legitimately stays a Python float / int (float64 / int64) when no jax op touches it."""
  want_dtype = DTNAME[dtype] if dtype else 'int32' if is_int else 'float32'
  ok_dt = obs_leaf['dtype'] in WEAK.get(want_dtype, ()) if weak else obs_leaf['dtype'] == want_dtype
  meta = ok_dt and list(obs_leaf['shape']) == list(shape)
  ev = np.asarray(exp).reshape(-1).tolist()
  ov = obs_leaf['v']
  if len(ev) != len(ov):
    return False, meta
  for o, e in zip(ov, ev):
    if is_int:
      if not isinstance(o, int) or o != int(e):
        return False, meta
      continue
    if isinstance(o, str):          # non-finite observed: the definition must be non-finite of the same class
      if o == 'nan':
        ok = math.isnan(e)
      else:
        ok = math.isinf(e) and (e > 0) == (o == 'inf')
      if not ok:
        return False, meta
      continue
    if not isinstance(o, (int, float)) or not math.isfinite(e):
      return False, meta
    if abs(float(o) - float(e)) > tol * (1 + abs(float(e))):     # tol = 0: exact
      return False, meta
  return True, meta


def _oracle_run(case, obs):
  import numpy as np
  out = []
  prog, wsr = case['prog'], case['wsr']
  leaves = prog['leaves']
  tol = 1e-4 if case['tol'] else 0.0
  want = {}
  for cid, batches, cin in case['clients']:
    want.setdefault(cid, []).append((_ref_client(np, prog, wsr, case['shared'], batches, cin), len(batches)))
  input_ids = sorted(c[0] for c in case['clients'])
  rl = leaves[prog['res']['rleaf']]

  def weak(lp):
    return case.get('scalar_form') == 'py' and list(lp['shape']) == [] and lp.get('dtype', 'f32') in ('f32', 'i32')

  def judge(y, exp):
    """(output ok, results count ok, results ok, dtype/shape ok) of one yield against one input entry"""
    (eout, eres), nb = exp
    ok_v, ok_m = len(y['out']) == len(leaves), True
    if ok_v:
      for k, lp in enumerate(leaves):
        v, mt = _leaf_matches(np, y['out'][k], eout[k], lp['int'], lp['shape'], tol, lp.get('dtype'), weak(lp))
        ok_v, ok_m = ok_v and v, ok_m and mt
    ok_n = ok_r = True
    if wsr:
      if y['res'] is None or len(y['res']) != nb:
        ok_n = False
      else:
        for j, r in enumerate(y['res']):
          if len(r) != 2:        # pytree leaves of {'leaf':..., 'r0':...} in key order
            ok_r = False
            break
          v1, m1 = _leaf_matches(np, r[0], eres[j][1], rl['int'], rl['shape'], tol, rl.get('dtype'), weak(rl))
          v2, m2 = _leaf_matches(np, r[1], eres[j][0], False, [], tol)
          ok_m = ok_m and m1 and m2
          if not (v1 and v2):
            ok_r = False
            break
    return ok_v, ok_n, ok_r, ok_m

  for be in ('jit', 'debug', 'pmap'):
    o = obs[be]
    if o['err']:
      out.append((f'{be}-raises', f'{be} backend raised {o["err"]}: {o.get("err_text", "")}'))
      continue
    ids = [y['id'] for y in o['yields']]
    if sorted(ids, key=repr) != sorted(input_ids, key=repr):
      extra = [i for i in ids if i not in want]
      missing = [i for i in want if ids.count(i) < len(want[i])]
      out.append((f'{be}-ids', f'{be}: not exactly one result per input client (yielded {ids}, input ids {input_ids}, '
                  f'non-input ids {extra}, missing {missing})'))
    left = {cid: list(exps) for cid, exps in want.items()}
    for y in o['yields']:
      cands = left.get(y['id'])
      if not cands:
        continue
      verdicts = [judge(y, e) for e in cands]
      full = [i for i, v in enumerate(verdicts) if all(v)]
      if full:
        cands.pop(full[0])
        continue
      # no input entry with this id explains the yield: report against the closest one
      best = max(range(len(cands)), key=lambda i: sum(verdicts[i]))
      ok_v, ok_n, ok_r, ok_m = verdicts[best]
      nb = cands[best][1]
      cands.pop(best)
      if not ok_v:
        out.append((f'{be}-output', f'{be}: output of client {y["id"]} differs from final(shared, fold(step, init))'))
      if not ok_n:
        out.append((f'{be}-step-results', f'{be}: client {y["id"]} has {nb} batches but '
                    f'{None if y["res"] is None else len(y["res"])} step results'))
      elif not ok_r:
        out.append((f'{be}-step-results', f'{be}: a step result of client {y["id"]} differs from the fold'))
      if not ok_m:
        out.append((f'{be}-dtype-shape', f'{be}: an output / step result of client {y["id"]} changed dtype or shape'))
    exp_tree = o.get('tree_expected')
    if exp_tree:
      for y in o['yields']:
        t = y.get('tree')
        if t and (t[0] != exp_tree[0] or (t[1] is not None and t[1] != exp_tree[1])):
          out.append((f'{be}-tree-structure', f'{be}: the pytree structure of an output / step result of client {y["id"]} is '
                      f'{t}, the client functions return {exp_tree}'))
          break
    if o['deleted']:
      out.append((f'{be}-input-deleted', f'{be}: caller buffers deleted (donated) by the call: {o["deleted"][:4]}'))
    if o['changed']:
      out.append((f'{be}-input-changed', f'{be}: caller buffers changed by the call: {o["changed"][:4]}'))
    if o.get('containers'):
      out.append((f'{be}-container-changed', f'{be}: the call changed a container the caller passed (length / keys / element '
                  f'identities differ after the call): {o["containers"][:4]}'))
    if o.get('iterables'):
      out.append((f'{be}-iterable-consumption', f'{be}: a one-shot iterable passed by the caller was not consumed exactly '
                  f'once and completely: {o["iterables"][:3]}'))
    if o.get('kept'):
      out.append((f'{be}-kept-result-changed', f'{be}: results the caller kept from the first call were invalidated or '
                  f'changed by a later call: {o["kept"][:3]}'))
    if o.get('first_built') not in (None, 'same'):
      out.append((f'{be}-first-built-differs', f'{be}: the function built first, called again after the other backends were '
                  f'built from the same client functions and run, {o["first_built"]}'))
    if o.get('repeat') not in (None, 'same'):
      out.append((f'{be}-repeat-differs', f'{be}: calling again on the very same caller objects {o["repeat"]} '
                  '(the first call left the inputs in a different state)'))
  seen, uniq = set(), []
  for kv in out:
    if kv[0] not in seen:
      seen.add(kv[0])
      uniq.append(kv)
  return uniq


KIND = {None: 0, 'jit': 0, 'debug': 2, 'pmap': 3, 10: 10, 11: 11}


def _thread_semantics(block, cur, reads):
  """Direct per-thread reading of the property: the selection is what this thread
  last set / the innermost context it is in, and leaving a context (normally or by
  exception) restores what was selected when it was entered."""
  for op in block:
    k = op['op']
    if k == 'set':
      cur = op['b']
    elif k in ('get', 'bind'):
      reads.append(KIND[cur])
    elif k == 'raise':
      return cur, True
    elif k == 'with':
      saved = cur
      _, raised = _thread_semantics(op['body'], op['b'], reads)
      cur = saved
      if raised and not op['catch']:
        return cur, True
  return cur, False


def _oracle_threads(case, obs):
  out = []
  if obs['errors']:
    out.append(('backend-choice-error', '; '.join(obs['errors'])[:300]))
  for t in range(case['nthreads']):
    exp = []
    _thread_semantics(case['scripts'][t], None, exp)
    got = [r[2] for r in obs['reads'] if r[1] == t]
    if got != exp:
      out.append(('backend-choice', f'thread {t} read backends {got}, its own operations select {exp} '
                  '(selection leaked between threads or was not restored on context exit)'))
      break
  return out


def _expected_blocks(counts, D):
  """_blockify by its specification, in exact integer arithmetic: clients in decreasing order of
  batch count (ties in input order), cut into ceil(n / D) blocks of D, the last one padded with
  (-n) mod D clients (id None, no batches, zero input); every client of a block padded to the
  block's largest batch count with zero batches, mask False."""
  n = len(counts)
  order = sorted(range(n), key=lambda i: (-counts[i], i))
  blocks = []
  for s0 in range(0, n, D):
    members = order[s0:s0 + D]
    pad = D - len(members)
    ids = [i + 1 for i in members] + [0] * pad
    mask = [1] * len(members) + [0] * pad
    nb = [counts[i] for i in members] + [0] * pad
    mx = max(nb)
    rows = []
    for j in range(mx):
      rows.append([[100 * (i + 1) + j + 1 if j < counts[i] else 0 for i in members] + [0] * pad,
                   [1 if j < counts[i] else 0 for i in members] + [0] * pad])
    blocks.append([ids, mask, nb, rows, [1000 + i for i in members] + [0] * pad])
  assert len(blocks) == -(-n // D) and (not blocks or len(blocks[-1][0]) == D)
  return blocks


def _oracle_grid(case, obs):
  import itertools
  D, n, base = case['D'], case['n'], case['base']
  vecs = list(itertools.product(range(base), repeat=n))
  if len(obs['structs']) != len(vecs):
    return [('blockify-grid', 'wrong number of grid points')]
  for counts, st in zip(vecs, obs['structs']):
    exp = _expected_blocks(list(counts), D)
    got = [[b[0], b[1], b[2], [[r[0], r[1]] for r in b[3]], b[4]] for b in st] if isinstance(st, list) else st
    if got != exp:
      nblk = len(st) if isinstance(st, list) else '?'
      return [('blockify-grid', f'_blockify(batch counts {list(counts)}, block_size {D}): {nblk} blocks {got} differ from the '
               f'specification ({len(exp)} blocks, padding {(-n) % D}) {exp}')]
  return []


def oracle(case, obs):
  if case['kind'] == 'grid':
    return _oracle_grid(case, obs)
  return _oracle_run(case, obs) if case['kind'] == 'run' else _oracle_threads(case, obs)


# --------------------------------------------------------------------------
# encoding for Coq

def _q(v):
  if isinstance(v, str):
    return 'None'
  return 'Some ' + fw.qlit(v)


def _leaf(vals):
  return '[' + '; '.join(_q(v) for v in vals) + ']'


def _tree(leaves):
  return '[' + '; '.join(_leaf(l) for l in leaves) + ']'


def _prog(prog):
  ls = []
  for lp in prog['leaves']:
    ls.append('mk_lp %s %s %d %d %s %s %d %s %s %s %s %d %d %s %s' % (
        fw.cbool(lp['int']), fw.zlist(lp['shape']), DTYPE[DTNAME[lp.get('dtype') or ('i32' if lp['int'] else 'f32')]],
        lp['init'], fw.qlit(lp['ia']), fw.qlit(lp['ib']), lp['step'], fw.qlit(lp['a']),
        fw.qlit(lp['b']), fw.qlit(lp['d']), fw.qlit(lp['e']), lp['inv'], lp['final'], fw.qlit(lp['fa']),
        fw.qlit(lp['fb'])))
  r = prog['res']
  return '(mk_prog [%s] %s %s %s %d %d%%nat)' % ('; '.join(ls), fw.qlit(r['ru']), fw.qlit(r['rv']), fw.qlit(r['rw']),
                                                r['rinv'], r['rleaf'])


DTYPE = {'float32': 0, 'int32': 1, 'float16': 3, 'bfloat16': 4, 'int8': 5, 'uint8': 6, 'bool': 7, 'complex64': 8}
WEAK_CODE = {'float64': 0, 'int64': 1}     # a Python scalar that no jax op touched (scalar_form = 'py' only)


def _oleaf(l, weak=False):
  code = DTYPE.get(l['dtype'], 2)
  if weak and code == 2 and list(l['shape']) == []:
    code = WEAK_CODE.get(l['dtype'], 2)
  return f'({code}, {fw.zlist(l["shape"])}, {_leaf(l["v"])})'


def _otree(leaves, weak=False):
  return '[' + '; '.join(_oleaf(l, weak) for l in leaves) + ']'


def _obs_results(o, wsr, weak=False):
  """The yielded triples in yield order (the model compares them as a multiset); every
  leaf carries its dtype code and shape."""
  items = []
  for y in o['yields']:
    if not (y['id'] is None or isinstance(y['id'], int)):
      return None
    oid = 'None' if y['id'] is None else f'Some {fw.zlit(y["id"])}'
    if wsr and y['res'] is not None:
      # python leaf order of {'leaf', 'r0'} is (leaf, r0); the model's result tree is [r0; leaf]
      res = '[' + '; '.join(_otree(list(reversed(r)), weak) for r in y['res']) + ']'
    else:
      res = '[]'
    items.append(f'({oid}, {_otree(y["out"], weak)}, {res})')
  return '[' + '; '.join(items) + ']'


BCODE = {None: 'None', 'jit': '(Some 0)', 'debug': '(Some 2)', 'pmap': '(Some 3)', 10: '(Some 10)', 11: '(Some 11)'}


def _bop(p):
  k, b = p
  return {'set': lambda: f'BSet {BCODE[b]}', 'setbad': lambda: 'BSetBad', 'get': lambda: 'BGet',
          'enter': lambda: f'BEnter {BCODE[b]}', 'enterbad': lambda: 'BEnterBad', 'exit': lambda: 'BExit',
          'exitexc': lambda: 'BExitExc'}[k]()


def encode(case, obs):
  if case['kind'] == 'grid':
    return f'(CGrid {case["D"]} {case["n"]}%nat {case["base"]}%nat, OGrid {fw.zlist(obs["digests"])})'
  if case['kind'] == 'run':
    if any(obs[be]['err'] for be in ('jit', 'debug', 'pmap')):
      return None      # judged by the oracle; the model has no error behaviour
    wsr = case['wsr']
    cl = []
    for cid, batches, cin in case['clients']:
      bs = '[' + '; '.join(f'mk_db {_leaf(b[0])} {_leaf(b[1])}' for b in batches) + ']'
      cl.append(f'({fw.zlit(cid)}, {bs}, {_tree(cin)})')
    tol = '(1 # 10000)' if case['tol'] else '0'
    c = (f'CRun {_prog(case["prog"])} {fw.cbool(wsr)} {tol} {case["D"]} {_tree(case["shared"])} '
         f'[{"; ".join(cl)}]')
    rs = [_obs_results(obs[be], wsr, case.get('scalar_form') == 'py') for be in ('jit', 'debug', 'pmap')]
    if any(r is None for r in rs):
      return None
    ok = not any(obs[be]['deleted'] or obs[be]['changed'] or obs[be].get('containers') or obs[be].get('iterables') or
                 obs[be].get('kept') or obs[be].get('first_built') not in (None, 'same') or
                 obs[be].get('repeat') not in (None, 'same') for be in ('jit', 'debug', 'pmap'))
    o = f'ORun {rs[0]} {rs[1]} {rs[2]} {fw.cbool(ok)}'
    return f'({c}, {o})'
  # threads: the global schedule of primitive operations
  turns = [_flatten(s)[0] for s in case['scripts']]
  nxt = [0] * case['nthreads']
  sched = []
  for t in case['order']:
    for p in turns[t][nxt[t]]:
      sched.append(f'({t}%nat, {_bop(p)})')
    nxt[t] += 1
  reads = '[' + '; '.join(f'({r[1]}%nat, {r[2]})' for r in obs['reads']) + ']'
  return f'(CThreads [{"; ".join(sched)}], OThreads {reads})'


# --------------------------------------------------------------------------

def nontrivial(case, obs):
  if case['kind'] == 'grid':
    return case['n'] > 0
  if case['kind'] == 'run':
    return any(len(c[1]) > 0 for c in case['clients'])
  return len(obs['reads']) > 0


def _balanced(ops):
  """The hypothesis `balanced` of C02_backend_restored_on_exit on one thread's flattened
  operations: every enter has its exit, exits never outnumber enters."""
  depth = 0
  for k, _ in ops:
    if k == 'enter':
      depth += 1
    elif k in ('exit', 'exitexc'):
      depth -= 1
      if depth < 0:
        return False
  return depth == 0


def hypotheses_hold(case):
  if case['kind'] == 'grid':
    return case['D'] >= 1
  """Do the hypotheses of the theorems hold on this generated case?  (1 <= D; every thread's
  operation sequence is balanced; ids need no hypothesis.)  Cases where they do not are still
  run and judged by the oracle and the correspondence; they are only counted."""
  if case['kind'] == 'run':
    return case['D'] >= 1
  return all(_balanced([p for t in _flatten(sc)[0] for p in t]) for sc in case['scripts'])


def describe(case, obs):
  if case['kind'] == 'grid':
    return {'kind': 'grid', 'grid_points': len(obs['digests']), 'grid_D': case['D']}
  if case['kind'] == 'threads':
    return {'kind': 'threads', 'theorem_hypotheses_hold': hypotheses_hold(case), 'threads': case['nthreads'], 'turns': min(len(case['order']) // 5 * 5, 40)}
  n, D = len(case['clients']), case['D']
  counts = [len(c[1]) for c in case['clients']]
  return {'kind': 'run', 'theorem_hypotheses_hold': hypotheses_hold(case), 'devices': D, 'clients_vs_D': 'none' if n == 0 else 'lt' if n < D else 'multiple' if n % D == 0 else 'ragged',
          'batch_profile': 'none' if not counts else 'all-zero' if max(counts) == 0 else 'equal' if len(set(counts)) == 1 else 'unequal-with-zero' if 0 in counts else 'unequal',
          'step_results': case['wsr'], 'jax_inputs': case['jaxin'], 'batches_form': case.get('batches_form', 'list'),
          'clients_form': case.get('clients_form', 'list'), 'idkind': case.get('idkind', 'int'),
          'falsy_id': any(c[0] == 0 for c in case['clients']), 'sentinel_id': any(c[0] in (900, 901, 902, 903) for c in case['clients']), 'scalar_form': case.get('scalar_form', 'array'),
          'entry_point': case.get('via', 'ctx') + ('+kw' if case.get('kw') else '') + ('+default_final' if case.get('default_final') else ''),
          'second_call': case.get('second', 'repeat'),
          'empty_inputs': case.get('cin_form', 'tuple') + '/' + case.get('shared_form', 'dict'),
          'disable_jit_leaked_by_debug': bool(obs.get('debug', {}).get('disable_jit_leaked')),
          'state_nest': case.get('state_nest', 'tuple'), 'memory_layouts': bool(case.get('layouts')), 'batch_keys': case.get('batch_keys', 'xy'), 'x64': bool(case.get('x64')),
          'nonfinite_real_inputs': any(isinstance(v, str) for c in case['clients'] for l in c[2] for v in l),
          'extreme_magnitudes': any(lp.get('extreme') for lp in case['prog']['leaves']),
          'leaf_dtypes': '+'.join(sorted({lp.get('dtype', 'f32') for lp in case['prog']['leaves']})),
          'nonfinite_on_padding': any(lp['inv'] for lp in case['prog']['leaves']) or bool(case['prog']['res']['rinv'])}


def hang_key(case):
  return 'hang'


def shrink(case):
  if case['kind'] == 'grid':
    if case['n'] > 0:
      yield {**case, 'n': case['n'] - 1}
    if case['base'] > 2:
      yield {**case, 'base': case['base'] - 1}
    return
  if case['kind'] == 'threads':
    for t in range(case['nthreads']):
      s = case['scripts'][t]
      for i in range(len(s)):
        s2 = s[:i] + s[i + 1:]
        scripts = case['scripts'][:t] + [s2] + case['scripts'][t + 1:]
        counts = [len(_flatten(x)[0]) for x in scripts]
        # keep the relative order: drop surplus turns of thread t from the end
        order, left = [], list(counts)
        for u in case['order']:
          if left[u] > 0:
            order.append(u)
            left[u] -= 1
        for u, c in enumerate(left):
          order += [u] * c
        yield {**case, 'scripts': scripts, 'order': order}
    return
  cl = case['clients']
  for i in range(len(cl)):
    yield {**case, 'clients': cl[:i] + cl[i + 1:]}
  for i, c in enumerate(cl):
    if c[1]:
      yield {**case, 'clients': cl[:i] + [[c[0], c[1][:-1], c[2]]] + cl[i + 1:]}
  if case['jaxin']:
    yield {**case, 'jaxin': False}
  defaults = {'batches_form': 'list', 'clients_form': 'list', 'idkind': 'int', 'scalar_form': 'array', 'via': 'ctx',
              'kw': False, 'second': 'repeat', 'order': ['jit', 'debug', 'pmap']}
  for k, v in defaults.items():
    if case.get(k, v) != v:
      yield {**case, k: v}
