"""C10 harness: a training round is a pure function of (server state, clients).

For every built-in algorithm and every compression aggregator a multi-round
history with repeated participation is run on the REAL implementation.  Before
each call the input state and the client tuple are copied to host memory and
every reachable dict / list is fingerprinted; after it the oracle's three clauses
are evaluated (input keeps its value and stays readable, a second call with the
same arguments returns the same bits, a pickled-and-restored state continues to
the same states).  The sharing pattern of the new state (which slots are the very
objects of the input state, which are new), the key set of per-client tables, the
number of input containers written and the position of the aggregator key in the
split tree are compared inside Coq with the Store-calculus script of the
algorithm (coq/Model/C10_Model.v)."""
import os
import pickle
import shutil
import tempfile

import numpy as np

from lib import fw, tiny

PROP = 'C10'
COQ_HEADER = 'From FV Require Import Common.Store Model.C10_Model.'
COQ_AGREE = 'C10_agree'
COQ_MODEL_TARGETS = ['Common/Store', 'Model/C10_Model']
RULE = ('one case = (algorithm or aggregator, hyper-parameters, population, participation history of 4-6 rounds, '
        'branch round); non-trivial = at least one client re-participates in a later round and at least one round '
        'trains on >= 1 example; distinct = distinct case JSON')
TRUSTED = ['jax.Array.is_deleted() reports donated buffers; Python `is` identifies objects (used for the sharing pattern)',
           'pickle / fedjax.core.serialization.save_state+load_state as the serialiser under test (load after save = identity on values is what clause 3 observes)',
           'JAX buffer donation happens only at the donate_argnums call sites visible in the Python source']
TRUSTED += ['tools/anchors/c10_effects.py: reading of Python container effects (calls into imported modules, factory closures and @jax.jit functions are pure; PURE_METHODS do not write their receiver); fail-closed otherwise']
ASSUMPTIONS = ['batching hyper-parameters carry a fixed seed (seed=None is documented OS-entropy shuffling, outside the quantifier)',
               'Store-calculus scripts are written from the source of each apply() and proved to perform the container effects TRANSLATED from it (C10_scripts_match_source); the pure functions they call (client training, optimizers, quantizers) are uninterpreted',
               'C10_restore_and_continue: section hypothesis load_save = the serialiser re-creates a state with the same value at fresh locations']
PARTIAL = ['in-place effects inside compiled XLA code are represented only by the Donate sites of the scripts']
CASE_TIMEOUT = 240

ALGS = ['fed_avg', 'fed_prox', 'mime', 'mime_lite', 'agnostic', 'hyp_cluster', 'apfl']
AGGS = ['uniform', 'uniform_arith', 'rotated', 'drive', 'terngrad']
ALG_COQ = {'fed_avg': 'AFedAvg', 'fed_prox': 'AFedProx', 'mime': 'AMime', 'mime_lite': 'AMimeLite',
           'agnostic': 'AAgnostic', 'hyp_cluster': 'AHyp', 'apfl': 'AApfl',
           'uniform': 'QUniform', 'uniform_arith': 'QUniformArith', 'rotated': 'QRotated', 'drive': 'QDrive',
           'terngrad': 'QTern'}

_POP = [
    {'s': 1, 'cnt': [3, 1], 'g': 0}, {'s': 2, 'cnt': [0, 4], 'g': 1}, {'s': 3, 'cnt': [2, 2], 'g': 0},
    {'s': 4, 'cnt': [5, 0], 'g': 1}, {'s': 5, 'cnt': [0, 0], 'g': 0}, {'s': 6, 'cnt': [1, 2], 'g': 1},
]


def _hp_grid(name, tier, rng):
  if name == 'agnostic':
    ws = [1, 3] if tier == 'quick' else [1, 2, 3, 4]
    return [{'W': w, 'nd': 2, 'epochs': 1 + (w % 2)} for w in ws]
  if name == 'hyp_cluster':
    return [{'K': 2}, {'K': 3, 'p0': 1}] if tier != 'quick' else [{'K': 3}]
  if name == 'mime_lite':
    return [{'clip': 0.25}, {}] if tier != 'quick' else [{'clip': 0.25}]
  if name == 'apfl':
    return [{'coef': 0.5, 'epochs': 2}] + ([{'coef': 1.0}] if tier != 'quick' else [])
  if name == 'fed_prox':
    return [{'prox': 0.25}]
  if name in AGGS:
    return [{'levels': 4, 'aseed': 3}] if name in ('uniform', 'uniform_arith', 'rotated') else [{'aseed': 3}]
  return [{'bs': 2, 'epochs': 2}] + ([{}] if tier != 'quick' else [])


def _history(rng, npop, rounds):
  hist = []
  for r in range(rounds):
    k = rng.choice([1, 2, 2, 3])
    hist.append(rng.sample(range(npop), k))        # cohort ids NOT in sorted order
  # force re-participation: the first round's first client comes back later
  if hist[0][0] not in hist[-1]:
    hist[-1] = hist[-1] + [hist[0][0]]
  return hist


def generate(tier, rng):
  yield from _generate_base(tier, rng)
  if tier != 'search':       # the same clauses under non-default global JAX flags, each in its own process
    from lib import c10c17_flags as flagrun
    for flag, value in (flagrun.FLAGS_QUICK if tier == 'quick' else flagrun.FLAGS_THOROUGH):
      yield {'name': 'flags', 'flag': flag, 'value': value, 'seed': rng.randrange(1000), 'hp': {}, 'rounds': [], 'pop': [],
             'names': ['uniform', 'apfl'] if tier == 'quick' else ['fed_avg', 'agnostic', 'hyp_cluster', 'apfl', 'rotated', 'uniform_arith']}


  # cohorts at and around powers of two (size-driven chunking): tiny payloads, reduced protocol, oracle only
  sizes = [257] if tier == 'quick' else [255, 256, 257, 1023, 1025, 4097]
  for n in sizes:
    for name in (['uniform'] if tier == 'quick' or n > 1100 else ['uniform', 'fed_avg', 'apfl']):
      hp = dict(_hp_grid(name, 'quick', rng)[0])
      yield {'name': name, 'hp': hp, 'pop': _POP, 'rounds': [list(range(n))[::-1], [n // 2, 0], list(range(n)), [1]],
             'branch': 0, 'seed': rng.randrange(1000), 'ser': 'pickle', 'fresh': False, 'forms': _FORMS[1], 'big': True}
  # ACROSS interpreter processes: the same histories in child processes with other PYTHONHASHSEEDs, and a
  # state handed over through save_state / load_state to a new process
  if tier != 'search':
    subs = []
    for name in (['fed_avg', 'mime', 'agnostic', 'hyp_cluster', 'apfl', 'uniform_arith'] if tier == 'quick' else ALGS + ['uniform_arith', 'rotated', 'drive']):
      for ids in (['bytes', 'str'] if tier != 'quick' or name in ('hyp_cluster', 'apfl') else ['bytes']):
        hp = dict(_hp_grid(name, 'quick', rng)[0])
        if name not in AGGS:
          hp.update(bs=2, epochs=2)          # seeded batching, batches of 2: the order of SGD steps matters
        subs.append({'name': name, 'hp': hp, 'pop': _POP, 'rounds': [[3, 0, 5], [1, 3], [5, 2, 0], [3]], 'branch': 1,
                     'seed': rng.randrange(1000), 'forms': dict(_FORMS[1], ids=ids)})
    seeds = [1] if tier == 'quick' else [1, rng.randrange(2, 2 ** 31)]
    yield {'name': 'xproc', 'cases': subs, 'hashseeds': seeds, 'handover': True, 'hp': {}, 'rounds': [], 'pop': []}


def _generate_base(tier, rng):
  reps = {'quick': 4, 'thorough': 16, 'search': 16}[tier]
  for name in ALGS + AGGS:
    for hp in _hp_grid(name, tier, rng):
      for i in range(reps):
        rounds = rng.choice([4, 5]) if tier == 'quick' else rng.choice([4, 5, 6])
        hist = _history(rng, len(_POP), rounds)
        if i == 0:      # hand-made: the empty client participates; a client repeats in consecutive rounds; an EMPTY cohort
          hist = [[4, 0], [1, 0], [], [2, 4], [3, 0, 1]] + hist[5:]
        if i == 1:      # the whole population at once, a single client, a client coming back after a round without it
          hist = [[3, 0, 5, 1, 4, 2], [2], [0, 5], [2, 3], [0]] + hist[5:]
        forms = _FORMS[i % len(_FORMS)]
        if name in AGGS:
          forms = dict(forms, clients=['list', 'gen', 'tuple', 'iter'][i % 4], dtype=['float32', 'float16', 'float32', 'bfloat16'][i % 4])
        hp_i = dict(hp)
        if name in ('fed_avg', 'fed_prox', 'hyp_cluster') and i % 6 == 4:
          hp_i['sopt'] = 'ign'        # a wrapped (composed) server optimizer
        pop = _POP
        if name not in AGGS:
          # container kind of the params (tree structure of the result must equal the input's) and memory layouts
          if i % 3 == 2:
            hp_i['ptree'] = ['tuple', 'nt', 'flatmap', 'none', 'list'][(i // 3 + ALGS.index(name)) % 5]
            lays = ['F', 'T', 'skip', 'neg', 'col', 'ro']      # byte-swapped dtypes are rejected by jax.jit itself (TypeError)
            pop = [dict(s, lay=lays[(j + i) % 6]) for j, s in enumerate(_POP)]
            hp_i['playout'] = lays[(i // 3) % 6]
        else:
          forms = dict(forms, plv=(i % 3 == 2), w=('one' if i % 5 == 4 else forms['w']))
        if name not in AGGS and i % 6 == 5:
          pop = [dict(s, nan=(j == 2)) for j, s in enumerate(pop)]     # client 2 holds a NaN label
        if name not in AGGS and tier != 'quick' and i % 8 in (3, 7):
          hp_i['backend'] = 'debug' if i % 8 == 3 else 'pmap'
        if name in ('fed_avg', 'apfl') and tier == 'quick' and i == 3:
          hp_i['backend'] = 'debug' if name == 'fed_avg' else 'pmap'
        yield {'name': name, 'hp': hp_i, 'pop': pop, 'rounds': hist, 'branch': len(hist) - 3, 'seed': rng.randrange(1000),
               'ser': 'file' if (i % 2 == 1) else 'pickle', 'fresh': i == 1 or (tier != 'quick' and i % 4 == 1),
               'forms': forms, 'nojit': tier != 'quick' and i % 8 == 5}


# how the arguments are delivered: container of the client tuple, id type (…0 = client 0 has the empty id),
# rng as jax / numpy array, aggregator weights as float / numpy scalar / 0-d jax array / with an exact 0 and a
# total below 1, positional or keyword call
_FORMS = [
    {'clients': 'list', 'ids': 'int0', 'rng': 'jax', 'w': 'float', 'kw': False},
    {'clients': 'list', 'ids': 'bytes', 'rng': 'jax', 'w': 'float', 'kw': False},
    {'clients': 'tuple', 'ids': 'str', 'rng': 'np', 'w': 'np', 'kw': True},
    {'clients': 'list', 'ids': 'bytes0', 'rng': 'jax', 'w': 'jnp', 'kw': False},
    {'clients': 'tuple', 'ids': 'str0', 'rng': 'np', 'w': 'frac', 'kw': True},
]


# ---- running -------------------------------------------------------------------

def _slots(name, state):
  """The state as a list of (kind, elements): 'a' one pytree, 'l' list, 'd' dict (sorted by key)."""
  if name in ('fed_avg', 'fed_prox', 'mime', 'mime_lite'):
    return [('a', [state.params]), ('a', [state.opt_state])]
  if name == 'agnostic':
    return [('a', [state.params]), ('a', [state.opt_state]), ('a', [state.domain_weights]), ('l', list(state.domain_window))]
  if name == 'hyp_cluster':
    return [('l', list(state.cluster_params)), ('l', list(state.opt_states))]
  if name == 'apfl':
    return [('a', [state.params]), ('a', [state.opt_state]),
            ('d', [state.client_states[k] for k in sorted(state.client_states, key=tiny.cid_index)])]
  return [('a', [state.num_bits]), ('a', [state.rng])]     # aggregators (num_bits: Python float, always 'new')


def _array_leaves(x):
  import jax
  return [l for l in jax.tree_util.tree_leaves(x) if hasattr(l, 'shape') and hasattr(l, 'dtype')]


def _pattern(name, old, new):
  """For every element of the new state: ['old', slot, index] when all its array
  leaves are the very objects of that element of the input state (first match),
  ['new'] when it shares no leaf object with the input, ['mixed'] otherwise."""
  olds = [(i, j, _array_leaves(e)) for i, (_, es) in enumerate(_slots(name, old)) for j, e in enumerate(es)]
  old_ids = {id(l) for _, _, ls in olds for l in ls}
  pat = []
  for _, es in _slots(name, new):
    row = []
    for e in es:
      ls = _array_leaves(e)
      hit = None
      for i, j, ols in olds:
        if ls and len(ls) == len(ols) and all(a is b for a, b in zip(ls, ols)):
          hit = ['old', i, j]
          break
      if hit is None:
        hit = ['new'] if not any(id(l) in old_ids for l in ls) else ['mixed']
      row.append(hit)
    pat.append(row)
  return pat


def _init_classes(name, state):
  """Identity classes of the initial state's elements (equal number = same object)."""
  ids, out = {}, []
  for kind, es in _slots(name, state):
    row = []
    for e in es:
      k = tuple(id(l) for l in _array_leaves(e))
      row.append(ids.setdefault(k, len(ids)))
    out.append([kind, row])
  return out


def _serialise(state, how):
  if how == 'pickle':
    return pickle.loads(pickle.dumps(state))
  import fedjax
  d = tempfile.mkdtemp(prefix='c10-')
  try:
    p = os.path.join(d, 'state')
    fedjax.serialization.save_state(state, p)
    return fedjax.serialization.load_state(p)
  finally:
    shutil.rmtree(d, ignore_errors=True)


def _forms(case):
  return case.get('forms') or _FORMS[0]


def _id(case, i):
  return tiny.cid(i, _forms(case)['ids'])


def _clients_for(case, rnd, datasets):
  f = _forms(case)
  rng = (lambda k: np.asarray(k)) if f['rng'] == 'np' else (lambda k: k)
  return [(_id(case, i), datasets[i % len(datasets)], rng(tiny.client_rng(case['seed'], rnd, i))) for i in case['rounds'][rnd]]


def _deliver(case, base):
  """The client tuple in the container form of the case (a new one-shot iterator every time)."""
  form = _forms(case)['clients']
  return {'list': lambda: list(base), 'tuple': lambda: tuple(base), 'gen': lambda: (c for c in base),
          'iter': lambda: iter(list(base))}[form]()


def _agg_clients(case, rnd):
  import jax
  import jax.numpy as jnp
  out = []
  f = _forms(case)
  dt = {'float32': jnp.float32, 'float16': jnp.float16, 'bfloat16': jnp.bfloat16}[f.get('dtype', 'float32')]
  for j, i in enumerate(case['rounds'][rnd]):
    p = tiny.init_params(i)
    p = jax.tree_util.tree_map(lambda l: jnp.asarray(l * (1 + rnd) + 0.125 * (i % 7), dt), p)
    p['lin']['m'] = jnp.asarray([[0.5 * (i % 5), -1.0, 0.25], [2.0, 0.0, 1.5 * (rnd + 1)]], dt)
    p['lin']['s'] = jnp.asarray([0.25 * (i % 3) - 0.5], dt)            # a size-1 leaf
    if f.get('plv') and dt == jnp.float32:      # the client's params as numpy arrays in non-default layouts
      lays = ['F', 'T', 'skip', 'neg', 'col', 'ro']      # byte-swapped dtypes are rejected by jax.jit itself (TypeError)
      p = {'lin': {k: tiny.relayout(np.asarray(v), lays[(j + i) % 6]) for j, (k, v) in enumerate(sorted(p['lin'].items()))}}
    w = float(sum(case['pop'][i % len(case['pop'])]['cnt']) + 1)
    if f['w'] == 'one':
      w = 1.0
    if f['w'] == 'np':
      w = np.float32(w)
    elif f['w'] == 'jnp':
      w = jnp.asarray(w, jnp.float32)
    elif f['w'] == 'frac':       # an exact 0, and a total weight strictly between 0 and 1
      w = 0.0 if j == 0 and len(case['rounds'][rnd]) > 1 else 0.25
    out.append((_id(case, i), p, w))
  return out


def _client_snapshot(clients, is_agg):
  if is_agg:
    return tiny.snapshot([(c, p, w) for c, p, w in clients])
  return tiny.snapshot([(c, dict(ds.raw_examples), r) for c, ds, r in clients])


def _call_raw(name, obj, state, clients, is_agg, kw=False):
  if is_agg:
    agg, st = obj.apply(clients_params_and_weights=clients, aggregator_state=state) if kw else obj.apply(clients, state)
    return st, agg
  return obj.apply(server_state=state, clients=clients) if kw else obj.apply(state, clients)


class _Boom(Exception):
  """raised on purpose by the harness half-way through a call"""


class _RaisingSeq(list):
  """A client list whose iteration raises after k clients (a cohort source that fails half-way)."""

  def __init__(self, items, k):
    super().__init__(items)
    self._k = k

  def __iter__(self):
    for i, x in enumerate(list.__iter__(self)):
      if i >= self._k:
        raise _Boom('clients iterable failed after %d clients' % self._k)
      yield x


def _raising_gen(items, k):
  for i, x in enumerate(items):
    if i >= k:
      raise _Boom('clients iterable failed after %d clients' % k)
    yield x


class _RaisingDataset:
  """A client dataset whose batch iterators raise after the first batch (a client that fails during training)."""

  def __init__(self, ds):
    self._ds = ds
    self.raw_examples = ds.raw_examples

  def __len__(self):
    return len(self._ds)

  def _wrap(self, view):
    def gen():
      for b in view:
        yield b
        break
      raise _Boom('client batches failed after the first batch')
    return gen()

  def shuffle_repeat_batch(self, *a, **k):
    return self._wrap(self._ds.shuffle_repeat_batch(*a, **k))

  def padded_batch(self, *a, **k):
    return self._wrap(self._ds.padded_batch(*a, **k))

  def batch(self, *a, **k):
    return self._wrap(self._ds.batch(*a, **k))


def _buffers(x):
  out = set()
  for l in _array_leaves(x):
    try:
      if hasattr(l, 'unsafe_buffer_pointer') and not l.is_deleted():
        out.add(l.unsafe_buffer_pointer())
    except Exception:
      pass
  return out


def _key_bits(k):
  import jax
  import jax.numpy as jnp
  k = jnp.copy(k)      # never look at a live buffer through numpy (see tiny.leaf_bytes)
  return np.asarray(jax.random.key_data(k)) if hasattr(jax.random, 'key_data') else np.asarray(k)


def _rng_path(root, key, depth):
  """Position of `key` on the all-zeros split path below root: k such that key = split^k(root)[0]; -1 if not there."""
  import jax
  cur = root
  want = _key_bits(key)
  for k in range(depth + 1):
    if np.array_equal(_key_bits(cur), want):
      return k
    cur = jax.random.split(cur)[0]
  return -1


def _scalar(leaf):
  dt = np.dtype(leaf[0])
  if dt.kind == 'V' and dt.itemsize == 2:       # bfloat16 (a void dtype to plain numpy): the upper half of a float32
    return float(np.frombuffer((np.frombuffer(leaf[2], np.uint16).astype(np.uint32) << 16).tobytes(), np.float32)[0])
  return float(np.frombuffer(leaf[2], dt)[0])


def _loose(a, b):
  """same leaves; a 0-d numeric leaf may differ in dtype (a numpy float64 0-d array accumulates in float64 where the
  Python-float / jax state accumulates in float32) when the value agrees to float32 rounding"""
  if len(a[0]) != len(b[0]):
    return False
  for x, y in zip(a[0], b[0]):
    if x == y:
      continue
    if x == 'deleted' or y == 'deleted' or x[1] != () or y[1] != ():
      return False
    u, v = _scalar(x), _scalar(y)
    tol = 2e-2 if min(np.dtype(x[0]).itemsize, np.dtype(y[0]).itemsize) <= 2 else 1e-6     # a float16 / bfloat16 running sum is coarse
    if x[0] == y[0] or not (abs(u - v) <= tol * max(1.0, abs(u))):      # float64 vs float32 (vs float16) accumulation of the same sum
      return False
  return True


def _same_out(o, s, d, values_only=False):
  same = tiny.same_values if values_only else tiny.same_snapshot
  return same(o[0], tiny.snapshot(s)) and same(o[1], tiny.snapshot(d))


def run(case):
  if case['name'] == 'xproc':
    return _run_xproc(case)
  if case['name'] == 'flags':
    from lib import c10c17_flags as flagrun
    return flagrun.run('c10', case['flag'], case['value'], case['names'], case['seed'])
  name, hp = case['name'], case['hp']
  is_agg = name in AGGS
  make = (lambda fresh=False: tiny.aggregator(name, hp, fresh)) if is_agg else (lambda fresh=False: tiny.algorithm(name, hp, fresh))
  obj = make()
  if is_agg:
    state = obj.init()
    root = state.rng
    datasets = None
  else:
    state = tiny.init_state(name, hp, obj)
    datasets = [tiny.client_dataset(s) for s in case['pop']]
  clients_of = (lambda r: _agg_clients(case, r)) if is_agg else (lambda r: _clients_for(case, r, datasets))
  kw = _forms(case)['kw']

  def _call(name, obj, state, clients, is_agg):      # deliver in the case's container form, every call a new one
    return _call_raw(name, obj, state, _deliver(case, clients), is_agg, kw)
  kept = []
  obs = {'init': _init_classes(name, state), 'rounds': [], 'restore_same': True, 'err': None,
         'rebranch_same': True, 'fresh_same': True, 'init_same': True, 'second_history_same': True}
  init_snap = tiny.snapshot(state)
  init_conts = tiny.containers(state)
  restored, post = None, []
  states, outs = [], []      # the input state object and the recorded result of every call of the main history
  nr = len(case['rounds'])
  try:
    for r in range(nr):
      clients = clients_of(r)
      before = tiny.snapshot(state)
      conts = tiny.containers(state) + tiny.containers(clients)
      cbefore = _client_snapshot(clients, is_agg)
      s1, d1 = _call(name, obj, state, clients, is_agg)
      o1 = (tiny.snapshot(s1), tiny.snapshot(d1))
      states.append(state)
      outs.append(o1)
      kept.append((s1, d1))
      in_buf = _buffers(state) | _buffers([(p, w) if is_agg else w for _, p, w in clients])
      ro = {
          'input_same': tiny.same_snapshot(before, tiny.snapshot(state)),
          'deleted': tiny.count_deleted(state),
          'clients_same': tiny.same_snapshot(cbefore, _client_snapshot(clients, is_agg)),
          'clients_deleted': tiny.count_deleted([(p, w) if is_agg else (dict(p.raw_examples), w) for _, p, w in clients]),
          'writes': tiny.writes(conts),
          'pattern': _pattern(name, state, s1),
          'keys': sorted(tiny.cid_index(k) for k in s1.client_states) if name == 'apfl' else [],
          # a NEW element of the result must not share a device buffer with anything the caller passed in
          'aliases': sum(1 for (_, es), row in zip(_slots(name, s1), _pattern(name, state, s1))
                         for e, p in zip(es, row) if p == ['new'] and (_buffers(e) & in_buf)) + len(_buffers(d1) & in_buf),
          'rngpath': _rng_path(root, s1.rng, 2 * nr + 2) if is_agg else 0,
      }
      try:
        s2, d2 = _call(name, obj, state, clients, is_agg)
        ro['repeat_same'] = _same_out(o1, s2, d2)
      except Exception as ex:   # e.g. the first call deleted (donated) buffers of its arguments
        ro['repeat_same'] = False
        ro['second_err'] = type(ex).__name__ + ': ' + str(ex)[:120]
      # an EARLIER call made again now (other calls happened in between, through the same object)
      ro['earlier_call_same'] = True
      if r >= 1:
        try:
          j = (r - 1) // 2
          sj, dj = _call(name, obj, states[j], clients_of(j), is_agg)
          ro['earlier_call_same'] = _same_out(outs[j], sj, dj)
        except Exception as ex:
          ro['earlier_call_same'] = False
          ro['earlier_err'] = type(ex).__name__ + ': ' + str(ex)[:120]
      ro['first_result_readable'] = (tiny.count_deleted(s1) + tiny.count_deleted(d1) == 0 and
                                     tiny.same_snapshot(o1[0], tiny.snapshot(s1)))
      ro['still_same_after_second'] = (tiny.same_snapshot(before, tiny.snapshot(state)) and tiny.count_deleted(state) == 0
                                       and not tiny.writes(conts))
      if name == 'hyp_cluster':
        ids = [int(np.asarray(d1[_id(case, i)]['cluster_id'])) for i in case['rounds'][r]]
        sizes = [sum(case['pop'][i % len(case['pop'])]['cnt']) for i in case['rounds'][r]]
        ro['assign'] = ids
        ro['live'] = [any(a == k and n > 0 for a, n in zip(ids, sizes)) for k in range(hp.get('K', 2))]
      if name == 'apfl':
        # evaluating the personalised models (whole population, generator consumed) must leave the state alone
        eb, ec = tiny.snapshot(s1), tiny.containers(s1)
        list(tiny.apfl_eval()(s1, [(_id(case, i), d) for i, d in enumerate(datasets)]))
        ro['eval_state_same'] = tiny.same_snapshot(eb, tiny.snapshot(s1)) and not tiny.writes(ec)
      # the container kinds of the params survive the round (tuple / NamedTuple / FlatMap / None sub-tree ...)
      import jax as _jax
      if not is_agg:
        ps_in = state.cluster_params if name == 'hyp_cluster' else [state.params]
        ps_out = s1.cluster_params if name == 'hyp_cluster' else [s1.params]
        ro['structure_same'] = len(ps_in) == len(ps_out) and all(
            tiny.kinds(a) == tiny.kinds(b) for a, b in zip(ps_in, ps_out))
      # the same values in plain C-contiguous arrays give the same bits
      if r == 0 and not is_agg and any(s.get('lay') for s in case['pop']):
        plain = [tiny.client_dataset({k: v for k, v in s.items() if k != 'lay'}) for s in case['pop']]
        hp0 = {k: v for k, v in hp.items() if k != 'playout'}
        sp, dp = _call(name, obj, tiny.init_state(name, hp0, obj), _clients_for(case, 0, plain), is_agg)
        ro['layout_same'] = _same_out(o1, sp, dp)
      ro['nclients'] = len(clients)
      ro['trained_examples'] = 0 if is_agg else sum(sum(case['pop'][i % len(case['pop'])]['cnt']) for i in case['rounds'][r])
      obs['rounds'].append(ro)
      # continuation from the serialised copy (2 rounds after the branch point)
      if restored is not None:
        try:
          rs, rd = _call(name, obj, restored, clients, is_agg)
          post.append(_same_out(o1, rs, rd, True))
          restored = rs
        except Exception:     # arguments destroyed by the first call
          post.append(False)
      state = s1
      if r == case['branch']:
        restored = _serialise(state, case.get('ser', 'pickle'))
        post.append(tiny.same_values(tiny.snapshot(state), tiny.snapshot(restored)))
    # STATES WITH WRITABLE NUMPY LEAVES (e.g. restored from a checkpoint with tree_map(np.array, state)): 0-d arrays
    # included, Python scalars kept where the state has them.  `x += y` on such a leaf adds IN PLACE.
    obs['numpy_leaves'] = []
    import jax as _jx
    for j in sorted({0, min(case['branch'] + 1, nr - 1)}) if nr else []:
      rec = {'round': j}
      try:
        for kind in ('array', 'scalar'):
          conv = (lambda l: np.array(l)) if kind == 'array' else \
                 (lambda l: (float(l) if isinstance(l, float) or (hasattr(l, 'shape') and l.shape == () and 'float' in str(getattr(l, 'dtype', ''))) and is_agg else np.array(l)))
          ns = _jx.tree_util.tree_map(conv, states[j])
          before = tiny.snapshot(ns)
          sa, da = _call(name, obj, ns, clients_of(j), is_agg)
          oa = (tiny.snapshot(sa), tiny.snapshot(da))
          rec[kind + '_input_same'] = tiny.same_snapshot(before, tiny.snapshot(ns))
          sb, db = _call(name, obj, ns, clients_of(j), is_agg)
          rec[kind + '_repeat_same'] = _same_out(oa, sb, db, True) and tiny.same_snapshot(before, tiny.snapshot(ns))
          rec[kind + '_equals_jax_run'] = _loose(outs[j][0], oa[0]) and _loose(outs[j][1], oa[1])
          rec[kind + '_result_kept'] = tiny.same_values(oa[0], tiny.snapshot(sa))
          if j + 1 < nr:       # continue from the result of the numpy-leaf call
            sc, dc = _call(name, obj, _jx.tree_util.tree_map(conv, sa), clients_of(j + 1), is_agg)
            rec[kind + '_continue_same'] = _loose(outs[j + 1][0], tiny.snapshot(sc)) and _loose(outs[j + 1][1], tiny.snapshot(dc))
      except Exception as ex:
        rec['err'] = type(ex).__name__ + ': ' + str(ex)[:150]
      obs['numpy_leaves'].append(rec)
    # ERROR RECOVERY: calls that fail half-way (the cohort source raises after 0 / 1 / n-1 clients; a client whose batches
    # raise), the exception caught by the caller; then the SAME object, asked the recorded valid question again, must
    # answer as before (state, diagnostics, num_bits), and the state it was given must be untouched
    obs['recovery'] = []
    j = next((r for r in range(nr) if len(case['rounds'][r]) >= 2), None)
    if j is not None:
      base = clients_of(j)
      n = len(base)
      fails = [('iter', k) for k in sorted({0, 1, n - 1})]
      if not is_agg and any(len(c[1]) >= 3 for c in base):
        fails.append(('batches', 0))
      for kind, k in fails:
        sb, cb = tiny.snapshot(states[j]), tiny.containers(states[j])
        if kind == 'iter':
          bad = _raising_gen(clients_of(j), k) if is_agg else _RaisingSeq(clients_of(j), k)
        else:
          cl = clients_of(j)
          i0 = next(i for i, c in enumerate(cl) if len(c[1]) >= 3)
          cl[i0] = (cl[i0][0], _RaisingDataset(cl[i0][1]), cl[i0][2])
          bad = cl
        raised = False
        try:
          _call_raw(name, obj, states[j], bad, is_agg, kw)
        except _Boom:
          raised = True
        rec = {'kind': kind, 'k': k, 'raised': raised,
               'state_same': tiny.same_snapshot(sb, tiny.snapshot(states[j])) and not tiny.writes(cb) and tiny.count_deleted(states[j]) == 0}
        try:
          sj, dj = _call(name, obj, states[j], clients_of(j), is_agg)
          rec['answer_same'] = _same_out(outs[j], sj, dj)
        except Exception as ex:
          rec['answer_same'] = False
          rec['err'] = type(ex).__name__ + ': ' + str(ex)[:120]
        obs['recovery'].append(rec)
      if not is_agg:      # an init() that fails (a leaf no optimizer can handle); init() again is checked below
        try:
          obj.init({'lin': {'b': 'not an array', 'w': object()}} if name != 'hyp_cluster' else [{'lin': {'b': 'x'}}, None])
          obs['bad_init_raised'] = False
        except Exception:
          obs['bad_init_raised'] = True
    # every result the caller kept is still what it was when it was returned
    obs['kept_same'] = all(_same_out(o, s, d) and tiny.count_deleted(s) + tiny.count_deleted(d) == 0 for o, (s, d) in zip(outs, kept))
    # another object built in the same process from the same loss / grad functions with other hyper-parameters,
    # used once; then the first-built object must still answer as before
    if case.get('fresh') and nr:
      try:
        hp2 = dict(hp, aseed=hp.get('aseed', 0) + 1) if is_agg else dict(hp, clr=0.0625, slr=0.5)
        obj3 = tiny.aggregator(name, hp2, True) if is_agg else tiny.algorithm(name, hp2, True)
        st3 = obj3.init() if is_agg else tiny.init_state(name, hp2, obj3)
        _call(name, obj3, st3, clients_of(0), is_agg)
        sj, dj = _call(name, obj, states[0], clients_of(0), is_agg)
        obs['sibling_same'] = _same_out(outs[0], sj, dj)
      except Exception as ex:
        obs['sibling_same'] = False
        obs['sibling_err'] = type(ex).__name__ + ': ' + str(ex)[:120]
    if case.get('nojit') and nr:
      import jax
      try:
        with jax.disable_jit():
          a1 = _call(name, obj, states[0], clients_of(0), is_agg)
          a2 = _call(name, obj, states[0], clients_of(0), is_agg)
        obs['nojit_same'] = _same_out((tiny.snapshot(a1[0]), tiny.snapshot(a1[1])), a2[0], a2[1]) and \
            tiny.same_snapshot(init_snap, tiny.snapshot(states[0]))
      except Exception as ex:
        obs['nojit_same'] = False
        obs['nojit_err'] = type(ex).__name__ + ': ' + str(ex)[:120]
    # the very first state object still has its value, init() on the same object gives it again, and a
    # second history from that second init() repeats the first one
    obs['init_same'] = tiny.same_snapshot(init_snap, tiny.snapshot(states[0])) and not tiny.writes(init_conts)
    try:
      st2 = obj.init() if is_agg else tiny.init_state(name, hp, obj)
      obs['init_same'] &= tiny.same_snapshot(init_snap, tiny.snapshot(st2)) and _init_classes(name, st2) == obs['init']
      for r in range(min(2, nr)):
        st2, dd = _call(name, obj, st2, clients_of(r), is_agg)
        obs['second_history_same'] &= _same_out(outs[r], st2, dd)
    except Exception as ex:
      obs['second_history_same'] = False
      obs['second_history_err'] = type(ex).__name__ + ': ' + str(ex)[:120]
    # branch a second time from the very state object the history branched from
    b = case['branch'] + 1
    if b < nr:
      try:
        cur = states[b]
        for r in range(b, nr):
          cur, dd = _call(name, obj, cur, clients_of(r), is_agg)
          obs['rebranch_same'] &= _same_out(outs[r], cur, dd)
      except Exception as ex:
        obs['rebranch_same'] = False
        obs['rebranch_err'] = type(ex).__name__ + ': ' + str(ex)[:120]
      # a freshly built algorithm / aggregator object continuing from the serialised state
      if case.get('fresh'):
        try:
          obj2 = make(True)
          cur = _serialise(states[b], case.get('ser', 'pickle'))
          for r in range(b, nr):
            cur, dd = _call(name, obj2, cur, clients_of(r), is_agg)
            obs['fresh_same'] &= _same_out(outs[r], cur, dd, True)
        except Exception as ex:
          obs['fresh_same'] = False
          obs['fresh_err'] = type(ex).__name__ + ': ' + str(ex)[:120]
  except Exception as ex:    # an algorithm that raises on in-quantifier input is itself a finding
    obs['err'] = type(ex).__name__ + ': ' + str(ex)[:200]
    obs['err_empty_cohort'] = len(obs['rounds']) < nr and not case['rounds'][len(obs['rounds'])]
  obs['restore_same'] = all(post)
  obs['restore_checks'] = len(post)
  return obs


def _digest(x):
  import hashlib
  leaves, _ = tiny.snapshot(x)
  return hashlib.sha1(repr(leaves).encode()).hexdigest()


def history_digests(payload):
  """Per sub-case: the digest of (state, diagnostics) after every round from round `start` on; the start state is
  init() or, for a hand-over, loaded with load_state from the file another process wrote.  Runs in ANY process."""
  import fedjax
  out = []
  for sub in payload['cases']:
    case, start, path = sub['case'], sub.get('start', 0), sub.get('path')
    name, hp = case['name'], case['hp']
    is_agg = name in AGGS
    try:
      obj = tiny.aggregator(name, hp) if is_agg else tiny.algorithm(name, hp)
      if path:
        state = fedjax.serialization.load_state(path)
      else:
        state = obj.init() if is_agg else tiny.init_state(name, hp, obj)
      datasets = None if is_agg else [tiny.client_dataset(s) for s in case['pop']]
      ds = []
      for r in range(start, len(case['rounds'])):
        clients = _agg_clients(case, r) if is_agg else _clients_for(case, r, datasets)
        state, diag = _call_raw(name, obj, state, clients, is_agg)
        ds.append(_digest((state, diag)))
        if sub.get('save_at') == r:
          fedjax.serialization.save_state(state, sub['save_path'])
      out.append(ds)
    except Exception as ex:
      out.append(['error: ' + type(ex).__name__ + ': ' + str(ex)[:150]])
  return out


def _run_xproc(case):
  from lib import c10c17_xproc as xp
  d = tempfile.mkdtemp(prefix='c10-xproc-')
  try:
    subs = [{'case': c, 'save_at': c['branch'], 'save_path': os.path.join(d, 'state%d' % i)} for i, c in enumerate(case['cases'])]
    import concurrent.futures
    with concurrent.futures.ThreadPoolExecutor(4) as ex:     # the children start while this process runs its own copy
      futs = [(hs, ex.submit(xp.call, 'c10', 'history_digests', {'cases': [{'case': c} for c in case['cases']]}, hs))
              for hs in case['hashseeds']]
      here = history_digests({'cases': subs})
      obs = {'err': None, 'here': here, 'children': []}
      hand = None
      if case.get('handover'):      # continue, in a new process, from the state this process saved after round `branch`
        hand = ex.submit(xp.call, 'c10', 'history_digests',
                         {'cases': [{'case': s['case'], 'start': s['save_at'] + 1, 'path': s['save_path']} for s in subs]}, 2)
      for hs, f in futs:
        r = f.result()
        obs['children'].append({'hashseed': hs, 'kind': 'same history', 'err': r['err'], 'digests': r.get('result')})
      if hand is not None:
        r = hand.result()
        obs['children'].append({'hashseed': 2, 'kind': 'hand-over', 'err': r['err'], 'digests': r.get('result')})
    return obs
  finally:
    shutil.rmtree(d, ignore_errors=True)


def oracle(case, obs):
  n = case['name']
  out = []
  if n == 'xproc':
    for ch in obs['children']:
      if ch['err']:
        out.append(('xproc.harness-failed', f'child process (PYTHONHASHSEED={ch["hashseed"]}): {ch["err"]}'))
        continue
      for sub, mine, theirs in zip(case['cases'], obs['here'], ch['digests']):
        if any(str(x).startswith('error') for x in mine + theirs):
          out.append((sub['name'] + '.raises', f'{sub["name"]}: {[x for x in mine + theirs if str(x).startswith("error")][:1]}'))
          continue
        tail = mine[len(mine) - len(theirs):]
        if theirs != tail:
          r = next(i for i, (a, b) in enumerate(zip(tail, theirs)) if a != b) + len(mine) - len(theirs)
          out.append((sub['name'] + '.process-dependent',
                      f'{sub["name"]} ({ch["kind"]}, ids {sub["forms"]["ids"]}): another interpreter process (PYTHONHASHSEED={ch["hashseed"]}) '
                      f'computes a different state / diagnostics from round {r} on, from the same state and clients'))
    return out
  if n == 'flags':
    if obs['err']:
      return [('flags.harness-failed', f'{case["flag"]}={case["value"]}: {obs["err"]}')]
    return [(k, f'under {case["flag"]}={case["value"]}: {w}') for _, vs in obs['results'] for k, w in vs]
  if obs['err']:
    if obs.get('err_empty_cohort'):
      return [(n + '.empty-cohort-raises', f'{n}: apply() on an empty client selection raised {obs["err"]}')]
    return [(n + '.raises', f'{n}: apply raised {obs["err"]}')]
  for rec in obs.get('numpy_leaves', []):
    if rec.get('err'):
      out.append((n + '.raises', f'{n}: apply() from a state with numpy leaves raised {rec["err"]}'))
      continue
    for kind in ('array', 'scalar'):
      what = 'writable numpy arrays' if kind == 'array' else 'Python scalars / numpy arrays'
      if not rec.get(kind + '_input_same', True):
        out.append((n + '.input-state-changed', f'{n} round {rec["round"]}: a server state whose leaves are {what} changed value during apply()'))
      if not rec.get(kind + '_repeat_same', True) or not rec.get(kind + '_result_kept', True):
        out.append((n + '.not-repeatable', f'{n} round {rec["round"]}: from a state whose leaves are {what}, a second identical apply() differs (or the first result changed)'))
      if not rec.get(kind + '_equals_jax_run', True) or not rec.get(kind + '_continue_same', True):
        out.append((n + '.restore-diverges', f'{n} round {rec["round"]}: a state whose leaves are {what} (as restored from a checkpoint) continues differently from the jax-array state of the same value'))
  for rec in obs.get('recovery', []):
    what = f'a call whose {"cohort source raised after %d clients" % rec["k"] if rec["kind"] == "iter" else "client batches raised"}'
    if not rec['answer_same']:
      out.append((n + '.failed-call-leaves-state', f'{n}: after {what} (exception caught), the same object answers a valid call differently '
                  f'than before {rec.get("err", "")}'))
    if not rec['state_same']:
      out.append((n + '.input-state-changed', f'{n}: {what} changed / deleted the server state it was given'))
  if not obs.get('kept_same', True):
    out.append((n + '.result-invalidated', f'{n}: a result kept by the caller changed or was deleted by later calls'))
  if not obs.get('sibling_same', True):
    out.append((n + '.hidden-state', f'{n}: after another object with other hyper-parameters was built and used, the first one answers differently'))
  if not obs.get('nojit_same', True):
    out.append((n + '.not-repeatable', f'{n}: under jax.disable_jit() two identical calls differ or the input state changed'))
  for r, ro in enumerate(obs['rounds']):
    if ro.get('aliases'):
      out.append((n + '.result-aliases-input', f'{n} round {r}: {ro["aliases"]} new result arrays share a device buffer with the arguments'))
    if not ro['input_same'] or not ro['still_same_after_second']:
      out.append((n + '.input-state-changed', f'{n} round {r}: the caller\'s server state no longer has its value after apply()'))
    if ro['writes']:
      out.append((n + '.input-container-written', f'{n} round {r}: apply() wrote into input containers {ro["writes"]}'))
    if ro['deleted']:
      out.append((n + '.input-donated', f'{n} round {r}: {ro["deleted"]} arrays of the input state are deleted (donated) after apply()'))
    if not ro['clients_same'] or ro['clients_deleted']:
      out.append((n + '.clients-changed', f'{n} round {r}: the client tuple changed value or lost buffers'))
    if not ro['repeat_same']:
      out.append((n + '.not-repeatable', f'{n} round {r}: a second apply() with the same arguments returned a different state / diagnostics'))
    if not ro.get('earlier_call_same', True):
      out.append((n + '.hidden-state', f'{n} round {r}: an earlier call repeated after other calls through the same object returned a different result'))
    if not ro.get('structure_same', True):
      out.append((n + '.tree-structure-changed', f'{n} round {r}: the params of the new state do not have the tree structure (container kinds, dict ~ FlatMap) of the input\'s'))
    if not ro.get('layout_same', True):
      out.append((n + '.layout-dependent', f'{n} round {r}: the same values in non-default memory layouts (F-order, strided, read-only, byte-swapped) give different bits'))
    if not ro.get('eval_state_same', True):
      out.append((n + '.eval-mutates-state', f'{n} round {r}: evaluating the personalised models changed the server state it was given'))
    if not ro['first_result_readable']:
      out.append((n + '.result-invalidated', f'{n} round {r}: the first result changed or was deleted by the second call'))
  if not obs['restore_same']:
    out.append((n + '.restore-diverges', f'{n}: continuing from the serialised-and-restored state diverged from the original continuation'))
  if not obs.get('init_same', True):
    out.append((n + '.init-not-repeatable', f'{n}: after the history the first state object / a second init() on the same object no longer has the initial value'))
  if not obs.get('second_history_same', True):
    out.append((n + '.second-history-differs', f'{n}: a second history from a second init() on the same object differs from the first'))
  if not obs.get('rebranch_same', True):
    out.append((n + '.rebranch-diverges', f'{n}: branching a second time from the same state gave different states'))
  if not obs.get('fresh_same', True):
    out.append((n + '.fresh-object-diverges', f'{n}: a freshly built algorithm object continuing from the serialised state diverged (state kept outside the server state)'))
  if obs['restore_checks'] < 3:
    out.append(('harness.no-restore-check', 'history too short for the restore clause'))
  return out


# ---- Coq encoding ----------------------------------------------------------------

def _pat(p):
  return f'(POld {p[1]} {p[2]})' if p[0] == 'old' else 'PNew' if p[0] == 'new' else 'PMixed'


def _slot_desc(kind, row, keys):
  if kind == 'a':
    return f'(SA {row[0]})'
  if kind == 'l':
    return '(SL [' + '; '.join(str(x) for x in row) + '])'
  return '(SD ' + fw.clist([f'({k}%Z, {v})' for k, v in zip(keys, row)]) + ')'


def encode(case, obs):
  if case['name'] in ('flags', 'xproc'):
    return None
  if obs['err'] or case['hp'].get('backend') or case['hp'].get('sopt') == 'ign' or case.get('big'):
    return None     # the scripts model the jit backend of for_each_client (gen/Gen_for_each_client.v: jit_*); debug / pmap, and the ignore-grads server optimizer (which hands the ignored leaf back as the very input object): oracle only
  name = case['name']
  init = fw.clist([_slot_desc(k, row, []) for k, row in obs['init']])
  rounds, robs = [], []
  for r, ro in enumerate(obs['rounds']):
    cids = fw.zlist(case['rounds'][r])
    assign = '[' + '; '.join(str(a) for a in ro.get('assign', [])) + ']'
    live = fw.blist(ro.get('live', []))
    rounds.append(f'(mkRd ({cids})%Z {assign} {live})')
    pat = fw.clist([fw.clist([_pat(p) for p in row]) for row in ro['pattern']])
    robs.append(f'(mkRO {len(ro["writes"]) + ro["deleted"]} {pat} ({fw.zlist(ro["keys"])})%Z {max(ro["rngpath"], 0) if ro["rngpath"] >= 0 else 999})')
  W = case['hp'].get('W', 1)
  K = case['hp'].get('K', 2)
  return (f'((mkC10 {ALG_COQ[name]} {W} {K} {init} {fw.clist(rounds)}, {fw.clist(robs)})%nat)')


def nontrivial(case, obs):
  if case['name'] == 'xproc':
    return bool(obs['children'])
  if case['name'] == 'flags':
    return bool(obs['results'])
  seen, rep = set(), False
  for sel in case['rounds']:
    rep |= bool(seen & set(sel))
    seen |= set(sel)
  return rep and not obs['err'] and any(ro['nclients'] for ro in obs['rounds'])


def describe(case, obs):
  if case['name'] == 'xproc':
    return {'name': 'xproc', 'children': len(obs['children'])}
  if case['name'] == 'flags':
    return {'name': 'flags', 'flag': case['flag']}
  return {'name': case['name'], 'rounds': len(case['rounds']), 'serialiser': case.get('ser', 'pickle'),
          'max_clients_per_round': max(len(s) for s in case['rounds'])}


def shrink(case):
  rs = case['rounds']
  if len(rs) > 4:
    yield {**case, 'rounds': rs[:-1], 'branch': len(rs) - 4}
  for r, sel in enumerate(rs):
    if len(sel) > 1:
      for x in sel:
        yield {**case, 'rounds': rs[:r] + [[y for y in sel if y != x]] + rs[r + 1:]}
