#!/venv/bin/python
"""C02 regression list of code changes: applies each one to a scratch copy of /repo/fedjax
and runs `VERIF_REPO=<copy> ./check C02`.  Never touches /repo.

  python3 tools/harness/c02_mutations.py            # all
  python3 tools/harness/c02_mutations.py sort_asc   # some

Expectation per entry: 'viol' = property-breaking, must be a VIOLATION with a failing input;
'tie' = unobservable on the installed JAX but breaks what the proof relies on: VIOLATION
no-failing-input-found; 'ok' = equivalent change, must stay OK (no false alarm).
The seeded changes C02-s1 / s2 / t1 / t2 / u1 / u2 / v1 / v2 are run through tools/seed_run.sh as well
(all must be VIOLATIONs with a failing input).
"""
import json
import os
import re
import shutil
import subprocess
import sys
import tempfile

F = 'fedjax/core/for_each_client.py'
MUTS = {
    'clean': ('ok', None, None),
    'state_mask': ('viol', "functools.partial(jnp.where, mask), next_state, state\n      )", "lambda a, b: a, next_state, state\n      )"),
    'where_swapped': ('viol', "functools.partial(jnp.where, mask), next_state, state\n      )", "functools.partial(jnp.where, mask), state, next_state\n      )"),
    'result_mask': ('ok', "lambda x: jnp.where(mask, x, jnp.zeros_like(x)), step_result", "lambda x: x, step_result"),
    'no_filter': ('viol', "          if not block.client_mask[i]:\n            continue\n", ""),
    'trunc_off1': ('viol', "step_results[: block.num_batches[i]]", "step_results[: block.num_batches[i] + 1]"),
    'trunc_max': ('viol', "step_results[: block.num_batches[i]]", "step_results[: block.num_batches[0]]"),
    'split_wrong_lane': ('viol', "lambda x: x[i],  # pylint: disable=cell-var-from-loop", "lambda x: x[i - 1],  # pylint: disable=cell-var-from-loop"),
    'no_reverse': ('ok', "        outputs.reverse()\n", ""),
    'pad_by_none_id': ('viol', "          if not block.client_mask[i]:\n            continue\n", "          if block.client_id[i] is None:\n            continue\n"),
    'pad_by_falsy_id': ('viol', "          if not block.client_mask[i]:\n            continue\n", "          if not block.client_id[i]:\n            continue\n"),
    'sort_asc': ('viol', "clients.sort(key=lambda x: len(x[1]), reverse=True)", "clients.sort(key=lambda x: len(x[1]))"),
    'ids_unsorted': ('viol', "client_id=[client_id for client_id, _, _ in block],", "client_id=[client_id for client_id, _, _ in sorted(block, key=lambda c: str(c[0]))],"),
    'range_drop_last': ('viol', "for i in range(0, len(clients), block_size):", "for i in range(0, len(clients) - 1, block_size):"),
    'pad_too_few': ('viol', "for j in range(block_size - len(block)):", "for j in range(block_size - len(block) - 1):"),
    'mask_off1': ('viol', "if j < len(batches):", "if j <= len(batches) and j < len(batches) + (1 if len(batches) < max_num_batches else 0):"),
    'pad_cin_ones': ('ok', "padding_client_input = jax.tree_util.tree_map(jnp.zeros_like,", "padding_client_input = jax.tree_util.tree_map(jnp.ones_like,"),
    'restore_none': ('viol', "  finally:\n    set_for_each_client_backend(old)", "  finally:\n    set_for_each_client_backend(None)"),
    'no_restore_exc': ('viol', "  try:\n    set_for_each_client_backend(backend)\n    yield\n  finally:\n    set_for_each_client_backend(old)", "  set_for_each_client_backend(backend)\n  yield\n  set_for_each_client_backend(old)"),
    'not_thread_local': ('viol', "class BackendChoice(threading.local):", "class BackendChoice:"),
    'old_via_get': ('tie', "  old = _BACKEND_CHOICE.backend\n  try:", "  old = _BACKEND_CHOICE.get()\n  try:"),
    'bind_default_only': ('viol', "  for_each_client_backend_ = get_for_each_client_backend()\n", "  for_each_client_backend_ = BackendChoice.DEFAULT_BACKEND\n"),
    'no_copy': ('tie', "return jax.tree_util.tree_map(jnp.copy, state)", "return state"),
    'jit_donate_batch': ('viol', "jit_client_step = jax.jit(client_step, donate_argnums=0)", "jit_client_step = jax.jit(client_step, donate_argnums=(0, 1))"),
    'pmap_donate_shared': ('ok', "p_client_init = jax.pmap(client_init)", "p_client_init = jax.pmap(client_init, donate_argnums=1)"),
    'debug_skip_final': ('viol', "            output = client_final(shared_input, state)\n", "            output = client_final(shared_input, state) if client_batches else state\n"),
    'jit_skip_last_result': ('viol', "      return output, step_results\n", "      return output, step_results[:-1] if len(step_results) > 2 else step_results\n"),
    'wsr_wrapper_keeps': ('viol', "      yield client_id, client_output\n\n  return run", "      yield client_id, client_output, ()\n\n  return run"),
}
VERIF = os.path.dirname(os.path.dirname(os.path.dirname(os.path.abspath(__file__))))


def run_one(name):
  exp, a, b = MUTS[name]
  top = tempfile.mkdtemp(prefix='c02-mut-')
  try:
    shutil.copytree('/repo/fedjax', os.path.join(top, 'fedjax'))
    p = os.path.join(top, F)
    with open(p) as f:
      s = f.read()
    if a is not None:
      if s.count(a) != 1:
        return name, exp, 'MUTATION DOES NOT APPLY', ''
      with open(p, 'w') as f:
        f.write(s.replace(a, b))
    env = dict(os.environ, VERIF_REPO=top)
    r = subprocess.run(['./check', 'C02'], cwd=VERIF, env=env, capture_output=True, text=True, timeout=1800)
    line = next((ln for ln in r.stdout.split('\n') if ln.startswith(('OK', 'VIOLATION'))), 'NO VERDICT')
    got = 'ok' if line.startswith('OK') else 'tie' if 'no-failing-input-found' in line else 'viol'
    detail = ''
    m = re.search(r'replay=(\S+)', line)
    if m and os.path.exists(m.group(1)):
      with open(m.group(1)) as f:
        rp = json.load(f)
      detail = '%s | %s | broken: %s' % (rp.get('key'), (rp.get('what') or '')[:110],
                                        [(x.get('kind'), (x.get('blame') or {}).get('lemma') if x.get('kind') == 'theorem' else '')
                                         for x in rp.get('broken', [])])
      os.remove(m.group(1))
    return name, exp, got, detail
  finally:
    shutil.rmtree(top, ignore_errors=True)
    import hashlib
    shutil.rmtree('/tmp/verif-coq-' + hashlib.md5(os.path.realpath(top).encode()).hexdigest()[:10], ignore_errors=True)


def main():
  names = sys.argv[1:] or list(MUTS)
  bad = 0
  for n in names:
    name, exp, got, detail = run_one(n)
    flag = 'as expected' if exp == got else '*** UNEXPECTED (expected %s)' % exp
    bad += exp != got
    print(f'{name:22s} {got:5s} {flag}  {detail}', flush=True)
  sys.exit(1 if bad else 0)


if __name__ == '__main__':
  main()
