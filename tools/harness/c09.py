"""C09 harness: effect-trace refinement + crash injection for
run_federated_experiment / save_checkpoint / load_latest_checkpoint.

The `tf` object of fedjax.core.serialization, fedjax.training.checkpoint and
fedjax.training.federated_experiment is replaced (module attribute, this process
only) by a recording proxy over the real TensorFlow gfile API on the local file
system (lib/crashfs.py).  A case is a configuration plus a crash history
[[k, sub, cls], ...]: the experiment call is made once per entry and killed at
model-level effect k (sub / cls pick the raw write call and the torn-prefix class
when effect k is a write), then made once more and left to complete.
"""
import collections
import os
import pickle
import re
import shutil
import tempfile

from lib import fw
from lib import crashfs
from lib import deathbox

PROP = 'C09'
COQ_HEADER = ('From Coq Require Import String.\nFrom Coq Require Import List.\nFrom FV Require Import Model.C09_Model.\n'
              'Local Open Scope Z_scope.')
COQ_AGREE = 'C09_agree'
COQ_MODEL_TARGETS = ['Model/C09_Model']
RULE = ('grid num_rounds 0..6 x checkpoint_frequency 0..3 x num_checkpoints_to_keep 1..3 x eval_frequency 0..2 '
        '(plus num_rounds 11, root_dir with regex metacharacters, 0..2 final evaluations), a crash injected at EVERY '
        'model-level effect index of the first run (all three torn-prefix classes for checkpoint writes), crash '
        'histories of depth 2 (quick) / 3 (thorough), restart after completion; toy integer algorithm + real '
        'UniformGetClientSampler, a mixed-kind JAX pytree state (weak scalar, bfloat16/float16, int32, PRNG key) compared by '
        'leaf type / dtype / weak_type / bits, and FedAvg configurations; non-trivial = at least one crash actually happened '
        'and at least one round was configured; distinct = distinct case JSON')
TRUSTED = [
    'tf.io.gfile.rename / remove are atomic on the local file system; files appear only through the recorded effects',
    'process death is simulated by a BaseException raised at an effect boundary (or inside a write, leaving a '
    'prefix on disk) after which every further effect of the dying call is refused',
    'pickle.load raises on every strict prefix of a pickle (used to recognise torn files)',
]
ASSUMPTIONS = [
    'step : S -> Z -> S -- the algorithm is round-deterministic and the sampler is round-indexed: the state after '
    'round k is a function of the state before it and of k only (C10, C13)',
    'load (save s) = s -- save_state / load_state round-trip (C16)',
    '0 <= num_rounds < 10^8 (8-digit names); num_checkpoints_to_keep >= 1 is needed by C09_retention only',
    'the experiment directory is used by this experiment only (starts empty); rename and remove are atomic',
]
PARTIAL = [
    'OS-level write reordering without fsync is below the model: a crash is a truncation of the effect sequence',
    'tensorboard summaries (Logger.log) are stubbed: tensorboard is absent in this environment',
]
CASE_TIMEOUT = 300

_CK = re.compile(r'^checkpoint_([0-9]{8})$')          # the property's own wording: checkpoint_<8-digit round>
_TMP = re.compile(r'^checkpoint_([0-9]{8})\.tmp$')
_TSV = re.compile(r'^e([0-9]+)\.tsv$')
P, M = 131, 1000003
NUM_CLIENTS = 3
# index 2 is never generated: root_dir is not in the property's quantifier, and a root_dir with glob metacharacters
# defeats tf.io.gfile.glob(base_path + '*') -- see known_findings_proposed/C09.json (replayable)
# index 3: digits in the path (a checkpoint round must be parsed from the NAME after base_path, not by stripping
# characters that also occur in the directory name)
ROOTS = ['run', 'run+1.(a)$', 'run[1]', 'exp_2013_r01']
# files of somebody else whose names nearly are checkpoint names (the same list as foreign_names in C09_Model.v)
FOREIGN = ['checkpoint_1', 'checkpoint_000000011', 'checkpoint_0000000a', 'checkpoint_00000001.bak', 'checkpoint_',
           'xcheckpoint_00000001', 'checkpoint_00000002 ']


# --------------------------------------------------------------------------
# the recording tf proxy

class _Gfile:

  def __init__(self, env):
    self._env = env
    self._real = env.real_tf.io.gfile

  def __getattr__(self, n):
    return getattr(self._real, n)

  def _name(self, path):
    return self._env.rel(path)

  def makedirs(self, path):
    self._env.rec.effect(('mk', self._name(path)))
    return self._real.makedirs(path)

  def glob(self, pattern):
    self._env.rec.effect(('gl', self._name(pattern)))
    got = self._real.glob(pattern)
    # a directory listing has no guaranteed order: deliver it reversed / rotated
    k = self._env.glob_order
    return got if k == 0 else list(reversed(got)) if k == 1 else got[1:] + got[:1]

  def rename(self, a, b, overwrite=False):
    self._env.rec.effect(('rn', self._name(a), self._name(b)))
    return self._real.rename(a, b, overwrite=overwrite)

  def remove(self, path):
    self._env.rec.effect(('rm', self._name(path)))
    return self._real.remove(path)

  def GFile(self, path, mode='r'):  # pylint: disable=invalid-name
    env = self._env
    name = self._name(path)
    if 'w' in mode or 'a' in mode or '+' in mode:
      if 'a' in mode or '+' in mode:
        env.rec.effect(('open?', name, mode))
      return crashfs.RecFile(env.rec, name, lambda: self._real.GFile(path, mode), env.decode, b'')
    env.rec.effect(('rd', name))
    return self._real.GFile(path, mode)


class _Io:

  def __init__(self, env):
    self._real = env.real_tf.io
    self.gfile = _Gfile(env)

  def __getattr__(self, n):
    return getattr(self._real, n)


class _Tf:

  def __init__(self, env):
    self._real = env.real_tf
    self.io = _Io(env)

  def __getattr__(self, n):
    return getattr(self._real, n)


class _Env:
  """One call of run_federated_experiment under observation."""

  def __init__(self, root, rec, decode):
    import fedjax.training.federated_experiment as fe
    self.real_tf = _REAL['tf'] if _REAL else fe.tf
    self.root, self.rec, self.decode = root, rec, decode
    self.glob_order = 0
    self.flags = {'load_raised': None, 'retention': [], 'first_round': None, 'visible_at_start': None}

  def rel(self, path):
    r = self.root.rstrip('/')
    if path == r or path == r + '/':
      return ''
    if path.startswith(r + '/'):
      return path[len(r) + 1:]
    return '//' + path


_REAL = {}


class _Patched:

  def __init__(self, env):
    self.env = env

  def __enter__(self):
    import fedjax.core.serialization as ser
    import fedjax.training.checkpoint as ck
    import fedjax.training.federated_experiment as fe
    import fedjax.training.logging as flog
    env = self.env
    if not _REAL:
      _REAL.update(tf=fe.tf, ser_tf=ser.tf, ck_tf=ck.tf, save=ck.save_checkpoint, load=ck.load_latest_checkpoint,
                   log=flog.Logger.log)
      env.real_tf = fe.tf
    proxy = _Tf(env)
    ser.tf = ck.tf = fe.tf = proxy
    flog.Logger.log = lambda self, *a, **k: None     # tensorboard is absent
    real_save, real_load = _REAL['save'], _REAL['load']

    def save_checkpoint(root_dir, state, round_num=0, keep=1):
      real_save(root_dir, state, round_num, keep)
      env.rec.effect(('saved', int(round_num)))
      env.flags['retention'].append(len([n for n in crashfs.listing(env.root) if _CK.match(n)]))

    def load_latest_checkpoint(root_dir):
      env.flags['visible_at_start'] = sorted(int(_CK.match(n).group(1)) for n in crashfs.listing(env.root)
                                             if _CK.match(n))
      try:
        return real_load(root_dir)
      except crashfs.SimCrash:
        raise
      except BaseException as ex:  # pylint: disable=broad-except
        env.flags['load_raised'] = type(ex).__name__
        raise

    ck.save_checkpoint, ck.load_latest_checkpoint = save_checkpoint, load_latest_checkpoint
    return env

  def __exit__(self, *a):
    import fedjax.core.serialization as ser
    import fedjax.training.checkpoint as ck
    import fedjax.training.federated_experiment as fe
    import fedjax.training.logging as flog
    ser.tf, ck.tf, fe.tf = _REAL['ser_tf'], _REAL['ck_tf'], _REAL['tf']
    ck.save_checkpoint, ck.load_latest_checkpoint = _REAL['save'], _REAL['load']
    flog.Logger.log = _REAL['log']
    return False


# --------------------------------------------------------------------------
# the two experiments

def _federated_data():
  import fedjax
  import numpy as np
  return fedjax.InMemoryFederatedData(
      {b'c%02d' % i: {'x': np.arange(1, 3 + i % 3, dtype=np.float32) + i,
                      'y': (np.arange(2 + i % 3) + i) % 3} for i in range(7)})


def _client_digest(clients):
  import numpy as np
  d = 7
  for cid, ds, rng in clients:
    v = (int.from_bytes(cid, 'big') % 1009) * 31 + int(ds.raw_examples['x'].sum()) + int(np.asarray(rng).sum() % 1009)
    d = (d * P + v) % M
  return d


class _Sampler:
  """The real UniformGetClientSampler; reports the round number each sample is drawn for.  `real` = an already
  used sampler object (a caller that keeps its objects alive and calls the experiment again)."""

  def __init__(self, env, seed, real=None):
    import fedjax
    self._s = real or fedjax.client_samplers.UniformGetClientSampler(_federated_data(), NUM_CLIENTS, seed)
    self._env = env

  def set_round_num(self, r):
    self._s.set_round_num(r)

  def sample(self):
    k = int(self._s._round_num)  # pylint: disable=protected-access
    self._env.rec.effect(('round', k))
    if self._env.flags['first_round'] is None:
      self._env.flags['first_round'] = k
    return self._s.sample()


def _digests(seed, n):
  """Independent of any run: the digest of the cohort a fresh sampler draws for round k."""
  import fedjax
  key = (seed, n)
  if key not in _DIG:
    out = []
    for k in range(1, n + 1):
      s = fedjax.client_samplers.UniformGetClientSampler(_federated_data(), NUM_CLIENTS, seed)
      s.set_round_num(k)
      out.append(_client_digest(s.sample()))
    _DIG[key] = out
  return _DIG[key]


_DIG = {}


def _toy_algorithm():
  import fedjax

  def init():
    return {'count': 0, 'hash': 0}

  def apply(state, clients):
    return {'count': state['count'] + 1, 'hash': (state['hash'] * P + _client_digest(clients)) % M}, {}
  return fedjax.FederatedAlgorithm(init, apply), init()


_FEDAVG = {}


def _fedavg_algorithm():
  import fedjax
  import jax
  import jax.numpy as jnp
  if not _FEDAVG:
    def grad_fn(params, batch, rng):
      del rng
      return jax.tree_util.tree_map(lambda l: l * 0.25 - jnp.mean(batch['x']) * 0.125, params)
    alg = fedjax.algorithms.fed_avg.federated_averaging(
        grad_fn, fedjax.optimizers.sgd(0.5), fedjax.optimizers.sgd(1.0),
        fedjax.ShuffleRepeatBatchHParams(batch_size=2, num_epochs=1, seed=0))
    _FEDAVG['alg'] = alg
  alg = _FEDAVG['alg']
  return alg, alg.init({'w': jnp.array([0., 2., 4.])})


def _state_bytes(state):
  """Signature of a state pytree: its TREE STRUCTURE (container kinds, keys, None sub-trees) and, leaf by leaf, the
  leaf TYPE (jax.Array / numpy / python scalar), dtype incl. byte order, weak_type, shape, Fortran-contiguity and bit
  pattern.  Two states with equal signatures behave identically under dtype promotion."""
  import jax
  import numpy as np
  out = [repr(jax.tree_util.tree_structure(state)).encode()]
  for l in jax.tree_util.tree_leaves(state):
    kind = b'J' if isinstance(l, jax.Array) else b'N' if isinstance(l, (np.ndarray, np.generic)) else \
        b'P' + type(l).__name__.encode()
    weak = b'w' if getattr(l, 'weak_type', False) else b's'
    a = np.asarray(l)
    order = b'F' if isinstance(l, np.ndarray) and l.ndim > 1 and l.flags.f_contiguous and not l.flags.c_contiguous else b'C'
    out.append(kind + weak + order + a.dtype.str.encode() + str(a.shape).encode() + a.tobytes())
  return b'|'.join(out)


class _NT(collections.namedtuple('_NT', ['a', 'b'])):
  """A NamedTuple node inside the server state (picklable: module level)."""
  __slots__ = ()


_MIXED = {}


def _readonly(a):
  a.setflags(write=False)
  return a


def _mixed_algorithm():
  """Third experiment: the server state is a pytree of JAX arrays of mixed kinds -- a weakly typed scalar
  (jnp.asarray(python float)), bfloat16 and float16 vectors, an int32 counter, a PRNG key -- and the round uses
  dtype-promotion-sensitive arithmetic (w - lr * g keeps w's dtype only while lr stays weakly typed)."""
  import fedjax
  import jax
  import jax.numpy as jnp

  def init():
    import numpy as np
    return {'lr': jnp.asarray(0.5), 'w': jnp.ones((4,), jnp.bfloat16), 'h': jnp.ones((3,), jnp.float16) * 2,
            'count': jnp.zeros((), jnp.int32), 'key': jax.random.PRNGKey(7),
            'steps': jnp.asarray(0), 'i8': jnp.arange(3, dtype=jnp.int8), 'flag': jnp.zeros((2,), jnp.bool_),
            'np64': np.array([1.0, 2.0]), 'py': 0, 'empty': jnp.zeros((0,), jnp.float32),
            # memory layouts of numpy leaves: Fortran order, big-endian, 0-d, a non-contiguous view, read-only
            'fo': np.asfortranarray(np.arange(6, dtype=np.float32).reshape(2, 3)), 'be': np.arange(3, dtype='>i4'),
            'z0': np.float32(1.5), 'view': np.arange(8, dtype=np.int16)[::2], 'ro': _readonly(np.ones(2, np.float32)),
            'cx': jnp.asarray([1 + 2j, 0.5j], jnp.complex64),
            # container kinds: tuple, list, NamedTuple, None sub-tree, nested dict with keys not in sorted order
            'nest': (jnp.ones((2,), jnp.float32), [np.zeros(1, np.int64), None], _NT(a=jnp.asarray(1.0), b={'z': 1, 'a': 2.5}))}

  def apply(state, clients):
    d = _client_digest(clients)
    w, h, lr = state['w'], state['h'], state['lr']
    g = ((d % 7 + 1) / 8.0 + 0.125 * jnp.arange(w.shape[0])).astype(w.dtype)
    gh = ((d % 5 + 1) / 4.0 + 0.25 * jnp.arange(h.shape[0])).astype(h.dtype)
    key = jax.random.fold_in(state['key'], d % 1000)
    noise = jax.random.uniform(key, h.shape).astype(h.dtype)
    return {'lr': lr * 0.75, 'w': w - lr * g, 'h': h - lr * gh + noise * lr, 'count': state['count'] + 1,
            'key': key, 'steps': state['steps'] + 1, 'i8': state['i8'] + state['steps'] % 3,
            'flag': jnp.logical_not(state['flag']), 'np64': state['np64'] * 0.5, 'py': state['py'] + 1,
            'empty': state['empty'], 'fo': state['fo'] * 0.5 + 1, 'be': state['be'] + 1, 'z0': state['z0'] * 2,
            'view': state['view'][::-1] if state['view'].shape[0] else state['view'], 'ro': state['ro'],
            'cx': state['cx'] * (1j) + lr,
            'nest': (state['nest'][0] * lr, [state['nest'][1][0] + (2 ** 31), None],
                     _NT(a=state['nest'][2].a * 0.5, b={'z': state['nest'][2].b['z'] + 1, 'a': state['nest'][2].b['a']}))}, {}
  if not _MIXED:
    _MIXED['alg'] = fedjax.FederatedAlgorithm(init, apply)
  return _MIXED['alg'], init()


def _algorithm(case):
  return {'toy': _toy_algorithm, 'fedavg': _fedavg_algorithm, 'mixed': _mixed_algorithm}[case['algo']]()


def _state_summary(state):
  import jax
  import numpy as np
  return ['%s:%s%s' % ('jax' if isinstance(l, jax.Array) else type(l).__name__, np.asarray(l).dtype,
                       '(weak)' if getattr(l, 'weak_type', False) else '')
          for l in jax.tree_util.tree_leaves(state)]


_MODEL = {}


def _model():
  """A tiny real fedjax.Model for the packaged evaluation functions (FedAvg experiment)."""
  import fedjax
  import jax.numpy as jnp
  if not _MODEL:
    def apply_for_eval(params, batch):
      return batch['x'][:, None] * params['w'][None, :]
    _MODEL['m'] = fedjax.Model(
        init=lambda rng: {'w': jnp.array([0., 2., 4.])},
        apply_for_train=lambda params, batch, rng: apply_for_eval(params, batch),
        apply_for_eval=apply_for_eval,
        train_loss=lambda batch, out: jnp.zeros(out.shape[0]),
        eval_metrics={'accuracy': fedjax.metrics.Accuracy(), 'loss': fedjax.metrics.CrossEntropyLoss()})
  return _MODEL['m']


def _make_evals(env, case):
  """(periodic_eval_fn_map, final_eval_fn_map).  case['form'] & 2: the maps are delivered as read-only Mapping
  views instead of dicts, a TrainClientsEvaluationFn runs among the periodic ones, and a last final evaluation
  returns no metrics (no .tsv is written for it); with no final evaluation the argument is None."""
  import types
  import fedjax
  from fedjax.training import federated_experiment as fe
  algo = case['algo']
  form = case.get('form', 0)

  class Periodic(fe.EvaluationFn):

    def __call__(self, state, round_num):
      env.rec.effect(('pe', int(round_num)))
      return {'seen': 1}

  class PeriodicTrain(fe.TrainClientsEvaluationFn):

    def __call__(self, state, round_num, train_clients):
      return {'clients': len(train_clients)}

  class Final(fe.EvaluationFn):

    def __init__(self, idx):
      self.idx = idx

    def __call__(self, state, round_num):
      m = collections.OrderedDict()
      m['idx'] = self.idx
      if algo == 'toy':
        m['count'], m['hash'] = state['count'], state['hash']
      else:
        m['w'] = _state_bytes(state).hex()
      m['round'] = round_num
      return m

  class NoMetrics(fe.EvaluationFn):

    def __call__(self, state, round_num):
      return {}

  nev = case['cfg']['nev']
  finals = collections.OrderedDict((f'e{i}', Final(i)) for i in range(nev))
  per = collections.OrderedDict(p0=Periodic())
  if algo == 'fedavg':
    hp = fedjax.PaddedBatchHParams(batch_size=4)
    fd = _federated_data()
    per['p1'] = fe.ModelTrainClientsEvaluationFn(_model(), hp)
    if nev >= 2:
      finals['e1'] = fe.ModelFullEvaluationFn(fd, _model(), hp)
    if nev >= 3:   # its own sampler is seated to the round number the final evaluation is given
      finals['e2'] = fe.ModelSampleClientsEvaluationFn(
          fedjax.client_samplers.UniformGetClientSampler(fd, 2, seed=3), _model(), hp)
  if form & 4:    # final evaluations whose names look like checkpoint names: their .tsv must not confuse the filter
    finals['checkpoint_00000001'] = Final(7)
    finals['checkpoint_'] = Final(8)
  if form & 2:
    per['p2'] = PeriodicTrain()
    finals['zz'] = NoMetrics()
    if nev == 0 and form & 1 and not form & 4:
      return types.MappingProxyType(per), None
    return types.MappingProxyType(per), types.MappingProxyType(finals)
  return per, finals


def _ctx_to_json(ctx):
  return {'ref_states': None if ctx.get('ref_states') is None else [b.hex() for b in ctx['ref_states']],
          'ref_tsv': ctx.get('ref_tsv'), 'R': ctx.get('R')}


def _ctx_from_json(j):
  return {'ref_states': None if j['ref_states'] is None else [bytes.fromhex(h) for h in j['ref_states']],
          'ref_tsv': j['ref_tsv'], 'R': j['R']}


def _one_run_child(case, root, crash, ctx_json):
  """Runs in a forked child of a deathbox zygote (its own PYTHONHASHSEED): the crash is a real process death."""
  return _one_run(case, root, crash, _ctx_from_json(ctx_json), real_death=True)


def _one_run_in_process(case, root, crash, ctx, hashseed):
  r = deathbox.box(hashseed).call('harness.c09', '_one_run_child', [case, root, crash, _ctx_to_json(ctx)])
  if r['error'] or (r['result'] is None and r['death'] is None):
    raise RuntimeError('deathbox child failed: %s' % (r['error'] or r['exit']))
  out = r['result'] if r['result'] is not None else r['death']
  if 'dir' not in out:       # the process died: look at what it left behind
    out['dir'] = _observe_dir(root, ctx)
  return out


def _one_run(case, root, crash, ctx, real_death=False):
  """One call of run_federated_experiment on `root`.  crash = None | [k, sub, cls]."""
  from fedjax.training import federated_experiment as fe
  cfg = case['cfg']
  rec = crashfs.Recorder(*(crash if crash else (None, 0, 0)))
  env = _Env(root, rec, lambda name, data: _decode(name, data, ctx))
  if real_death:
    rec.on_death = lambda r: deathbox.die_now({'crashed': True, 'error': None, 'state': None,
                                                'trace': [list(e) for e in r.trace],
                                                'raw_writes': {str(k): v for k, v in r.raw_writes.items()},
                                                'flags': env.flags})
  env.glob_order = (case.get('form', 0) + case['cfg']['keep']) % 3
  out = {'crashed': False, 'error': None, 'state': None}
  with _Patched(env):
    alg, init = _algorithm(case)
    if ctx.get('record_states') is not None:
      inner = alg.apply

      def apply(state, clients):
        new, diag = inner(state, clients)
        sig = _state_bytes(new)
        ctx['record_states'].append(sig)
        # hypothesis load (save s) = s, checked with python's own pickle, independently of fedjax
        ctx['roundtrip_ok'] = ctx.get('roundtrip_ok', True) and _state_bytes(pickle.loads(pickle.dumps(new))) == sig
        return new, diag
      alg = type(alg)(alg.init, apply)
    per, fin = _make_evals(env, case)
    init_sig = _state_bytes(init) if case['algo'] != 'toy' else repr(sorted(init.items())).encode()
    real_sampler = None
    if case.get('form', 0) & 1:     # the caller keeps ONE sampler object alive across all calls of the history
      if 'sampler' not in ctx:
        import fedjax
        ctx['sampler'] = fedjax.client_samplers.UniformGetClientSampler(_federated_data(), NUM_CLIENTS, case['seed'])
      real_sampler = ctx['sampler']
    config = fe.FederatedExperimentConfig(root_dir=root, num_rounds=cfg['R'], checkpoint_frequency=cfg['freq'],
                                          num_checkpoints_to_keep=cfg['keep'], eval_frequency=cfg['evf'])
    try:
      state = fe.run_federated_experiment(alg, init, _Sampler(env, case['seed'], real_sampler), config, per, fin)
      out['state'] = _canon_state(case, state, ctx)
      out['state_bytes'] = _state_bytes(state).hex() if case['algo'] != 'toy' else None
      out['state_summary'] = _state_summary(state) if case['algo'] != 'toy' else None
    except crashfs.SimCrash:
      out['crashed'] = True
    except Exception as ex:  # pylint: disable=broad-except
      out['error'] = type(ex).__name__
    after_sig = _state_bytes(init) if case['algo'] != 'toy' else repr(sorted(init.items())).encode()
    env.flags['init_state_changed'] = bool(after_sig != init_sig)
  out['trace'] = [list(e) for e in rec.trace]
  out['raw_writes'] = {str(k): v for k, v in rec.raw_writes.items()}
  out['flags'] = env.flags
  out['dir'] = _observe_dir(root, ctx)
  return out


def _canon_state(case, state, ctx):
  if case['algo'] == 'toy':
    return [int(state['count']), int(state['hash'])]
  return _abstract(_state_bytes(state), ctx)


def _abstract(sb, ctx):
  """FedAvg states are abstracted to (k, 0) when equal to the uninterrupted run's state
  after round k (state 0 = initial); anything else is (-1, -1)."""
  ref = ctx.get('ref_states') or []
  for k, b in enumerate(ref):
    if b == sb:
      return [k, 0]
  return [-1, -1]


def _decode(name, data, ctx):
  """Canonical content of a file: ['w', ints...] or ['t'] (not a complete file of its kind)."""
  if isinstance(data, str):
    data = data.encode()
  if _CK.match(name) or _TMP.match(name):
    try:
      st = pickle.loads(data)
    except Exception:  # pylint: disable=broad-except
      return ['t']
    if isinstance(st, dict) and set(st) == {'count', 'hash'}:
      return ['w', 0, int(st['count']), int(st['hash'])]
    try:
      return ['w', 0] + _abstract(_state_bytes(st), ctx)
    except Exception:  # pylint: disable=broad-except
      return ['t']
  m = _TSV.match(name)
  if m:
    try:
      lines = data.decode().split('\n')
      if len(lines) != 2:
        return ['t']
      keys, vals = lines[0].split('\t'), lines[1].split('\t')
      d = dict(zip(keys, vals))
      if keys == ['idx', 'count', 'hash', 'round']:
        return ['w', 1, int(d['idx']), int(d['count']), int(d['hash']), int(d['round'])]
      if keys == ['idx', 'w', 'round']:
        return ['w', 1, int(d['idx'])] + _abstract(bytes.fromhex(d['w']), ctx) + [int(d['round'])]
    except Exception:  # pylint: disable=broad-except
      return ['t']
    # a packaged evaluation function: complete iff byte-equal to the uninterrupted run's file, which holds the
    # metrics of (state after R rounds, R)
    if ctx.get('ref_tsv', {}).get(name) == data.hex() and ctx.get('R') is not None:
      return ['w', 1, int(m.group(1)), ctx['R'], 0, ctx['R']]
    return ['t']
  return ['w'] + list(data) if len(data) <= 4 else ['w', 2, len(data)]


def _observe_dir(root, ctx):
  out = []
  for n in crashfs.listing(root):
    with open(os.path.join(root, n), 'rb') as f:
      data = f.read()
    out.append([n, _decode(n, data, ctx), data.hex() if n.endswith('.tsv') else None])
  return out


_REF = {}


def _reference(case):
  """The uninterrupted run of the same experiment call on a fresh directory."""
  key = (case['algo'], tuple(sorted(case['cfg'].items())), case['seed'], case['root'], case.get('form', 0))
  if key in _REF:
    return _REF[key]
  base = tempfile.mkdtemp(prefix='C09-ref-')
  try:
    root = os.path.join(base, ROOTS[case['root']])
    ctx = {}
    if case['algo'] != 'toy':
      _, init = _algorithm(case)
      ctx['record_states'] = [_state_bytes(init)]
    r = _one_run(case, root, None, ctx)
    ref_states = ctx.get('record_states')
    ctx2 = {'ref_states': ref_states}
    ref = {'error': r['error'], 'trace_len': len(r['trace']), 'raw_writes': r['raw_writes'], 'trace': r['trace'],
           'ref_states': ref_states,
           'state': (None if r['error'] is not None or r['state'] is None else
                     [int(x) for x in r['state']] if case['algo'] == 'toy' else
                     _abstract(bytes.fromhex(r['state_bytes']), ctx2)),
           'state_bytes': r.get('state_bytes'), 'state_summary': r.get('state_summary'),
           'hyp_load_save': bool(ctx.get('roundtrip_ok', True)),
           'tsv': {n: h for n, _, h in r['dir'] if h is not None}}
  finally:
    shutil.rmtree(base, ignore_errors=True)
  _REF[key] = ref
  return ref


# --------------------------------------------------------------------------
# the public checkpoint functions called directly (positional / keyword / default arguments)

def _run_direct(case):
  """ops: ['save', round, keep | None, form] | ['load'];  form 0 positional, 1 keywords, 2 defaults where possible"""
  from fedjax.training import checkpoint as ck
  base = tempfile.mkdtemp(prefix='C09-direct-')
  obs = []
  try:
    root = os.path.join(base, ROOTS[case['root']])
    os.makedirs(root)
    for n, op in enumerate(case['ops']):
      r = {'op': op, 'error': None, 'loaded': None}
      try:
        if op[0] == 'save':
          _, rnd, keep, form = op
          state = {'round': rnd, 'n': n}
          if form == 1:
            kw = {'round_num': rnd}
            if keep is not None:
              kw['keep'] = keep
            ck.save_checkpoint(root_dir=root, state=state, **kw)
          elif keep is None:
            ck.save_checkpoint(root, state) if (form == 2 and rnd == 0) else ck.save_checkpoint(root, state, rnd)
          else:
            ck.save_checkpoint(root, state, rnd, keep)
        else:
          got = ck.load_latest_checkpoint(root)
          r['loaded'] = None if got is None else [got[0].get('round'), got[0].get('n'), int(got[1])]
      except Exception as ex:  # pylint: disable=broad-except
        r['error'] = type(ex).__name__
      r['files'] = crashfs.listing(root)
      obs.append(r)
  finally:
    shutil.rmtree(base, ignore_errors=True)
  return {'direct': obs}


def _oracle_direct(case, obs):
  out = []
  kept = {}          # round -> op index of the save that produced the visible file
  for n, r in enumerate(obs['direct']):
    op = r['op']
    if r['error']:
      out.append(('direct-call-raises', f'{op} raised {r["error"]}'))
      break
    if op[0] == 'save':
      _, rnd, keep, _ = op
      keep = 1 if keep is None else keep
      kept[rnd] = n
      for old in sorted(kept)[:-keep]:
        del kept[old]
      want = ['checkpoint_%08d' % k for k in sorted(kept)]
      if r['files'] != want:
        out.append(('direct-retention', f'after {op} the directory holds {r["files"]}, the {keep} numerically newest '
                    f'of all saved rounds are {want}'))
        break
    else:
      want = None if not kept else [max(kept), kept[max(kept)], max(kept)]
      if r['loaded'] != want:
        out.append(('direct-newest', f'load_latest_checkpoint returned {r["loaded"]}, expected {want} (state round, '
                    'saving op, reported round)'))
        break
  return out


def _direct_cases(rng, n):
  rounds = [0, 1, 2, 9, 10, 11, 99, 100, 101, 2013, 12345678, 99999999]
  for i in range(n):
    ops = []
    keep = rng.choice([None, 1, 2, 3])
    for _ in range(rng.randrange(1, 7)):
      ops.append(['save', rng.choice(rounds), keep if rng.random() < 0.8 else rng.choice([None, 1, 2, 3]), i % 3])
      if rng.random() < 0.5:
        ops.append(['load'])
    yield {'algo': 'direct', 'root': [0, 1, 3][i % 3], 'ops': [['load']] + ops + [['load']]}


# --------------------------------------------------------------------------
# global JAX configuration flags: cases with a 'flags' field run in a worker process started with that setting

FLAG_ENV = {
    'x64': {'JAX_ENABLE_X64': '1'},
    'rbg': {'JAX_DEFAULT_PRNG_IMPL': 'rbg'},
    'part0': {'JAX_THREEFRY_PARTITIONABLE': '0'},
    'nojit': {'JAX_DISABLE_JIT': '1'},
}
_WORKERS = {}


def _worker(flags):
  import atexit
  import subprocess
  import sys
  if flags not in _WORKERS:
    env = dict(os.environ)
    env.update(FLAG_ENV[flags])
    env['C09_WORKER'] = flags
    p = subprocess.Popen([sys.executable, '-m', 'harness.c09'], stdin=subprocess.PIPE, stdout=subprocess.PIPE,
                         stderr=subprocess.DEVNULL, env=env, text=True)
    _WORKERS[flags] = p
    atexit.register(lambda: (p.stdin.close(), p.terminate()))
  return _WORKERS[flags]


def _remote(case):
  import json
  p = _worker(case['flags'])
  p.stdin.write(json.dumps(case) + '\n')
  p.stdin.flush()
  while True:
    line = p.stdout.readline()
    if not line:
      _WORKERS.pop(case['flags'], None)
      raise RuntimeError('flag worker died')
    if line.startswith('@@OBS@@'):
      obs = json.loads(line[7:])
      if 'worker_error' in obs:
        raise RuntimeError('flag worker: ' + obs['worker_error'])
      return obs


def _worker_main():
  import json
  import sys
  import traceback
  for line in sys.stdin:
    line = line.strip()
    if not line:
      continue
    try:
      obs = run(json.loads(line))
    except Exception:  # pylint: disable=broad-except
      obs = {'worker_error': traceback.format_exc()[-800:]}
    sys.stdout.write('@@OBS@@' + json.dumps(obs, default=str) + '\n')
    sys.stdout.flush()


def run(case):
  if case.get('flags') and os.environ.get('C09_WORKER') != case['flags']:
    return _remote(case)
  import fedjax  # noqa: F401  pylint: disable=unused-import
  if case['algo'] == 'direct':
    return _run_direct(case)
  ref = _reference(case)
  ctx = {'ref_states': ref['ref_states'], 'ref_tsv': ref['tsv'], 'R': case['cfg']['R']}
  base = tempfile.mkdtemp(prefix='C09-')
  runs = []
  try:
    root = os.path.join(base, ROOTS[case['root']])
    if case.get('foreign'):
      os.makedirs(root)
      for n in FOREIGN:
        with open(os.path.join(root, n), 'wb') as f:
          f.write(b'\x07\x07')
    procs = case.get('procs')
    for n, crash in enumerate(list(case['crashes']) + [None]):
      if procs:    # every call of the history in a NEW process with its own PYTHONHASHSEED; a crash kills it
        r = _one_run_in_process(case, root, crash, ctx, procs[n % len(procs)])
      else:
        r = _one_run(case, root, crash, ctx)
      runs.append({'crashed': r['crashed'], 'error': r['error'], 'state': r['state'], 'dir': r['dir'],
                   'trace': r['trace'], 'flags': r['flags'], 'state_bytes': r.get('state_bytes'),
                   'state_summary': r.get('state_summary')})
      if r['error'] is not None:
        break
  finally:
    shutil.rmtree(base, ignore_errors=True)
  return {'ref': {k: ref[k] for k in ('error', 'state', 'tsv', 'trace_len', 'state_bytes', 'state_summary', 'hyp_load_save')},
          'digests': _digests(case['seed'], case['cfg']['R']) if case['algo'] == 'toy' else [0] * case['cfg']['R'],
          'runs': runs}


# --------------------------------------------------------------------------
# the property, judged on the observation alone

def oracle(case, obs):
  if case['algo'] == 'direct':
    return _oracle_direct(case, obs)
  out = []
  cfg = case['cfg']
  ref = obs['ref']
  if ref['error'] is not None:
    return [('uninterrupted-raises', f'the uninterrupted run raised {ref["error"]}')]
  if case['algo'] == 'toy':
    c, h = 0, 0
    for d in obs['digests']:
      c, h = c + 1, (h * P + d) % M
    if ref['state'] != [c, h]:
      out.append(('uninterrupted-result', f'uninterrupted run returned {ref["state"]}, {cfg["R"]} rounds of the '
                  f'round-indexed cohorts give {[c, h]}'))
  for i, r in enumerate(obs['runs']):
    fl = r['flags']
    if fl['load_raised']:
      out.append(('load-latest-raises', f'run {i}: load_latest_checkpoint raised {fl["load_raised"]} on a directory '
                  'left by a crash'))
    elif r['error'] is not None:
      out.append(('rerun-raises', f'run {i}: re-running the experiment call raised {r["error"]}'))
    if fl.get('init_state_changed'):
      out.append(('init-state-mutated', f'run {i}: the caller\'s init_state changed during the call'))
    if any(n > cfg['keep'] for n in fl['retention']):
      out.append(('retention-exceeded', f'run {i}: {max(fl["retention"])} checkpoint files right after a completed '
                  f'save, num_checkpoints_to_keep = {cfg["keep"]}'))
    if case.get('foreign'):
      there = {n: content for n, content, _ in r['dir']}
      gone = [n for n in FOREIGN if there.get(n) != ['w', 7, 7]]
      if gone:
        out.append(('foreign-file-touched', f'run {i}: files that do not pass the checkpoint name filter were '
                    f'removed or changed: {gone}'))
    for n, content, _ in r['dir']:
      if _CK.match(n) and content[0] != 'w':
        out.append(('visible-checkpoint-torn', f'run {i}: {n} is visible under its final name but does not unpickle'))
      elif _CK.match(n) and case['algo'] == 'toy':
        k = int(_CK.match(n).group(1))
        c, h = 0, 0
        for d in obs['digests'][:k]:
          c, h = c + 1, (h * P + d) % M
        if k > len(obs['digests']) or content[1:] != [0, c, h]:
          out.append(('checkpoint-holds-wrong-round', f'run {i}: {n} holds {content[2:]}, the state after {k} rounds '
                      f'is {[c, h]}'))
      elif _CK.match(n) and content[2:] != [int(_CK.match(n).group(1)), 0]:
        out.append(('checkpoint-holds-wrong-round', f'run {i}: {n} does not hold the uninterrupted state of its round'))
    vis = fl['visible_at_start']
    if vis is not None and fl['first_round'] is not None and not fl['load_raised']:
      want = (max(vis) + 1) if vis else 1
      if fl['first_round'] != want:
        out.append(('newest-not-used', f'run {i}: visible checkpoints {vis}, first round sampled is '
                    f'{fl["first_round"]}, expected {want}'))
  last = obs['runs'][-1]
  if last['error'] is None and not last['crashed']:
    same_state = (last['state'] == ref['state']) if case['algo'] == 'toy' else (last['state_bytes'] == ref['state_bytes'])
    if not same_state:
      what = (f'resumed run returned {last["state"]}, uninterrupted run {ref["state"]}' if case['algo'] == 'toy' else
              f'the returned state differs from the uninterrupted run by leaf type / dtype / weak_type / bits: '
              f'resumed {last.get("state_summary")}, uninterrupted {ref.get("state_summary")}')
      out.append(('final-state-differs', what))
    tsv = {n: h for n, _, h in last['dir'] if h is not None}
    if tsv != ref['tsv']:
      out.append(('final-eval-output-differs', 'the .tsv files after the resumed run differ from the uninterrupted '
                  f'run: {sorted(tsv.items())} vs {sorted(ref["tsv"].items())}'))
    # every final evaluation with metrics writes its file exactly once in a call that completes
    # (the model has no name for the colliding evaluation names of form & 4: judged by their bytes above)
    closes = collections.Counter(e[1] for e in last['trace'] if e[0] == 'cl' and e[1].endswith('.tsv'))
    want = {f'e{j}.tsv': 1 for j in range(cfg['nev'])}
    if case.get('form', 0) & 4:
      want.update({'checkpoint_00000001.tsv': 1, 'checkpoint_.tsv': 1})
    if dict(closes) != want:
      out.append(('final-eval-not-once', f'the completing call wrote the final-evaluation files {dict(closes)}, '
                  f'expected each of {sorted(want)} exactly once'))
    if not case['crashes'] and not case.get('foreign'):
      # exact integer arithmetic for an uninterrupted run: rounds saved and rounds retained at the end
      saved = [k for k in range(1, cfg['R'] + 1) if cfg['freq'] and (k == 1 or k % cfg['freq'] == 0)]
      kept = ['checkpoint_%08d' % k for k in saved[-cfg['keep']:]]
      seen = [n for n, _, _ in last['dir'] if _CK.match(n)]
      events = [e[1] for e in last['trace'] if e[0] == 'saved']
      if seen != kept or events != saved:
        out.append(('retention-schedule', f'uninterrupted run: checkpoints saved at rounds {events} and {seen} left, '
                    f'expected saves at {saved} and {kept} left'))
  elif last['crashed']:
    out.append(('harness-final-run-crashed', 'internal: the final run was not supposed to crash'))
  return out


# --------------------------------------------------------------------------
# Coq encoding

def _oname(n):
  m = _CK.match(n)
  if m:
    return f'(K {int(m.group(1))})'
  m = _TMP.match(n)
  if m:
    return f'(T {int(m.group(1))})'
  m = _TSV.match(n)
  if m:
    return f'(V {int(m.group(1))})'
  if '"' in n or any(ord(ch) < 32 or ord(ch) > 126 for ch in n):
    n = '?bad-name?'
  return f'(U "{n}"%string)'


def _ocontent(c):
  return 'OT' if c[0] != 'w' else f'(OW {fw.zlist(c[1:])})'


def _oev(e):
  k = e[0]
  if k == 'mk':
    return 'OMk' if e[1] == '' else '(OBad "makedirs"%string)'
  if k == 'gl':
    return 'OGl' if e[1] == 'checkpoint_*' else '(OBad "glob"%string)'
  if k == 'rd':
    return f'(ORd {_oname(e[1])})'
  if k == 'round':
    return f'(ORound {fw.zlit(e[1])})'
  if k == 'pe':
    return f'(OPe {fw.zlit(e[1])})'
  if k == 'saved':
    return f'(OSaved {fw.zlit(e[1])})'
  if k == 'cr':
    return f'(OCr {_oname(e[1])})'
  if k == 'wr':
    return f'(OWr {_oname(e[1])})'
  if k == 'cl':
    return f'(OCl {_oname(e[1])} {_ocontent(e[2])})'
  if k == 'rn':
    return f'(ORn {_oname(e[1])} {_oname(e[2])})'
  if k == 'rm':
    return f'(ORm {_oname(e[1])})'
  return '(OBad "effect"%string)'


def _odir(d):
  return fw.clist([f'({_oname(n)}, {_ocontent(c)})' for n, c, _ in d])


def encode(case, obs):
  if case['algo'] == 'direct' or case.get('form', 0) & 4:
    return None     # colliding evaluation names: files the model has no name for; judged by the oracle
  if obs['ref']['error'] is not None or any(r['error'] is not None for r in obs['runs']):
    return None
  cfg = case['cfg']
  last = obs['runs'][-1]
  if last['crashed'] or last['state'] is None:
    return None
  ks = fw.natlist([c[0] for c in case['crashes']])
  dirs = fw.clist([_odir(r['dir']) for r in obs['runs'][:-1]])
  trace = fw.clist([_oev(e) for e in last['trace']])
  c = (f'(mkC09 {cfg["R"]} {cfg["freq"]} {cfg["keep"]} {cfg["evf"]} {cfg["nev"]}%nat {fw.zlist(obs["digests"])} {ks} {fw.cbool(bool(case.get("foreign")))})')
  o = (f'(mkO09 {dirs} {trace} {_odir(last["dir"])} ({fw.zlit(last["state"][0])}, {fw.zlit(last["state"][1])}))')
  return f'({c}, {o})'


# --------------------------------------------------------------------------
# generation

def _cfg(R, freq, keep, evf, nev):
  return {'R': R, 'freq': freq, 'keep': keep, 'evf': evf, 'nev': nev}


def _probe(case):
  """(trace of the run that would follow the given crash history, raw write counts) -- runs the implementation."""
  import fedjax  # noqa: F401  pylint: disable=unused-import
  if not case['crashes']:
    ref = _reference(case)
    return ref['trace'], ref['raw_writes']
  ref = _reference(case)
  ctx = {'ref_states': ref['ref_states'], 'ref_tsv': ref['tsv'], 'R': case['cfg']['R']}
  base = tempfile.mkdtemp(prefix='C09-probe-')
  try:
    root = os.path.join(base, ROOTS[case['root']])
    for crash in case['crashes']:
      _one_run(case, root, crash, ctx)
    r = _one_run(case, root, None, ctx)
    return r['trace'], r['raw_writes']
  finally:
    shutil.rmtree(base, ignore_errors=True)


def _crash_points(trace, raw_writes, full, rot):
  """All crash triples for one run: every index 0..len (len = completes, then restarted).  Bytes written to a
  file reach the disk only when it is closed (lib/crashfs.py), so while a file is open -- at its write group
  and at its close -- the crash also chooses the prefix class of the unflushed bytes that survives:
  all three classes for checkpoint files (and every raw write x class when `full`), a rotating choice for
  the in-place .tsv files in the quick tier."""
  pts = []
  for k, e in enumerate(trace):
    if e[0] == 'wr':
      nraw = int(raw_writes.get(str(k), 1))
      combos = [(s, c) for s in range(nraw) for c in range(3)]
      if full:
        pick = combos
      elif e[1].endswith('.tmp') or _CK.match(e[1]):
        pick = [(0, c) for c in range(3)] + ([(1, (rot + k) % 3)] if nraw > 1 else [])
      else:
        pick = [combos[(rot + k) % len(combos)], (nraw - 1, 2 - (rot + k) % 3)]
      pts += [[k, s, c] for s, c in pick]
    elif e[0] == 'cl':
      pts += [[k, 0, c] for c in (range(3) if full else sorted({0, 1 + (rot + k) % 2}))]
    else:
      pts.append([k, 0, 0])
  pts.append([len(trace), 0, 0])
  return pts


def generate(tier, rng):
  grid = []
  i = 0
  for R in range(0, 7):
    for freq in range(0, 4):
      for keep in range(1, 4):
        evfs = range(0, 3) if tier != 'quick' else [i % 3]
        for evf in evfs:
          grid.append((_cfg(R, freq, keep, evf, [1, 1, 2, 0][i % 4]), i))
          i += 1
  grid.append((_cfg(11, 1, 2, 0, 1), i))
  grid.append((_cfg(11, 3, 3, 2, 1), i + 1))
  if tier == 'search':
    for j in range(400):
      cfg = _cfg(rng.randrange(0, 14), rng.randrange(0, 5), rng.randrange(1, 5), rng.randrange(0, 4), rng.randrange(0, 3))
      base = {'algo': 'toy', 'cfg': cfg, 'root': rng.randrange(2), 'seed': rng.randrange(1000), 'crashes': []}
      hist = []
      for _ in range(rng.randrange(1, 5)):
        tr, rw = _probe({**base, 'crashes': hist})
        hist = hist + [rng.choice(_crash_points(tr, rw, True, j))]
        yield {**base, 'crashes': hist}
    return
  full = tier == 'thorough'
  for cfg, i in grid:
    base = {'algo': 'toy', 'cfg': cfg, 'root': 1 if i % 5 == 3 else 3 if i % 5 == 1 else 0, 'seed': [11, 0, 12][i % 3],
            'form': (i % 4) + (4 if i % 21 == 3 else 0), 'foreign': 1 if i % 3 == 2 else 0, 'crashes': []}
    yield base
    tr, rw = _probe(base)
    pts = _crash_points(tr, rw, full, i)
    if not full and i % 4 != 0:
      # quick tier, three configurations out of four: only the crash points that differ in what is on the disk (a crash
      # before an effect without persistent consequence = a crash before the next file-system effect)
      pts = [p for p in pts if p[0] >= len(tr) or tr[p[0]][0] in ('cr', 'wr', 'cl', 'rn', 'rm')]
      if cfg['R'] >= 3:      # and of those every other one (alternating between configurations) plus the last
        pts = pts[(i // 2) % 2::2] + pts[-1:]
    for p in pts:
      yield {**base, 'crashes': [p]}
    # deeper histories
    if full:
      firsts = pts if cfg['R'] <= 3 and cfg['evf'] == 0 and cfg['keep'] <= 2 and not base['form'] & 4 else \
          rng.sample(pts, min(len(pts), 3))
    else:
      firsts = rng.sample(pts, min(len(pts), 3)) if i % 6 == 0 else []
    for p1 in firsts:
      tr2, rw2 = _probe({**base, 'crashes': [p1]})
      pts2 = _crash_points(tr2, rw2, False, i + 1)
      seconds = pts2 if (full and cfg['R'] <= 2) else rng.sample(pts2, min(len(pts2), 3))
      for p2 in seconds:
        yield {**base, 'crashes': [p1, p2]}
        if full and rng.random() < 0.3:
          tr3, rw3 = _probe({**base, 'crashes': [p1, p2]})
          p3 = rng.choice(_crash_points(tr3, rw3, False, i + 2))
          yield {**base, 'crashes': [p1, p2, p3]}
  # exhaustive grid of uninterrupted runs: which rounds are saved / retained, against exact integer arithmetic
  for R in range(0, 13 if full else 10):
    for freq in range(0, 7 if full else 6):
      for keep in range(1, 6 if full else 5):
        if R > 6 or freq > 3 or keep > 3:
          yield {'algo': 'toy', 'cfg': _cfg(R, freq, keep, (R + freq) % 3, 1), 'root': 0, 'seed': 11, 'form': 0,
                 'crashes': []}
  # every call of the history in a NEW interpreter process with a different PYTHONHASHSEED, killed by os._exit
  pconf = [_cfg(4, 2, 1, 1, 2), _cfg(3, 1, 2, 0, 1)] + ([_cfg(6, 2, 2, 2, 1), _cfg(5, 3, 3, 1, 2), _cfg(2, 1, 1, 0, 0)] if full else [])
  for j, cfg in enumerate(pconf):
    base = {'algo': 'toy', 'cfg': cfg, 'root': [0, 3][j % 2], 'seed': 11, 'form': 2 * (j % 2), 'foreign': j % 2, 'crashes': []}
    tr, rw = _probe(base)
    pts = [p for p in _crash_points(tr, rw, False, j) if p[0] >= len(tr) or tr[p[0]][0] in ('cr', 'wr', 'cl', 'rn', 'rm')]
    for p in (pts if full else rng.sample(pts, min(len(pts), 7))):
      yield {**base, 'crashes': [p], 'procs': [1, 2]}
    for p1 in rng.sample(pts, min(len(pts), 6 if full else 1)):
      tr2, rw2 = _probe({**base, 'crashes': [p1]})
      yield {**base, 'crashes': [p1, rng.choice(_crash_points(tr2, rw2, False, 1))], 'procs': [2, 1, 2]}
  for algo, cfg in [('mixed', _cfg(2, 1, 1, 0, 1))] + ([('fedavg', _cfg(2, 1, 1, 1, 2)), ('mixed', _cfg(3, 2, 2, 1, 1))] if full else []):
    base = {'algo': algo, 'cfg': cfg, 'root': 0, 'seed': 7, 'form': 0, 'crashes': []}
    tr, rw = _probe(base)
    pts = [p for p in _crash_points(tr, rw, False, 0) if p[0] < len(tr) and tr[p[0]][0] in ('wr', 'rn', 'cl')]
    for p in rng.sample(pts, min(len(pts), 6 if full else 2)):
      yield {**base, 'crashes': [p], 'procs': [1, 2]}
  yield from _direct_cases(rng, 150 if full else 40)
  # mixed-kind JAX pytree state (weak scalar, bfloat16 / float16, int32, PRNG key): every crash history must end in a
  # state equal to the uninterrupted one by leaf type, dtype, weak_type and bits
  mixed = [_cfg(3, 1, 1, 0, 1), _cfg(4, 2, 2, 1, 1)] + ([_cfg(5, 3, 1, 2, 2), _cfg(2, 1, 3, 0, 1)] if full else [])
  for cfg in mixed:
    base = {'algo': 'mixed', 'cfg': cfg, 'root': 3, 'seed': 7, 'form': 3, 'crashes': []}
    yield base
    tr, rw = _probe(base)
    pts = _crash_points(tr, rw, False, 0)
    for p in pts:
      yield {**base, 'crashes': [p]}
    for p1 in rng.sample(pts, min(len(pts), 4)):
      tr2, rw2 = _probe({**base, 'crashes': [p1]})
      yield {**base, 'crashes': [p1, rng.choice(_crash_points(tr2, rw2, False, 1))]}
  # the same experiments under non-default global JAX flags (worker process per setting)
  for flags in (['x64', 'rbg', 'part0', 'nojit'] if full else ['x64']):
    for algo, cfg in [('mixed', _cfg(3, 1, 1, 0, 1))] + ([('fedavg', _cfg(2, 1, 1, 1, 2))] if full else []):
      base = {'algo': algo, 'cfg': cfg, 'root': 0, 'seed': 7, 'form': 1, 'crashes': []}
      tr, rw = _probe(base)
      yield {**base, 'flags': flags}
      for p in _crash_points(tr, rw, False, 0):
        if p[0] >= len(tr) or tr[p[0]][0] in ('cr', 'wr', 'cl', 'rn', 'rm'):
          yield {**base, 'flags': flags, 'crashes': [p]}
  # FedAvg on a tiny in-memory dataset
  favg = [_cfg(3, 2, 1, 1, 3)] + ([_cfg(4, 1, 2, 2, 2), _cfg(5, 3, 1, 0, 1)] if full else [])
  for cfg in favg:
    base = {'algo': 'fedavg', 'cfg': cfg, 'root': 0, 'seed': 5, 'form': 1, 'crashes': []}
    yield base
    tr, rw = _probe(base)
    pts = _crash_points(tr, rw, False, 0)
    for p in pts:
      yield {**base, 'crashes': [p]}
    for p1 in rng.sample(pts, min(len(pts), 3)):
      tr2, rw2 = _probe({**base, 'crashes': [p1]})
      yield {**base, 'crashes': [p1, rng.choice(_crash_points(tr2, rw2, False, 1))]}


def nontrivial(case, obs):
  if case['algo'] == 'direct':
    return len(case['ops']) > 2
  return case['cfg']['R'] > 0 and any(r['crashed'] for r in obs['runs'])


def describe(case, obs):
  if case['algo'] == 'direct':
    return {'algo': 'direct', 'ops': len(case['ops'])}
  cfg = case['cfg']
  return {'hyp_load_save(pickle round trip of every state)': 'holds' if obs['ref'].get('hyp_load_save', True) else 'VIOLATED',
          'hyp_R_lt_1e8_keep_ge_1': 'holds' if 0 <= cfg['R'] < 10 ** 8 and cfg['keep'] >= 1 else 'VIOLATED',
          'processes': 'one-per-call+os._exit' if case.get('procs') else 'in-process', 'flags': case.get('flags', '-'), 'foreign': case.get('foreign', 0), 'form': case.get('form', 0),
          'algo': case['algo'], 'R': cfg['R'], 'freq': cfg['freq'], 'keep': cfg['keep'], 'evf': cfg['evf'],
          'nev': cfg['nev'], 'depth': len(case['crashes']),
          'crashes_that_happened': sum(1 for r in obs['runs'] if r['crashed']),
          'restart_after_completion': sum(1 for r in obs['runs'][:-1] if not r['crashed'] and r['error'] is None),
          'torn_class': '/'.join(str(c[2]) for c in case['crashes']) if case['crashes'] else '-'}


def shrink(case):
  if case['algo'] == 'direct':
    for j in range(len(case['ops'])):
      yield {**case, 'ops': case['ops'][:j] + case['ops'][j + 1:]}
    return
  if len(case['crashes']) > 1:
    for j in range(len(case['crashes'])):
      yield {**case, 'crashes': case['crashes'][:j] + case['crashes'][j + 1:]}
  cfg = case['cfg']
  for k, lo in (('R', 0), ('freq', 0), ('keep', 1), ('evf', 0), ('nev', 0)):
    if cfg[k] > lo:
      yield {**case, 'cfg': {**cfg, k: cfg[k] - 1}}
  if case['root']:
    yield {**case, 'root': 0}
  for j, c in enumerate(case['crashes']):
    if c[0] > 0:
      yield {**case, 'crashes': case['crashes'][:j] + [[c[0] - 1, c[1], c[2]]] + case['crashes'][j + 1:]}


if __name__ == '__main__':
  _worker_main()
