"""C02 worker process: runs the REAL fedjax.for_each_client under the jit, debug and
pmap backends with a fixed number of host CPU devices.

  python -m harness.c02_worker <k>

XLA_FLAGS=--xla_force_host_platform_device_count=k is set BEFORE jax is imported.
Protocol: one JSON case per stdin line -> one JSON observation per stdout line
(prefixed with '@@' so that library chatter on stdout cannot be mistaken for it).

The client program is given in a small DSL (see tools/harness/c02.py for the
grammar); this file only builds the three python functions client_init /
client_step / client_final from it with jax.numpy and observes what the backends
yield, plus the validity of the caller's buffers after the call.
"""
import json
import os
import sys
import threading
import traceback


def _setup(k):
  flags = [f for f in os.environ.get('XLA_FLAGS', '').split() if 'xla_force_host_platform_device_count' not in f]
  flags.append(f'--xla_force_host_platform_device_count={k}')
  os.environ['XLA_FLAGS'] = ' '.join(flags)
  os.environ.setdefault('JAX_PLATFORMS', 'cpu')
  os.environ.setdefault('TF_CPP_MIN_LOG_LEVEL', '3')


# --------------------------------------------------------------------------
# DSL -> jax functions

def build_program(prog, wsr):
  import jax.numpy as jnp
  leaves = prog['leaves']

  def client_init(shared, cin):
    out = []
    for k, lp in enumerate(leaves):
      if lp['init'] == 0:
        v = shared['s'][k]
      elif lp['init'] == 1:
        v = cin[k]
      else:
        v = lp['ia'] * shared['s'][k] + lp['ib'] * cin[k]
      out.append(v)
    return tuple(out)

  def inv_term(mode, coef, bsum):
    if mode == 1:
      return coef * (1.0 / bsum)      # +-Inf on the all-zero padding batch
    if mode == 2:
      return coef * (bsum / bsum)     # NaN on the all-zero padding batch
    return None

  def client_step(state, batch):
    bsum = jnp.sum(batch['x'])
    bn = jnp.sum(batch['y'])
    new = []
    for k, lp in enumerate(leaves):
      s = state[k]
      if lp['step'] == 1:
        v = batch['x']
      elif lp['step'] == 2:
        v = s
      else:
        g = bn if lp['int'] else bsum
        c = lp['b'] * g + lp['d']
        t = inv_term(lp['inv'], lp['e'], bsum)
        if t is not None:
          c = c + t
        v = lp['a'] * s + c
      new.append(v)
    new = tuple(new)
    if not wsr:
      return new
    r = prog['res']
    r0 = r['ru'] * bsum + r['rv']
    t = inv_term(r['rinv'], r['rw'], bsum)
    if t is not None:
      r0 = r0 + t
    return new, {'r0': r0, 'leaf': new[r['rleaf']]}

  def client_final(shared, state):
    out = {}
    for k, lp in enumerate(leaves):
      if lp['final'] == 0:
        v = state[k]
      elif lp['final'] == 1:
        v = lp['fa'] * state[k] + lp['fb'] * shared['s'][k]
      else:
        v = shared['s'][k]
      out['o%d' % k] = v
    return out

  return client_init, client_step, client_final


def _arr(np, vals, shape, is_int):
  return np.array(vals, dtype=np.int32 if is_int else np.float32).reshape(shape)


def build_inputs(case, use_jax):
  """Fresh arrays for one backend call.  Returns (shared, clients, handles) where
  handles = [(name, array object, expected numpy copy)]."""
  import numpy as np
  import jax.numpy as jnp
  prog = case['prog']
  leaves = prog['leaves']
  handles = []

  def mk(name, vals, shape, is_int):
    a = _arr(np, vals, shape, is_int)
    obj = jnp.array(a) if use_jax else a
    handles.append((name, obj, a.copy()))
    return obj

  shared = {'s': tuple(mk('shared[%d]' % k, case['shared'][k], lp['shape'], lp['int']) for k, lp in enumerate(leaves))}
  clients = []
  for cid, batches, cin in case['clients']:
    bl = [{'x': mk('client %r batch %d x' % (cid, j), b[0], [len(b[0])], False),
           'y': mk('client %r batch %d y' % (cid, j), b[1], [len(b[1])], True)} for j, b in enumerate(batches)]
    ci = tuple(mk('client %r input[%d]' % (cid, k), cin[k], lp['shape'], lp['int']) for k, lp in enumerate(leaves))
    clients.append((_ext_id(case, cid), bl, ci))
  return shared, clients, handles


def as_passed(case, clients):
  """The clients collection as handed to fedjax: the caller's own list of (id, batches, input)
  tuples; batches are the caller's own python lists, or (lazy) fresh iterators over them."""
  if case.get('lazy'):
    return [(cid, iter(bl), ci) for cid, bl, ci in clients]
  return clients


def container_snapshot(shared, clients):
  """Structure of every CONTAINER the caller passes (not the arrays inside): lengths, keys and
  element identities of the clients list, each client tuple, each batches list, each batch
  dict, each client-input tuple and the shared-input dict / tuple."""
  snap = [('clients list', [id(c) for c in clients])]
  snap.append(('shared dict', sorted((k, id(v)) for k, v in shared.items())))
  snap.append(('shared tuple', [id(v) for v in shared['s']]))
  for n, c in enumerate(clients):
    cid, bl, ci = c
    snap.append(('client #%d tuple' % n, [repr(cid), id(bl), id(ci), len(c)]))
    snap.append(('client #%d (%r) batches list' % (n, cid), [id(b) for b in bl]))
    for j, b in enumerate(bl):
      snap.append(('client #%d (%r) batch %d dict' % (n, cid, j), sorted((k, id(v)) for k, v in b.items())))
    snap.append(('client #%d (%r) input tuple' % (n, cid), [id(v) for v in ci]))
  return snap


def _ext_id(case, cid):
  """The client id as given to fedjax: any hashable (int, bytes or str)."""
  kind = case.get('idkind', 'int')
  if kind == 'bytes':
    return b'c%d' % cid
  if kind == 'str':
    return 'c%d' % cid
  return cid


def _int_id(case, x):
  kind = case.get('idkind', 'int')
  try:
    if x is None:
      return None
    if kind == 'bytes' and isinstance(x, bytes) and x[:1] == b'c':
      return int(x[1:])
    if kind == 'str' and isinstance(x, str) and x[:1] == 'c':
      return int(x[1:])
    if kind == 'int' and isinstance(x, int) and not isinstance(x, bool):
      return x
  except ValueError:
    pass
  return repr(x)


def _canon_leaf(np, x):
  a = np.asarray(x)
  flat = a.reshape(-1).tolist()
  if a.dtype.kind == 'f':
    vals = [v if np.isfinite(v) else ('nan' if v != v else ('inf' if v > 0 else '-inf')) for v in (float(u) for u in flat)]
  elif a.dtype.kind in 'iub':
    vals = [int(v) for v in flat]
  else:
    vals = [repr(v) for v in flat]
  return {'dtype': str(a.dtype), 'shape': list(a.shape), 'v': vals}


def _canon_tree(np, jax, t):
  return [_canon_leaf(np, x) for x in jax.tree_util.tree_leaves(t)]


def run_backend(case, backend):
  import numpy as np
  import jax
  import fedjax
  from fedjax.core import for_each_client as fec
  wsr = bool(case['wsr'])
  init, step, final = build_program(case['prog'], wsr)
  shared, clients, handles = build_inputs(case, bool(case.get('jaxin')))
  o = {'err': None, 'yields': [], 'deleted': [], 'changed': [], 'containers': [], 'repeat': None}
  before = container_snapshot(shared, clients)

  def call(f):
    ys = []
    for item in f(shared, as_passed(case, clients)):
      if wsr:
        cid, out, res = item
        res_c = [_canon_tree(np, jax, r) for r in res]
      else:
        cid, out = item
        res_c = None
      ys.append({'id': _int_id(case, cid), 'out': _canon_tree(np, jax, out), 'res': res_c})
    return ys

  try:
    if backend == 'pmap':
      d = case.get('D')
      if d is None or d == jax.local_device_count():
        be = 'pmap'
      else:
        be = fec.ForEachClientPmapBackend(devices=jax.local_devices()[:d])
    else:
      be = backend
    with fedjax.for_each_client_backend(be):
      f = fedjax.for_each_client(init, step, final, with_step_result=wsr)
    o['yields'] = call(f)
    # the same call once more on the very same caller objects: must give the same yields
    try:
      again = call(f)
      key = lambda y: json.dumps(y, sort_keys=True)
      o['repeat'] = 'same' if sorted(map(key, again)) == sorted(map(key, o['yields'])) else 'differs'
    except Exception as ex:  # pylint: disable=broad-except
      o['repeat'] = 'raises E' + type(ex).__name__
  except Exception as ex:  # pylint: disable=broad-except
    o['err'] = 'E' + type(ex).__name__
    o['err_text'] = ''.join(traceback.format_exception_only(type(ex), ex)).strip()[:300]
  after = container_snapshot(shared, clients)
  bd = dict(before)
  for name, v in after:
    if name not in bd or bd[name] != v:
      o['containers'].append(name)
  for name, _ in before:
    if name not in dict(after) and name not in o['containers']:
      o['containers'].append(name)
  # the caller's buffers: still valid and bit-identical
  for name, obj, copy in handles:
    dead = False
    if hasattr(obj, 'is_deleted'):
      try:
        dead = bool(obj.is_deleted())
      except Exception:  # pylint: disable=broad-except
        dead = True
    if dead:
      o['deleted'].append(name)
      continue
    try:
      now = np.asarray(obj)
      same = now.dtype == copy.dtype and now.shape == copy.shape and now.tobytes() == copy.tobytes()
    except Exception:  # pylint: disable=broad-except
      same = False
    if not same:
      o['changed'].append(name)
  return o


def run_case(case):
  return {be: run_backend(case, be) for be in ('jit', 'debug', 'pmap')}


# --------------------------------------------------------------------------
# thread clause: scripts of set / get / with / raise per thread, executed in a
# fixed global order (one turn per sync point) on real threads

class Boom(Exception):
  pass


class _Sched:
  def __init__(self, order):
    self.order = order
    self.pos = 0
    self.holder = None
    self.cv = threading.Condition()
    self.failed = None

  def sync(self, tid):
    with self.cv:
      if self.holder == tid:
        self.holder = None
        self.pos += 1
        self.cv.notify_all()
      while not (self.failed or (self.pos < len(self.order) and self.order[self.pos] == tid and self.holder is None)):
        if not self.cv.wait(timeout=20):
          self.failed = 'scheduler timeout (thread %d at turn %d)' % (tid, self.pos)
          self.cv.notify_all()
      if self.failed:
        raise RuntimeError(self.failed)
      self.holder = tid

  def done(self, tid):
    with self.cv:
      if self.holder == tid:
        self.holder = None
        self.pos += 1
      self.cv.notify_all()

  def fail(self, msg):
    with self.cv:
      self.failed = self.failed or msg
      self.cv.notify_all()


def run_threads(case):
  import fedjax
  from fedjax.core import for_each_client as fec
  bound = []     # backend objects whose __call__ ran (custom backends only)

  class RecDebug(fec.ForEachClientDebugBackend):
    def __call__(self, *a):
      bound.append(self)
      return super().__call__(*a)

  class RecJit(fec.ForEachClientJitBackend):
    def __call__(self, *a):
      bound.append(self)
      return super().__call__(*a)

  customs = [RecDebug(), RecJit()]

  def bind_kind():
    """Which backend does fedjax.for_each_client(...) bind in this thread, right now?"""
    del bound[:]
    f = fedjax.for_each_client(lambda sh, cin: cin, lambda s, b: (s, ()), with_step_result=True)
    if bound:
      return kind(bound[-1])
    qn = getattr(f, '__qualname__', '')
    for name, code in (('ForEachClientJitBackend', 0), ('ForEachClientDebugBackend', 2), ('ForEachClientPmapBackend', 3)):
      if qn.startswith(name + '.'):
        return code
    return -1

  def backend_arg(b):
    if b is None or isinstance(b, str):
      return b
    return customs[b - 10]

  def kind(obj):
    for i, c in enumerate(customs):
      if obj is c:
        return 10 + i
    if isinstance(obj, fec.ForEachClientJitBackend):
      return 0
    if isinstance(obj, fec.ForEachClientDebugBackend):
      return 2
    if isinstance(obj, fec.ForEachClientPmapBackend):
      return 3
    return -1

  sched = _Sched(case['order'])
  reads = []   # (turn index, tid, kind) in global order
  errors = []

  def interp(tid, block):
    for op in block:
      k = op['op']
      sched.sync(tid)
      if k == 'set':
        fedjax.set_for_each_client_backend(backend_arg(op['b']))
      elif k == 'setbad':
        try:
          fedjax.set_for_each_client_backend('no-such-backend')
          errors.append('set of an unsupported backend did not raise')
        except ValueError:
          pass
      elif k == 'get':
        reads.append([sched.pos, tid, kind(fedjax.get_for_each_client_backend())])
      elif k == 'bind':
        reads.append([sched.pos, tid, bind_kind()])
      elif k == 'enterbad':
        try:
          with fedjax.for_each_client_backend('no-such-backend'):
            errors.append('context of an unsupported backend was entered')
        except ValueError:
          pass
      elif k == 'raise':
        raise Boom()
      elif k == 'with':
        try:
          with fedjax.for_each_client_backend(backend_arg(op['b'])):
            interp(tid, op['body'])
            sched.sync(tid)     # the turn in which the block is left normally
        except Boom:
          if not op['catch']:
            raise
      else:
        raise ValueError('bad op ' + k)

  def runner(tid):
    try:
      try:
        interp(tid, case['scripts'][tid])
      except Boom:
        pass
      sched.done(tid)
    except Exception as ex:  # pylint: disable=broad-except
      errors.append('thread %d: %s' % (tid, ''.join(traceback.format_exception_only(type(ex), ex)).strip()[:200]))
      sched.fail('thread %d died' % tid)

  n = case['nthreads']
  fedjax.set_for_each_client_backend(None)      # thread 0 is this (long-lived) thread
  ths = [threading.Thread(target=runner, args=(t,), daemon=True) for t in range(1, n)]
  for t in ths:
    t.start()
  runner(0)
  for t in ths:
    t.join(timeout=30)
    if t.is_alive():
      errors.append('thread did not finish')
  fedjax.set_for_each_client_backend(None)
  return {'reads': reads, 'turns': sched.pos, 'errors': errors}


def handle(case):
  if case['kind'] == 'run':
    return run_case(case)
  if case['kind'] == 'threads':
    return run_threads(case)
  raise ValueError('unknown case kind')


def main():
  k = int(sys.argv[1])
  _setup(k)
  out = os.fdopen(os.dup(1), 'w')
  os.dup2(2, 1)       # anything the libraries print on stdout goes to stderr
  import jax
  import fedjax  # noqa: F401
  out.write('@@' + json.dumps({'ready': True, 'devices': jax.local_device_count(), 'jax': jax.__version__}) + '\n')
  out.flush()
  for line in sys.stdin:
    line = line.strip()
    if not line:
      continue
    try:
      case = json.loads(line)
      obs = handle(case)
    except Exception as ex:  # pylint: disable=broad-except
      obs = {'worker_error': ''.join(traceback.format_exception_only(type(ex), ex)).strip()[:500]}
    out.write('@@' + json.dumps(obs) + '\n')
    out.flush()


if __name__ == '__main__':
  main()
