"""C02 worker process: runs the REAL fedjax.for_each_client under the jit, debug and
pmap backends with a fixed number of host CPU devices.

  python -m harness.c02_worker <k>

XLA_FLAGS=--xla_force_host_platform_device_count=k is set BEFORE jax is imported.
Protocol: one JSON case per stdin line -> one JSON observation per stdout line
(prefixed with '@@' so that library chatter on stdout cannot be mistaken for it).

The client program is given in a small DSL (see tools/harness/c02.py for the
grammar); this file only builds the three python functions client_init /
client_step / client_final from it with jax.numpy and observes what the backends
yield, plus the validity of the caller's buffers after the call.
"""
import json
import os
import sys
import threading
import traceback


def _setup(k):
  flags = [f for f in os.environ.get('XLA_FLAGS', '').split() if 'xla_force_host_platform_device_count' not in f]
  flags.append(f'--xla_force_host_platform_device_count={k}')
  os.environ['XLA_FLAGS'] = ' '.join(flags)
  os.environ.setdefault('JAX_PLATFORMS', 'cpu')
  os.environ.setdefault('TF_CPP_MIN_LOG_LEVEL', '3')


# --------------------------------------------------------------------------
# DSL -> jax functions

NP_DTYPES = {'f32': 'float32', 'i32': 'int32', 'f16': 'float16', 'bf16': 'bfloat16', 'i8': 'int8', 'u8': 'uint8',
             'bool': 'bool', 'c64': 'complex64'}


def leaf_dtype(lp):
  return lp.get('dtype') or ('i32' if lp['int'] else 'f32')


def _np_dtype(np, name):
  if name == 'bf16':
    import jax.numpy as jnp
    return jnp.bfloat16
  return np.dtype(NP_DTYPES[name])


NEST_KEYS = ['z', 'a', 'm', 'b']       # NOT in sorted order: jax flattens dicts by sorted key, python iterates insertion


_St = {n: __import__('collections').namedtuple('ClientState%d' % n, NEST_KEYS[:n]) for n in range(0, 5)}


def _dataclass_state():
  import fedjax

  @fedjax.dataclass
  class DcState:
    leaves: tuple
    extra: None = None
  return DcState


_DC = []


def pack_state(nest, vals):
  if nest == 'namedtuple':
    return _St[len(vals)](*vals)
  if nest == 'list':
    return list(vals)
  if nest == 'dataclass':       # fedjax.dataclass pytree with a None field
    if not _DC:
      _DC.append(_dataclass_state())
    return _DC[0](leaves=tuple(vals))
  return _pack_state(nest, vals)


def _pack_state(nest, vals):
  """The client step state as a pytree: a tuple, a dict whose keys are not in sorted order, or a
  nested mix of dict / tuple / list with None (empty subtree) entries."""
  if nest == 'dict':
    return {NEST_KEYS[k]: v for k, v in enumerate(vals)}
  if nest == 'nested':
    return {'q': [{NEST_KEYS[k]: (v, None)} for k, v in enumerate(vals)], 'p': None}
  return tuple(vals)


def unpack_state(nest, st, n):
  if nest == 'dataclass':
    return list(st.leaves)
  return _unpack_state(nest, st, n)


def _unpack_state(nest, st, n):
  if nest == 'dict':
    return [st[NEST_KEYS[k]] for k in range(n)]
  if nest == 'nested':
    return [st['q'][k][NEST_KEYS[k]][0] for k in range(n)]
  return list(st)


def build_program(prog, wsr, nest='tuple'):
  import jax.numpy as jnp
  leaves = prog['leaves']

  def client_init(shared, cin):
    out = []
    for k, lp in enumerate(leaves):
      if lp['init'] == 0:
        v = shared['s'][k]
      elif lp['init'] == 1:
        v = cin[k]
      else:
        v = lp['ia'] * shared['s'][k] + lp['ib'] * cin[k]
      out.append(v)
    return pack_state(nest, out)

  def inv_term(mode, coef, bsum):
    if mode == 1:
      return coef * (1.0 / bsum)      # +-Inf on the all-zero padding batch
    if mode == 2:
      return coef * (bsum / bsum)     # NaN on the all-zero padding batch
    return None

  def client_step(state, batch):
    bsum = jnp.sum(batch['x'])
    bn = jnp.sum(batch['y'], dtype=jnp.int32)      # (dtype-stable also under jax_enable_x64)
    state = unpack_state(nest, state, len(leaves))
    new = []
    for k, lp in enumerate(leaves):
      s = state[k]
      if lp['step'] == 1:
        v = batch['x']
      elif lp['step'] == 2:
        v = s
      elif lp['step'] == 3:           # s + d in the leaf's own (narrow) dtype
        v = s + jnp.asarray(lp['d'], dtype=jnp.asarray(s).dtype)
      elif lp['step'] == 4:           # boolean leaf: not s
        v = jnp.logical_not(s)
      else:
        g = bn if lp['int'] else bsum
        c = lp['b'] * g + lp['d']
        t = inv_term(lp['inv'], lp['e'], bsum)
        if t is not None:
          c = c + t
        v = lp['a'] * s + c
      new.append(v)
    packed = pack_state(nest, new)
    if not wsr:
      return packed
    r = prog['res']
    r0 = r['ru'] * bsum + r['rv']
    t = inv_term(r['rinv'], r['rw'], bsum)
    if t is not None:
      r0 = r0 + t
    return packed, {'r0': r0, 'leaf': new[r['rleaf']]}

  def client_final(shared, state):
    out = {}
    state = unpack_state(nest, state, len(leaves))
    for k, lp in enumerate(leaves):
      if lp['final'] == 0:
        v = state[k]
      elif lp['final'] == 1:
        v = lp['fa'] * state[k] + lp['fb'] * shared['s'][k]
      else:
        v = shared['s'][k]
      out['o%d' % k] = v
    return out

  return client_init, client_step, client_final


LAYOUTS = ['c', 'F', 'T', 'step2', 'neg', 'col', 'ro']


def relayout(np, a, kind):
  """An array equal to `a` (values, shape, dtype) with another memory layout: Fortran order,
  a transposed view, an every-other-element slice of a wider array, negative strides, a column
  slice of a wider array, read-only.  (Byte-swapped dtypes are rejected by JAX itself.)"""
  nd = a.ndim
  if kind == 'c' or nd == 0:
    return a
  if kind == 'F':
    return np.asfortranarray(a)
  if kind == 'T':
    return np.ascontiguousarray(a.T).T
  if kind == 'step2':
    w = np.zeros(tuple(2 * d for d in a.shape), a.dtype)
    v = w[(slice(None, None, 2),) * nd]
    v[...] = a
    return v
  if kind == 'neg':
    rev = (slice(None, None, -1),) * nd
    return np.ascontiguousarray(a[rev])[rev]
  if kind == 'col':
    w = np.zeros(a.shape + (3,), a.dtype)
    w[..., 1] = a
    return w[..., 1]
  if kind == 'ro':
    c = a.copy()
    c.flags.writeable = False
    return c
  raise ValueError(kind)


def build_inputs(case, use_jax):
  """Fresh arrays for one backend call.  Returns (shared, clients, handles) where
  handles = [(name, array object, expected numpy copy)].  0-d leaves may be delivered as
  NumPy scalars or Python scalars (`scalar_form`); the client input / shared input may be
  an empty pytree when the program never reads it."""
  import numpy as np
  import jax.numpy as jnp
  prog = case['prog']
  leaves = prog['leaves']
  handles = []
  sform = case.get('scalar_form', 'array')

  counter = [int(case.get('layout_seed', 0))]

  def mk(name, vals, shape, dt, scalar_ok=False):
    vals = [float(v) if isinstance(v, str) else v for v in vals]      # 'inf' / '-inf' / 'nan' on REAL positions
    if dt == 'c64':               # (re, im) pairs
      a = (np.array(vals[0::2], np.float32) + 1j * np.array(vals[1::2], np.float32)).astype(np.complex64).reshape(shape)
    else:
      a = np.array(vals, dtype=_np_dtype(np, dt)).reshape(shape)
    if case.get('layouts'):       # the same values in a non-default memory layout
      counter[0] += 1
      a = relayout(np, a, LAYOUTS[counter[0] % len(LAYOUTS)])
    if scalar_ok and list(shape) == [] and sform != 'array' and dt in ('f32', 'i32'):
      obj = a[()] if sform == 'np' else a[()].item()     # np.float32(..) / python float
      handles.append((name, obj, a.copy()))
      return obj
    obj = jnp.array(a) if use_jax else a
    handles.append((name, obj, a.copy()))
    return obj

  if case.get('shared_form') == 'none':
    shared = None
  else:
    shared = {'s': tuple(mk('shared[%d]' % k, case['shared'][k], lp['shape'], leaf_dtype(lp), True)
                         for k, lp in enumerate(leaves))}
  clients = []
  for cid, batches, cin in case['clients']:
    bl = []
    for j, b in enumerate(batches):
      x = mk('client %r batch %d x' % (cid, j), b[0], [len(b[0])], 'f32')
      y = mk('client %r batch %d y' % (cid, j), b[1], [len(b[1])], 'i32')
      order = case.get('batch_keys', 'xy')
      yx = order == 'yx' or (order == 'mixed' and (j + len(clients)) % 2 == 1)
      bl.append({'y': y, 'x': x} if yx else {'x': x, 'y': y})       # insertion order of the dict keys
    cf = case.get('cin_form', 'tuple')
    if cf == 'empty':
      ci = ()
    elif cf == 'none':
      ci = None
    else:
      ci = tuple(mk('client %r input[%d]' % (cid, k), cin[k], lp['shape'], leaf_dtype(lp), True)
                 for k, lp in enumerate(leaves))
    clients.append((_ext_id(case, cid), bl, ci))
  return shared, clients, handles


class Tracker:
  """Counts how far one-shot iterables handed to fedjax were consumed."""

  def __init__(self):
    self.items = []     # [name, expected, taken, exhausted]

  def wrap(self, name, seq, form):
    if form in ('list', None):
      return seq
    if form == 'tuple':
      return tuple(seq)
    rec = [name, len(seq), 0, False]
    self.items.append(rec)

    def gen():
      for x in seq:
        rec[2] += 1
        yield x
      rec[3] = True
    if form == 'gen':
      return gen()
    if form == 'iter':
      return _CountingIter(seq, rec)
    if form == 'map':
      return map(lambda x: x, gen())
    raise ValueError('form ' + form)

  def problems(self):
    return ['%s: %d of %d items taken%s' % (n, t, e, '' if x else ', not exhausted')
            for n, e, t, x in self.items if t != e or not x]


class _CountingIter:
  """iter(list)-like one-shot iterator that records consumption."""

  def __init__(self, seq, rec):
    self._it, self._rec = iter(seq), rec

  def __iter__(self):
    return self

  def __next__(self):
    try:
      v = next(self._it)
    except StopIteration:
      self._rec[3] = True
      raise
    self._rec[2] += 1
    return v


def as_passed(case, clients, tracker=None):
  """The clients collection as handed to fedjax.  `batches_form`: the caller's own python
  list, a tuple, or a one-shot generator / iterator / map over it; `clients_form`: the
  caller's own list, a tuple, a one-shot generator / iterator / map, or a generator over the
  items of a dict keyed by client id."""
  tracker = tracker or Tracker()
  bform = case.get('batches_form') or ('iter' if case.get('lazy') else 'list')
  cform = case.get('clients_form', 'list')
  if bform == 'list':
    cl = clients
  else:
    cl = [(cid, tracker.wrap('batches of client %r' % (cid,), bl, bform), ci) for cid, bl, ci in clients]
  if cform == 'list':
    return cl
  if cform == 'dictitems':
    d = {cid: (b, ci) for cid, b, ci in cl}
    if len(d) == len(cl):
      return ((k, v[0], v[1]) for k, v in d.items())
    cform = 'gen'
  return tracker.wrap('clients', cl, cform)


def container_snapshot(shared, clients):
  """Structure of every CONTAINER the caller passes (not the arrays inside): lengths, keys and
  element identities of the clients list, each client tuple, each batches list, each batch
  dict, each client-input tuple and the shared-input dict / tuple."""
  snap = [('clients list', [id(c) for c in clients])]
  if shared is not None:
    snap.append(('shared dict', sorted((k, id(v)) for k, v in shared.items())))
    snap.append(('shared tuple', [id(v) for v in shared['s']]))
  for n, c in enumerate(clients):
    cid, bl, ci = c
    snap.append(('client #%d tuple' % n, [repr(cid), id(bl), id(ci), len(c)]))
    snap.append(('client #%d (%r) batches list' % (n, cid), [id(b) for b in bl]))
    for j, b in enumerate(bl):
      snap.append(('client #%d (%r) batch %d dict' % (n, cid, j), sorted((k, id(v)) for k, v in b.items())))
    if ci is not None:
      snap.append(('client #%d (%r) input tuple' % (n, cid), [id(v) for v in ci]))
  return snap


SENTINELS = {900: None, 901: -1, 902: False, 903: (None,)}


def _ext_id(case, cid):
  """The client id as given to fedjax: any hashable.  Id 0 is delivered as the FALSY value
  of the kind: 0, b'', '', ().  Codes 900.. are legal ids that collide with values the code
  uses internally for padding / absence: None, -1, False, (None,)."""
  if cid in SENTINELS:
    return SENTINELS[cid]
  kind = case.get('idkind', 'int')
  if kind == 'bytes':
    return b'c%d' % cid if cid else b''
  if kind == 'str':
    return 'c%d' % cid if cid else ''
  if kind == 'tuple':
    return (cid,) if cid else ()
  return cid


def _int_id(case, x):
  """Back to the case's integer id.  A yielded None is the id of a padding client (None)
  unless the case has a real client whose id IS None (then code 900: the multiset of ids
  still tells a leaked padding client from the real one)."""
  back = {}
  for c in case['clients']:
    e = _ext_id(case, c[0])
    back[(type(e).__name__, e)] = c[0]
  try:
    k = (type(x).__name__, x)
    if k in back:
      return back[k]
  except TypeError:
    pass
  return None if x is None else repr(x)


def _canon_leaf(np, x):
  a = np.asarray(x)
  name = str(a.dtype)
  if name in ('bfloat16', 'float16'):
    a = a.astype(np.float32)
  if name == 'complex64':        # (re, im) pairs; the shape stays the complex array's
    shape = list(a.shape)
    flat = np.ascontiguousarray(a).reshape(-1).view(np.float32).tolist()
    return {'dtype': name, 'shape': shape, 'v': [float(v) for v in flat]}
  flat = a.reshape(-1).tolist()
  if a.dtype.kind == 'f':
    vals = [v if np.isfinite(v) else ('nan' if v != v else ('inf' if v > 0 else '-inf')) for v in (float(u) for u in flat)]
  elif a.dtype.kind in 'iub':
    vals = [int(v) for v in flat]
  else:
    vals = [repr(v) for v in flat]
  return {'dtype': name, 'shape': list(a.shape), 'v': vals}


def _canon_tree(np, jax, t):
  return [_canon_leaf(np, x) for x in jax.tree_util.tree_leaves(t)]


_WEAK_PAIRS = ({'float32', 'float64'}, {'int32', 'int64'})


def _leaf_close(a, b, tol, weak=False):
  same_dt = a['dtype'] == b['dtype'] or (weak and a['shape'] == [] and {a['dtype'], b['dtype']} in _WEAK_PAIRS)
  if not same_dt or a['shape'] != b['shape'] or len(a['v']) != len(b['v']):
    return False
  for x, y in zip(a['v'], b['v']):
    if isinstance(x, str) or isinstance(y, str):
      if x != y:
        return False
    elif abs(x - y) > tol * (1 + abs(y)):       # -0.0 and 0.0 are the same value
      return False
  return True


def _yield_close(a, b, tol, weak=False):
  if a['id'] != b['id'] or len(a['out']) != len(b['out']) or (a['res'] is None) != (b['res'] is None):
    return False
  if not all(_leaf_close(x, y, tol, weak) for x, y in zip(a['out'], b['out'])):
    return False
  if a['res'] is not None:
    if len(a['res']) != len(b['res']):
      return False
    for r1, r2 in zip(a['res'], b['res']):
      if len(r1) != len(r2) or not all(_leaf_close(x, y, tol, weak) for x, y in zip(r1, r2)):
        return False
  return True


def same_yields(a, b, tol=0.0, weak=False):
  """Multiset equality of two lists of canonical yields (values within tol, relative)."""
  left = list(b)
  for y in a:
    for i, z in enumerate(left):
      if _yield_close(y, z, tol, weak):
        left.pop(i)
        break
    else:
      return False
  return not left


_INSTANCES = {}     # backend objects that live as long as the worker: reused across cases


def _make_f(case, backend, prog_fns, wsr):
  """for_each_client through one of its entry points (`via`)."""
  import jax
  import fedjax
  from fedjax.core import for_each_client as fec
  init, step, final = prog_fns
  d = case.get('D')
  partial_devices = backend == 'pmap' and d is not None and d != jax.local_device_count()
  via = case.get('via', 'ctx')
  if partial_devices:
    be = fec.ForEachClientPmapBackend(devices=jax.local_devices()[:d])
  elif via in ('instance', 'direct'):
    key = (backend, via)
    if key not in _INSTANCES:
      _INSTANCES[key] = {'jit': fec.ForEachClientJitBackend, 'debug': fec.ForEachClientDebugBackend,
                         'pmap': fec.ForEachClientPmapBackend}[backend]()
    be = _INSTANCES[key]
  else:
    be = backend
  omit_final = bool(case.get('default_final'))
  if via == 'direct' and wsr and not omit_final:
    return be(init, step, final)          # the backend object itself is the factory
  kwargs = {'with_step_result': wsr}
  if case.get('kw'):
    kwargs.update(client_init=init, client_step=step)
    args = ()
    if not omit_final:
      kwargs['client_final'] = final
  else:
    args = (init, step) if omit_final else (init, step, final)
  if via == 'set':
    old = fedjax.get_for_each_client_backend()
    fedjax.set_for_each_client_backend(be)
    try:
      return fedjax.for_each_client(*args, **kwargs)
    finally:
      fedjax.set_for_each_client_backend(old)
  with fedjax.for_each_client_backend(be):
    return fedjax.for_each_client(*args, **kwargs)


def run_backend(case, backend, prog_fns):
  import itertools
  import numpy as np
  import jax
  wsr = bool(case['wsr'])
  shared, clients, handles = build_inputs(case, bool(case.get('jaxin')))
  o = {'err': None, 'yields': [], 'deleted': [], 'changed': [], 'containers': [], 'repeat': None, 'iterables': [],
       'kept': []}
  before = container_snapshot(shared, clients)
  key = lambda y: json.dumps(y, sort_keys=True)

  def canon(item):
    if wsr:
      cid, out, res = item
      res_c = [_canon_tree(np, jax, r) for r in res]
    else:
      cid, out = item
      res_c = None
    return {'id': _int_id(case, cid), 'out': _canon_tree(np, jax, out), 'res': res_c,
            'tree': [str(jax.tree_util.tree_structure(out)),
                     str(jax.tree_util.tree_structure(res[0])) if wsr and len(res) else None]}

  # the tree structures the client functions produce, straight from the program (no fedjax involved)
  n_leaves = len(case['prog']['leaves'])
  nest = case.get('state_nest', 'tuple')
  o['tree_expected'] = [
      str(jax.tree_util.tree_structure(pack_state(nest, [0] * n_leaves) if case.get('default_final')
                                       else {'o%d' % k: 0 for k in range(n_leaves)})),
      str(jax.tree_util.tree_structure({'r0': 0, 'leaf': 0}))]

  f = None
  try:
    f = _make_f(case, backend, prog_fns, wsr)
    tracker = Tracker()
    kept = list(f(shared, as_passed(case, clients, tracker)))      # the caller KEEPS these results
    o['yields'] = [canon(it) for it in kept]
    o['iterables'] = tracker.problems()
    # a later call on the very same caller objects (several access patterns): same yields
    mode = case.get('second', 'repeat')
    try:
      if mode == 'interleave':
        g1, g2 = f(shared, as_passed(case, clients)), f(shared, as_passed(case, clients))
        r1, r2 = [], []
        for x, y in itertools.zip_longest(g1, g2):
          if x is not None:
            r1.append(canon(x))
          if y is not None:
            r2.append(canon(y))
        runs = [r1, r2]
      elif mode == 'pieces':
        g = f(shared, as_passed(case, clients))
        first = [canon(x) for x in itertools.islice(g, 1)]
        g = iter(g)
        runs = [first + [canon(x) for x in g]]
      elif mode == 'abandon':
        g = f(shared, as_passed(case, clients))
        next(g, None)
        g.close()
        runs = [[canon(x) for x in f(shared, as_passed(case, clients))]]
      elif mode == 'disable_jit' and backend != 'pmap':      # (op-by-op pmap is very slow; pmap gets the plain repeat)
        with jax.disable_jit():
          runs = [[canon(x) for x in f(shared, as_passed(case, clients))]]
      else:
        runs = [[canon(x) for x in f(shared, as_passed(case, clients))]]
      # op-by-op evaluation may round differently from the fused jitted computation (generic floats)
      tol = 1e-5 if (mode == 'disable_jit' and case.get('tol')) else 0.0
      # ... and a Python-scalar input that no jax op touches stays a Python float / int without jit (weak type)
      weak = mode == 'disable_jit' and case.get('scalar_form') == 'py'
      o['repeat'] = 'same' if all(same_yields(r, o['yields'], tol, weak) for r in runs) else 'differs (%s)' % mode
    except Exception as ex:  # pylint: disable=broad-except
      o['repeat'] = 'raises E%s (%s)' % (type(ex).__name__, mode)
    # the results the caller kept from the FIRST call are still valid and unchanged
    try:
      now = [canon(it) for it in kept]
      if not same_yields(now, o['yields']):
        o['kept'].append('values changed')
    except Exception as ex:  # pylint: disable=broad-except
      o['kept'].append('E' + type(ex).__name__)
  except Exception as ex:  # pylint: disable=broad-except
    o['err'] = 'E' + type(ex).__name__
    o['err_text'] = ''.join(traceback.format_exception_only(type(ex), ex)).strip()[:300]
  o['disable_jit_leaked'] = bool(jax.config.jax_disable_jit)     # informational (outside the property's wording)
  after = container_snapshot(shared, clients)
  bd = dict(before)
  for name, v in after:
    if name not in bd or bd[name] != v:
      o['containers'].append(name)
  for name, _ in before:
    if name not in dict(after) and name not in o['containers']:
      o['containers'].append(name)
  # the caller's buffers: still valid and bit-identical
  for name, obj, copy in handles:
    dead = False
    if hasattr(obj, 'is_deleted'):
      try:
        dead = bool(obj.is_deleted())
      except Exception:  # pylint: disable=broad-except
        dead = True
    if dead:
      o['deleted'].append(name)
      continue
    try:
      now = np.asarray(obj)
      same = now.shape == copy.shape and now.astype(copy.dtype).tobytes() == copy.tobytes() and \
          (now.dtype == copy.dtype or not hasattr(obj, 'dtype'))
    except Exception:  # pylint: disable=broad-except
      same = False
    if not same:
      o['changed'].append(name)
  return o, f, (shared, clients)


def run_case(case):
  """All three backends are built from the SAME client function objects (one program per
  case); the first-built function is called once more at the very end, after the other
  backends were built from the same functions and run."""
  import numpy as np
  import jax
  wsr = bool(case['wsr'])
  prog_fns = build_program(case['prog'], wsr, case.get('state_nest', 'tuple'))
  order = case.get('order') or ['jit', 'debug', 'pmap']
  res, first = {}, None
  for be in order:
    o, f, inputs = _in_fresh_thread(run_backend, case, be, prog_fns)
    res[be] = o
    if first is None:
      first = (be, f, inputs)
  _in_fresh_thread(_recheck_first, case, res, first, wsr)
  return res


def _in_fresh_thread(fn, *args):
  """Runs fn in a new thread and returns its value.  jax's thread-local configuration
  (jax.disable_jit() entered by the debug backend's generator) can be left switched on when
  two debug-backend iterators are consumed interleaved (observed on /repo, reported as
  `disable_jit_leaked`); a fresh thread per backend call keeps that from turning every
  later jit-backend call of this worker into an un-jitted one."""
  box = []

  def target():
    try:
      box.append(('ok', fn(*args)))
    except BaseException as ex:  # pylint: disable=broad-except
      box.append(('err', ex))
  th = threading.Thread(target=target, daemon=True)
  th.start()
  th.join()
  kind, v = box[0]
  if kind == 'err':
    raise v
  return v


def _recheck_first(case, res, first, wsr):
  import numpy as np
  import jax
  be, f, (shared, clients) = first
  if f is not None and not res[be]['err']:
    try:
      ys = []
      for item in f(shared, as_passed(case, clients)):
        cid, out = item[0], item[1]
        ys.append({'id': _int_id(case, cid), 'out': _canon_tree(np, jax, out),
                   'res': [_canon_tree(np, jax, r) for r in item[2]] if wsr else None})
      res[be]['first_built'] = 'same' if same_yields(ys, res[be]['yields']) else 'differs'
    except Exception as ex:  # pylint: disable=broad-except
      res[be]['first_built'] = 'raises E' + type(ex).__name__


# --------------------------------------------------------------------------
# thread clause: scripts of set / get / with / raise per thread, executed in a
# fixed global order (one turn per sync point) on real threads

class Boom(Exception):
  pass


class _Sched:
  def __init__(self, order):
    self.order = order
    self.pos = 0
    self.holder = None
    self.cv = threading.Condition()
    self.failed = None

  def sync(self, tid):
    with self.cv:
      if self.holder == tid:
        self.holder = None
        self.pos += 1
        self.cv.notify_all()
      while not (self.failed or (self.pos < len(self.order) and self.order[self.pos] == tid and self.holder is None)):
        if not self.cv.wait(timeout=20):
          self.failed = 'scheduler timeout (thread %d at turn %d)' % (tid, self.pos)
          self.cv.notify_all()
      if self.failed:
        raise RuntimeError(self.failed)
      self.holder = tid

  def done(self, tid):
    with self.cv:
      if self.holder == tid:
        self.holder = None
        self.pos += 1
      self.cv.notify_all()

  def fail(self, msg):
    with self.cv:
      self.failed = self.failed or msg
      self.cv.notify_all()


def run_threads(case):
  import fedjax
  from fedjax.core import for_each_client as fec
  bound = []     # backend objects whose __call__ ran (custom backends only)

  class RecDebug(fec.ForEachClientDebugBackend):
    def __call__(self, *a):
      bound.append(self)
      return super().__call__(*a)

  class RecJit(fec.ForEachClientJitBackend):
    def __call__(self, *a):
      bound.append(self)
      return super().__call__(*a)

  customs = [RecDebug(), RecJit()]

  def bind_kind():
    """Which backend does fedjax.for_each_client(...) bind in this thread, right now?"""
    del bound[:]
    f = fedjax.for_each_client(lambda sh, cin: cin, lambda s, b: (s, ()), with_step_result=True)
    if bound:
      return kind(bound[-1])
    qn = getattr(f, '__qualname__', '')
    for name, code in (('ForEachClientJitBackend', 0), ('ForEachClientDebugBackend', 2), ('ForEachClientPmapBackend', 3)):
      if qn.startswith(name + '.'):
        return code
    return -1

  def backend_arg(b):
    if b is None or isinstance(b, str):
      return b
    return customs[b - 10]

  def kind(obj):
    for i, c in enumerate(customs):
      if obj is c:
        return 10 + i
    if isinstance(obj, fec.ForEachClientJitBackend):
      return 0
    if isinstance(obj, fec.ForEachClientDebugBackend):
      return 2
    if isinstance(obj, fec.ForEachClientPmapBackend):
      return 3
    return -1

  sched = _Sched(case['order'])
  reads = []   # (turn index, tid, kind) in global order
  errors = []

  def interp(tid, block):
    for op in block:
      k = op['op']
      sched.sync(tid)
      if k == 'set':
        fedjax.set_for_each_client_backend(backend_arg(op['b']))
      elif k == 'setbad':
        try:
          fedjax.set_for_each_client_backend('no-such-backend')
          errors.append('set of an unsupported backend did not raise')
        except ValueError:
          pass
      elif k == 'get':
        reads.append([sched.pos, tid, kind(fedjax.get_for_each_client_backend())])
      elif k == 'bind':
        reads.append([sched.pos, tid, bind_kind()])
      elif k == 'enterbad':
        try:
          with fedjax.for_each_client_backend('no-such-backend'):
            errors.append('context of an unsupported backend was entered')
        except ValueError:
          pass
      elif k == 'raise':
        raise Boom()
      elif k == 'with':
        try:
          with fedjax.for_each_client_backend(backend_arg(op['b'])):
            interp(tid, op['body'])
            sched.sync(tid)     # the turn in which the block is left normally
        except Boom:
          if not op['catch']:
            raise
      else:
        raise ValueError('bad op ' + k)

  def runner(tid):
    try:
      try:
        interp(tid, case['scripts'][tid])
      except Boom:
        pass
      sched.done(tid)
    except Exception as ex:  # pylint: disable=broad-except
      errors.append('thread %d: %s' % (tid, ''.join(traceback.format_exception_only(type(ex), ex)).strip()[:200]))
      sched.fail('thread %d died' % tid)

  n = case['nthreads']
  fedjax.set_for_each_client_backend(None)      # thread 0 is this (long-lived) thread
  ths = [threading.Thread(target=runner, args=(t,), daemon=True) for t in range(1, n)]
  for t in ths:
    t.start()
  runner(0)
  for t in ths:
    t.join(timeout=30)
    if t.is_alive():
      errors.append('thread did not finish')
  fedjax.set_for_each_client_backend(None)
  return {'reads': reads, 'turns': sched.pos, 'errors': errors}


def run_grid(case):
  """_blockify on EVERY vector of per-client batch counts in [0, base)^n for block size D.
  Per vector: a digest of the complete ClientBlock contents (for the Coq model) and the plain
  structure (for the oracle)."""
  import itertools
  import numpy as np
  from fedjax.core import for_each_client as fec
  D, n, base = case['D'], case['n'], case['base']
  digests, structs = [], []
  for counts in itertools.product(range(base), repeat=n):
    clients = [(i + 1, [100 * (i + 1) + j + 1 for j in range(c)], 1000 + i) for i, c in enumerate(counts)]
    snapshot = [list(c[1]) for c in clients]
    enc, st = [], []
    try:
      for blk in fec._blockify(iter(clients), D):      # pylint: disable=protected-access
        ids = [0 if x is None else int(x) for x in blk.client_id]
        mask = [int(bool(m)) for m in blk.client_mask]
        nb = [int(x) for x in blk.num_batches]
        # the CONTENT of padding (the input of a padding client, a batch whose mask is False) is not
        # observable through the API and the theorems hold for any padding value: recorded as 0
        rows = [([int(np.asarray(b)) if m else 0 for b, m in zip(row, msk)], [int(bool(m)) for m in msk])
                for row, msk in blk.masked_batches]
        cin = [int(np.asarray(x)) if m else 0 for x, m in zip(blk.client_input, mask)]
        if len(cin) != len(mask) or any(len(r) != len(mask) for r, _ in rows):
          cin.append(-9)                                 # ragged block: visible in digest and structure
        enc += ids + [-1] + mask + [-2] + nb + [-3]
        for r, m in rows:
          enc += r + m + [-4]
        enc += cin + [-5]
        st.append([ids, mask, nb, rows, cin])
    except Exception as ex:  # pylint: disable=broad-except
      st, enc = 'raised E' + type(ex).__name__, [-99]
    h = 0
    for x in enc:
      h = (h * 131 + x + 7) % 1000000007
    digests.append(h)
    structs.append(st)
    if snapshot != [c[1] for c in clients]:
      structs[-1] = 'caller lists changed'
  return {'digests': digests, 'structs': structs}


def handle(case):
  if case['kind'] == 'grid':
    return run_grid(case)
  if case['kind'] == 'run':
    return run_case(case)
  if case['kind'] == 'threads':
    return run_threads(case)
  raise ValueError('unknown case kind')


def main():
  k = int(sys.argv[1])
  _setup(k)
  if len(sys.argv) > 2 and sys.argv[2] == 'x64':       # global configuration flag, set before jax is imported
    os.environ['JAX_ENABLE_X64'] = '1'
  out = os.fdopen(os.dup(1), 'w')
  os.dup2(2, 1)       # anything the libraries print on stdout goes to stderr
  import jax
  import fedjax  # noqa: F401
  out.write('@@' + json.dumps({'ready': True, 'devices': jax.local_device_count(), 'jax': jax.__version__,
                               'x64': bool(jax.config.jax_enable_x64)}) + '\n')
  out.flush()
  for line in sys.stdin:
    line = line.strip()
    if not line:
      continue
    try:
      case = json.loads(line)
      obs = handle(case)
    except Exception as ex:  # pylint: disable=broad-except
      obs = {'worker_error': ''.join(traceback.format_exception_only(type(ex), ex)).strip()[:500]}
    out.write('@@' + json.dumps(obs) + '\n')
    out.flush()


if __name__ == '__main__':
  main()
