"""C11 harness: stochastic quantizers and the four compression aggregators.

Seams (harness process only): `fedjax.aggregators.compression.jax` is replaced by a
proxy whose `random.uniform` is either a constant u (threshold sweeps: the
implementation becomes a deterministic function of u) or the real function recorded
(key data + draws); the pytree quantizers / rotation functions looked up by
`compression` at call time are wrapped to record their inputs and outputs.

Oracle (independent of the Coq model; exact Fractions / float64 numpy): level
membership on the [min, max] grid, error <= one grid step, threshold location and
direction, identity on grid / constant / zero vectors, finiteness, TernGrad levels and
2.5-sigma clipping, DRIVE scale, aggregate = weighted mean of the per-client quantised
trees (hence within the largest per-client step of the exact mean), key data pairwise
distinct over (round, client, leaf), bit counter = documented formula each round."""
import contextlib
import math
from fractions import Fraction

import numpy as np
from lib import fw

PROP = 'C11'
COQ_HEADER = 'From FV Require Import Model.C18_Model Model.C11_Model.\nLocal Open Scope Q_scope.'
COQ_AGREE = 'C11_agree'
COQ_MODEL_TARGETS = ['Model/C11_Model']
RULE = ('quantize functions: u swept over a 1/G grid (G = 64 quick, 256 thorough) on dyadic / generic / constant / zero / '
        'on-grid / size-1 / huge-range vectors x level counts 2..100; DRIVE leaves incl. all-zero; aggregators: 5 kinds x '
        '1..4 clients x 1..3 rounds x weightings (incl. zero weights) x tree shapes with the real RNG recorded; '
        'non-trivial = vector not constant (quantizers) / every aggregator case; distinct = distinct case JSON')
TRUSTED = ['jax.random.uniform draws are in [0,1) and uniform (the law is the definition of the expectation); threefry: distinct '
           'split paths give distinct key data (checked on every recorded key)',
           'float32 arithmetic of the quantizers equals exact rational arithmetic up to 1e-5 relative (compared inside Coq); '
           'float grid effects at 2^-24 (an on-grid value computed one ulp off the grid) are not modelled',
           'haiku PRNGSequence with the default rng_reserve_size = 1 (read from haiku/_src/base.py, modelled as paths)',
           'the recorded key path of a draw is recovered by looking its key data up among all split paths of the root key',
           'tools/anchors/compression.py reading of `math.log2(base) * a + b` as the triple (base, a, b), of the split / '
           'PRNGSequence / zip / starmap statements as key paths, and tools/lib/vfun.py (vectorised jnp -> NanQ with broadcasting)']
ASSUMPTIONS = ['u is the value returned by jax.random.uniform for the coordinate, 0 <= u < 1',
               'TernGrad: sigma is a parameter with sigma >= 0 and sigma^2 == var v (jnp.std is not modelled: sqrt)',
               'rational model: input vectors are finite and within the float32 range of their squares and of max - min '
               '(DRIVE / jnp.std overflow to inf for |x| > ~1.8e19 and flush to 0 below ~1e-20: outside the model)',
               'rotated aggregators are evaluated in Coq only for leaves whose padded size is a perfect square (sqrt d rational); '
               'other sizes are judged by the oracle only',
               'total client weight > 0 in the aggregate theorems (zero total weight is C07 territory)']
PARTIAL = ['rotated aggregators (rotated uniform, DRIVE): "aggregate = weighted mean of the per-client quantised trees" is proved '
           'for any finite per-client trees and the aggregators are shown to be `aggregate` of the pipeline results whenever those '
           'are defined (C11_rotated_aggregate_is_wmean_partial); that the pipeline is defined and size-preserving for every input, '
           'and the squared-norm error bound via C18_parseval, are NOT proved (C18 is stated for Leibniz rings, the C11 model is '
           'over Q with Qeq); judged by correspondence (exact for square padded sizes) and oracle',
           'TernGrad error bound is against the weighted mean of the CLIPPED inputs (the quantizer is unbiased for those)',
           'arithmetic-coding bit count (encode_algorithm="arithmetic") is checked by the oracle against an independent '
           'entropy computation, not modelled in Coq',
           'expectation = integral over u is stated as: output is the upper level exactly on u in [0,t] (binary: [0,t)) and '
           '(1-t)*lower + t*upper == x',
           'jnp.std is a parameter (sigma) of the translated terngrad_quantize; hk.PRNGSequence is a hand model of haiku']
CASE_TIMEOUT = 180


# --------------------------------------------------------------------------
# seams

class _Proxy:
  def __init__(self, real, over):
    self.__dict__['_real'] = real
    self.__dict__['_over'] = over

  def __getattr__(self, name):
    if name in self._over:
      return self._over[name]
    return getattr(self._real, name)


class Spy:
  """Context manager installing the seams; records everything the oracle needs."""

  def __init__(self, const_u=None, wrap=True):
    self.const_u = const_u
    self.wrap = wrap
    self.uniform = []      # (key_bytes, u array)
    self.quant = []        # (fn name, input leaves, output leaves)
    self.rot = []          # (key_bytes, input leaves, rotated leaves)
    self.inv = []          # (key_bytes, output leaves)

  def __enter__(self):
    import jax
    import jax.numpy as jnp
    from fedjax.aggregators import compression, walsh_hadamard
    self.cm, self.wh = compression, walsh_hadamard
    self.saved = {'jax': compression.jax, 'walsh_hadamard': compression.walsh_hadamard}

    def uniform(*args, **kw):
      if self.const_u is not None:
        shape = kw.get('shape', args[1] if len(args) > 1 else ())
        if isinstance(self.const_u, np.ndarray):
          return jnp.asarray(self.const_u.astype(np.float32)).reshape(shape)
        return jnp.full(shape, self.const_u, jnp.float32)
      u = jax.random.uniform(*args, **kw)
      key = kw.get('key', args[0] if args else None)
      self.uniform.append((_keybytes(key), np.asarray(u)))
      return u
    compression.jax = _Proxy(jax, {'random': _Proxy(jax.random, {'uniform': uniform})})
    if self.wrap:
      for name in ('uniform_stochastic_quantize_pytree', 'terngrad_quantize_pytree', 'drive_pytree'):
        self.saved[name] = getattr(compression, name)
        setattr(compression, name, self._wrap_quant(name, self.saved[name]))

      def rot(params, rng):
        out = walsh_hadamard.structured_rotation_pytree(params, rng)
        self.rot.append((_keybytes(rng), _leaves(params), _leaves(out[0])))
        return out

      def inv(params, rng, shapes):
        out = walsh_hadamard.inverse_structured_rotation_pytree(params, rng, shapes)
        self.inv.append((_keybytes(rng), _leaves(out)))
        return out
      compression.walsh_hadamard = _Proxy(walsh_hadamard, {'structured_rotation_pytree': rot,
                                                            'inverse_structured_rotation_pytree': inv})
    return self

  def _wrap_quant(self, name, fn):
    def w(*a, **k):
      out = fn(*a, **k)
      self.quant.append((name, _leaves(a[0]), _leaves(out)))
      return out
    return w

  def __exit__(self, *exc):
    for k, v in self.saved.items():
      setattr(self.cm, k, v)
    return False


def _keybytes(key):
  import jax
  try:
    return np.asarray(jax.random.key_data(key)).tobytes()
  except Exception:  # pylint: disable=broad-except
    return np.asarray(key).tobytes()


def _leaves(tree):
  import jax
  return [np.asarray(l) for l in jax.tree_util.tree_leaves(tree)]


# --------------------------------------------------------------------------
# generation

def lcg(n, st):
  out = []
  for _ in range(n):
    st = (st * 1103515245 + 12345) & 2147483647
    out.append((st >> 16) % 65 - 32)
  return out


def _nz(v):
  return 1 if v == 0 else v


TREES = [
    [[3], [1]],
    [[4]],
    [[2, 2], [1], [3]],
    [[16], [3, 4]],
    [[5, 7]],
    [[2], [6]],        # padded sizes 2 and 8: not squares -> oracle only for the rotated aggregators
    [[1]],
    [[4], [4]],            # tied: ONE array object at both leaf positions
    [[16], [3], [16]],     # same object at positions 0 and 2
]
# tree index -> {leaf position: earlier position whose array OBJECT it shares} (tied / shared parameters)
TIED = {7: {1: 0}, 8: {2: 0}}
AGGS = ['usq', 'tern', 'rusq', 'drive', 'usq_arith']


def _tern_ok(v):
  """TernGrad is judged on a vector unless float32 cannot even represent its spread: tiny magnitudes (squares underflow)
  or |mean| / sigma beyond 2e6 (the deviations are below the float32 resolution of the mean)."""
  if not any(v):
    return True
  if max(abs(x) for x in v) < 1e-10:
    return False
  sd = float(np.std(np.array(v, np.float64)))
  return sd == 0.0 or abs(float(np.mean(np.array(v, np.float64)))) / sd <= 2e6


def _ucase(fn, v, L, G, shape=None, bounds=None, kw=1):
  c = {'kind': 'U', 'fn': fn, 'v': [float(x) for x in v], 'L': L, 'G': G, 'shape': shape or [len(v)]}
  if bounds is not None:
    c['bounds'] = [float(bounds[0]), float(bounds[1])]    # explicit v_min / v_max (keyword or positional)
    c['kw'] = kw
  return c


def generate(tier, rng):
  G = 32 if tier != 'thorough' else 256
  cfg_cases = _cfg_cases(tier, rng) if tier != 'search' else []
  n_rand = {'quick': 16, 'thorough': 200, 'search': 150}[tier]
  eighth = lambda n: [rng.randrange(-32, 33) / 8.0 for _ in range(n)]
  special = [
      [0.0], [2.5], [-1.0], [0.0, 0.0, 0.0], [1.5, 1.5, 1.5, 1.5], [0.0, 2.0, 2.0], [0.0, 1.0, 2.0], [1.0, 2.0, 3.0, 4.0, 5.0],
      [-3.0, -1.0, 1.0, 3.0], [0.0, 0.25, 0.5, 0.75, 1.0], [1e-20, 3.0, -2e15, 7e15], [1e-20, 3e-20, 2e-20],
      [-1e15, 1e15, 0.0, 5e14], [0.1, 0.2, 0.3, 0.7], [1.0, 1.0000001], [5.0, -5.0], [1e18, -1e18, 3.0],
  ]
  levels = [2, 3, 4, 5, 6, 7, 9, 10, 16, 17, 33, 100]
  for vi, v in enumerate(special):
    for L in ([(3, 100, 2)[vi % 3]] if tier == 'quick' else levels):
      yield _ucase('usq', v, L, G)
    yield _ucase('bsq', v, 2, G)
    if _tern_ok(v):
      yield _ucase('tern', v, 2, G)
  # OFFSET data: |mean| >> spread (ratio 1e2 .. 1e6, both signs), mean << spread, constant plus one outlier, all equal
  zs = [-3, 1, 2, -1, 4, -2, 0, 3]
  offsets = [(100.0, 0.01), (1000.0, 0.05), (-300.0, 0.02), (1.0, 1e-4), (1e4, 0.01), (-1.0, 1e-6), (100.0, 1.0), (-7.0, 0.07), (1e-3, 1.0)]
  fams = [[m + sp * z / 4 for z in zs[:n]] for (m, sp) in offsets for n in ((8,) if tier == 'quick' else (8, 3))]
  fams += [[5.0, 5.0, 5.0, 5.0, 5.5], [7.0] * 9 + [-3.0], [-100.0] * 5 + [-100.5], [100.0] * 4, [-0.25] * 3, [1e4] * 2 + [1e4 + 1]]
  for i, v in enumerate(fams):
    v = [float(np.float32(x)) for x in v]
    for L in (((3, 17)[i % 2],) if tier == 'quick' else (2, 3, 5, 17, 100)):
      yield _ucase('usq', v, L, G)
    yield _ucase('bsq', v, 2, G)
    if _tern_ok(v):
      yield _ucase('tern', v, 2, G)
    yield {'kind': 'D', 'x': v}
  # on-grid vectors: vmin + k * step for every k
  for L in (2, 3, 5, 9, 17, 4, 7):
    yield _ucase('usq', [-2.0 + 3.0 * k / 8 for k in range(L)] if (L - 1) & (L - 2) == 0 else [float(3 * k) for k in range(L)], L, G)
  for i in range(n_rand):
    n = rng.choice([1, 2, 3, 4, 5, 8, 13])
    L = rng.choice(levels)
    yield _ucase('usq', eighth(n), L, G, shape=[n] if n % 2 or i % 2 else [2, n // 2])
    if i % 4 == 0:
      yield _ucase('usq', [rng.uniform(-3, 3) for _ in range(n)], L, G)
    if i % 3 == 0:
      yield _ucase('bsq', eighth(n), 2, G)
  # explicit v_min / v_max (keyword and positional): wider than the data, equal to it, narrower (clamping), degenerate
  for i, (v, a, b) in enumerate([([0.5, 1.0, 2.0, 3.0], 0.0, 4.0), ([0.5, 1.0, 2.0, 3.0], 0.5, 3.0), ([0.5, 1.0, 2.0, 3.0], 1.0, 2.0),
                                 ([-1.0, 0.0, 0.25], -1.0, 1.0), ([2.0, 2.0], 2.0, 2.0), ([0.0, 0.125, 7.0], 0.0, 8.0)]):
    for L in ((3, 5) if tier == 'quick' else (2, 3, 5, 9)):
      yield _ucase('usq', v, L, G, bounds=(a, b), kw=(i + L) % 2)
    yield _ucase('bsq', v, 2, G, bounds=(a, b), kw=i % 2)
  # TernGrad: rational sigma families (+-a, +-b, zeros: sigma = sqrt(2(a^2+b^2)/n)) with and without clipping
  for a, b, n in [(12, 5, 50), (4, 3, 50), (3, 4, 8), (5, 12, 8), (100, 0, 50), (8, 6, 50), (15, 8, 50), (1, 0, 2)]:
    v = [float(a), float(-a)] + ([float(b), float(-b)] if b else []) + [0.0] * (n - (4 if b else 2))
    yield _ucase('tern', v, 2, G)
  for i in range(n_rand // 3):
    yield _ucase('tern', eighth(rng.choice([2, 3, 5, 9, 30])), 2, G)
  v = [0.0] * 100
  v[0], v[1] = 100.0, -100.0
  yield _ucase('tern', v, 2, G)
  # DRIVE leaves
  for x in ([0.0, 0.0, 0.0], [0.0], [2.0], [-1.5], [1.0, -2.0, 3.0, 0.0], [1e-15, -1e-15], [0.5] * 8, [3.0, 0.0, 0.0, -4.0]):
    yield {'kind': 'D', 'x': x}
  for _ in range(n_rand // 4):
    yield {'kind': 'D', 'x': eighth(rng.choice([1, 2, 4, 7, 16]))}
  # wave 3: argument forms, boundary values, reuse, caller-owned data, dtypes, contexts, remaining entry points
  for sub in XSUBS:
    for agg in (['usq', 'rusq', 'drive', 'tern', 'usq_arith'] if sub in ('forms', 'boundary', 'reuse', 'owned') else
                ['usq', 'rusq', 'drive', 'tern'] if sub in ('order', 'containers', 'fastpath') else [None]):
      if tier == 'quick' and sub == 'containers' and agg != 'usq':
        continue
      if tier == 'quick' and agg == 'usq_arith' and sub != 'reuse':
        continue
      if tier == 'quick' and agg not in {'forms': ('usq', 'rusq'), 'owned': ('rusq', 'tern'), 'order': ('rusq', 'drive')}.get(sub, (agg,)):
        continue
      yield {'kind': 'X', 'sub': sub, 'agg': agg, 'L': rng.choice([2, 3, 5]), 'seed': rng.randrange(1, 2 ** 30),
             'key': rng.choice([0, rng.randrange(2 ** 31)]), 'big': tier == 'thorough'}
  # aggregators
  combos = []
  for ai, agg in enumerate(AGGS):
    for nc in (1, 2, 3, 4):
      for nr in (1, 2, 3):
        combos.append((agg, nc, nr))
  if tier == 'quick':
    # four cases per aggregator that together cover every client count 1..4 and every round count 1..3;
    # which client count meets which round count varies with the seed
    combos = []
    for agg in AGGS:
      rounds = [1, 2, 3, rng.choice([1, 2, 3])]
      rng.shuffle(rounds)
      if agg == 'usq_arith':          # hidden per-object state shows from the second round on: always several rounds
        combos += [(agg, 2, 3), (agg, rng.choice([1, 3, 4]), 2)]
      else:
        combos += [(agg, nc, nr) for nc, nr in zip((1, 2, 3, 4), rounds)]
  for agg in ('rusq', 'drive', 'usq', 'tern'):
    for tree, share in (((7, False), (8, True)) if tier == 'quick' else ((7, False), (8, False), (3, True), (8, True))) \
        if agg in ('rusq', 'drive') else ((7, True),):
      nc = 2 if tree != 3 else 3
      yield {'kind': 'A', 'agg': agg, 'L': rng.choice([2, 3, 5]), 'tree': tree, 'clients': nc, 'rounds': 2,
             'weights': [1.0, 2.0, 0.5][:nc], 'seed': rng.randrange(1, 2 ** 30), 'key': rng.randrange(2 ** 31),
             'share_clients': share}
  reps = 1 if tier == 'quick' else 2
  for agg, nc, nr in combos:
    for _ in range(reps):
      ws = [rng.choice([0.0, 0.5, 1.0, 2.0, 3.0]) for _ in range(nc)]
      if not any(ws):
        ws[rng.randrange(nc)] = 1.0
      yield {'kind': 'A', 'agg': agg, 'L': rng.choice([2, 3, 4, 5, 17]), 'tree': rng.randrange(len(TREES)),
             'clients': nc, 'rounds': nr, 'weights': ws, 'seed': rng.randrange(1, 2 ** 30), 'key': rng.randrange(2 ** 31)}
  for agg, tree in ([('usq', 0), ('rusq', 1), ('tern', 2), ('drive', 3)] if tier == 'quick' else
                    [(a, t) for a in ('usq', 'rusq', 'tern', 'drive') for t in (0, 2, 3, 4, 6)]):
    yield {'kind': 'Q', 'agg': agg, 'tree': tree, 'lo': 2, 'hi': 257, 'seed': rng.randrange(1, 2 ** 30), 'key': rng.randrange(2 ** 31)}
  for c in cfg_cases:
    yield c


# --------------------------------------------------------------------------
# running the implementation

def _call_q(fn, v, L, shape, key, bounds=None, kw=1):
  import jax
  import jax.numpy as jnp
  from fedjax.aggregators import compression
  x = jnp.asarray(np.array(v, np.float32).reshape(shape))
  k = jax.random.PRNGKey(key)
  if bounds is not None:
    a, b = bounds
    if fn == 'usq':
      r = (compression.uniform_stochastic_quantize(x, L, k, v_min=a, v_max=b) if kw else
           compression.uniform_stochastic_quantize(x, L, k, a, b))
    else:
      r = (compression.binary_stochastic_quantize(x, k, v_min=a, v_max=b) if kw else
           compression.binary_stochastic_quantize(x, k, a, b))
    return np.asarray(r).reshape(-1)
  if fn == 'usq':
    return np.asarray(compression.uniform_stochastic_quantize(x, L, k)).reshape(-1)
  if fn == 'bsq':
    return np.asarray(compression.binary_stochastic_quantize(x, k)).reshape(-1)
  return np.asarray(compression.terngrad_quantize(x, k)).reshape(-1)


def run_U(case):
  G = case['G']
  v32 = np.array(case['v'], np.float32)
  outs = []
  # the whole sweep in ONE call: the vector is stacked G times (min, max, mean and population std are those of v) and row g
  # gets the draw g / G for every coordinate; the ORIGINAL shape is used for the real-key draw below (judged against the exact levels)
  n = len(case['v'])
  # (uniform / binary: the row is padded with copies of v[0] to a standard width, which changes neither min nor max and
  #  lets XLA reuse one compiled kernel per width)
  # TernGrad keeps its own width: its float32 mean / std depend on the number of summands (repeating or padding the data
  # changes the rounding of jnp.std on offset data)
  N = n if case['fn'] == 'tern' else 16 if n <= 16 else 104 if n <= 104 else n
  row = np.array(list(case['v']) + [case['v'][0]] * (N - n), np.float32)
  vt = np.tile(row.reshape(1, N), (G, 1))
  ugrid = np.repeat((np.arange(G, dtype=np.float64) / G)[:, None], N, axis=1)
  with Spy(const_u=ugrid, wrap=False):
    outs = list(_call_q(case['fn'], vt.reshape(-1).tolist(), case['L'], [G, N], 0, case.get('bounds'), case.get('kw', 1)).reshape(G, N)[:, :n])
  outs = np.array(outs, np.float64)           # [G, n]
  at0 = outs[0]
  lo, hi = outs[G - 1], outs[1]               # u = (G-1)/G and u = 1/G; u = 0 is kept apart (measure-zero boundary)
  near_hi = np.abs(outs - hi[None, :]) <= np.abs(outs - lo[None, :])
  gstar, monotone, two_valued = [], True, True
  scale = float(np.max(np.abs(outs))) + 1e-30
  for i in range(outs.shape[1]):
    col = near_hi[1:, i]
    k = int(np.sum(col))
    gstar.append(k)                           # largest g >= 1 with output(g/G) = hi
    monotone &= bool(np.all(col[:k]) and not np.any(col[k:]))
    dist = np.minimum(np.abs(outs[1:, i] - hi[i]), np.abs(outs[1:, i] - lo[i]))
    two_valued &= bool(np.all(dist <= 1e-6 * scale))
  # one draw with a real key in the ORIGINAL shape (every multi-dimensional case, every case of the thorough tier, and a
  # deterministic third of the others: each new shape costs an XLA compilation per primitive)
  do_real = len(case['shape']) != 1 or G > 32 or case['fn'] == 'tern' or int(sum(abs(x) for x in case['v']) * 8) % 3 == 0
  if do_real:
    real = np.asarray(_call_q(case['fn'], case['v'], case['L'], case['shape'], 12345, case.get('bounds'), case.get('kw', 1)), np.float64)
  else:
    real = np.asarray(outs[G // 2], np.float64)
  return {'v': [float(x) for x in v32.astype(np.float64)], 'lo': [float(x) for x in lo], 'hi': [float(x) for x in hi],
          'at0': [float(x) for x in at0], 'gstar': gstar, 'monotone': monotone, 'two_valued': two_valued,
          'finite': bool(np.all(np.isfinite(outs)) and np.all(np.isfinite(real))), 'real_ok': True,
          'real': [float(x) for x in real] if do_real else [],
          'n_out': int(outs.shape[1]) if real.shape == (outs.shape[1],) else -1}


def run_D(case):
  import jax.numpy as jnp
  from fedjax.aggregators import compression
  x = np.array(case['x'], np.float32)
  out = compression.drive_pytree({'a': jnp.asarray(x), 'z': jnp.zeros((3,), jnp.float32)})
  return {'x': [float(v) for v in x.astype(np.float64)], 'out': [float(v) for v in np.asarray(out['a'], np.float64)],
          'zero_leaf': [float(v) for v in np.asarray(out['z'], np.float64)]}


def _make_agg(case):
  import jax
  from fedjax.aggregators import compression
  k = jax.random.PRNGKey(case['key'])
  a = case['agg']
  if a == 'usq':
    return compression.uniform_stochastic_quantizer(case['L'], k)
  if a == 'usq_arith':
    return compression.uniform_stochastic_quantizer(case['L'], k, 'arithmetic')
  if a == 'rusq':
    return compression.rotated_uniform_stochastic_quantizer(case['L'], k)
  if a == 'drive':
    return compression.structured_drive_quantizer(k)
  return compression.terngrad_quantizer(k)


def _client_params(case, r, c):
  """Leaves of client c in round r: nonzero multiples of 1/8."""
  shapes = TREES[case['tree']]
  out, st = [], case['seed'] + 1000 * r + 37 * c
  for sh in shapes:
    n = int(np.prod(sh))
    out.append([_nz(v) / 8.0 for v in lcg(n, st)])
    st += 1
  for j, i in TIED.get(case['tree'], {}).items():
    out[j] = list(out[i])
  return out


def _tree_of(shapes, leaves, tied=None):
  import jax.numpy as jnp
  arrays = [jnp.asarray(np.array(x, np.float32).reshape(sh)) for sh, x in zip(shapes, leaves)]
  for j, i in (tied or {}).items():
    arrays[j] = arrays[i]           # the very same array object
  return {f'l{i}': a for i, a in enumerate(arrays)}


_SPLITTERS = {}


def _splitter(n):
  import jax
  if n not in _SPLITTERS:
    _SPLITTERS[n] = jax.jit(jax.vmap(lambda k: jax.random.split(k, n)))
  return _SPLITTERS[n]


def _path_table(root, nleaves, depth):
  """key bytes -> path for every binary split path of `root` up to `depth`, and their
  nleaves-way leaf splits."""
  import jax
  table = {}
  keys = np.asarray(jax.random.key_data(root) if hasattr(jax.random, 'key_data') else root)[None, :]
  paths = [()]
  split2 = _splitter(2)
  splitl = _splitter(nleaves)
  for d in range(depth + 1):
    for p, kb in zip(paths, keys):
      table.setdefault(np.asarray(kb).tobytes(), list(p))
    lk = np.asarray(splitl(keys))
    for p, row in zip(paths, lk):
      for l in range(nleaves):
        table.setdefault(np.asarray(row[l]).tobytes(), list(p) + [l])
    if d == depth:
      break
    nk = np.asarray(split2(keys))
    paths = [p + (b,) for p in paths for b in (0, 1)]
    keys = nk.reshape(-1, nk.shape[-1])
  return table


def _recover_signs(rot, xs):
  from harness.c18 import ref_fwht
  d = len(rot)
  w = ref_fwht(np.asarray(rot, np.float64)) / math.sqrt(d)
  return [bool(w[i] * xs[i] < 0) for i in range(len(xs))]


def run_A(case):
  import jax
  shapes = TREES[case['tree']]
  nl = len(shapes)
  agg = _make_agg(case)
  state_j = agg.init()
  state_s = agg.init()
  root = jax.random.PRNGKey(case['key'])
  depth = 2 * case['rounds'] + case['clients'] + 3
  table = _path_table(root, nl, depth)
  rounds = []
  for r in range(case['rounds']):
    clients = [_client_params(case, r, c) for c in range(case['clients'])]
    tied = TIED.get(case['tree'])
    if case.get('share_clients'):
      clients = [clients[0] for _ in clients]     # every client passes the SAME tree object (same arrays)

    def cpw():
      if case.get('share_clients'):
        t0 = _tree_of(shapes, clients[0], tied)
        return [(f'c{c}'.encode(), t0, case['weights'][c]) for c in range(case['clients'])]
      return [(f'c{c}'.encode(), _tree_of(shapes, clients[c], tied), case['weights'][c]) for c in range(case['clients'])]
    inputs = cpw()
    snap = [[np.array(l) for l in _leaves(p)] for _, p, _ in inputs]
    out_j, state_j = agg.apply(inputs, state_j)          # as shipped (jit)
    mutated = any(not np.array_equal(a, b) for (_, p, _), s in zip(inputs, snap) for a, b in zip(_leaves(p), s))
    with Spy() as spy, jax.disable_jit():
      out_s, state_s = agg.apply(cpw(), state_s)         # same keys, op-by-op, recorded
    rd = {
        'clients': clients,
        'agg_jit': [[float(v) for v in l.reshape(-1)] for l in _leaves(out_j)],
        'agg': [[float(v) for v in l.reshape(-1)] for l in _leaves(out_s)],
        'agg_shapes': [list(l.shape) for l in _leaves(out_s)],
        'bits': float(state_s.num_bits), 'bits_jit': float(state_j.num_bits),
        'state_path': table.get(_keybytes(state_s.rng)),
        'state_same_jit': bool(_keybytes(state_s.rng) == _keybytes(state_j.rng)),
        'mutated': bool(mutated),
        'uniform_paths': [table.get(kb) for kb, _ in spy.uniform],
        'uniform_keys': [kb.hex() for kb, _ in spy.uniform],
        'us': [[float(v) for v in u.reshape(-1)] for _, u in spy.uniform],
        'quant': [{'fn': n, 'in': [[float(v) for v in l.reshape(-1)] for l in i],
                   'out': [[float(v) for v in l.reshape(-1)] for l in o]} for n, i, o in spy.quant],
        'rot_keys': [kb.hex() for kb, _, _ in spy.rot],
        'rot_paths': [table.get(kb) for kb, _, _ in spy.rot],
        'rot_signs': [[_recover_signs(ro.reshape(-1), xi.reshape(-1)) for xi, ro in zip(i, o)] for _, i, o in spy.rot],
        'inv_keys': [kb.hex() for kb, _ in spy.inv],
        'finals': ([[[float(v) for v in l.reshape(-1)] for l in o] for _, o in spy.inv] if spy.inv else
                   [[[float(v) for v in l.reshape(-1)] for l in o] for _, _, o in spy.quant]),
    }
    rounds.append(rd)
  return {'rounds': rounds}



# --------------------------------------------------------------------------
# wave 3 extras (oracle only): every check is a named boolean

XSUBS = ['forms', 'boundary', 'reuse', 'owned', 'dtypes', 'contexts', 'entry', 'compose', 'order', 'magnitude', 'ulp',
         'layout', 'containers', 'complex', 'fastpath', 'chunk']


def _close(a, b, rtol=1e-5, atol=1e-6):
  a, b = np.asarray(a, np.float64), np.asarray(b, np.float64)
  return bool(a.shape == b.shape and np.all(np.isfinite(a)) and np.all(np.abs(a - b) <= atol + rtol * np.abs(b)))


def _flat(tree):
  return np.concatenate([np.asarray(l, np.float64).reshape(-1) for l in _leaves(tree)]) if _leaves(tree) else np.zeros(0)


_CONTAINER_TYPES = {}


def _container_types():
  if not _CONTAINER_TYPES:
    import collections
    from fedjax.core import dataclasses as fdc
    NT = collections.namedtuple('NT', ['w', 'b'])

    @fdc.dataclass
    class DC:
      w: object
      b: object
    _CONTAINER_TYPES.update(NT=NT, DC=DC)
  return _CONTAINER_TYPES['NT'], _CONTAINER_TYPES['DC']


class _Counting:
  """A one-shot iterator that counts how often it is advanced."""

  def __init__(self, items):
    self.it, self.n, self.done = iter(items), 0, 0

  def __iter__(self):
    return self

  def __next__(self):
    try:
      v = next(self.it)
    except StopIteration:
      self.done += 1
      raise
    self.n += 1
    return v


def _xclients(case, n=3, np_params=False, ids='bytes', wkind='float', scale=1.0, ws=None):
  import jax.numpy as jnp
  out = []
  n = len(ws) if ws is not None else n
  for c in range(n):
    vals = [[_nz(v) / 8.0 for v in lcg(4, case['seed'] + 11 * c)], [_nz(v) / 8.0 for v in lcg(3, case['seed'] + 11 * c + 5)]]
    mk = (lambda a: np.array(a, np.float32)) if np_params else (lambda a: jnp.asarray(np.array(a, np.float32)))
    params = {'w': mk(vals[0]), 'b': mk(vals[1])}
    w = (ws[c] if ws is not None else [1.0, 2.0, 0.5, 3.0][c % 4]) * scale
    w = {'float': float, 'int': lambda x: int(x), 'np': np.float32, 'jnp': jnp.float32, 'np0d': lambda x: np.array(x, np.float32)}[wkind](w)
    cid = {'bytes': b'c%d' % c, 'str': 'c%d' % c, 'int': c, 'empty': b''}[ids]
    out.append((cid, params, w))
  return out


def run_X(case):
  import jax
  import jax.numpy as jnp
  from fedjax.aggregators import compression as cp
  sub = case['sub']
  chk = {}

  def guard(name, f):
    try:
      chk[name] = bool(f())
    except fw.Hang:
      raise
    except Exception as ex:  # pylint: disable=broad-except
      chk[name] = False
      chk[name + '!'] = f'{type(ex).__name__}: {str(ex)[:100]}'

  def mk(key=None, L=None):
    c = dict(case)
    c['key'] = case['key'] if key is None else key
    c['L'] = case['L'] if L is None else L
    return _make_agg(c)

  def one(agg, clients, state=None):
    st = agg.init() if state is None else state
    out, st2 = agg.apply(clients, st)
    return out, st2

  if sub == 'forms':
    base, bst = one(mk(), _xclients(case))
    bflat, bbits = _flat(base), float(bst.num_bits)
    same = lambda r: _close(_flat(r[0]), bflat) and abs(float(r[1].num_bits) - bbits) <= 1e-3 * (1 + bbits)
    for nm, f in (('tuple', tuple), ('generator', lambda l: (c for c in l)), ('iter', iter), ('map', lambda l: map(lambda c: c, l))):
      guard('clients-as-' + nm, lambda f=f: same(one(mk(), f(_xclients(case)))))
    def counting():
      it = _Counting(_xclients(case))
      r = one(mk(), it)
      return same(r) and it.n == 3 and it.done >= 1
    guard('one-shot-iterator-consumed-once', counting)
    guard('numpy-params', lambda: same(one(mk(), _xclients(case, np_params=True))))
    for ids in ('str', 'int', 'empty'):
      guard('ids-' + ids, lambda ids=ids: same(one(mk(), _xclients(case, ids=ids))))
    for wk in ('np', 'jnp', 'np0d'):
      guard('weights-' + wk, lambda wk=wk: same(one(mk(), _xclients(case, wkind=wk))))
    def typed():
      k = jax.random.key(case['key'])
      a = {'usq': lambda: cp.uniform_stochastic_quantizer(case['L'], k), 'usq_arith': lambda: cp.uniform_stochastic_quantizer(case['L'], k, 'arithmetic'),
           'rusq': lambda: cp.rotated_uniform_stochastic_quantizer(case['L'], k), 'drive': lambda: cp.structured_drive_quantizer(k),
           'tern': lambda: cp.terngrad_quantizer(k)}[case['agg']]()
      return same(one(a, _xclients(case)))
    guard('typed-key', typed)
    if case['agg'] in ('usq', 'rusq', 'usq_arith'):
      def npl():
        c = dict(case)
        k = jax.random.PRNGKey(case['key'])
        a = (cp.uniform_stochastic_quantizer(np.int64(case['L']), k) if case['agg'] == 'usq' else
             cp.uniform_stochastic_quantizer(np.int64(case['L']), k, 'arithmetic') if case['agg'] == 'usq_arith' else
             cp.rotated_uniform_stochastic_quantizer(np.int64(case['L']), k))
        return same(one(a, _xclients(case)))
      guard('numpy-int-levels', npl)
  elif sub == 'boundary':
    def wmean_ok(ws, wkind='float'):
      cl = _xclients(case, ws=ws, wkind=wkind)
      with Spy() as spy, jax.disable_jit():
        out, st = one(mk(), cl)
      finals = ([[l.reshape(-1) for l in o] for _, o in spy.inv] if spy.inv else [[l.reshape(-1) for l in o] for _, _, o in spy.quant])
      tot = sum(float(w) for _, _, w in cl)
      ref = sum(float(w) * np.concatenate(f).astype(np.float64) for (_, _, w), f in zip(cl, finals)) / tot
      return _close(_flat(out), ref, rtol=1e-4, atol=1e-5)
    guard('weights-0-and-1', lambda: wmean_ok([0.0, 1.0, 0.0]))
    guard('weight-exactly-1-single-client', lambda: wmean_ok([1.0]))
    guard('total-weight-below-1', lambda: wmean_ok([0.125, 0.25, 0.0625]))
    guard('int-weights-0-1', lambda: wmean_ok([0, 1, 1], 'int'))
    def empty():
      a = mk()
      st0 = a.init()
      out, st = a.apply([], st0)
      return out is None and abs(float(st.num_bits)) == 0.0
    guard('empty-cohort', empty)
    guard('key-seed-0', lambda: np.all(np.isfinite(_flat(one(mk(key=0), _xclients(case))[0]))))
  elif sub == 'reuse':
    a = mk()
    st0 = a.init()
    cl1, cl2 = _xclients(case), _xclients({**case, 'seed': case['seed'] + 1})
    o1, s1 = a.apply(cl1, st0)
    o1c, b1, r1 = _flat(o1).copy(), float(s1.num_bits), np.asarray(s1.rng).copy()
    # another aggregator from the SAME key with other hyper-parameters, interleaved
    b = mk(L=case['L'] + 2)
    ob1, sb1 = b.apply(cl1, b.init())
    o2, s2 = a.apply(cl2, s1)
    ob2, sb2 = b.apply(cl2, sb1)
    guard('kept-result-unchanged', lambda: _close(_flat(o1), o1c, 0, 0))
    guard('kept-state-unchanged', lambda: float(s1.num_bits) == b1 and np.array_equal(np.asarray(s1.rng), r1))
    guard('init-again', lambda: (lambda s: float(s.num_bits) == 0.0 and np.array_equal(np.asarray(s.rng), np.asarray(st0.rng)) and
                                 np.array_equal(np.asarray(s.rng), np.asarray(jax.random.PRNGKey(case['key']))))(a.init()))
    fresh = mk()
    f1, fs1 = fresh.apply(_xclients(case), fresh.init())
    f2, fs2 = fresh.apply(_xclients({**case, 'seed': case['seed'] + 1}), fs1)
    guard('fresh-object-round-1', lambda: _close(_flat(f1), o1c) and abs(float(fs1.num_bits) - b1) <= 1e-3 * (1 + b1))
    guard('fresh-object-round-2', lambda: _close(_flat(f2), _flat(o2)) and np.array_equal(np.asarray(fs2.rng), np.asarray(s2.rng)) and
          abs(float(fs2.num_bits) - float(s2.num_bits)) <= 1e-3 * (1 + abs(float(s2.num_bits))))
    guard('second-round-increment-is-a-round-formula', lambda: (lambda inc, want: want is None or abs(inc - want) <= 1e-3 * (1 + want))(
        float(s2.num_bits) - b1, _bits_formula(case['agg'], case['L'], 7, 2)))
    guard('first-object-again-from-init', lambda: _close(_flat(a.apply(_xclients(case), a.init())[0]), o1c))
    guard('same-state-twice', lambda: _close(_flat(a.apply(_xclients(case), st0)[0]), o1c))
    guard('state-advances', lambda: not np.array_equal(np.asarray(s1.rng), np.asarray(st0.rng)) and
          not np.array_equal(np.asarray(s2.rng), np.asarray(s1.rng)))
  elif sub == 'owned':
    cl = _xclients(case)
    tuples = list(cl)
    keys = [list(p) for _, p, _ in cl]
    lids = [[id(p[k]) for k in p] for _, p, _ in cl]
    vals = [_flat(p).copy() for _, p, _ in cl]
    a = mk()
    out, st = a.apply(cl, a.init())
    out2, _ = a.apply(cl, st)
    guard('client-list-unchanged', lambda: len(cl) == 3 and all(x is y for x, y in zip(cl, tuples)))
    guard('params-containers-unchanged', lambda: [list(p) for _, p, _ in cl] == keys and
          [[id(p[k]) for k in p] for _, p, _ in cl] == lids)
    guard('params-values-unchanged', lambda: all(_close(_flat(p), v, 0, 0) for (_, p, _), v in zip(cl, vals)))
    guard('result-does-not-alias-input', lambda: all(o is not i for o in _leaves(out) + _leaves(out2) for _, p, _ in cl for i in _leaves(p)))
    # single client, weight 1, values already on the grid: the aggregate has the input's VALUES but must be another object
    def single():
      p = {'w': jnp.asarray(np.array([0.0, 1.0, 2.0], np.float32))}
      o, _ = a.apply([(b'x', p, 1.0)], a.init())
      return o['w'] is not p['w'] and _close(p['w'], [0.0, 1.0, 2.0], 0, 0)
    guard('single-client-not-aliased', single)
  elif sub == 'dtypes':
    k = jax.random.PRNGKey(case['key'])
    v = np.array([_nz(x) / 8.0 for x in lcg(6, case['seed'])], np.float32)
    def member(out, vv, L, tol):
      levels, step, vmin, vmax = _usq_levels([float(x) for x in vv], L)
      sc = float(max(abs(vmin), abs(vmax), step)) + 1e-30
      return all(min(abs(float(o) - float(l)), abs(float(o) - float(h))) <= tol * sc for o, (l, h, t) in zip(np.asarray(out, np.float64), levels))
    for dt, tol in ((jnp.float16, 4e-3), (jnp.bfloat16, 3e-2)):
      xv = jnp.asarray(v).astype(dt)
      xf = np.asarray(xv).astype(np.float32)
      guard(f'usq-{dt.__name__}', lambda xv=xv, xf=xf, tol=tol: member(cp.uniform_stochastic_quantize(xv, case['L'] + 1, k), xf, case['L'] + 1, tol))
      guard(f'bsq-{dt.__name__}', lambda xv=xv, xf=xf, tol=tol: member(cp.binary_stochastic_quantize(xv, k), xf, 2, tol))
      guard(f'tern-{dt.__name__}-finite', lambda xv=xv: bool(np.all(np.isfinite(np.asarray(cp.terngrad_quantize(xv, k), np.float64)))))
    vi = np.array([1, 2, 4, 9, -3, 9], np.int32)
    guard('usq-int32', lambda: member(cp.uniform_stochastic_quantize(jnp.asarray(vi), 5, k), vi.astype(np.float32), 5, 1e-5))
    guard('usq-0d-scalar', lambda: _close(cp.uniform_stochastic_quantize(jnp.float32(2.5), 3, k), 2.5))
    guard('usq-numpy-input', lambda: member(cp.uniform_stochastic_quantize(v, 4, k), v, 4, 1e-5))
    guard('drive-float16-finite', lambda: bool(np.all(np.isfinite(_flat(cp.drive_pytree({'a': jnp.asarray(v).astype(jnp.float16)}))))))
  elif sub == 'contexts':
    k = jax.random.PRNGKey(case['key'])
    v = jnp.asarray(np.array([_nz(x) / 8.0 for x in lcg(5, case['seed'])], np.float32))
    tree = {'a': v, 'b': {'c': v.reshape(5, 1) * 2}}
    L = case['L'] + 1
    for nm, f in (('usq-pytree', lambda t, kk: cp.uniform_stochastic_quantize_pytree(t, L, kk)), ('tern-pytree', cp.terngrad_quantize_pytree)):
      j = f(tree, k)
      def eager(f=f, j=j):
        with Spy(wrap=False) as spy, jax.disable_jit():
          e = f(tree, k)
        keys = [kb for kb, _ in spy.uniform]
        return (_close(_flat(e), _flat(j)) and len(keys) == 2 and len(set(keys)) == 2 and
                jax.tree_util.tree_structure(e) == jax.tree_util.tree_structure(tree) and
                all(a.shape == b.shape for a, b in zip(_leaves(e), _leaves(tree))))
      guard(nm + '-jit-vs-eager-and-leaf-keys', eager)
      guard(nm + '-inside-jit', lambda f=f, j=j: _close(_flat(jax.jit(f)(tree, k)), _flat(j)))
      guard(nm + '-same-key-same-result', lambda f=f, j=j: _close(_flat(f(tree, k)), _flat(j), 0, 0))
    def usq_member():
      q = cp.uniform_stochastic_quantize_pytree(tree, L, k)
      ok = True
      for ql, xl in zip(_leaves(q), _leaves(tree)):
        levels, step, vmin, vmax = _usq_levels([float(x) for x in xl.reshape(-1)], L)
        sc = float(max(abs(vmin), abs(vmax), step)) + 1e-30
        ok &= all(min(abs(float(o) - float(l)), abs(float(o) - float(h))) <= 3e-6 * sc for o, (l, h, t) in zip(ql.reshape(-1), levels))
      return ok
    guard('usq-pytree-levels', usq_member)
    guard('drive-pytree-jit-vs-eager', lambda: (lambda j: (lambda e: _close(_flat(e), _flat(j)))(
        (lambda: [jax.disable_jit().__enter__(), cp.drive_pytree(tree)][1])()))(cp.drive_pytree(tree)))
  elif sub == 'entry':
    v = jnp.asarray(np.array([_nz(x) / 8.0 for x in lcg(7, case['seed'])], np.float32))
    guard('num_leaves', lambda: (cp.num_leaves({'a': v, 'b': {'c': v, 'd': [v, v]}}), cp.num_leaves({}), cp.num_leaves(v),
                                 cp.num_leaves((v, v))) == (4, 0, 1, 2))
    for nm, arr in (('distinct', np.array([1., 2., 3., 4., 5.], np.float32)), ('constant', np.zeros(4, np.float32)),
                    ('levels', np.array([0., .5, .5, 1., 0., 0., 1., .5], np.float32)), ('2d', np.array([[1., 1.], [2., 3.]], np.float32))):
      guard('arithmetic-bits-' + nm, lambda arr=arr: abs(float(cp.arithmetic_encoding_num_bits(jnp.asarray(arr))) - _arith_bits(arr.reshape(-1))) <=
            1e-4 * _arith_bits(arr.reshape(-1)))
    for nm, t in (('list', [v, v * 2]), ('tuple', (v, (v * 3,))), ('dict', {'x': v, 'y': {'z': jnp.zeros(3)}})):
      def f(t=t):
        o = cp.drive_pytree(t)
        if jax.tree_util.tree_structure(o) != jax.tree_util.tree_structure(t):
          return False
        for ol, xl in zip(_leaves(o), _leaves(t)):
          x = np.asarray(xl, np.float64).reshape(-1)
          n1 = np.sum(np.abs(x))
          ref = (np.sum(x * x) / n1) * np.sign(x) if n1 > 0 else np.zeros_like(x)
          if not _close(ol.reshape(-1), ref, rtol=1e-5, atol=1e-6):
            return False
        return True
      guard('drive-pytree-' + nm, f)
    guard('state-dataclass', lambda: (lambda s: float(s.num_bits) == 1.5 and s.replace(num_bits=2.0).num_bits == 2.0)(
        cp.CompressionState(1.5, jax.random.PRNGKey(0))))
  elif sub == 'compose':
    k, k2 = jax.random.PRNGKey(case['key']), jax.random.PRNGKey(case['key'] + 3)
    v = jnp.asarray(np.array([_nz(x) / 8.0 for x in lcg(9, case['seed'])], np.float32))
    for L in (2, 3, 5, 17):
      q1 = cp.uniform_stochastic_quantize(v, L, k)
      # a quantised vector is on its own grid (min and max are kept): quantising it again, with any key, changes nothing
      guard(f'usq-idempotent-L{L}', lambda q1=q1, L=L: _close(cp.uniform_stochastic_quantize(q1, L, k2), q1, 1e-6, 1e-6))
    b1 = cp.binary_stochastic_quantize(v, k)
    guard('bsq-idempotent', lambda: _close(cp.binary_stochastic_quantize(b1, k2), b1, 0, 0))
    guard('bsq-then-usq', lambda: _close(cp.uniform_stochastic_quantize(b1, 3, k2), b1, 1e-6, 1e-6))
    d1 = cp.drive_pytree({'a': v})
    guard('drive-idempotent', lambda: _close(_flat(cp.drive_pytree(d1)), _flat(d1), 1e-5, 1e-6))
    # aggregator output fed to an aggregator (an aggregate is just another tree)
    a = _make_agg({**case, 'agg': 'usq'})
    o1, st = a.apply(_xclients(case), a.init())
    guard('aggregate-of-aggregates-finite', lambda: np.all(np.isfinite(_flat(a.apply([(b'x', o1, 1.0), (b'y', o1, 3.0)], st)[0]))))
  elif sub == 'order':
    # clients whose dicts list the SAME keys in different insertion orders, ids not sorted, values differing per key
    def mkc(c, order):
      vals = {'z': [1.0 + c, 2.0, 4.0 + c], 'a': [10.0 * (c + 1)], 'm': [-1.0, -2.0 - c, -3.0, -8.0]}
      return {k: jnp.asarray(np.array(vals[k], np.float32)) for k in order}, vals
    orders = (['z', 'a', 'm'], ['m', 'z', 'a'], ['a', 'm', 'z'])
    ids = [b'c02', b'c00', b'c10']
    ws = [1.0, 3.0, 2.0]
    cl, vals = [], []
    for c in range(3):
      p, vv = mkc(c, orders[c])
      cl.append((ids[c], p, ws[c]))
      vals.append(vv)
    ag = mk()
    with Spy() as spy, jax.disable_jit():
      out, st = ag.apply(cl, ag.init())
    guard('keys-kept', lambda: sorted(out) == ['a', 'm', 'z'] and out['a'].shape == (1,) and out['m'].shape == (4,) and out['z'].shape == (3,))
    def per_key_mean():
      # every key's aggregate must be close to the weighted mean of THAT key's inputs (within that key's value range)
      ok = True
      for k in ('a', 'm', 'z'):
        exact = sum(w * np.array(vv[k]) for w, vv in zip(ws, vals)) / sum(ws)
        span = max(max(abs(x) for x in vv[k]) for vv in vals)
        ok &= bool(np.all(np.abs(np.asarray(out[k], np.float64) - exact) <= 2.0 * span + 1e-6))
        if k == 'a' and case['agg'] != 'tern':
          # a size-1 leaf is constant: uniform, rotated uniform and DRIVE keep it exactly, so this key must carry ITS mean
          ok &= bool(np.all(np.abs(np.asarray(out[k], np.float64) - exact) <= 1e-4 * span))
      return ok
    guard('per-key-association', per_key_mean)
    def sorted_same():
      cl2 = [(i, {k: p[k] for k in sorted(p)}, w) for i, p, w in cl]
      o2, _ = mk().apply(cl2, mk().init())
      return all(_close(o2[k], out[k]) for k in out)
    guard('insertion-order-irrelevant', sorted_same)
    def client_order_weights():
      # permuting the cohort permutes the keys the clients get, but with ONE client the result cannot depend on its id
      o3, _ = mk().apply([(b'zz', cl[1][1], 2.5)], mk().init())
      o4, _ = mk().apply([(b'aa', cl[1][1], 0.5)], mk().init())
      return all(_close(o3[k], o4[k]) for k in o3)
    guard('single-client-id-and-weight-irrelevant', client_order_weights)
  elif sub == 'magnitude':
    k = jax.random.PRNGKey(case['key'])
    base = np.array([_nz(x) / 8.0 for x in lcg(7, case['seed'])], np.float32)
    for sc in (0.0, 1e-38, 1e-30, 1e-7, 5e-7, 1e-6, 1.0, 1e6, 1e30, 1e37):
      v = jnp.asarray((base * np.float32(sc)).astype(np.float32))
      vf = np.asarray(v, np.float32)
      def member(out, L):
        if sc < 1e-30:
          return bool(np.all(np.isfinite(np.asarray(out))))
        levels, step, vmin, vmax = _usq_levels([float(x) for x in vf], L)
        scl = float(max(abs(vmin), abs(vmax), step)) + 1e-300
        return all(min(abs(float(o) - float(l)), abs(float(o) - float(h))) <= 3e-6 * scl for o, (l, h, t) in zip(np.asarray(out, np.float64), levels))
      guard(f'usq-scale-{sc:g}', lambda v=v, member=member: member(cp.uniform_stochastic_quantize(v, 5, k), 5))
      guard(f'bsq-scale-{sc:g}', lambda v=v, member=member: member(cp.binary_stochastic_quantize(v, k), 2))
    # TernGrad and DRIVE square their input: finite within the float32 range of the squares (documented assumption)
    for sc in (0.0, 1e-15, 1e-7, 1.0, 1e6, 1e15):
      v = jnp.asarray((base * np.float32(sc)).astype(np.float32))
      guard(f'tern-finite-scale-{sc:g}', lambda v=v: bool(np.all(np.isfinite(np.asarray(cp.terngrad_quantize(v, k))))))
      def drv(v=v):
        o = np.asarray(cp.drive_pytree({'a': v})['a'], np.float64)
        x = np.asarray(v, np.float64)
        n1 = np.sum(np.abs(x))
        ref = (np.sum(x * x) / n1) * np.sign(x) if n1 > 0 else np.zeros_like(x)
        return _close(o, ref, rtol=1e-5, atol=1e-30)
      guard(f'drive-scale-{sc:g}', drv)
    # explicit bounds far away from / much wider than the data (both sides of the clamp)
    v = jnp.asarray(base)
    for a, b in ((-1e30, 1e30), (-1e-30, 1e-30), (0.0, 1e6), (-1e6, 0.0)):
      def bnd(a=a, b=b):
        o = np.asarray(cp.uniform_stochastic_quantize(v, 3, k, v_min=a, v_max=b), np.float64)
        grid = [a, (a + b) / 2, b]
        return bool(np.all(np.isfinite(o))) and all(min(abs(x - g) for g in grid) <= 1e-6 * max(abs(a), abs(b)) for x in o)
      guard(f'usq-bounds-{a:g}-{b:g}', bnd)
  elif sub == 'ulp':
    # draws exactly AT the threshold and one ulp on either side (dyadic data: the float threshold is exact)
    v = np.array([0.0, 1.0, 2.0, 3.0, 4.0], np.float32)        # L = 3: grid 0, 2, 4; thresholds 0.5 at 1.0 and 3.0
    t = np.float32(0.5)
    def at(u, fn):
      with Spy(const_u=float(u), wrap=False):
        return np.asarray(_call_q(fn, [float(x) for x in v], 3, [5], 0), np.float64)
    up, dn = np.nextafter(t, np.float32(1)), np.nextafter(t, np.float32(0))
    guard('usq-at-threshold-upper', lambda: _close(at(t, 'usq'), [0, 2, 2, 4, 4], 0, 0))          # rand > t is False: upper level
    guard('usq-one-ulp-above-lower', lambda: _close(at(up, 'usq'), [0, 0, 2, 2, 4], 0, 0))
    guard('usq-one-ulp-below-upper', lambda: _close(at(dn, 'usq'), [0, 2, 2, 4, 4], 0, 0))
    w = np.array([0.0, 2.0, 4.0], np.float32)                  # binary: threshold 0.5 at 2.0
    def atb(u):
      with Spy(const_u=float(u), wrap=False):
        return np.asarray(_call_q('bsq', [0.0, 2.0, 4.0], 2, [3], 0), np.float64)
    guard('bsq-at-threshold-lower', lambda: _close(atb(t), [0, 0, 4], 0, 0))                        # rand >= v is True: min
    guard('bsq-one-ulp-below-upper', lambda: _close(atb(dn), [0, 4, 4], 0, 0))
    guard('bsq-one-ulp-above-lower', lambda: _close(atb(up), [0, 0, 4], 0, 0))
    one = np.nextafter(np.float32(1), np.float32(0))                                               # largest draw < 1
    guard('largest-draw-keeps-max', lambda: _close(at(one, 'usq'), [0, 0, 2, 2, 4], 0, 0) and _close(atb(one), [0, 0, 4], 0, 0))
    guard('zero-draw-keeps-min', lambda: _close(at(0.0, 'usq'), [0, 2, 2, 4, 4], 0, 0) and _close(atb(0.0), [0, 4, 4], 0, 0))
  elif sub == 'layout':
    k = jax.random.PRNGKey(case['key'])
    base = np.array([_nz(x) / 8.0 for x in lcg(32, case['seed'])], np.float32).reshape(4, 8)
    wide = np.array([_nz(x) / 8.0 for x in lcg(64, case['seed'] + 1)], np.float32).reshape(4, 16)
    ro = base.copy()
    ro.setflags(write=False)
    lay = {'fortran': np.asfortranarray(base), 'transposed': base.T, 'every-other-row': np.tile(base, (2, 1))[::2],
           'negative-stride': base[::-1, ::-1], 'column-slice': wide[:, 3:11], 'read-only': ro, 'zero-d': np.float32(1.5),
           'jax-transposed': jnp.asarray(base).T, 'jax-slice': jnp.asarray(wide)[:, 3:11]}
    if not case.get('big'):
      lay = {n_: lay[n_] for n_ in ('fortran', 'transposed', 'negative-stride', 'column-slice', 'read-only', 'zero-d')}
    for nm, a in lay.items():
      def f(a=a):
        snap = np.array(a, copy=True)
        c = np.array(np.asarray(a), dtype=np.float32, order='C')
        ok = _close(cp.uniform_stochastic_quantize(a, 5, k), cp.uniform_stochastic_quantize(c, 5, k), 0, 0)
        ok &= _close(cp.binary_stochastic_quantize(a, k), cp.binary_stochastic_quantize(c, k), 0, 0)
        ok &= _close(cp.terngrad_quantize(a, k), cp.terngrad_quantize(c, k), 0, 0)
        ok &= _close(cp.drive_pytree({'x': a})['x'], cp.drive_pytree({'x': c})['x'], 0, 0)
        ok &= np.asarray(cp.uniform_stochastic_quantize(a, 5, k)).shape == c.shape
        return ok and bool(np.array_equal(np.asarray(a), snap))
      guard('quantizers-' + nm, f)
    for agg in (('usq', 'rusq', 'drive', 'tern') if case.get('big') else ('rusq',)):
      def g(agg=agg):
        mkp = lambda conv: [(b'a', {'w': conv(np.asfortranarray(base)), 'v': conv(base.T)}, 1.0),
                            (b'b', {'w': conv(wide[:, 3:11]), 'v': conv(base[::-1, ::-1].T)}, 2.0)]
        a1 = _make_agg({**case, 'agg': agg})
        o1, s1 = a1.apply(mkp(lambda z: z), a1.init())
        a2 = _make_agg({**case, 'agg': agg})
        o2, s2 = a2.apply(mkp(lambda z: np.array(z, dtype=np.float32, order='C')), a2.init())
        return _close(_flat(o1), _flat(o2), 1e-6, 1e-6) and o1['w'].shape == (4, 8) and o1['v'].shape == (8, 4)
      guard('aggregator-' + agg, g)
  elif sub == 'containers':
    import haiku as hk
    NT, DC = _container_types()
    k = jax.random.PRNGKey(case['key'])
    mkv = lambda n, o: jnp.asarray(np.array([_nz(x) / 8.0 for x in lcg(n, case['seed'] + o)], np.float32))
    def trees(o):
      a, b3, c1 = mkv(5, o), mkv(3, o + 1).reshape(3, 1), mkv(1, o + 2)
      return {'tuple': (a, b3), 'namedtuple': NT(a, b3), 'list': [a, [b3, c1]], 'none-subtree': {'a': a, 'b': None, 'c': (None, c1)},
              'haiku-flatmap': hk.data_structures.to_immutable_dict({'m': {'w': a, 'b': c1}}), 'dataclass': DC(a, {'k': b3}),
              'mixed': [NT(a, (b3,)), {'k': None, 'z': c1}, DC(c1, None)], 'tuple-of-tuples': ((a,), ((b3,), c1))}
    names = list(trees(0)) if case.get('big') else ['namedtuple', 'none-subtree', 'dataclass', 'mixed', 'tuple-of-tuples']
    for nm in names:
      def f(nm=nm):
        t1, t2 = trees(0)[nm], trees(10)[nm]
        td = jax.tree_util.tree_structure(t1)
        ag = mk()
        with Spy() as spy, jax.disable_jit():
          out, st = ag.apply([(b'a', t1, 1.0), (b'b', t2, 3.0)], ag.init())
        finals = ([o for _, o in spy.inv] if spy.inv else [o for _, _, o in spy.quant])
        ref = [(1.0 * np.asarray(x, np.float64) + 3.0 * np.asarray(y, np.float64)) / 4.0 for x, y in zip(finals[0], finals[1])]
        return (jax.tree_util.tree_structure(out) == td and
                all(np.asarray(o).shape == np.asarray(i).shape for o, i in zip(_leaves(out), _leaves(t1))) and
                all(_close(o, r, 1e-4, 1e-5) for o, r in zip(_leaves(out), ref)))
      guard(nm, f)
    if case['agg'] == 'usq':
      for nm, tr in [(n_, trees(0)[n_]) for n_ in names]:
        guard('pytree-quantizers-' + nm, lambda tr=tr: all(
            jax.tree_util.tree_structure(q) == jax.tree_util.tree_structure(tr) and
            all(np.asarray(a).shape == np.asarray(b).shape for a, b in zip(_leaves(q), _leaves(tr)))
            for q in (cp.uniform_stochastic_quantize_pytree(tr, 3, k), cp.terngrad_quantize_pytree(tr, k), cp.drive_pytree(tr))) and
            cp.num_leaves(tr) == len(_leaves(tr)))
  elif sub == 'complex':
    k = jax.random.PRNGKey(case['key'])
    xc = jnp.asarray((np.arange(8) + 1j * np.arange(8)[::-1]).astype(np.complex64))
    # complex leaves are outside "vectors of reals": each quantizer must either reject them (TypeError) or return finite values
    for nm, f in (('usq', lambda: cp.uniform_stochastic_quantize(xc, 3, k)), ('bsq', lambda: cp.binary_stochastic_quantize(xc, k)),
                  ('tern', lambda: cp.terngrad_quantize(xc, k)), ('drive', lambda: cp.drive_pytree({'a': xc})['a'])):
      def g(f=f):
        try:
          y = np.asarray(f())
        except (TypeError, ValueError):
          return True
        return bool(np.all(np.isfinite(y)))
      guard(nm + '-rejects-or-finite', g)
  elif sub == 'fastpath':
    # weight == 1, single client, single size-1 / scalar leaf, followed by a SECOND round
    for nm, leaf in (('scalar', jnp.float32(1.5)), ('size-1', jnp.asarray([2.5], jnp.float32)), ('size-2', jnp.asarray([1.0, -3.0], jnp.float32))):
      def f(leaf=leaf):
        ag = mk()
        st0 = ag.init()
        with Spy() as spy, jax.disable_jit():
          o1, s1 = ag.apply([(b'only', {'x': leaf}, 1.0)], st0)
        fin1 = (spy.inv[0][1] if spy.inv else spy.quant[0][2])[0]
        with Spy() as spy2, jax.disable_jit():
          o2, s2 = ag.apply([(b'only', {'x': leaf * 2}, 1.0)], s1)
        fin2 = (spy2.inv[0][1] if spy2.inv else spy2.quant[0][2])[0]
        want1 = _bits_formula(case['agg'], case['L'], int(np.asarray(leaf).size), 1)
        ok = _close(o1['x'], fin1, 1e-5, 1e-6) and _close(o2['x'], fin2, 1e-5, 1e-6) and np.asarray(o1['x']).shape == np.asarray(leaf).shape
        ok &= not np.array_equal(np.asarray(s1.rng), np.asarray(st0.rng)) and not np.array_equal(np.asarray(s2.rng), np.asarray(s1.rng))
        if want1 is not None:
          ok &= abs(float(s1.num_bits) - want1) <= 1e-3 * (1 + want1) and abs(float(s2.num_bits) - 2 * want1) <= 2e-3 * (1 + want1)
        if case['agg'] in ('usq', 'rusq') and np.asarray(leaf).size == 1:
          ok &= _close(o1['x'], leaf, 1e-5, 1e-6)        # a size-1 leaf is constant: the uniform quantizers keep it
        # the keys of the two rounds differ
        ks = [kb for kb, _ in spy.uniform] + [kb for kb, _ in spy2.uniform] + [kb for kb, _, _ in spy.rot] + [kb for kb, _, _ in spy2.rot]
        return ok and len(set(ks)) == len(ks)
      guard('single-client-weight-1-' + nm + '-two-rounds', f)
  elif sub == 'chunk':
    # element counts / client counts at and around powers of two and multiples of 256 / 1000 / 1024
    k = jax.random.PRNGKey(case['key'])
    sizes = [255, 256, 257, 1000, 1023, 1024, 1025, 4095, 4096, 4097] if case.get('big') else [255, 257, 4097]
    for n in sizes:
      def f(n=n):
        v = np.array([x / 8.0 for x in lcg(n, case['seed'])], np.float32)
        L = 9
        q = np.asarray(cp.uniform_stochastic_quantize(jnp.asarray(v), L, k), np.float64)
        v64 = v.astype(np.float64)
        vmin, vmax = v64.min(), v64.max()
        step = (vmax - vmin) / (L - 1)
        kq = (q - vmin) / step
        on_grid = np.all(np.abs(kq - np.rint(kq)) <= 1e-4)
        near = np.all(np.abs(q - v64) <= step * (1 + 1e-5))
        t = np.asarray(cp.terngrad_quantize(jnp.asarray(v), k), np.float64)
        sig = v64.std()
        s_ = np.max(np.minimum(np.abs(v64), 2.5 * sig))
        tern_ok = np.all(np.minimum(np.abs(t), np.abs(np.abs(t) - s_)) <= 1e-4 * s_)
        d = np.asarray(cp.drive_pytree({'a': jnp.asarray(v)})['a'], np.float64)
        drive_ok = _close(d, (np.sum(v64 * v64) / np.sum(np.abs(v64))) * np.sign(v64), 1e-4, 1e-6)
        return bool(q.shape == (n,) and on_grid and near and tern_ok and drive_ok)
      guard(f'elements-{n}', f)
    for nc in ([255, 256, 257, 1000, 1025] if case.get('big') else [257]):
      def g(nc=nc):
        # on-grid client vectors (0, 1, 2 with L = 3, both ends present): quantisation is the identity, so the aggregate
        # must be the exact weighted mean whatever the client count
        rs = np.random.RandomState(case['seed'] % (2 ** 31))
        vals = rs.randint(0, 3, size=(nc, 4)).astype(np.float32)
        vals[:, 0], vals[:, 3] = 0.0, 2.0
        ws = rs.randint(1, 4, size=nc).astype(np.float64)
        ag = _make_agg({**case, 'agg': 'usq', 'L': 3})
        out, st = ag.apply(((b'c%d' % i, {'w': jnp.asarray(vals[i])}, float(ws[i])) for i in range(nc)), ag.init())
        ref = (ws[:, None] * vals.astype(np.float64)).sum(0) / ws.sum()
        return _close(out['w'], ref, 1e-4, 1e-5) and abs(float(st.num_bits) - (math.log2(3) * 4 + 64)) <= 1e-2
      guard(f'clients-{nc}', g)
  return {'checks': chk}


# --------------------------------------------------------------------------
# wave 4: global JAX configuration (a subprocess per setting, tools/harness/c11_c18_cfg_worker.py)

CFGS = {'threefry-nonpartitionable': {'JAX_THREEFRY_PARTITIONABLE': '0'},
        'prng-rbg': {'JAX_DEFAULT_PRNG_IMPL': 'rbg'},
        'x64': {'JAX_ENABLE_X64': '1'},
        'rank-promotion-raise': {'JAX_NUMPY_RANK_PROMOTION': 'raise'},
        'disable-jit': {'JAX_DISABLE_JIT': '1'},
        # determinism across interpreter processes: two workers with different PYTHONHASHSEED must observe the same bits
        'hashseed': {'PYTHONHASHSEED': '101'}}
_PROCS = {}


def _start_cfg(name, seed):
  import os
  import subprocess
  import sys
  env = dict(os.environ)
  env.update(CFGS[name])
  worker = os.path.join(os.path.dirname(os.path.abspath(__file__)), 'c11_c18_cfg_worker.py')
  return subprocess.Popen([sys.executable, worker, PROP.lower(), str(seed)], env=env, stdout=subprocess.PIPE,
                          stderr=subprocess.DEVNULL, text=True)


def _cfg_cases(tier, rng):
  """The quick tier starts its one non-default setting right away (it runs while the other cases do)."""
  names = ['threefry-nonpartitionable'] if tier != 'thorough' else list(CFGS)
  cases = [{'kind': 'G', 'cfg': n, 'seed': rng.randrange(1, 2 ** 30)} for n in names]
  if tier == 'quick':
    for c in cases:
      _PROCS[(c['cfg'], c['seed'])] = _start_cfg(c['cfg'], c['seed'])
  return cases


def run_G(case):
  import json
  p = _PROCS.pop((case['cfg'], case['seed']), None) or _start_cfg(case['cfg'], case['seed'])
  try:
    out, _ = p.communicate()
  except BaseException:
    p.kill()
    raise
  line = [l for l in out.split('\n') if l.startswith('CFGRESULT ')]
  if not line:
    return {'ok': False, 'rc': p.returncode, 'n': 0, 'violations': [['worker-failed', f'no result (exit code {p.returncode})', None]]}
  r = json.loads(line[-1][len('CFGRESULT '):])
  if case['cfg'] == 'hashseed':
    import os
    import subprocess
    import sys
    env = dict(os.environ, PYTHONHASHSEED='202')
    worker = os.path.join(os.path.dirname(os.path.abspath(__file__)), 'c11_c18_cfg_worker.py')
    p2 = subprocess.run([sys.executable, worker, PROP.lower(), str(case['seed'])], env=env, capture_output=True, text=True)
    l2 = [l for l in p2.stdout.split('\n') if l.startswith('CFGRESULT ')]
    d2 = json.loads(l2[-1][len('CFGRESULT '):])['digest'] if l2 else None
    if d2 != r['digest']:
      r['violations'].append(['not-reproducible-across-processes', f'observations differ between PYTHONHASHSEED=101 and 202 ({r["digest"][:10]} vs {str(d2)[:10]})', None])
  return {'ok': True, 'rc': p.returncode, 'n': r['n'], 'config': r['config'], 'violations': r['violations']}


def _oracle_G(case, obs):
  return [(f'cfg.{case["cfg"]}.{k}', f'under {CFGS[case["cfg"]]}: {m} [inner case {json_short(c)}]') for k, m, c in obs['violations']]


def json_short(c):
  import json
  return json.dumps({k: v for k, v in (c or {}).items() if k not in ('x', 'y', 'v')})[:200]


# --------------------------------------------------------------------------
# wave 5: exhaustive bit-formula grid (every level count 2..257), sent to Coq against the translated triples

def _log2_exact(n):
  """log2 by an independent route (decimal ln, 40 digits), exact for powers of two."""
  import decimal
  if n & (n - 1) == 0:
    return float(n.bit_length() - 1)
  with decimal.localcontext() as ctx:
    ctx.prec = 40
    return float(decimal.Decimal(n).ln() / decimal.Decimal(2).ln())


def run_Q(case):
  import jax.numpy as jnp
  shapes = TREES[case['tree']]
  P, nl = sum(int(np.prod(sh)) for sh in shapes), len(shapes)
  leaves = [[_nz(v) / 8.0 for v in lcg(int(np.prod(sh)), case['seed'] + i)] for i, sh in enumerate(shapes)]
  tree = _tree_of(shapes, leaves)
  entries = []
  for L in range(case['lo'], case['hi'] + 1):
    ag = _make_agg({**case, 'L': L})
    _, st = ag.apply([(b'a', tree, 1.0)], ag.init())
    entries.append([L, float(st.num_bits)])
    if case['agg'] in ('tern', 'drive'):
      break                       # no level count: one entry
  return {'P': P, 'nl': nl, 'entries': entries}


def _oracle_Q(case, obs):
  out = []
  for L, bits in obs['entries']:
    want = {'usq': lambda: _log2_exact(L) * obs['P'], 'rusq': lambda: _log2_exact(L) * obs['P'],
            'tern': lambda: _log2_exact(3) * obs['P'], 'drive': lambda: float(obs['P'])}[case['agg']]() + 64 * obs['nl']
    if not abs(bits - want) <= 2e-6 * want + 1e-4:
      out.append(('grid.bits-formula', f'{case["agg"]} with {L} levels, {obs["P"]} parameters, {obs["nl"]} leaves: counter {bits}, '
                  f'documented formula {want}'))
  return out[:3]


def run(case):
  return {'Q': run_Q, 'G': run_G, 'X': run_X, 'U': run_U, 'D': run_D, 'A': run_A}[case['kind']](case)


# --------------------------------------------------------------------------
# oracle

def _F(x):
  return Fraction(float(x))


def _usq_levels(v, L, bounds=None):
  """Exact neighbours and thresholds of every coordinate on the (L-1)-step grid between min and max
  (or between explicit bounds, values outside being clamped to them)."""
  fv = [_F(x) for x in v]
  vmin, vmax = min(fv), max(fv)
  if bounds is not None:
    vmin, vmax = _F(np.float32(bounds[0])), _F(np.float32(bounds[1]))
    fv = [min(max(x, vmin), vmax) for x in fv]
  if vmax == vmin:
    return [(x, x, Fraction(0)) for x in fv], Fraction(0), vmin, vmax
  step = (vmax - vmin) / (L - 1)
  out = []
  for x in fv:
    k = (x - vmin) / step
    fl = k.numerator // k.denominator
    ce = -((-k.numerator) // k.denominator)
    out.append((vmin + fl * step, vmin + ce * step, k - fl))
  return out, step, vmin, vmax


def _tern_levels(v):
  fv = [float(_F(x)) for x in v]
  n = len(fv)
  mean = sum(_F(x) for x in v) / n
  var = sum((_F(x) - mean) ** 2 for x in v) / n
  sigma = math.sqrt(float(var))
  b = 2.5 * sigma
  clipped = [max(-b, min(b, x)) for x in fv]
  s = max(abs(c) for c in clipped)
  out = []
  for x, c in zip(fv, clipped):
    sg = (x > 0) - (x < 0)
    t = (abs(c) / s) if s > 0 else 0.0
    out.append((s * sg if t >= 1.0 else 0.0, s * sg, 0.0 if t >= 1.0 else t))
  return out, sigma, s, var


EPS32 = 2.0 ** -23


def _check_sweep(out, tag, levels, obs, G, scale, u0_tag=None, vmin_f=0.0, vmax_f=0.0, tol=None):
  """levels: per coordinate (lower level l, upper level h, exact P[upper] = t).  The implementation must give h
  for u <= t and l for u > t: observed at u = 1/G (hi), u = (G-1)/G (lo), the largest g with output(g/G) = hi."""
  sl = 1e-3
  for i, ((l, h, t), lo_i, hi_i, g, a0) in enumerate(zip(levels, obs['lo'], obs['hi'], obs['gstar'], obs['at0'])):
    l, h, t = float(l), float(h), float(t)
    tol = (2e-6 * scale + 1e-30) if tol is None else tol
    is_l = lambda o: abs(o - l) <= tol
    is_h = lambda o: abs(o - h) <= tol
    two = abs(h - l) > tol
    if 'real' in obs and i < len(obs['real']) and not (is_l(obs['real'][i]) or is_h(obs['real'][i])):
      out.append((tag + 'level-membership', f'coordinate {i}: a real draw gave {obs["real"][i]}, not one of the levels {l}, {h}'))
    # u = 0 exactly: must give the upper level when t > 0 and the value itself when t = 0
    if u0_tag and t == 0 and is_l(a0) is False and abs(l - vmin_f) <= tol and abs(a0 - vmax_f) <= tol:
      out.append((u0_tag, f'coordinate {i} equals the minimum {l}; with the uniform draw u = 0 it is output as the maximum '
                  f'{a0} (`rand > v` is False for 0 > 0)'))
    if not two:
      if not (is_l(lo_i) and is_l(hi_i)):
        out.append((tag + 'level-membership', f'coordinate {i}: outputs {lo_i}, {hi_i}, the only admissible level is {l}'))
      continue
    if not ((is_l(lo_i) or is_h(lo_i)) and (is_l(hi_i) or is_h(hi_i))):
      out.append((tag + 'level-membership', f'coordinate {i}: outputs {lo_i}, {hi_i} are not the neighbouring levels {l}, {h}'))
      continue
    if is_l(hi_i) and is_h(lo_i):
      out.append((tag + 'threshold-direction', f'coordinate {i}: small u gives the lower level and large u the upper one '
                  f'(P[upper] = 1 - t instead of t): biased'))
      continue
    if is_l(hi_i):          # lower level already at u = 1/G: fine only if t < 1/G
      if t > (1 + sl) / G:
        out.append((tag + 'threshold', f'coordinate {i}: lower level at u = 1/{G} although P[upper] = {t:.6f}'))
      continue
    if is_h(lo_i):          # upper level even at u = (G-1)/G: fine only if t >= (G-1)/G
      if t < (G - 1 - sl) / G:
        out.append((tag + 'threshold', f'coordinate {i}: upper level at u = {G - 1}/{G} although P[upper] = {t:.6f}'))
      continue
    if not ((g - sl) / G <= t <= (g + 1 + sl) / G):
      out.append((tag + 'threshold', f'coordinate {i}: upper level is produced for u <= {g}/{G} but the unbiased '
                  f'threshold is {t:.6f}'))


def _oracle_U(case, obs):
  out = []
  fn, L, G = case['fn'], case['L'], case['G']
  v = obs['v']
  if obs['n_out'] != len(v) or not obs['finite']:
    out.append(('not-finite', 'quantizer produced NaN/Inf or a wrong number of coordinates'))
    return out
  if not obs['two_valued']:
    out.append(('level-membership', 'some swept draw produced a value that is neither of the two levels seen at u=1/G and u=(G-1)/G'))
  if not obs['monotone']:
    out.append(('threshold-direction', 'output is not (upper level for u <= t, lower level for u > t)'))
  if fn in ('usq', 'bsq'):
    levels, step, vmin, vmax = _usq_levels(v, L if fn == 'usq' else 2, case.get('bounds'))
    scale = float(max(abs(vmin), abs(vmax), step))
    # tolerance relative to the SPREAD (max - min), plus the float32 rounding of a result of the data's magnitude
    ulp = EPS32 * float(max(abs(vmin), abs(vmax)))          # ~1.2 ulp of the data's magnitude
    utol = 2e-6 * float(max(vmax - vmin, step)) + ulp + 1e-30
    if 0 < float(step) < 4 * ulp:
      utol += float(step) + ulp      # the grid is finer than float32 can resolve at this offset: within one step of a neighbour
    _check_sweep(out, '', levels, obs, G, scale, 'bsq.u0-min-becomes-max' if fn == 'bsq' else None, float(vmin), float(vmax), tol=utol)
    # consequences stated by the property: in range, error <= one step, identity on grid / constant / zero vectors
    for x, lo_i, hi_i, (l, h, t) in zip([] if case.get('bounds') else v, obs['lo'], obs['hi'], levels):
      tol = utol
      for o in (lo_i, hi_i):
        if not (float(vmin) - tol <= o <= float(vmax) + tol) or abs(o - x) > float(step) + tol:
          out.append(('range-or-step', f'output {o} for input {x}: outside [min,max] or more than one grid step away'))
      if t == 0 and (abs(lo_i - x) > tol or abs(hi_i - x) > tol):
        out.append(('identity', f'value {x} already on the grid / constant vector was changed to {lo_i} / {hi_i}'))
  else:
    # float64 reference of the documented definition: sigma = population std of the float32 data (exact), clip at 2.5 sigma
    levels, sigma, s, var = _tern_levels(v)
    mean_abs = abs(sum(float(x) for x in v) / len(v))
    # tolerance relative to the spread: the two-pass float32 std of data with |mean| >> sigma is accurate to ~eps*|mean|/sigma
    rel = 2e-6 + (0.1 * EPS32 * mean_abs / sigma if sigma > 0 else 0.0)
    _check_sweep(out, 'tern.', levels, obs, G, max(s, 1e-30), tol=s * rel + 1e-30)
  return _dedup(out)


def _dedup(out):
  seen, res = set(), []
  for k, m in out:
    if k not in seen:
      seen.add(k)
      res.append((k, m))
  return res


def _oracle_D(case, obs):
  out = []
  x = np.array(obs['x'], np.float64)
  o = np.array(obs['out'], np.float64)
  if not (np.all(np.isfinite(o)) and np.all(np.isfinite(obs['zero_leaf']))):
    out.append(('drive.not-finite', 'DRIVE produced NaN/Inf'))
    return out
  if any(v != 0 for v in obs['zero_leaf']):
    out.append(('drive.zero-leaf', 'all-zero leaf did not stay zero'))
  n1 = float(np.sum(np.abs(x)))
  ref = (np.sum(x * x) / n1) * np.sign(x) if n1 > 0 else np.zeros_like(x)
  if np.max(np.abs(o - ref)) > 1e-5 * (np.max(np.abs(ref)) + 1e-30):
    out.append(('drive.scale', 'DRIVE output is not |x|_2^2 / |x|_1 * sign(x)'))
  return out


def _wmean(trees, ws):
  tot = sum(ws)
  return [[sum(w * t[l][i] for t, w in zip(trees, ws)) / tot for i in range(len(trees[0][l]))] for l in range(len(trees[0]))]


def _bits_formula(agg, L, P, nl):
  if agg in ('usq', 'rusq'):
    return math.log2(L) * P + 32 * 2 * nl
  if agg == 'tern':
    return math.log2(3) * P + 32 * 2 * nl
  if agg == 'drive':
    return P + 32 * 2 * nl
  return None


def _arith_bits(leaf):
  v = np.array(leaf, np.float64)
  vals, cnt = np.unique(v, return_counts=True)
  p = cnt / cnt.sum()
  ent = -float(np.sum(p * np.log2(p)))
  d, k = v.size, vals.size
  return k * math.log2(math.e * (d + k) / k) + d * ent + 2 * 32 + 2


def _oracle_A(case, obs):
  out = []
  agg, L, nc = case['agg'], case['L'], case['clients']
  shapes = TREES[case['tree']]
  nl = len(shapes)
  P = sum(int(np.prod(s)) for s in shapes)
  ws = case['weights']
  all_keys, prev_bits, prev_state = [], 0.0, []
  drive_rot_keys, rusq_rot_keys = [], []
  for r, rd in enumerate(obs['rounds']):
    tag = ''
    flat = lambda t: [x for l in t for x in l]
    if rd['mutated']:
      out.append(('input-mutated', 'apply() changed its input trees'))
    if rd['agg_shapes'] != [list(s) for s in shapes]:
      out.append(('agg-shape', 'aggregated tree has different leaf shapes'))
      continue
    if not all(math.isfinite(x) for x in flat(rd['agg']) + flat(rd['agg_jit'])):
      out.append(('not-finite', 'aggregate contains NaN/Inf'))
      continue
    sc = max(1.0, max(abs(x) for x in flat(rd['agg'])))
    if max(abs(a - b) for a, b in zip(flat(rd['agg']), flat(rd['agg_jit']))) > 1e-4 * sc or \
        abs(rd['bits'] - rd['bits_jit']) > 1e-3 * (1 + abs(rd['bits'])) or not rd['state_same_jit']:
      out.append(('jit-vs-eager', 'the recorded op-by-op run differs from the jitted run with the same key'))
    finals = rd['finals']
    if len(finals) != nc:
      out.append(('client-count', f'{len(finals)} per-client quantised trees recorded for {nc} clients'))
      continue
    # aggregate = weighted mean of the per-client quantised trees
    ref = _wmean(finals, ws)
    if max(abs(a - b) for a, b in zip(flat(rd['agg']), flat(ref))) > 1e-4 * sc:
      out.append(('not-mean-of-quantised', 'aggregate is not the weighted mean of the per-client quantised trees'))
    # per-client quantisation: membership / step in the space where it happens
    if agg in ('usq', 'usq_arith', 'rusq'):
      steps = []
      for q in rd['quant']:
        for xin, xout in zip(q['in'], q['out']):
          levels, step, vmin, vmax = _usq_levels(xin, L)
          scale = float(max(abs(vmin), abs(vmax), step)) + 1e-30
          steps.append(float(step))
          for o, (l, h, t) in zip(xout, levels):
            if not math.isfinite(o) or min(abs(o - float(l)), abs(o - float(h))) > 3e-6 * scale:
              out.append(('level-membership', f'client leaf value {o} is not a neighbouring level ({float(l)}, {float(h)})'))
      if agg != 'rusq' and steps:
        exact = _wmean(rd['clients'], ws)
        if max(abs(a - b) for a, b in zip(flat(rd['agg']), flat(exact))) > max(steps) + 1e-4 * sc:
          out.append(('error-bound', 'aggregate is further from the exact weighted mean than the largest per-client grid step'))
    elif agg == 'tern':
      for q in rd['quant']:
        for xin, xout in zip(q['in'], q['out']):
          levels, sigma, s, var = _tern_levels(xin)
          for o, (l, h, t) in zip(xout, levels):
            if not math.isfinite(o) or min(abs(o - l), abs(o - h)) > 3e-6 * (s + 1e-30):
              out.append(('tern.level-membership', f'TernGrad value {o} is not in {{0, {h}}}'))
    elif agg == 'drive':
      for q in rd['quant']:
        for xin, xout in zip(q['in'], q['out']):
          x = np.array(xin, np.float64)
          n1 = float(np.sum(np.abs(x)))
          refq = (np.sum(x * x) / n1) * np.sign(x) if n1 > 0 else np.zeros_like(x)
          if not np.all(np.isfinite(xout)) or np.max(np.abs(np.array(xout) - refq)) > 1e-5 * (np.max(np.abs(refq)) + 1e-30):
            out.append(('drive.scale', 'DRIVE output is not |x|_2^2/|x|_1 * sign(x) in the rotated space'))
    if agg in ('rusq', 'drive') and len(rd['quant']) == nc:
      # the rotation is an isometry and the inverse only crops padding: the per-client error in the original space
      # cannot exceed the quantisation error made in the rotated space
      for c in range(nc):
        e_orig = sum((a - b) ** 2 for fl, xl in zip(finals[c], rd['clients'][c]) for a, b in zip(fl, xl))
        e_rot = sum((a - b) ** 2 for ql, yl in zip(rd['quant'][c]['out'], rd['quant'][c]['in']) for a, b in zip(ql, yl))
        n_x = sum(b * b for xl in rd['clients'][c] for b in xl)
        if not e_orig <= e_rot * (1 + 1e-3) + 1e-6 * (1 + n_x):
          out.append(('rotated.not-inverse', f'client {c}: error after the inverse rotation {e_orig} exceeds the quantisation '
                      f'error in the rotated space {e_rot}: the inverse rotation does not undo the rotation'))
    # randomness: every (round, client, leaf) draw uses its own key
    if agg != 'drive':
      if len(rd['uniform_keys']) != nc * nl:
        out.append(('draw-count', f'{len(rd["uniform_keys"])} uniform draws for {nc} clients x {nl} leaves'))
      all_keys += rd['uniform_keys']
    if agg == 'drive':
      if len(rd['rot_keys']) != nc or rd['rot_keys'] != rd['inv_keys']:
        out.append(('rotation-key-mismatch', 'rotation and inverse rotation of a client use different keys'))
      drive_rot_keys += rd['rot_keys']
    if agg == 'rusq':
      if rd['rot_keys'] != rd['inv_keys']:
        out.append(('rotation-key-mismatch', 'rotation and inverse rotation of a client use different keys'))
      rusq_rot_keys.append(tuple(sorted(set(rd['rot_keys']))))
    # bits
    want = _bits_formula(agg, L, P, nl)
    if want is None:
      want = sum(sum(_arith_bits(l) for l in t) for t in finals) / len(finals)
    inc = rd['bits'] - prev_bits
    if abs(inc - want) > 2e-4 * (1 + abs(want)) * (r + 1):
      out.append(('bits-formula', f'round {r}: bit counter grew by {inc}, documented formula gives {want}'))
    prev_bits = rd['bits']
    prev_state.append(rd['state_path'])
  if len(set(all_keys)) != len(all_keys):
    out.append(('keys-reused', 'the same PRNG key was used for two different (round, client, leaf) quantisations'))
  if len(set(drive_rot_keys)) != len(drive_rot_keys):
    out.append(('keys-reused', 'the same rotation key was used for two different (round, client) DRIVE rotations'))
  if len(set(rusq_rot_keys)) != len(rusq_rot_keys):
    out.append(('keys-reused', 'the same rotation key was used in two different rounds'))
  return _dedup(out)


def _oracle_X(case, obs):
  out = []
  tag = f'x.{case["sub"]}.' + (f'{case["agg"]}.' if case.get('agg') else '')
  for name, ok in sorted(obs['checks'].items()):
    if name.endswith('!') or ok:
      continue
    out.append((tag + name, f'{case["sub"]} / {name} failed {obs["checks"].get(name + "!", "")}'))
  return out


def oracle(case, obs):
  return {'Q': _oracle_Q, 'G': _oracle_G, 'X': _oracle_X, 'U': _oracle_U, 'D': _oracle_D, 'A': _oracle_A}[case['kind']](case, obs)


# --------------------------------------------------------------------------
# encoding

def _q(x):
  return fw.qlit(float(x))


def _ql(xs):
  return '[' + '; '.join(_q(x) for x in xs) + ']'


def _pathlit(p):
  return '[' + '; '.join(f'{int(i)}%nat' for i in p) + ']'


def _is_square(d):
  r = math.isqrt(d)
  return r * r == d


FORCED_DISAGREEMENT = '(CD [], OD [0])'


def encode(case, obs):
  try:
    return _encode(case, obs)
  except (ValueError, OverflowError, TypeError):
    return FORCED_DISAGREEMENT     # NaN / Inf / missing values in the observation: never what the model computes


def _encode(case, obs):
  kind = case['kind']
  if kind in ('X', 'G'):
    return None
  if kind == 'Q':
    kind_z = {'usq': 0, 'rusq': 1, 'tern': 2, 'drive': 3}[case['agg']]
    l2 = lambda L: _log2_exact(L) if kind_z <= 1 else _log2_exact(3) if kind_z == 2 else 0.0
    es = '[' + '; '.join(f'({L}%Z, {_q(b)}, {_q(l2(L))})' for L, b in obs['entries']) + ']'
    return f'(CBits {kind_z} {obs["P"]} {obs["nl"]} {es}, OBits)'
  if kind == 'U':
    if not obs['finite'] or obs['n_out'] != len(obs['v']):
      return '(CD [], OD [0])'      # forced disagreement
    fn = case['fn']
    if case.get('bounds') and fn == 'usq':
      f = f'(FUsqB {case["L"]} {_q(np.float32(case["bounds"][0]))} {_q(np.float32(case["bounds"][1]))})'
    elif case.get('bounds'):
      f = f'(FBsqB {_q(np.float32(case["bounds"][0]))} {_q(np.float32(case["bounds"][1]))})'
    elif fn == 'usq':
      f = f'(FUsq {case["L"]})'
    elif fn == 'bsq':
      f = 'FBsq'
    else:
      _, sigma, s, var = _tern_levels(obs['v'])
      r = Fraction(var)
      # exact sigma when the variance is a perfect square rational
      num, den = math.isqrt(r.numerator), math.isqrt(r.denominator)
      if num * num == r.numerator and den * den == r.denominator:
        f = f'(FTern ({num} # {den}))'
      else:
        f = f'(FTern {_q(sigma)})'
    sw = '[' + '; '.join(f'mkSw {_q(l)} {_q(h)} {fw.zlit(g)}' for l, h, g in zip(obs['lo'], obs['hi'], obs['gstar'])) + ']'
    return f'(CU {f} {_ql(obs["v"])} {case["G"]}%Z, OU {sw})'
  if kind == 'D':
    return f'(CD {_ql(obs["x"])}, OD {_ql(obs["out"])})'
  agg, L = case['agg'], case['L']
  if agg == 'usq_arith':
    return None
  shapes = TREES[case['tree']]
  nl = len(shapes)
  nc = case['clients']
  sizes = [int(np.prod(s)) for s in shapes]
  if agg in ('rusq', 'drive') and not all(_is_square(1 << max(0, (n - 1).bit_length())) for n in sizes):
    return None
  cs, os_ = [], []
  for r, rd in enumerate(obs['rounds']):
    if any(p is None for p in rd['uniform_paths']) or rd['state_path'] is None or any(p is None for p in rd['rot_paths']):
      return '(CD [], OD [0])'      # a key outside the split tree of the root: forced disagreement
    clients = '[' + '; '.join('(' + '[' + '; '.join(_ql(l) for l in cl) + f'], {_q(w)})'
                              for cl, w in zip(rd['clients'], case['weights'])) + ']'
    if agg == 'drive':
      us = '[]'
      paths = rd['rot_paths']
      signs = '[' + '; '.join('[' + '; '.join(fw.blist(s) for s in cs_) + ']' for cs_ in rd['rot_signs']) + ']'
      # model key of (client, leaf) = client rotation key + [leaf]
      paths = [p + [l] for p in paths for l in range(nl)]
      kind_t = f'(ADrive {signs})'
      base = 1
    else:
      if len(rd['us']) != nc * nl:
        return '(CD [], OD [0])'
      us = '[' + '; '.join('[' + '; '.join(_ql(rd['us'][c * nl + l]) for l in range(nl)) + ']' for c in range(nc)) + ']'
      paths = rd['uniform_paths']
      if agg == 'usq':
        kind_t, base = f'(AUsq {L})', L
      elif agg == 'rusq':
        signs = '[' + '; '.join(fw.blist(s) for s in rd['rot_signs'][0]) + ']'
        kind_t, base = f'(ARusq {L} {signs})', L
      else:
        sig = '[' + '; '.join('[' + '; '.join(_q(_tern_levels(l)[1]) for l in cl) + ']' for cl in rd['clients']) + ']'
        kind_t, base = f'(ATern {sig})', 3
    cs.append(f'(mkRound {kind_t} {clients} {us} {r}%nat {nl}%nat)')
    aggflat = [x for l in rd['agg'] for x in l]
    os_.append(f'(mkAObs {_ql(aggflat)} [{"; ".join(_pathlit(p) for p in paths)}] {_pathlit(rd["state_path"])} '
               f'{_q(rd["bits"])} {_q(math.log2(base))})')
  return f'(CAs [{"; ".join(cs)}], OAs [{"; ".join(os_)}])'


def nontrivial(case, obs):
  if case['kind'] == 'U':
    return len(set(case['v'])) > 1
  return True


def describe(case, obs):
  if case['kind'] == 'U':
    v = case['v']
    return {'kind': 'U.' + case['fn'], 'L': min(case['L'], 18), 'n': min(len(v), 14),
            'vector': 'constant' if len(set(v)) == 1 else 'generic'}
  if case['kind'] == 'G':
    return {'kind': 'G.' + case['cfg'], 'inner_cases': obs.get('n')}
  if case['kind'] == 'Q':
    return {'kind': 'Q.bits.' + case['agg'], 'levels': len(obs['entries'])}
  if case['kind'] == 'X':
    return {'kind': 'X.' + case['sub'] + ('.' + case['agg'] if case.get('agg') else '')}
  if case['kind'] == 'A':
    sizes = [int(np.prod(sh)) for sh in TREES[case['tree']]]
    evenk = all(max(0, (n - 1).bit_length()) % 2 == 0 for n in sizes)
    hyp = ('n/a' if case['agg'] not in ('rusq', 'drive') else
           'rot_leaf_ok (modelled in Coq)' if evenk else 'padded size not a square: oracle only (C11_rotated_* theorems do not apply)')
    return {'hypothesis': hyp, 'kind': 'A.' + case['agg'], 'clients': case['clients'], 'rounds': case['rounds'], 'tree': case['tree']}
  return {'kind': 'D'}


def shrink(case):
  if case['kind'] == 'U':
    v = case['v']
    if len(v) > 1 and len(case['shape']) == 1:
      yield {**case, 'v': v[:len(v) // 2], 'shape': [len(v) // 2]}
      yield {**case, 'v': v[1:], 'shape': [len(v) - 1]}
    if len(case['shape']) > 1:
      yield {**case, 'shape': [len(v)]}
    if case['G'] > 16:
      yield {**case, 'G': 16}
  if case['kind'] == 'A':
    if case['rounds'] > 1:
      yield {**case, 'rounds': case['rounds'] - 1}
    if case['clients'] > 1:
      yield {**case, 'clients': case['clients'] - 1, 'weights': case['weights'][:-1] if any(case['weights'][:-1]) else [1.0] * (case['clients'] - 1)}
    if case['tree'] != 1:
      yield {**case, 'tree': 1}
