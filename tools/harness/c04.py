"""C04 harness: ClientDataset.shuffle_repeat_batch against the mirrored iterator
(`batches`, proved equal to the translated generator `srb_iter` in Proofs/C04_IterProofs.v)."""
import itertools
import numpy as np
from lib import fw

PROP = 'C04'
COQ_HEADER = 'From FV Require Import Model.C04_Model.'
COQ_AGREE = 'C04_agree_any'
COQ_MODEL_TARGETS = ['Model/C04_Model']
RULE = ('exhaustive count sweep N, bs in 1..40 x num_epochs 1..16 x drop_remainder (quick; 1..96 x 1..24 thorough) against exact integer arithmetic and, in Coq, against the translated computation; '
        'grid N 0..12 x bs 1..2N+3 x num_epochs {None,1,2,3} x num_steps {None,0,1,2,5,9} x drop_remainder x '
        'skip_shuffle, seeds from VERIF_SEED, plus random larger (N, bs); every 9th grid case draws from a dataset obtained by slicing a larger parent; four call forms (hparams object, keywords, view class directly, hparams '
        'object overridden by keywords incl. overrides to None); every view iterated twice + a fresh view + two interleaved '
        'live iterators (same view; two different clients\' views) + a pass in pieces + other views of the same dataset in between + kept results; '
        'ints as python / NumPy scalar / 0-d array; counts up to 2^40 observed on a prefix; kwargs equal to the documented defaults omitted in half of the cases; global numpy RNG perturbed between passes; NaN / inf / -0.0 feature column; 8 memory layouts of every column; batches spanning up to 5 passes (N up to 16) with adjacent-window comparison; seeded streams compared with two child interpreters (other PYTHONHASHSEED); seeds incl. 0 and 2^32-1; num_epochs incl. 0; 7 feature dtypes; infinite streams observed on a 7-batch prefix; '
        'non-trivial = N >= 1 and at least one batch drawn; distinct = distinct case JSON')
TRUSTED = ['numpy RandomState.shuffle returns a permutation of its argument and is a function of (seed, call history) '
           '(asserted on every recovered window)']
ASSUMPTIONS = ['the k-th rng.shuffle result is recorded through a RandomState subclass (the `np` name of client_datasets is swapped for a proxy in the harness process) and fed to the model as its oracle',
               'statistical side-checks (reshuffled windows differ, non-identity order) only for N >= 12: false-alarm probability < 1e-6 per run',
               'C04_iterator_translated: rng.shuffle keeps the length of its argument (in-place shuffle)']
CASE_TIMEOUT = 20   # generous: the machine is shared; a real hang (N = 0 without the early return) costs 3 x 20 s
PREFIX = 7
HUGE = 2000     # documented counts above this (num_steps / num_epochs ~ 1e12) are observed on a PREFIX-batch prefix


def generate(tier, rng):
  if tier == 'quick':
    ns, epochs, steps = range(0, 9), [None, 0, 1, 2, 3], [None, 0, 1, 2, 5, 9]
    nrand = 60
  else:
    ns, epochs, steps = range(0, 13), [None, 0, 1, 2, 3, 4], [None, 0, 1, 2, 5, 9, 17]
    nrand = 400
  # exhaustive sweep of the batch-count computation: one case per dataset size N, covering every
  # batch size 1..bshi x num_epochs 1..ehi x drop_remainder (counts read without iterating)
  nhi, bshi, ehi = (40, 40, 16) if tier == 'quick' else (96, 96, 24)
  for n in range(1, nhi + 1):
    yield {'sweep': [n, bshi, ehi]}
  i = 0
  for n in ns:
    for bs in range(1, 2 * n + 4):
      for e in epochs:
        for s in steps:
          i += 1
          yield {'n': n, 'bs': bs, 'epochs': e, 'steps': s, 'drop': bool(i % 2), 'skip': i % 5 == 0,
                 'seed': _seed(rng, i), 'kw': i % 3 == 0, 'form': [1, 0, 2, 3][i % 4], 'deliv': i // 4, 'layout': (i // 7) % 8,
                 **({'pslice': _PSLICES[(i // 9) % len(_PSLICES)](n)} if i % 9 == 0 else {})}
          if tier != 'quick':
            yield {'n': n, 'bs': bs, 'epochs': e, 'steps': s, 'drop': not bool(i % 2), 'skip': i % 7 == 0,
                   'seed': _seed(rng, i + 3), 'kw': i % 3 == 1, 'form': [2, 3, 1, 0][i % 4], 'deliv': i // 4 + 1}
  # one batch spanning several passes over the data (batch_size = 2N+1 .. 5N+2), with a second iteration;
  # N >= 12 so that two identical consecutive windows cannot be a coincidence (1/12! < 3e-9)
  j = 0
  for n in (1, 2, 3, 5, 12, 13, 16):
    for bs in (2 * n + 1, 3 * n + 1, 5 * n + 2):
      for st in (1, 3):
        j += 1
        yield {'n': n, 'bs': bs, 'epochs': None, 'steps': st, 'drop': bool(j % 2), 'skip': False, 'seed': _seed(rng, j),
               'kw': False, 'form': j % 4, 'deliv': j, 'layout': j % 8}
  for j in range(24):     # magnitude: astronomically large counts, batch sizes far above N
    big = rng.choice([10 ** 6, 10 ** 12, (1 << 31) - 1, 1 << 40])
    yield {'n': 1 + j % 5, 'bs': 1 + j % 3, 'epochs': [big, None, big, 2][j % 4], 'steps': [None, big, big + 1, big][j % 4],
           'drop': bool(j % 2), 'skip': j % 6 == 0, 'seed': _seed(rng, j), 'kw': False, 'form': j % 4, 'deliv': j}
  for _ in range(nrand + 1):
    if _ == nrand:
      yield {'xproc': 1}      # two child interpreters (started in warmup) with other PYTHONHASHSEED values
      return
    n = rng.choice([rng.randrange(1, 40), rng.randrange(10, 200)])
    bs = rng.choice([1, 2, 3, rng.randrange(1, 2 * n + 2), n, n + 1, 2 * n])
    yield {'n': n, 'bs': bs, 'epochs': rng.choice([None, 1, 2, 3, 5]), 'steps': rng.choice([None, 0, 1, 3, 8, 20]),
           'drop': rng.random() < 0.5, 'skip': rng.random() < 0.2, 'seed': _seed(rng, rng.randrange(16)), 'kw': False,
           'form': rng.randrange(4), 'deliv': rng.randrange(9), 'layout': rng.randrange(8)}


def _seed(rng, i):
  """Seeds incl. the falsy 0 and the largest legal value 2^32 - 1."""
  return 0 if i % 8 == 0 else (1 << 32) - 1 if i % 8 == 4 else rng.randrange(1 << 30)


def _scalar(v, form):
  """An int delivered as python int / NumPy scalar / 0-d array; None stays None."""
  return None if v is None else [int(v), np.int64(v), np.array(v, dtype=np.int64)][form % 3]


_BIG = (1 << 24) + 1


def _columns(n, layout=0):
  from harness import c03
  return {k: c03._layout(v, layout) for k, v in _columns0(n).items()}


def _columns0(n):
  return {'x': np.arange(n, dtype=np.int32), 'v': np.arange(n, dtype=np.float32) * 0.5,
          'img': (np.arange(2 * n).reshape(n, 2) % 251).astype(np.uint8),
          's3': np.array([b'%d' % (i % 1000) for i in range(n)], dtype='S3'),
          'obj': np.array(['o%d' % i for i in range(n)], dtype=object),
          'flag': np.arange(n) % 2 == 0,
          'big': (np.arange(n, dtype=np.int64) + _BIG).astype(np.int32),
          'nanf': _nanf(np.arange(n))}


def _nanf(i):
  """float32 with non-finite values on real rows: i%5 == 0 NaN, 1 +inf, 2 -inf, 3 -0.0, 4 i+0.5."""
  i = np.asarray(i, dtype=np.int64)
  v = (i + 0.5).astype(np.float32)
  v[i % 5 == 0], v[i % 5 == 1], v[i % 5 == 2], v[i % 5 == 3] = np.nan, np.inf, -np.inf, -0.0
  return v


def _lay(case):
  return case.get('layout', 0)


def _feat_ok(b, case=None):
  """Every column of a batch follows its row id x (gather v[indices] keeps dtype and trailing shape)."""
  x = np.asarray(b['x'])
  if x.dtype.kind != 'i' or x.dtype.itemsize != 4 or set(b) != {'x', 'v', 'img', 's3', 'obj', 'flag', 'big', 'nanf', 'y'}:
    return False
  xi, k = x.astype(np.int64), len(x)
  exp = {'y': x + 1, 'v': x.astype(np.float32) * 0.5,
         'img': ((2 * xi[:, None] + np.arange(2)[None, :]) % 251).astype(np.uint8).reshape(k, 2),
         's3': np.array([b'%d' % (int(i) % 1000) for i in xi], dtype='S3').reshape(k),
         'flag': xi % 2 == 0, 'big': (xi + _BIG).astype(np.int32)}
  from harness import c03
  swap = case is not None and _lay(case) == 6
  for name, w in exp.items():
    a = np.asarray(b[name])
    want_dt = w.dtype.newbyteorder() if swap and name != 'y' and c03._swappable(w.dtype) else w.dtype
    if a.dtype != want_dt or a.shape != w.shape or not np.array_equal(a, w):
      return False
  nf = np.asarray(b['nanf'])
  if nf.dtype.kind != 'f' or nf.dtype.itemsize != 4 or nf.shape != (k,) or nf.astype(np.float32).tobytes() != _nanf(xi).tobytes():   # bitwise: NaN / inf / -0.0 kept
    return False
  o = b['obj']
  return o.dtype == object and o.shape == (k,) and all(o[j] == 'o%d' % int(xi[j]) for j in range(k))


# the dataset is parent[a:b:c] for a parent of P rows: [P, a, b, c] selecting exactly n rows
_PSLICES = [lambda n: [n + 2, None, n, None], lambda n: [n + 3, 2, n + 2, None], lambda n: [2 * n, None, None, 2],
            lambda n: [n, None, None, -1], lambda n: [n + 1, -n, None, None] if n else [1, 1, None, None]]


def _ids(case):
  """Row ids (column x) of the dataset under test, by position; computed on a python range."""
  if case.get('pslice'):
    p, a, b, c = case['pslice']
    r = range(p)[slice(a, b, c)]
    return list(r[::-1]) if case.get('deliv', 0) % 2 else list(r)      # odd deliv: a view of a view, d[a:b:c][::-1]
  return list(range(case['n']))


def _form(case):
  """0: hparams object, 1: keywords only, 2: hparams object overridden by keywords, 3: the view class directly."""
  return case['form'] if 'form' in case else (1 if case.get('kw') else 0)


def _view(case, info=None, flaky=None):
  """The view under test.  `info` (a dict) receives the dataset, its source arrays and the
  hparams objects handed in together with copies taken before the call."""
  import copy
  import fedjax
  from fedjax.core import client_datasets as cd
  n = case['pslice'][0] if case.get('pslice') else case['n']
  ex = _columns(n, _lay(case))
  ds = fedjax.ClientDataset(ex, fedjax.BatchPreprocessor([lambda e: {**e, 'y': e['x'] + 1}] + ([flaky] if flaky else [])))
  if case.get('pslice'):
    _, a, b, c = case['pslice']
    ds = ds[slice(a, b, c)]
    if case.get('deliv', 0) % 2:
      ds = ds[::-1]
  f = case.get('deliv', 0)
  kw = dict(batch_size=_scalar(case['bs'], f), num_epochs=_scalar(case['epochs'], f + 1), num_steps=_scalar(case['steps'], f + 2),
            drop_remainder=case['drop'], seed=_scalar(case['seed'], f // 3), skip_shuffle=case['skip'])
  if case.get('deliv', 0) % 2 and _form(case) != 2:
    # a value equal to the documented default is left out, so the default itself is exercised
    dflt = dict(num_epochs=1, num_steps=None, drop_remainder=False, skip_shuffle=False)
    kw = {k: v for k, v in kw.items() if not (k in dflt and (v is None) == (dflt[k] is None) and (v is None or v == dflt[k]))}
  hps = []

  def hp(x):
    hps.append((x, copy.deepcopy(x)))
    return x
  if info is not None:
    info.update(ds=ds, ex=ex, hps=hps, kw=kw)
  form = _form(case)
  if form == 1:
    return ds.shuffle_repeat_batch(**kw)
  if form == 2:
    # a base hparams object that differs from the case in EVERY field (None where the case
    # has a number and a number where the case has None), overridden by keywords
    e, st = case['epochs'], case['steps']
    base = hp(fedjax.ShuffleRepeatBatchHParams(
        batch_size=case['bs'] + 1, num_epochs=1 if e is None else (None if e % 2 else e + 1),
        num_steps=2 if st is None else (None if st % 2 else st + 1), drop_remainder=not case['drop'],
        seed=case['seed'] + 1, skip_shuffle=not case['skip']))
    return ds.shuffle_repeat_batch(base, **kw)
  if form == 3:
    return cd.ShuffleRepeatBatchView(ds, hp(fedjax.ShuffleRepeatBatchHParams(**kw)))
  return ds.shuffle_repeat_batch(hp(fedjax.ShuffleRepeatBatchHParams(**kw)))


class _Recorder:
  """Swaps the `np` name inside fedjax.core.client_datasets for a proxy whose
  random.RandomState records every shuffle() result (public seam: the view builds
  its own RandomState from the seed, so the calls cannot be observed otherwise).
  The proxy is in place while the view is CONSTRUCTED and while it is iterated, so
  the recording does not depend on where the implementation creates its RandomState;
  module-level np.random.shuffle / default_rng().shuffle are recorded as well.  Only
  calls made while `active` are recorded."""

  def __init__(self):
    self.shuffles = []
    self.active = True

  def __enter__(self):
    from fedjax.core import client_datasets as cd
    rec = self

    def note(x):
      if rec.active:
        rec.shuffles.append([int(v) for v in x])

    class RS(np.random.RandomState):
      def shuffle(self, x):
        super().shuffle(x)
        note(x)

    class GenProxy:
      def __init__(self, g):
        self._g = g

      def shuffle(self, x, *a, **k):
        self._g.shuffle(x, *a, **k)
        note(x)

      def __getattr__(self, k):
        return getattr(self._g, k)

    class RandomProxy:
      RandomState = RS

      @staticmethod
      def shuffle(x):
        np.random.shuffle(x)
        note(x)

      @staticmethod
      def default_rng(*a, **k):
        return GenProxy(np.random.default_rng(*a, **k))

      def __getattr__(self, k):
        return getattr(np.random, k)

    class NPProxy:
      random = RandomProxy()

      def __getattr__(self, k):
        return getattr(np, k)

    self.cd, self.old = cd, cd.np
    cd.np = NPProxy()
    return self

  def __exit__(self, *a):
    self.active = False
    self.cd.np = self.old


def _take(view, case):
  it = iter(view)
  exp = _expected_count(case)
  if exp is None or exp > HUGE:
    it = itertools.islice(it, PREFIX)   # unbounded, or astronomically long: observed on a prefix
  else:
    it = itertools.islice(it, 5000)   # finite by the documented count; the cap only guards the harness
  out, ok = [], True
  pos = {rid: k for k, rid in enumerate(_ids(case))}
  for b in it:
    x = np.asarray(b['x'])
    ok &= _feat_ok(b, case)
    ok &= all(int(v) in pos for v in x.tolist())
    out.append([pos.get(int(v), 10 ** 6) for v in x.tolist()])    # positions; 10^6 = not a row of this dataset
  return out, ok


def _interleaved(view, case, want):
  """Two live iterators over the same view, advanced alternately: each must reproduce
  the sequential pass (a fixed seed gives identical batches on EVERY iteration)."""
  k = min(len(want), 12)
  pos = {rid: j for j, rid in enumerate(_ids(case))}
  a, b = iter(view), iter(view)
  got_a, got_b = [], []
  for _ in range(k):
    for it, got in ((a, got_a), (b, got_b)):
      try:
        got.append([pos.get(int(v), 10 ** 6) for v in np.asarray(next(it)['x']).tolist()])
      except StopIteration:
        got.append(None)
  return got_a == want[:k] and got_b == want[:k]


K = 12     # batches looked at by the secondary passes


def _eqb(a, b):
  a, b = np.asarray(a), np.asarray(b)
  if a.dtype != b.dtype or a.shape != b.shape:
    return False
  return bool(np.array_equal(a, b)) if a.dtype == object else np.ascontiguousarray(a).tobytes() == np.ascontiguousarray(b).tobytes()


def _first(view, case, k=K):
  pos = {rid: j for j, rid in enumerate(_ids(case))}
  return [[pos.get(int(v), 10 ** 6) for v in np.asarray(b['x']).tolist()] for b in itertools.islice(iter(view), k)]


def _other_case(case):
  """Another client / other hyper-parameters: one more row, another batch size and seed."""
  return {**case, 'n': case['n'] + 1, 'bs': case['bs'] + 1, 'seed': (case['seed'] + 7) % (1 << 32), 'skip': False,
          'epochs': None, 'steps': None, 'pslice': None}


XPROC_CONFIGS = [[5, 2, 3, 0], [5, 7, 3, 0], [7, 3, 2, 12345], [12, 25, None, (1 << 32) - 1], [3, 1, 4, 7], [9, 4, 2, 2 ** 20]]
_XPROC_SCRIPT = r'''
import json, sys
import numpy as np
import fedjax
out = []
for n, bs, e, seed in json.loads(sys.argv[1]):
  ds = fedjax.ClientDataset({'x': np.arange(n, dtype=np.int32)})
  v = ds.shuffle_repeat_batch(batch_size=bs, num_epochs=e, num_steps=None if e is not None else 4, seed=seed)
  out.append([[int(i) for i in b['x'].tolist()] for b in v])
print('XPROC' + json.dumps(out))
'''
_xproc = []


def warmup():
  """Starts two fresh interpreter processes with different PYTHONHASHSEED early; their seeded streams are
  collected by the `xproc` case at the end of the run."""
  import json
  import os
  import subprocess
  import sys
  del _xproc[:]
  for hs in ('1', '4242'):
    env = dict(os.environ, PYTHONHASHSEED=hs)
    _xproc.append(subprocess.Popen([sys.executable, '-c', _XPROC_SCRIPT, json.dumps(XPROC_CONFIGS)], env=env,
                                   stdout=subprocess.PIPE, stderr=subprocess.DEVNULL, text=True))


def _run_xproc(case):
  import json
  import fedjax
  here = []
  for n, bs, e, seed in XPROC_CONFIGS:
    ds = fedjax.ClientDataset({'x': np.arange(n, dtype=np.int32)})
    v = ds.shuffle_repeat_batch(batch_size=bs, num_epochs=e, num_steps=None if e is not None else 4, seed=seed)
    here.append([[int(i) for i in b['x'].tolist()] for b in v])
  if not _xproc:
    warmup()
  there = []
  for p in _xproc:
    try:
      o, _ = p.communicate(timeout=300)
      line = [l for l in o.split('\n') if l.startswith('XPROC')]
      there.append(json.loads(line[0][5:]) if line else None)
    except Exception:      # pylint: disable=broad-except
      p.kill()
      there.append(None)
  del _xproc[:]
  return {'same': [t == here for t in there], 'ran': [t is not None for t in there]}


def _exact_count(n, bs, e, drop):
  return (n * e) // bs if drop else -((-n * e) // bs)


def _run_sweep(case):
  """Counts for one dataset size: the number of steps every view computed (the view's `_num_steps`,
  the only len-like observation there is; stated use of a private attribute), cross-checked by
  counted iteration wherever the count is at most 6; counted iteration for everything if the
  attribute is gone."""
  import fedjax
  n, bshi, ehi = case['sweep']
  ds = fedjax.ClientDataset({'x': np.arange(n, dtype=np.int32)})
  counts, bad = [], None
  for bs in range(1, bshi + 1):
    for e in range(1, ehi + 1):
      for drop in (False, True):
        view = ds.shuffle_repeat_batch(batch_size=bs, num_epochs=e, drop_remainder=drop, seed=0, skip_shuffle=True)
        k = getattr(view, '_num_steps', None)
        if k is None or not float(k).is_integer():
          k = sum(1 for _ in itertools.islice(iter(view), 100000))
        elif k <= 6:
          it = sum(1 for _ in itertools.islice(iter(view), 50))
          if it != k and bad is None:
            bad = [bs, e, drop, int(k), it]
        counts.append(int(k))
  return {'counts': counts, 'attr_vs_iteration': bad}


def _sweep_single(n, bs, e, drop):
  return {'n': n, 'bs': bs, 'epochs': e, 'steps': None, 'drop': drop, 'skip': True, 'seed': 0, 'kw': False, 'form': 1}


def _oracle_sweep(case, obs):
  n, bshi, ehi = case['sweep']
  out, j = [], 0
  for bs in range(1, bshi + 1):
    for e in range(1, ehi + 1):
      for drop in (False, True):
        want = _exact_count(n, bs, e, drop)
        if j >= len(obs['counts']) or obs['counts'][j] != want:
          got = obs['counts'][j] if j < len(obs['counts']) else None
          return [('num-batches', f'N={n} batch_size={bs} num_epochs={e} drop_remainder={drop}: {got} batches, documented count is {want}')]
        j += 1
  if obs['attr_vs_iteration']:
    bs, e, drop, k, it = obs['attr_vs_iteration']
    out.append(('num-batches', f'N={n} batch_size={bs} num_epochs={e} drop_remainder={drop}: the view computed {k} steps but yields {it} batches'))
  return out


def _abandoned_ok(case, b1):
  """Error recovery / abandoned passes (round 6): a FRESH view whose first use is abandoned (peek, break after
  1 / k batches, generator close, an exception of the preprocessor caught by the caller, two abandoned passes,
  abandon then two interleaved iterators) must afterwards reproduce the undisturbed sequential pass b1."""
  from harness import c03
  ok = True
  for j in range(2):
    how = c03.ABANDON[(case.get('deliv', 0) + 4 * j + case['bs']) % len(c03.ABANDON)]
    flaky = c03._Flaky(1 if how == 'raise-on-call-1' else 2) if how.startswith('raise') else None
    view = _view(case, None, flaky)
    c03._abandon(view, how, max(min(len(b1), K) // 2, 1))
    if flaky:
      flaky.j = -1            # disarmed: it raised (or the pass was too short to reach its j-th call)
    if how == 'abandon-then-interleave':
      ok &= _interleaved(view, case, b1)
    got, fok = _take(view, case)
    ok &= got == b1 and fok
  return bool(ok)


def run(case):
  if 'sweep' in case:
    return _run_sweep(case)
  if 'xproc' in case:
    return _run_xproc(case)
  info = {}
  with _Recorder() as rec:
    view = _view(case, info)           # constructed and first iterated under the recorder
    b1, ok1 = _take(view, case)
    rec.active = False
  ex, ds = info['ex'], info['ds']
  snap = {k: v.copy() for k, v in ex.items()}
  ids = {k: id(v) for k, v in ex.items()}
  raw = list(itertools.islice(iter(view), 3))                      # kept by the caller, not copied
  raw_snap = [{k: np.array(v, copy=True) for k, v in b.items()} for b in raw]
  np.random.seed(len(b1) + 17)         # the global numpy stream must be irrelevant: perturb it between passes
  b2, ok2 = _take(view, case)          # same view, same seed: repeated iteration must be identical
  np.random.rand(3)
  b3, ok3 = _take(_view(case), case)   # a fresh view built and iterated with the unpatched numpy
  np.random.shuffle(np.arange(5))
  inter = _interleaved(view, case, b1) and _interleaved(_view(case), case, b1)
  want = b1[:K]
  kk = len(want)          # secondary passes look at the first kk batches (the full passes b2 / b3 see all)
  # -- two live iterators over DIFFERENT views (another client, another seed), advanced alternately
  oc = _other_case(case)
  want_o = _first(_view(oc), oc, max(kk, 1))
  pos, pos_o = ({rid: j for j, rid in enumerate(_ids(c))} for c in (case, oc))
  ia, ib = iter(view), iter(_view(oc))
  ga, gb = [], []
  for _ in range(max(len(want), 1)):
    for it, g, p in ((ia, ga, pos), (ib, gb, pos_o)):
      for b in itertools.islice(it, 1):
        g.append([p.get(int(v), 10 ** 6) for v in np.asarray(b['x']).tolist()])
  inter_views = ga == want and gb == want_o[:len(gb)] and len(gb) == min(len(want_o), max(len(want), 1))
  # -- one pass consumed in pieces, with a bare iter() and a step of another view in between
  it = iter(view)
  first = [b for b in itertools.islice(it, min(2, kk))]
  iter(view)
  next(iter(_view(oc)), None)
  rest = list(itertools.islice(it, max(kk - 2, 0)))
  pieces = [[pos.get(int(v), 10 ** 6) for v in np.asarray(b['x']).tolist()] for b in first + rest] == want
  # -- hidden state: other views with other hyper-parameters from the SAME dataset (and the same hparams
  #    object handed to a second view), then the first-built view once more
  hidden = True
  for o in ({**case, 'bs': case['bs'] + 1, 'seed': (case['seed'] + 3) % (1 << 32), 'skip': not case['skip'], 'form': 1},
            {**case, 'epochs': None, 'steps': 3, 'drop': not case['drop'], 'form': 1}):
    kwo = dict(batch_size=o['bs'], num_epochs=o['epochs'], num_steps=o['steps'], drop_remainder=o['drop'],
               seed=o['seed'], skip_shuffle=o['skip'])
    list(itertools.islice(iter(ds.shuffle_repeat_batch(**kwo)), 5))
    hidden &= _first(view, case, kk) == want
  for h, _ in info['hps'][-1:]:
    if _form(case) != 2:
      hidden &= _first(ds.shuffle_repeat_batch(h), case, kk) == want
  hidden &= _first(view, case, kk) == want
  # -- caller-owned data
  mutated = any(not (_eqb(ex[k], v)) for k, v in snap.items())
  container = set(ex) == set(snap) and all(id(ex[k]) == ids[k] for k in ex) and all(a == b for a, b in info['hps'])
  if not case.get('pslice'):
    container &= ds.raw_examples is ex
  kept = len(raw) == len(raw_snap) and all(
      set(a) == set(b) and all(_eqb(a[k], b[k]) for k in a) for a, b in zip(raw, raw_snap))
  return {'batches': b1, 'again': b1 == b2 == b3, 'features_ok': bool(ok1 and ok2 and ok3), 'shuffles': rec.shuffles,
          'interleaved': bool(inter), 'interleaved_views': bool(inter_views), 'pieces': bool(pieces),
          'hidden': bool(hidden), 'mutated': bool(mutated), 'container': bool(container), 'kept': bool(kept),
          'abandoned': _abandoned_ok(case, b1)}


def hang_key(case):
  return 'hang.empty-dataset' if case.get('n') == 0 else 'hang'


def _expected_count(case):
  n, bs, e, s = case['n'], case['bs'], case['epochs'], case['steps']
  if e is None and s is None:
    return None
  if e is None:
    return s
  k = (n * e) // bs if case['drop'] else -((-n * e) // bs)
  return k if s is None else min(s, k)


def _windows(case, obs):
  n = case['n']
  stream = [i for b in obs['batches'] for i in b]
  return stream, [stream[i:i + n] for i in range(0, len(stream), n)] if n else []


def oracle(case, obs):
  if 'sweep' in case:
    return _oracle_sweep(case, obs)
  if 'xproc' in case:
    out = []
    if not all(obs['ran']):
      out.append(('cross-process-run', 'a child interpreter did not produce its streams'))
    elif not all(obs['same']):
      out.append(('cross-process-determinism', 'the same seed gives different batches in another interpreter process (other PYTHONHASHSEED)'))
    return out
  out = []
  n, bs = case['n'], case['bs']
  batches = obs['batches']
  exp = _expected_count(case)
  if n == 0:
    if batches:
      out.append(('empty-dataset-batches', 'an empty dataset produced batches'))
    return out
  if any(len(b) != bs for b in batches):
    out.append(('batch-size', 'a shuffled batch does not have exactly batch_size rows'))
  if exp is not None and exp <= HUGE and len(batches) != max(exp, 0):
    out.append(('num-batches', f'{len(batches)} batches, documented count is {exp}'))
  if exp is not None and exp > HUGE and len(batches) != PREFIX:
    out.append(('num-batches', f'stream ended after {len(batches)} batches, documented count is {exp}'))
  if exp is None and len(batches) != PREFIX:
    out.append(('infinite-stream-ended', 'stream with num_epochs=num_steps=None ended'))
  stream, wins = _windows(case, obs)
  full = [w for w in wins if len(w) == n]
  if any(sorted(w) != list(range(n)) for w in full):
    out.append(('window-not-permutation', 'a complete window of N draws is not a permutation of the dataset'))
  if any(len(set(w)) != len(w) or not set(w) <= set(range(n)) for w in wins):
    out.append(('window-repeat', 'an example is repeated inside a window / index out of range'))
  k = -(-n // bs)
  if len(batches) >= k and set(i for b in batches[:k] for i in b) != set(range(n)):
    out.append(('first-batches-cover', 'the first ceil(N/bs) batches do not cover the dataset'))
  counts = [0] * n
  for i in stream:
    if 0 <= i < n:
      counts[i] += 1
      if max(counts) - min(counts) > 1:
        out.append(('usage-balance', 'usage counts differ by more than one at some prefix'))
        break
  started = -(-len(stream) // n)
  if case['skip'] and obs['shuffles']:
    out.append(('skip-shuffle-shuffled', 'skip_shuffle=True but the buffer was shuffled'))
  if not case['skip']:
    # a generator suspended after its last batch may have reshuffled at most once more
    if not (started <= len(obs['shuffles']) <= started + 1):
      out.append(('reshuffle-count', f'{len(obs["shuffles"])} reshuffles for {started} windows started: windows are not re-shuffled once each'))
    if any(sorted(w) != list(range(n)) for w in obs['shuffles']):
      out.append(('shuffle-not-permutation', 'rng.shuffle result is not a permutation (numpy contract)'))
  if case['skip'] and stream != [p % n for p in range(len(stream))]:
    out.append(('skip-shuffle-cyclic', 'skip_shuffle stream is not the cyclic original order'))
  if not obs['again']:
    out.append(('seed-determinism', 'same seed, repeated iteration gave different batches'))
  if not obs.get('interleaved', True):
    out.append(('interleaved-iterators', 'two live iterators over the same seeded view, advanced alternately, '
                'do not both reproduce the sequential pass'))
  for flag, key, what in (
      ('interleaved_views', 'interleaved-views', 'iterators over two different views (another client, another seed) advanced alternately do not reproduce their sequential passes'),
      ('pieces', 'pieces', 'a pass consumed in pieces (islice, a bare iter() and another view in between) differs from the sequential pass'),
      ('hidden', 'hidden-state', 'after other views with other hyper-parameters were built from the same dataset / hparams object and iterated, the first view no longer reproduces its batches'),
      ('container', 'container', 'the raw_examples mapping (keys / array identities) or an hparams object handed in was changed'),
      ('kept', 'kept-results', 'batches kept by the caller changed after later iterations'),
      ('abandoned', 'abandoned-pass', 'after a first use that was abandoned early (peek / break / close / a caught exception of the '
       'preprocessor / twice / followed by interleaving) a complete pass over the same view differs from the undisturbed pass')):
    if not obs.get(flag, True):
      out.append((key, what))
  if obs.get('mutated', False):
    out.append(('mutated', 'iteration mutated the dataset arrays'))
  if not obs['features_ok']:
    out.append(('features', 'a batch column does not follow its row index / preprocessor not applied'))
  if not case['skip'] and n >= 12 and any(a == b for a, b in zip(full, full[1:])):
    out.append(('window-not-reshuffled', 'two consecutive complete windows of N draws are the same permutation: '
                'successive windows are not re-shuffled'))
  if not case['skip'] and n >= 12:   # 1/12! < 3e-9 per case
    if full and full[0] == list(range(n)):
      out.append(('trivial-order', 'first window is the identity order'))
    if len(full) >= 3 and all(w == full[0] for w in full):
      out.append(('no-reshuffle', 'successive windows are identical (not re-shuffled)'))
  return out


def encode(case, obs):
  if 'xproc' in case:
    return None
  if 'sweep' in case:
    n, bshi, ehi = case['sweep']
    return f'(CCount {n}%Z {bshi}%Z {ehi}%Z, OCount ({fw.zlist(obs["counts"])})%Z)'
  n = case['n']
  stream, wins = _windows(case, obs)
  exp = _expected_count(case)
  if (n and (len(stream) > 400 or n > 60)) or (exp is not None and exp > HUGE):
    return None   # keep literals / step counts small; such cases are judged by the oracle only
  # the oracle handed to the model is the recorded sequence of rng.shuffle results
  windows = fw.clist([fw.natlist(w) for w in obs['shuffles']])
  obs_t = fw.clist([fw.natlist(b) for b in obs['batches']])
  return (f'(CSingle (mkC04 {n}%nat {case["bs"]}%Z {fw.optz(case["epochs"])}%Z {fw.optz(case["steps"])}%Z '
          f'{fw.cbool(case["drop"])} {fw.cbool(case["skip"])} {windows}), OSingle ({obs_t} : C04_obs))')


def nontrivial(case, obs):
  if 'sweep' in case or 'xproc' in case:
    return True
  return case['n'] >= 1 and len(obs['batches']) >= 1


def describe(case, obs):
  if 'xproc' in case:
    return {'kind': 'cross-process'}
  if 'sweep' in case:
    return {'kind': 'count-sweep', 'sweep_combinations': len(obs['counts'])}
  n, bs = case['n'], case['bs']
  return {'N_vs_bs': 'empty' if n == 0 else 'lt' if n < bs else 'eq' if n == bs else 'multiple' if n % bs == 0 else 'gt',
          'epochs': case['epochs'], 'steps': case['steps'], 'skip': case['skip'], 'drop': case['drop'],
          'call_form': ['hparams', 'kwargs', 'override', 'view-class'][_form(case)], 'layout': _lay(case),
          'passes_per_batch': min(bs // max(n, 1), 5),
          'theorem_hypotheses': ('N = 0 (outside: judged by empty-dataset-batches)' if n == 0 else
                                 'oracle not a permutation' if any(sorted(w) != list(range(n)) for w in obs['shuffles']) else
                                 'hold (N >= 1, bs >= 1, every recorded shuffle a permutation)'),
          'count_magnitude': 'huge' if (_expected_count(case) or 0) > HUGE else 'small',
          'scalars': ['int', 'np.int64', '0-d array'][case.get('deliv', 0) % 3],
          'seed': 'zero' if case['seed'] == 0 else 'max' if case['seed'] == (1 << 32) - 1 else 'other', 'sliced': bool(case.get('pslice')),
          'windows': min(len(obs['batches']) * bs // max(n, 1), 5)}


def shrink(case):
  if 'xproc' in case:
    return
  if 'sweep' in case:      # narrow the ranges, then hand over to an ordinary single case
    n, bshi, ehi = case['sweep']
    for cand in ([n, bshi // 2, ehi], [n, bshi, ehi // 2], [n, bshi - 1, ehi], [n, bshi, ehi - 1]):
      if cand[1] >= 1 and cand[2] >= 1 and cand != case['sweep']:
        yield {'sweep': cand}
    for drop in (False, True):       # the last combination of the narrowed sweep as an ordinary (iterated) case
      yield _sweep_single(n, bshi, ehi, drop)
    return
  for k, lo in (('n', 0), ('bs', 1)):
    v = case[k]
    for c in sorted({lo, v // 2, v - 1}):
      if lo <= c < v:
        cand = {**case, k: c}
        if k == 'n' and case.get('pslice'):
          cand['pslice'] = [c + 2, None, c, None]
        yield cand
  for k in ('epochs', 'steps'):
    v = case[k]
    if v is not None and v > 0:
      yield {**case, k: v - 1}
      yield {**case, k: 1}
  if _form(case) != 1:
    yield {**case, 'form': 1}
  if case.get('pslice'):
    yield {k: v for k, v in case.items() if k != 'pslice'}
