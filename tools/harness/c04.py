"""C04 harness: ClientDataset.shuffle_repeat_batch against the mirrored iterator
(`batches`, proved equal to the translated generator `srb_iter` in Proofs/C04_IterProofs.v)."""
import itertools
import numpy as np
from lib import fw

PROP = 'C04'
COQ_HEADER = 'From FV Require Import Model.C04_Model.'
COQ_AGREE = 'C04_agree'
COQ_MODEL_TARGETS = ['Model/C04_Model']
RULE = ('grid N 0..12 x bs 1..2N+3 x num_epochs {None,1,2,3} x num_steps {None,0,1,2,5,9} x drop_remainder x '
        'skip_shuffle, seeds from VERIF_SEED, plus random larger (N, bs); every 9th grid case draws from a dataset obtained by slicing a larger parent; three call forms (hparams object, keywords, hparams '
        'object overridden by keywords incl. overrides to None); every view iterated twice + a fresh view + two interleaved '
        'live iterators; infinite streams observed on a 7-batch prefix; '
        'non-trivial = N >= 1 and at least one batch drawn; distinct = distinct case JSON')
TRUSTED = ['numpy RandomState.shuffle returns a permutation of its argument and is a function of (seed, call history) '
           '(asserted on every recovered window)']
ASSUMPTIONS = ['the k-th rng.shuffle result is recorded through a RandomState subclass (the `np` name of client_datasets is swapped for a proxy in the harness process) and fed to the model as its oracle',
               'statistical side-checks (reshuffled windows differ, non-identity order) only for N >= 12: false-alarm probability < 1e-6 per run',
               'C04_iterator_translated: rng.shuffle keeps the length of its argument (in-place shuffle)']
CASE_TIMEOUT = 20   # generous: the machine is shared; a real hang (N = 0 without the early return) costs 3 x 20 s
PREFIX = 7


def generate(tier, rng):
  if tier == 'quick':
    ns, epochs, steps = range(0, 9), [None, 1, 2, 3], [None, 0, 1, 2, 5, 9]
    nrand = 60
  else:
    ns, epochs, steps = range(0, 13), [None, 1, 2, 3, 4], [None, 0, 1, 2, 5, 9, 17]
    nrand = 400
  i = 0
  for n in ns:
    for bs in range(1, 2 * n + 4):
      for e in epochs:
        for s in steps:
          i += 1
          yield {'n': n, 'bs': bs, 'epochs': e, 'steps': s, 'drop': bool(i % 2), 'skip': i % 5 == 0,
                 'seed': rng.randrange(1 << 30), 'kw': i % 3 == 0, 'form': [1, 0, 2][i % 3],
                 **({'pslice': _PSLICES[(i // 9) % len(_PSLICES)](n)} if i % 9 == 0 else {})}
          if tier != 'quick':
            yield {'n': n, 'bs': bs, 'epochs': e, 'steps': s, 'drop': not bool(i % 2), 'skip': i % 7 == 0,
                   'seed': rng.randrange(1 << 30), 'kw': i % 3 == 1, 'form': [2, 1, 0][i % 3]}
  for _ in range(nrand):
    n = rng.choice([rng.randrange(1, 40), rng.randrange(10, 200)])
    bs = rng.choice([1, 2, 3, rng.randrange(1, 2 * n + 2), n, n + 1, 2 * n])
    yield {'n': n, 'bs': bs, 'epochs': rng.choice([None, 1, 2, 3, 5]), 'steps': rng.choice([None, 0, 1, 3, 8, 20]),
           'drop': rng.random() < 0.5, 'skip': rng.random() < 0.2, 'seed': rng.randrange(1 << 30), 'kw': False,
           'form': rng.randrange(3)}


# the dataset is parent[a:b:c] for a parent of P rows: [P, a, b, c] selecting exactly n rows
_PSLICES = [lambda n: [n + 2, None, n, None], lambda n: [n + 3, 2, n + 2, None], lambda n: [2 * n, None, None, 2],
            lambda n: [n, None, None, -1], lambda n: [n + 1, -n, None, None] if n else [1, 1, None, None]]


def _ids(case):
  """Row ids (column x) of the dataset under test, by position; computed on a python range."""
  if case.get('pslice'):
    p, a, b, c = case['pslice']
    return list(range(p))[slice(a, b, c)]
  return list(range(case['n']))


def _form(case):
  """0: hparams object, 1: keywords only, 2: hparams object overridden by keywords."""
  return case['form'] if 'form' in case else (1 if case.get('kw') else 0)


def _view(case):
  import fedjax
  n = case['pslice'][0] if case.get('pslice') else case['n']
  ds = fedjax.ClientDataset({'x': np.arange(n, dtype=np.int32), 'v': np.arange(n, dtype=np.float32) * 0.5},
                            fedjax.BatchPreprocessor([lambda e: {**e, 'y': e['x'] + 1}]))
  if case.get('pslice'):
    _, a, b, c = case['pslice']
    ds = ds[slice(a, b, c)]
  kw = dict(batch_size=case['bs'], num_epochs=case['epochs'], num_steps=case['steps'],
            drop_remainder=case['drop'], seed=case['seed'], skip_shuffle=case['skip'])
  form = _form(case)
  if form == 1:
    return ds.shuffle_repeat_batch(**kw)
  if form == 2:
    # a base hparams object that differs from the case in EVERY field (None where the case
    # has a number and a number where the case has None), overridden by keywords
    e, st = case['epochs'], case['steps']
    base = fedjax.ShuffleRepeatBatchHParams(
        batch_size=case['bs'] + 1, num_epochs=1 if e is None else (None if e % 2 else e + 1),
        num_steps=2 if st is None else (None if st % 2 else st + 1), drop_remainder=not case['drop'],
        seed=case['seed'] + 1, skip_shuffle=not case['skip'])
    return ds.shuffle_repeat_batch(base, **kw)
  return ds.shuffle_repeat_batch(fedjax.ShuffleRepeatBatchHParams(**kw))


class _Recorder:
  """Swaps the `np` name inside fedjax.core.client_datasets for a proxy whose
  random.RandomState records every shuffle() result (public seam: the view builds
  its own RandomState from the seed, so the calls cannot be observed otherwise).
  The proxy is in place while the view is CONSTRUCTED and while it is iterated, so
  the recording does not depend on where the implementation creates its RandomState;
  module-level np.random.shuffle / default_rng().shuffle are recorded as well.  Only
  calls made while `active` are recorded."""

  def __init__(self):
    self.shuffles = []
    self.active = True

  def __enter__(self):
    from fedjax.core import client_datasets as cd
    rec = self

    def note(x):
      if rec.active:
        rec.shuffles.append([int(v) for v in x])

    class RS(np.random.RandomState):
      def shuffle(self, x):
        super().shuffle(x)
        note(x)

    class GenProxy:
      def __init__(self, g):
        self._g = g

      def shuffle(self, x, *a, **k):
        self._g.shuffle(x, *a, **k)
        note(x)

      def __getattr__(self, k):
        return getattr(self._g, k)

    class RandomProxy:
      RandomState = RS

      @staticmethod
      def shuffle(x):
        np.random.shuffle(x)
        note(x)

      @staticmethod
      def default_rng(*a, **k):
        return GenProxy(np.random.default_rng(*a, **k))

      def __getattr__(self, k):
        return getattr(np.random, k)

    class NPProxy:
      random = RandomProxy()

      def __getattr__(self, k):
        return getattr(np, k)

    self.cd, self.old = cd, cd.np
    cd.np = NPProxy()
    return self

  def __exit__(self, *a):
    self.active = False
    self.cd.np = self.old


def _take(view, case):
  it = iter(view)
  if case['epochs'] is None and case['steps'] is None:
    it = itertools.islice(it, PREFIX)
  else:
    it = itertools.islice(it, 5000)   # finite by the documented count; the cap only guards the harness
  out, ok = [], True
  pos = {rid: k for k, rid in enumerate(_ids(case))}
  for b in it:
    x = np.asarray(b['x'])
    ok &= bool(np.array_equal(np.asarray(b['y']), x + 1) and np.array_equal(np.asarray(b['v']), x.astype(np.float32) * 0.5)
               and x.dtype == np.int32)
    ok &= all(int(v) in pos for v in x.tolist())
    out.append([pos.get(int(v), 10 ** 6) for v in x.tolist()])    # positions; 10^6 = not a row of this dataset
  return out, ok


def _interleaved(view, case, want):
  """Two live iterators over the same view, advanced alternately: each must reproduce
  the sequential pass (a fixed seed gives identical batches on EVERY iteration)."""
  k = min(len(want), 12)
  pos = {rid: j for j, rid in enumerate(_ids(case))}
  a, b = iter(view), iter(view)
  got_a, got_b = [], []
  for _ in range(k):
    for it, got in ((a, got_a), (b, got_b)):
      try:
        got.append([pos.get(int(v), 10 ** 6) for v in np.asarray(next(it)['x']).tolist()])
      except StopIteration:
        got.append(None)
  return got_a == want[:k] and got_b == want[:k]


def run(case):
  with _Recorder() as rec:
    view = _view(case)                 # constructed and first iterated under the recorder
    b1, ok1 = _take(view, case)
    rec.active = False
  b2, ok2 = _take(view, case)          # same view, same seed: repeated iteration must be identical
  b3, ok3 = _take(_view(case), case)   # a fresh view built and iterated with the unpatched numpy
  inter = _interleaved(view, case, b1) and _interleaved(_view(case), case, b1)
  return {'batches': b1, 'again': b1 == b2 == b3, 'features_ok': bool(ok1 and ok2 and ok3), 'shuffles': rec.shuffles,
          'interleaved': bool(inter)}


def hang_key(case):
  return 'hang.empty-dataset' if case['n'] == 0 else 'hang'


def _expected_count(case):
  n, bs, e, s = case['n'], case['bs'], case['epochs'], case['steps']
  if e is None and s is None:
    return None
  if e is None:
    return s
  k = (n * e) // bs if case['drop'] else -((-n * e) // bs)
  return k if s is None else min(s, k)


def _windows(case, obs):
  n = case['n']
  stream = [i for b in obs['batches'] for i in b]
  return stream, [stream[i:i + n] for i in range(0, len(stream), n)] if n else []


def oracle(case, obs):
  out = []
  n, bs = case['n'], case['bs']
  batches = obs['batches']
  exp = _expected_count(case)
  if n == 0:
    if batches:
      out.append(('empty-dataset-batches', 'an empty dataset produced batches'))
    return out
  if any(len(b) != bs for b in batches):
    out.append(('batch-size', 'a shuffled batch does not have exactly batch_size rows'))
  if exp is not None and len(batches) != max(exp, 0):
    out.append(('num-batches', f'{len(batches)} batches, documented count is {exp}'))
  if exp is None and len(batches) != PREFIX:
    out.append(('infinite-stream-ended', 'stream with num_epochs=num_steps=None ended'))
  stream, wins = _windows(case, obs)
  full = [w for w in wins if len(w) == n]
  if any(sorted(w) != list(range(n)) for w in full):
    out.append(('window-not-permutation', 'a complete window of N draws is not a permutation of the dataset'))
  if any(len(set(w)) != len(w) or not set(w) <= set(range(n)) for w in wins):
    out.append(('window-repeat', 'an example is repeated inside a window / index out of range'))
  k = -(-n // bs)
  if len(batches) >= k and set(i for b in batches[:k] for i in b) != set(range(n)):
    out.append(('first-batches-cover', 'the first ceil(N/bs) batches do not cover the dataset'))
  counts = [0] * n
  for i in stream:
    if 0 <= i < n:
      counts[i] += 1
      if max(counts) - min(counts) > 1:
        out.append(('usage-balance', 'usage counts differ by more than one at some prefix'))
        break
  started = -(-len(stream) // n)
  if case['skip'] and obs['shuffles']:
    out.append(('skip-shuffle-shuffled', 'skip_shuffle=True but the buffer was shuffled'))
  if not case['skip']:
    # a generator suspended after its last batch may have reshuffled at most once more
    if not (started <= len(obs['shuffles']) <= started + 1):
      out.append(('reshuffle-count', f'{len(obs["shuffles"])} reshuffles for {started} windows started: windows are not re-shuffled once each'))
    if any(sorted(w) != list(range(n)) for w in obs['shuffles']):
      out.append(('shuffle-not-permutation', 'rng.shuffle result is not a permutation (numpy contract)'))
  if case['skip'] and stream != [p % n for p in range(len(stream))]:
    out.append(('skip-shuffle-cyclic', 'skip_shuffle stream is not the cyclic original order'))
  if not obs['again']:
    out.append(('seed-determinism', 'same seed, repeated iteration gave different batches'))
  if not obs.get('interleaved', True):
    out.append(('interleaved-iterators', 'two live iterators over the same seeded view, advanced alternately, '
                'do not both reproduce the sequential pass'))
  if not obs['features_ok']:
    out.append(('features', 'a batch column does not follow its row index / preprocessor not applied'))
  if not case['skip'] and n >= 12:   # 1/12! < 3e-9 per case
    if full and full[0] == list(range(n)):
      out.append(('trivial-order', 'first window is the identity order'))
    if len(full) >= 3 and all(w == full[0] for w in full):
      out.append(('no-reshuffle', 'successive windows are identical (not re-shuffled)'))
  return out


def encode(case, obs):
  n = case['n']
  stream, wins = _windows(case, obs)
  if n and (len(stream) > 400 or n > 60):
    return None   # keep literals small; large cases are judged by the oracle only
  # the oracle handed to the model is the recorded sequence of rng.shuffle results
  windows = fw.clist([fw.natlist(w) for w in obs['shuffles']])
  obs_t = fw.clist([fw.natlist(b) for b in obs['batches']])
  return (f'(mkC04 {n}%nat {case["bs"]}%Z {fw.optz(case["epochs"])}%Z {fw.optz(case["steps"])}%Z '
          f'{fw.cbool(case["drop"])} {fw.cbool(case["skip"])} {windows}, ({obs_t} : C04_obs))')


def nontrivial(case, obs):
  return case['n'] >= 1 and len(obs['batches']) >= 1


def describe(case, obs):
  n, bs = case['n'], case['bs']
  return {'N_vs_bs': 'empty' if n == 0 else 'lt' if n < bs else 'eq' if n == bs else 'multiple' if n % bs == 0 else 'gt',
          'epochs': case['epochs'], 'steps': case['steps'], 'skip': case['skip'], 'drop': case['drop'],
          'call_form': ['hparams', 'kwargs', 'override'][_form(case)], 'sliced': bool(case.get('pslice')),
          'windows': min(len(obs['batches']) * bs // max(n, 1), 5)}


def shrink(case):
  for k, lo in (('n', 0), ('bs', 1)):
    v = case[k]
    for c in sorted({lo, v // 2, v - 1}):
      if lo <= c < v:
        cand = {**case, k: c}
        if k == 'n' and case.get('pslice'):
          cand['pslice'] = [c + 2, None, c, None]
        yield cand
  for k in ('epochs', 'steps'):
    v = case[k]
    if v is not None and v > 0:
      yield {**case, k: v - 1}
      yield {**case, k: 1}
  if _form(case) != 1:
    yield {**case, 'form': 1}
  if case.get('pslice'):
    yield {k: v for k, v in case.items() if k != 'pslice'}
