"""C17 harness: algorithm-specific invariants along 5-round histories of the REAL
agnostic_federated_averaging, APFL, hyp_cluster, mime_lite and of
optimizers.ignore_grads_haiku.

Populations use clients with 0, 1, 2 or 4 examples and batch size 4, so every
training batch holds each example of its client equally often and a training
step is a full-batch gradient step (order-independent): the oracle recomputes
client training, losses and aggregation in float64 NumPy from the OBSERVED input
state of each round, independently of fedjax's helpers.  Exact things (window
contents, key sets, untouched clusters, ignored leaves) are compared exactly;
real-valued things with tolerance, again inside Coq against the model
(coq/Model/C17_Model.v) on the exact rational value of every float."""
import math
from fractions import Fraction

import numpy as np

from lib import fw, tiny

PROP = 'C17'
COQ_HEADER = 'From FV Require Import Model.C17_Model.'
COQ_AGREE = 'C17_agree'
COQ_MODEL_TARGETS = ['Model/C17_Model']
RULE = ('one case = (algorithm, hyper-parameters from a grid, population, 5-round participation history) or an '
        'ignore_grads optimizer run of 3 steps; non-trivial = some round starves a domain / leaves a cluster without '
        'examples / clips a delta / clips a coefficient, or a non-empty set of ignored leaves; distinct = distinct case JSON')
TRUSTED = ['float64 NumPy reference of full-batch linear-regression training (exercised against the implementation with tolerance 1e-4)',
           'exp enters the model only as the supplied positive factors e_i = exp(lr * mean domain loss) computed in float64']
ASSUMPTIONS = ['finite inputs; exp(lr*loss) does not overflow', 'window size W >= 1', 'initial APFL coefficient in [0,1]',
               'clip norm >= 0',
               'C17_ignore_grads: the base optimizer returns a tree with the keys of its input (section hypothesis)']
PARTIAL = []
CASE_TIMEOUT = 240
TOL = 1e-4
BS = 4

KINDS = ['agnostic', 'apfl', 'hyp_cluster', 'mime_lite', 'ignore']


# ---- generation ---------------------------------------------------------------------

def _pop(rng, nd, size):
  out = []
  for i in range(size):
    n = rng.choice([0, 1, 2, 4, 4, 4])
    cnt = [0] * nd
    for _ in range(n):
      cnt[rng.randrange(nd)] += 1
    if i < nd:            # client i holds only domain i: lets a history starve the other domains
      cnt = [0] * nd
      cnt[i] = 4
    out.append({'s': rng.randrange(1, 50), 'cnt': cnt, 'g': rng.randrange(3)})
  return out


def _rounds(rng, size, n=5):
  """Cohorts in NO particular order (ids not sorted: jax flattens dicts in sorted-key order while Python iterates in
  insertion order, so a mis-association between a client and its losses / delta / state needs an unsorted cohort);
  the last round is a strictly descending one with >= 2 clients."""
  out = [rng.sample(range(size), rng.choice([1, 2, 2, 3])) for _ in range(n)]
  out[-1] = sorted(set(out[-1]) | set(rng.sample(range(size), 2)), reverse=True)
  return out


_DT = [['float32', 'float32', 'float32'], ['int32', 'float16', 'float32'], ['float32', 'bool', 'bfloat16'], ['float16', 'float32', 'int32']]


def generate(tier, rng):
  """The base cases, each additionally given an argument-delivery form (ids as bytes / str, client 0 with the empty id,
  the cohort as list / tuple), hyper-parameter scalars as float / NumPy scalar / 0-d array, an empty cohort in some
  histories, other for_each_client backends (thorough), and the direct entry points."""
  for n, case in enumerate(_generate_base(tier, rng)):
    k = case['kind']
    if k != 'ignore':
      case['ids'] = ['bytes', 'str', 'bytes0', 'str0', 'int0'][n % 5]
      case['ctuple'] = n % 2 == 1
      if n % 4 == 2:
        case['rounds'] = case['rounds'][:3] + [[]] + case['rounds'][4:]      # a round without any client
      if n % 4 == 1:      # the whole population at once, then a single client, then one that comes back
        allc = list(range(len(case['pop'])))
        case['rounds'] = [case['rounds'][0], allc[::2] + allc[1::2][::-1], [allc[-1]], [allc[0]]] + case['rounds'][4:]
      hp = case['hp']
      if k == 'agnostic':
        hp['scal'] = [None, 'np', 'jnp'][hp['W'] % 3]
        hp['iwform'] = [None, 'tuple', 'np'][hp['nd'] % 3]
      elif k == 'apfl':
        hp['scal'] = [None, 'np', 'jnp'][int(hp['coef'] * 2) % 3]
      elif k == 'mime_lite':
        hp['scal'] = [None, 'np', 'jnp'][int(hp['clip'] * 16) % 3]
      if tier != 'quick' and n % 7 in (3, 5):
        hp['backend'] = 'debug' if n % 7 == 3 else 'pmap'
    else:
      case['dtypes'] = _DT[n % 4] if case['hp']['base'] == 'sgd' or n % 2 else _DT[0]
      case['names_tuple'] = n % 2 == 1
      case['nested'] = n % 3 == 1
      case['rev'] = n % 4 >= 2
    yield case
  # agnostic with domain learning rate exactly 0 (weights must stay put) -- falsy but valid
  for W in [1, 2]:
    yield {'kind': 'agnostic', 'hp': {'W': W, 'dlr': 0.0, 'nd': 2, 'bs': BS, 'pbs': 4, 'sopt': 'sgd', 'epochs': 1, 'iw': [0.75, 0.25]},
           'pop': _pop(rng, 2, 5), 'rounds': _rounds(rng, 5), 'seed': rng.randrange(1000), 'ids': 'bytes', 'ctuple': False}
  # the functions next to the main path, called directly (eagerly, jitted by the library, and under disable_jit)
  for i in range({'quick': 12, 'thorough': 60, 'search': 60}[tier]):
    yield {'kind': 'direct', 'i': i, 'nd': 2 + i % 3, 'w': [rng.randrange(0, 9) for _ in range(4)],
           'loss': [rng.randrange(0, 17) / 4 for _ in range(4)], 'lr': rng.choice([0.0, 0.0625, 0.5, 2.0]),
           'd': [rng.randrange(-8, 9) / 4 for _ in range(5)],
           'bound': rng.choice([0.0, 0.25, 1.0, 3.0, 64.0]) if i % 2 == 0 else [0.0, 1e-30, 1e-7, 5e-7, 1e-6, 1.0, 1e6, 1e30, 3.4028234e38][(i // 2) % 9],
           'dscale': 1.0 if i % 2 == 0 else [1e-30, 1e-7, 1.0, 1e6, 1e18, 1e-7, 1.0, 1e6, 1e-30][(i // 2 + i // 18) % 9],
           'ulp': [0, 0, 0, 0, -1, 1, 2][i % 7],      # 2: bound == norm exactly; -1 / 1: one ulp below / above it
           'K': 1 + i % 3, 'pop': _pop(rng, 2, 4), 'nojit': i % 3 == 2, 'np': i % 2 == 1, 'seed': rng.randrange(1000)}
  # EXHAUSTIVE: every sequence of cohorts (all subsets, the empty one included) of 3 (quick) / 4 (thorough) clients over 3 rounds
  yield {'kind': 'apfl_grid', 'nclients': 3 if tier == 'quick' else 4, 'nrounds': 3, 'hp': {'coef': 0.5, 'clr': 0.125, 'bs': BS, 'epochs': 1, 'sopt': 'sgd'},
         'pop': [{'s': 3, 'cnt': [4, 0], 'g': 0}, {'s': 5, 'cnt': [0, 0], 'g': 1}, {'s': 8, 'cnt': [1, 1], 'g': 2}, {'s': 2, 'cnt': [0, 4], 'g': 1}],
         'seed': rng.randrange(1000)}
  if tier != 'search':
    yield from _flag_cases(tier, rng)
    # the same histories in another interpreter process (other PYTHONHASHSEED): the observations must be identical
    subs, seen = [], set()
    for case in _generate_base('quick', rng):
      k = (case['kind'], len(seen) % 2)
      if case['kind'] in ('agnostic', 'apfl', 'hyp_cluster', 'mime_lite') and case['kind'] not in {a for a, _ in seen}:
        seen.add(k)
        subs.append(dict(case, ids=['bytes', 'str'][len(subs) % 2], ctuple=False))
    yield {'kind': 'xproc', 'cases': subs, 'hashseeds': [1] if tier == 'quick' else [1, rng.randrange(2, 2 ** 31)]}


def _flag_cases(tier, rng):
  from lib import c10c17_flags as flagrun
  for flag, value in ([('jax_enable_x64', True)] if tier == 'quick' else flagrun.FLAGS_THOROUGH):
    yield {'kind': 'flags', 'flag': flag, 'value': value, 'seed': rng.randrange(1000),
           'names': ['agnostic', 'ignore', 'direct'] if tier == 'quick' else ['agnostic', 'apfl', 'hyp_cluster', 'mime_lite', 'ignore', 'direct']}


def _generate_base(tier, rng):
  reps = {'quick': 2, 'thorough': 6, 'search': 8}[tier]
  # agnostic: windows x domain learning rates; histories that starve a domain for a whole window
  for W in ([1, 2, 3] if tier == 'quick' else [1, 2, 3, 4]):
    for dlr in ([0.0625, 1.0] if tier == 'quick' else [0.0625, 0.25, 1.0, 2.0]):
      for nd in ([2, 3] if tier == 'quick' or W > 1 else [1, 2, 3, 4]):
        for rep in range(reps):
          pop = _pop(rng, nd, 5)
          rounds = _rounds(rng, 5)
          if rep == 0:      # domain 1 (and 2) see no example for W+1 rounds, then come back
            rounds = [[0]] * (W + 1) + [[0, 1], [1, 2] if nd >= 3 else [1, 3], [0, 2]]
          hp = {'W': W, 'dlr': dlr, 'nd': nd, 'bs': BS, 'pbs': 4, 'sopt': 'sgd', 'epochs': 1 + rep % 2}
          if rep >= 1 and nd == 2:    # non-uniform / boundary initial weights, an initial window that starves a domain
            hp['iw'] = [[0.75, 0.25], [1.0, 0.0], [0.5, 0.5]][rep % 3]
            hp['iwin'] = [[3.0, 0.0], [1.0, 1.0]][rep % 2]
          if rep >= 3 and rep % 4 == 3:
            hp['dalg'] = 'none'
          yield {'kind': 'agnostic', 'hp': hp, 'pop': pop, 'rounds': rounds, 'seed': rng.randrange(1000)}
  for coef in [0.0, 0.5, 1.0]:
    for clr in ([0.125, 2.0] if tier == 'quick' else [0.0625, 0.125, 0.5, 2.0]):
      for rep in range(reps):
        yield {'kind': 'apfl', 'hp': {'coef': coef, 'clr': clr, 'bs': BS, 'epochs': 1 + (rep + int(clr * 16)) % 2, 'sopt': 'sgd'},
               'pop': _pop(rng, 2, 5), 'rounds': _rounds(rng, 5), 'seed': rng.randrange(1000)}
  for K in ([2, 3] if tier == 'quick' else [1, 2, 3, 4]):
    for clr in ([0.125] if tier == 'quick' else [0.0625, 0.125, 0.25]):
      for rep in range(3 * reps):
        pop = _pop(rng, 2, 5)
        rounds = _rounds(rng, 5)
        if rep == 0:
          pop[4] = {'s': 9, 'cnt': [0, 0], 'g': 0}
          rounds[1] = [4]           # only an empty client: every cluster is without examples
        yield {'kind': 'hyp_cluster', 'hp': {'K': K, 'clr': clr, 'slr': 0.5, 'bs': BS, 'pbs': 4, 'epochs': 1 + rep % 2,
                                             'p0': rep % 2, 'same': rep % 3 == 2 and K >= 2},
               'pop': pop, 'rounds': rounds, 'seed': rng.randrange(1000)}
  for clip in ([0.0, 0.0625, 1.0, 8.0] if tier == 'quick' else [0.0, 0.03125, 0.0625, 0.25, 1.0, 8.0]):
    for rep in range(reps):
      pop = _pop(rng, 2, 5)
      rounds = _rounds(rng, 5)
      if rep == 0:
        pop[4] = {'s': 9, 'cnt': [0, 0], 'g': 0}
        rounds[2] = [4] + [x for x in rounds[2] if x != 4]    # a client whose delta is exactly zero
      yield {'kind': 'mime_lite', 'hp': {'clip': clip, 'clr': 0.25, 'slr': 1.0, 'bs': BS, 'pbs': 4, 'bopt': 'sgd',
                                         'epochs': 1 + rep % 2}, 'pop': pop, 'rounds': rounds, 'seed': rng.randrange(1000)}
  names_grid = [[], [['lin', 'b']], [['emb', 't']], [['lin', 'w'], ['emb', 't']], [['lin', 'b'], ['lin', 'w'], ['emb', 't']]]
  for base in ['sgd', 'mom', 'adam']:
    for names in names_grid:
      for rep in range(reps):
        yield {'kind': 'ignore', 'hp': {'base': base, 'lr': rng.choice([0.5, 0.25, 1.0])}, 'names': names,
               'vals': [rng.randrange(-8, 9) for _ in range(15)], 'seed': 0}


# ---- float64 reference --------------------------------------------------------------

def _vec(tree):
  """[b, w0, w1] of a parameter tree as float64 (jax flattens dict keys in sorted order)."""
  return np.concatenate([np.asarray(tree['lin']['b'], np.float64).reshape(1), np.asarray(tree['lin']['w'], np.float64).reshape(-1)])


def _xy(spec):
  a = tiny.client_arrays(spec)
  return a['x'].astype(np.float64), a['y'].astype(np.float64), a['domain_id']


def _grad(p, x, y):
  r = x @ p[1:] + p[0] - y
  return np.concatenate([[r.mean()], x.T @ r / len(y)])


def _losses(p, x, y):
  return 0.5 * (x @ p[1:] + p[0] - y) ** 2


def _steps(n, epochs):
  return -(-n * epochs // BS)


def _train(p, x, y, lr, epochs):
  q = p.copy()
  for _ in range(_steps(len(y), epochs)):
    q = q - lr * _grad(q, x, y)
  return q


def _close(a, b, tol=TOL):
  a, b = np.asarray(a, np.float64), np.asarray(b, np.float64)
  return a.shape == b.shape and bool(np.all(np.isfinite(a))) and bool(np.all(np.abs(a - b) <= tol * (1 + np.abs(b))))


def _f(x):
  return [float(v) for v in np.asarray(x, np.float64).reshape(-1)]


def _finite(tree):
  import jax
  return all(bool(np.all(np.isfinite(np.asarray(l, np.float64)))) for l in jax.tree_util.tree_leaves(tree))


# ---- running ------------------------------------------------------------------------

def observations(payload):
  """run() of every sub-case, as canonical JSON strings (called in this and in other interpreter processes)"""
  import json
  return [json.dumps(run(c), sort_keys=True) for c in payload['cases']]


def _run_apfl_grid(case):
  import itertools
  hp = case['hp']
  alg = tiny.algorithm('apfl', hp)
  dss = [tiny.client_dataset(s) for s in case['pop']]
  nc = case['nclients']
  subsets = [list(s) for k in range(nc + 1) for s in itertools.combinations(range(nc), k)]
  out = {'err': None, 'histories': 0, 'bad': [], 'sample': []}
  cache = {}        # state after a prefix of cohorts (the algorithm is a function of state and cohort: re-use prefixes)
  try:
    for hist in itertools.product(range(len(subsets)), repeat=case['nrounds']):
      st, seen = tiny.init_state('apfl', hp, alg), set()
      for r, si in enumerate(hist):
        key = hist[:r + 1]
        sel = subsets[si][::-1] if (si + r) % 2 else subsets[si]          # cohorts also in descending order
        if key in cache:
          st2 = cache[key]
        else:
          prev = dict(st.client_states)
          st2, _ = alg.apply(st, [(tiny.cid(i), dss[i], tiny.client_rng(case['seed'], r, i)) for i in sel])
          cache[key] = st2
          kept = all(tiny.cid(i) in st2.client_states and st2.client_states[tiny.cid(i)] is prev[tiny.cid(i)]
                     for i in range(nc) if tiny.cid(i) in prev and i not in sel)
          if not kept:
            out['bad'].append(['entry-of-non-participant-changed', list(hist), r])
        seen |= set(subsets[si])
        keys = sorted(tiny.cid_index(k) for k in st2.client_states)
        if keys != sorted(seen):
          out['bad'].append(['keys', list(hist), r, keys, sorted(seen)])
        if len(out['sample']) < 40 and (sum(hist) + r) % 7 == 0:
          out['sample'].append([sorted(tiny.cid_index(k) for k in st.client_states), sel, keys])
        st = st2
      out['histories'] += 1
    out['bad'] = out['bad'][:5]
  except Exception as ex:
    out['err'] = type(ex).__name__ + ': ' + str(ex)[:200]
  return out


def run(case):
  if case['kind'] == 'apfl_grid':
    return _run_apfl_grid(case)
  if case['kind'] == 'xproc':
    from lib import c10c17_xproc as xp
    here = observations({'cases': case['cases']})
    obs = {'err': None, 'children': []}
    for hs in case['hashseeds']:
      r = xp.call('c17', 'observations', {'cases': case['cases']}, hs)
      obs['children'].append({'hashseed': hs, 'err': r['err'],
                              'differs': None if r['err'] else [i for i, (a, b) in enumerate(zip(here, r['result'])) if a != b]})
    return obs
  if case['kind'] == 'flags':
    from lib import c10c17_flags as flagrun
    return flagrun.run('c17', case['flag'], case['value'], case['names'], case['seed'])
  obs = {'agnostic': _run_agnostic, 'apfl': _run_apfl, 'hyp_cluster': _run_hyp, 'mime_lite': _run_mime,
         'ignore': _run_ignore, 'direct': _run_direct}[case['kind']](case)
  if obs.get('err') and 'rounds' in case and 'rounds' in obs and len(obs['rounds']) < len(case['rounds']):
    obs['err_empty_cohort'] = not case['rounds'][len(obs['rounds'])]
  return obs


def _run_direct(case):
  """update_domain_weights, tree_clip_by_global_norm and hyp_cluster.maximization_step called directly."""
  import contextlib
  import fedjax
  import jax
  import jax.numpy as jnp
  from fedjax.algorithms import agnostic_fed_avg, hyp_cluster
  from fedjax.core import models as fj_models
  from fedjax.core import tree_util
  out = {'err': None}
  lay = [None, 'neg', 'skip', 'col', 'ro', 'F'][case['i'] % 6] if case['np'] else None      # numpy inputs also in non-default layouts
  arr = ((lambda x: tiny.relayout(np.asarray(x, np.float32), lay) if lay else np.asarray(x, np.float32)) if case['np']
         else (lambda x: jnp.asarray(x, jnp.float32)))
  ctx = jax.disable_jit() if case['nojit'] else contextlib.nullcontext()
  try:
    with ctx:
      nd = case['nd']
      w = np.array(case['w'][:nd], np.float64) + (1.0 if sum(case['w'][:nd]) == 0 else 0.0)
      w = w / w.sum()
      loss = np.array(case['loss'][:nd], np.float64)
      w_in = arr(w)
      before = tiny.snapshot([w_in])
      r = agnostic_fed_avg.update_domain_weights(w_in, arr(loss), case['lr'], 'eg')
      out['eg'] = {'w': _f(np.asarray(w_in)), 'e': [math.exp(case['lr'] * float(np.float32(l))) for l in loss], 'w_new': _f(r),
                   'input_same': tiny.same_snapshot(before, tiny.snapshot([w_in]))}
      out['none_same'] = _f(agnostic_fed_avg.update_domain_weights(w_in, arr(loss), case['lr'], 'none')) == _f(np.asarray(w_in))
      try:
        agnostic_fed_avg.update_domain_weights(w_in, arr(loss), case['lr'], 'EG')
        out['bad_alg'] = 'returned'
      except ValueError:
        out['bad_alg'] = 'ValueError'
      # clipping a two-leaf tree
      d = (np.array(case['d'], np.float64) * case.get('dscale', 1.0)).astype(np.float32)
      tree = {'a': arr(d[:2]), 'b': {'c': arr(d[2:])}}
      tb = tiny.snapshot(tree)
      n32 = np.sqrt(np.sum(d * d, dtype=np.float32), dtype=np.float32)       # the norm as float32 arithmetic sees it
      bound = case['bound']
      if case.get('ulp') and np.isfinite(n32) and n32 > 0:
        bound = float(n32 if case['ulp'] == 2 else np.nextafter(n32, np.float32(np.inf if case['ulp'] > 0 else 0)))
      out['bound'] = bound
      cl = tree_util.tree_clip_by_global_norm(tree, bound)
      flat = np.concatenate([np.asarray(cl['a'], np.float64), np.asarray(cl['b']['c'], np.float64)])
      out['clip'] = {'d': _f(d), 'norm': float(np.sqrt(np.sum(d.astype(np.float64) ** 2))), 'n32': float(n32), 'res': _f(flat),
                     'input_same': tiny.same_snapshot(tb, tiny.snapshot(tree))}
      # a complex leaf and a size-1 leaf (the norm is over |z|^2)
      z = {'z': jnp.asarray([d[0] + 1j * d[1], d[2] - 1j * d[3]], jnp.complex64), 'one': arr(d[4:5])}
      zc = tree_util.tree_clip_by_global_norm(z, bound)
      zf = np.concatenate([np.asarray(zc['one'], np.complex128).reshape(-1), np.asarray(zc['z'], np.complex128)])
      out['clipz'] = {'norm_in': float(np.sqrt(np.sum(np.abs(np.concatenate([d[4:5].astype(np.complex128), np.asarray(z['z'], np.complex128)])) ** 2))),
                      'norm_out': float(np.sqrt(np.sum(np.abs(zf) ** 2))), 'finite': bool(np.all(np.isfinite(zf))),
                      'kinds_same': jax.tree_util.tree_structure(zc) == jax.tree_util.tree_structure(z)}
      # maximization step on its own
      K = case['K']
      cps = [tiny.init_params(k) for k in range(K)]
      dss = [tiny.client_dataset(s) for s in case['pop']]
      ev = tiny.cached(('avg-loss-evaluator',), lambda: fj_models.AverageLossEvaluator(tiny.per_example_loss))
      order = list(range(len(dss)))[::-1] if case['i'] % 2 else [(j * 3 + 1) % len(dss) for j in range(len(dss))]
      clients = [(tiny.cid(i), dss[i], tiny.client_rng(case['seed'], 0, i)) for i in order]
      cb = tiny.snapshot(cps)
      ids = hyp_cluster.maximization_step(ev, tuple(cps) if case['np'] else cps, tuple(clients) if case['nojit'] else clients,
                                          fedjax.PaddedBatchHParams(batch_size=4))
      losses = []
      for s in case['pop']:
        x, y, _ = _xy(s)
        losses.append([float(_losses(_vec(p), x, y).mean()) if len(y) else 0.0 for p in cps])
      out['max'] = {'assign': [int(np.asarray(ids[tiny.cid(i)])) for i in range(len(dss))], 'losses': losses,
                    'n': [sum(s['cnt']) for s in case['pop']], 'input_same': tiny.same_snapshot(cb, tiny.snapshot(cps)),
                    'keys_ok': sorted(ids) == sorted(tiny.cid(i) for i in range(len(dss)))}
  except Exception as ex:
    out['err'] = type(ex).__name__ + ': ' + str(ex)[:200]
  return out


def _cid(case, i):
  return tiny.cid(i, case.get('ids', 'bytes'))


def _clients(case, r, dss):
  cl = [(_cid(case, i), dss[i], tiny.client_rng(case['seed'], r, i)) for i in case['rounds'][r]]
  return tuple(cl) if case.get('ctuple') else cl


def _run_agnostic(case):
  hp = case['hp']
  alg = tiny.algorithm('agnostic', hp)
  st = tiny.init_state('agnostic', hp, alg)
  dss = [tiny.client_dataset(s) for s in case['pop']]
  nd = hp['nd']
  out = {'rounds': [], 'err': None}
  try:
    for r, sel in enumerate(case['rounds']):
      p = _vec(st.params)
      w_prev = _f(st.domain_weights)
      win_prev = [_f(a) for a in st.domain_window]
      in_win = st.domain_window
      st2, diag = alg.apply(st, _clients(case, r, dss))
      input_win_after = [_f(a) for a in in_win]
      # reference: per-domain example counts and mean loss at the INPUT params
      cnt = [sum(case['pop'][i]['cnt'][d] for i in sel) for d in range(nd)]
      lsum = np.zeros(nd)
      for i in sel:
        x, y, did = _xy(case['pop'][i])
        if len(y):
          np.add.at(lsum, did, _losses(p, x, y))
      mean = [lsum[d] / cnt[d] if cnt[d] else 0.0 for d in range(nd)]
      out['rounds'].append({
          'w_prev': w_prev, 'w_new': _f(st2.domain_weights), 'win_prev': win_prev,
          'win_new': [_f(a) for a in st2.domain_window], 'cnt': cnt,
          'e': [math.exp(hp['dlr'] * m) if hp.get('dalg', 'eg') == 'eg' else 1.0 for m in mean],
          'params_finite': _finite(st2.params) and _finite(diag), 'win_len': len(st2.domain_window),
          'starved': [d for d in range(nd) if all(wv[d] == 0 for wv in win_prev)],
          'input_win_after': input_win_after,
      })
      st = st2
    # init() again on the same algorithm object, after the applies: the same initial state, and the same history
    st_b = tiny.init_state('agnostic', hp, alg)
    out['init_again'] = {'w': _f(st_b.domain_weights), 'win': [_f(a) for a in st_b.domain_window],
                         'params_same': tiny.same_snapshot(tiny.snapshot(st_b.params), tiny.snapshot(tiny.init_params(hp.get('p0', 0))))}
    again = []
    for r in range(min(2, len(case['rounds']))):
      st_b, _ = alg.apply(st_b, _clients(case, r, dss))
      again.append({'w_new': _f(st_b.domain_weights), 'win_new': [_f(a) for a in st_b.domain_window]})
    out['again'] = again
  except Exception as ex:
    out['err'] = type(ex).__name__ + ': ' + str(ex)[:200]
  return out


def _coefs(cs):
  """The two per-leaf coefficients (leaf b, leaf w) of a client state (first entry of a non-scalar leaf)."""
  c = cs.interpolation_coefficients['lin']
  return [float(np.ravel(np.asarray(c['b'], np.float64))[0]), float(np.ravel(np.asarray(c['w'], np.float64))[0])]


def _coefs_all(cs):
  import jax
  return [float(v) for l in jax.tree_util.tree_leaves(cs.interpolation_coefficients) for v in np.ravel(np.asarray(l, np.float64))]


def _run_apfl(case):
  hp = case['hp']
  alg = tiny.algorithm('apfl', hp)
  st = tiny.init_state('apfl', hp, alg)
  dss = [tiny.client_dataset(s) for s in case['pop']]
  out = {'rounds': [], 'err': None}
  seen = set()
  try:
    for r, sel in enumerate(case['rounds']):
      w = _vec(st.params)
      prev = dict(st.client_states)
      prev_snap = {k: tiny.snapshot(v) for k, v in prev.items()}
      st2, _ = alg.apply(st, _clients(case, r, dss))
      seen |= set(sel)
      # periodic evaluation of the personalised models on the WHOLE population (never-trained and empty
      # clients included), the generator consumed, between two training rounds
      ev_before = tiny.snapshot(st2)
      ev_conts = tiny.containers(st2)
      ev_out = list(tiny.apfl_eval()(st2, [(_cid(case, i), d) for i, d in enumerate(dss)]))
      ev = {'keys': sorted(tiny.cid_index(k) for k in st2.client_states), 'n': len(ev_out),
            'state_same': tiny.same_snapshot(ev_before, tiny.snapshot(st2)) and not tiny.writes(ev_conts),
            'finite': _finite([m for _, m in ev_out])}
      refs = []
      for i in sel:
        # reference trajectory of the two per-leaf coefficients (leaf b, leaf w)
        x, y, _ = _xy(case['pop'][i])
        if _cid(case, i) in prev:
          v = _vec(prev[_cid(case, i)].params)
          al = np.array(_coefs(prev[_cid(case, i)]), np.float64)
        else:
          v, al = w.copy(), np.array([hp['coef'], hp['coef']], np.float64)
        a0 = _f(al)
        ws, gs_b, gs_w = w.copy(), [], []
        for _ in range(_steps(len(y), hp['epochs'])):
          av = np.array([al[0], al[1], al[1]])
          pers = av * v + (1 - av) * ws
          cg = _grad(pers, x, y)
          ig = np.array([(v[0] - ws[0]) * cg[0], float(np.dot(v[1:] - ws[1:], cg[1:]))])
          sg = _grad(ws, x, y)
          ws, v = ws - hp['clr'] * sg, v - hp['clr'] * cg
          gs_b.append(float(ig[0]))
          gs_w.append(float(ig[1]))
          al = np.clip(al - hp['clr'] * ig, 0, 1)
        refs.append({'i': i, 'a0': a0, 'g_b': gs_b, 'g_w': gs_w, 'ref': _f(al),
                     'obs': _coefs(st2.client_states[_cid(case, i)]) if _cid(case, i) in st2.client_states else None})
      out['rounds'].append({
          'keys': sorted(tiny.cid_index(k) for k in st2.client_states), 'participated': sorted(seen),
          'coefs': {tiny.cid_index(k): _coefs_all(v) for k, v in st2.client_states.items()},
          'others_same': all(k in st2.client_states and tiny.same_snapshot(prev_snap[k], tiny.snapshot(st2.client_states[k]))
                             for k in prev if tiny.cid_index(k) not in sel),
          'refs': refs, 'finite': _finite(st2), 'eval': ev,
      })
      st = st2
  except Exception as ex:
    out['err'] = type(ex).__name__ + ': ' + str(ex)[:200]
  return out


def _run_hyp(case):
  import jax
  hp = case['hp']
  K = hp['K']
  alg = tiny.algorithm('hyp_cluster', {k: v for k, v in hp.items() if k not in ('same', 'K', 'p0')})
  if hp.get('same'):      # two bit-identical clusters: exact ties
    ps = [tiny.init_params(hp['p0'])] * 2 + [tiny.init_params(k + 1) for k in range(K - 2)]
    st = alg.init(ps)
  else:
    st = tiny.init_state('hyp_cluster', hp, alg)
  dss = [tiny.client_dataset(s) for s in case['pop']]
  out = {'rounds': [], 'err': None}
  try:
    for r, sel in enumerate(case['rounds']):
      P = [_vec(p) for p in st.cluster_params]
      T = [np.concatenate([np.asarray(l, np.float64).reshape(-1) for l in jax.tree_util.tree_leaves(o)]) if jax.tree_util.tree_leaves(o)
           else np.zeros(3) for o in st.opt_states]
      same_bits = [[tiny.same_snapshot(tiny.snapshot(st.cluster_params[a]), tiny.snapshot(st.cluster_params[b])) for b in range(K)] for a in range(K)]
      before = [(tiny.snapshot(st.cluster_params[k]), tiny.snapshot(st.opt_states[k])) for k in range(K)]
      st2, diag = alg.apply(st, _clients(case, r, dss))
      assign = [int(np.asarray(diag[_cid(case, i)]['cluster_id'])) for i in sel]
      losses, clients = [], []
      for i, a in zip(sel, assign):
        x, y, _ = _xy(case['pop'][i])
        losses.append([float(_losses(P[k], x, y).mean()) if len(y) else 0.0 for k in range(K)])
        a_ok = a if 0 <= a < K else 0
        delta = P[a_ok] - _train(P[a_ok], x, y, hp['clr'], hp['epochs'])
        clients.append({'a': a, 'n': len(y), 'delta': _f(delta)})
      out['rounds'].append({
          'assign': assign, 'losses': losses, 'same_bits': same_bits, 'clients': clients,
          'P': [_f(p) for p in P], 'T': [_f(t) for t in T],
          'P_new': [_f(_vec(p)) for p in st2.cluster_params],
          'T_new': [_f(np.concatenate([np.asarray(l, np.float64).reshape(-1) for l in jax.tree_util.tree_leaves(o)])) if jax.tree_util.tree_leaves(o) else [0.0] * 3
                    for o in st2.opt_states],
          'untouched': [tiny.same_snapshot(before[k][0], tiny.snapshot(st2.cluster_params[k])) and
                        tiny.same_snapshot(before[k][1], tiny.snapshot(st2.opt_states[k])) for k in range(K)],
          'nK': [len(st2.cluster_params), len(st2.opt_states)],
      })
      st = st2
  except Exception as ex:
    out['err'] = type(ex).__name__ + ': ' + str(ex)[:200]
  return out


def _run_mime(case):
  hp = case['hp']
  alg = tiny.algorithm('mime_lite', hp)
  st = tiny.init_state('mime_lite', hp, alg)
  dss = [tiny.client_dataset(s) for s in case['pop']]
  out = {'rounds': [], 'err': None}
  try:
    for r, sel in enumerate(case['rounds']):
      p = _vec(st.params)
      st2, diag = alg.apply(st, _clients(case, r, dss))
      cl = []
      for i in sel:
        x, y, _ = _xy(case['pop'][i])
        delta = p - _train(p, x, y, hp['clr'], hp['epochs'])
        d = diag[_cid(case, i)]
        cl.append({'n': len(y), 'delta': _f(delta), 'norm': float(np.sqrt(np.sum(delta ** 2))),
                   'diag_norm': float(np.asarray(d['delta_l2_norm'])),
                   'diag_clipped_norm': float(np.asarray(d['clipped_delta_l2_norm'])) if 'clipped_delta_l2_norm' in d else None})
      out['rounds'].append({'p': _f(p), 'p_new': _f(_vec(st2.params)), 'clients': cl, 'finite': _finite(st2.params)})
      st = st2
  except Exception as ex:
    out['err'] = type(ex).__name__ + ': ' + str(ex)[:200]
  return out


_IG_KEYS = [('emb', 't', (1, 2)), ('lin', 'b', ()), ('lin', 'w', (2,))]


def _ig_tree(vals, scale, dtypes=None, names=()):
  """dtypes: per key of _IG_KEYS; only IGNORED leaves take an exotic dtype (the base optimizer never sees them)"""
  import jax.numpy as jnp
  it = iter(vals)
  tree = {}
  for j, (m, n, shape) in enumerate(_IG_KEYS):
    k = int(np.prod(shape)) if shape else 1
    a = np.array([next(it) * scale for _ in range(k)], np.float32).reshape(shape)
    dt = dtypes[j] if dtypes and [m, n] in names else 'float32'
    tree.setdefault(m, {})[n] = jnp.asarray(a).astype({'bfloat16': jnp.bfloat16}.get(dt, dt))
  if _IG_REV[0]:     # modules and names INSERTED in non-sorted order (jax flattens sorted, Python iterates as inserted)
    tree = {m: {n: tree[m][n] for n in sorted(tree[m], reverse=True)} for m in sorted(tree, reverse=True)}
  return tree


_IG_REV = [False]


def _restrict(tree, names):
  return {m: {n: v for n, v in sub.items() if [m, n] not in names} for m, sub in tree.items()}


def _flat(tree):
  out = []
  for m, n, _ in _IG_KEYS:
    if m in tree and n in tree[m] and tree[m][n] is not None:
      out += _f(tree[m][n])
    else:
      out += [None] * (2 if n != 'b' else 1)
  return out


def _run_ignore(case):
  import fedjax
  import jax
  hp, names = case['hp'], case['names']
  base = {'sgd': lambda: fedjax.optimizers.sgd(hp['lr']), 'mom': lambda: fedjax.optimizers.sgd(hp['lr'], momentum=0.5),
          'adam': lambda: fedjax.optimizers.adam(hp['lr'])}[hp['base']]()
  nt = [tuple(n) for n in names]
  if case.get('nested'):     # composition: the wrapper applied to the wrapper; ignored = union of both name lists
    opt = fedjax.optimizers.ignore_grads_haiku(fedjax.optimizers.ignore_grads_haiku(base, nt[:len(nt) // 2]), nt[len(nt) // 2:][::-1])
  else:
    opt = fedjax.optimizers.ignore_grads_haiku(base, tuple(nt) if case.get('names_tuple') else nt)
  dts = case.get('dtypes')
  params = _ig_tree(case['vals'][0:5], 0.25, dts, names)
  out = {'steps': [], 'err': None}
  _IG_REV[0] = bool(case.get('rev'))
  params = _ig_tree(case['vals'][0:5], 0.25, dts, names)
  try:
    state = opt.init(params)
    rparams = _restrict(params, names)
    rstate = base.init(rparams)
    for s in range(2):
      grads = _ig_tree(case['vals'][5 * (s + 1):5 * (s + 2)], 0.5, dts, names)
      if s == 1:      # another wrapper around the SAME base optimizer object with other names, used in between
        other = [list(k[:2]) for k in _IG_KEYS if [k[0], k[1]] not in names][:1]
        opt2 = fedjax.optimizers.ignore_grads_haiku(base, [tuple(n) for n in other])
        p0 = {m: dict(v) for m, v in _ig_tree(case['vals'][0:5], 0.25).items()}
        opt2.apply(_ig_tree(case['vals'][5:10], 0.5), opt2.init(p0), p0)
      before = tiny.snapshot(params)
      state2, params2 = opt.apply(grads, state, params)
      rstate, rparams = base.apply(_restrict(grads, names), rstate, rparams)
      p2 = {m: dict(params2[m]) for m in params2}
      named_same = all(tiny.leaf_bytes(p2[m][n]) == tiny.leaf_bytes(params[m][n]) for m, n in names)
      rest_same = tiny.same_snapshot(tiny.snapshot(_restrict(p2, names)), tiny.snapshot(rparams))
      st_leaves = [tiny.leaf_bytes(l) for l in jax.tree_util.tree_leaves(state2)]
      rst_leaves = [tiny.leaf_bytes(l) for l in jax.tree_util.tree_leaves(rstate)]
      out['steps'].append({'named_same': named_same, 'rest_same': rest_same, 'state_same': st_leaves == rst_leaves,
                           'input_same': tiny.same_snapshot(before, tiny.snapshot(params)),
                           'structure_same': tiny.kinds(params2) == tiny.kinds(params),
                           'flatmap_for_dict': type(params2).__name__ != type(params).__name__,
                           'p': _flat(params), 'g': _flat(grads), 'p_new': _flat(p2),
                           'keys_same': sorted((m, n) for m in p2 for n in p2[m]) == sorted((m, n) for m, n, _ in _IG_KEYS)})
      params, state = (p2 if s % 2 else params2), state2
  except Exception as ex:
    out['err'] = type(ex).__name__ + ': ' + str(ex)[:200]
  return out


# ---- oracle --------------------------------------------------------------------------

def oracle(case, obs):
  k = case['kind']
  if k == 'xproc':
    out = []
    for ch in obs['children']:
      if ch['err']:
        out.append(('xproc.harness-failed', f'child process (PYTHONHASHSEED={ch["hashseed"]}): {ch["err"]}'))
      for i in ch['differs'] or []:
        out.append((case['cases'][i]['kind'] + '.process-dependent',
                    f'{case["cases"][i]["kind"]}: another interpreter process (PYTHONHASHSEED={ch["hashseed"]}) observes a different history'))
    return out
  if k == 'flags':
    if obs['err']:
      return [('flags.harness-failed', f'{case["flag"]}={case["value"]}: {obs["err"]}')]
    return [(a, f'under {case["flag"]}={case["value"]}: {w}') for _, vs in obs['results'] for a, w in vs]
  if obs['err']:
    if obs.get('err_empty_cohort'):
      return [(k + '.empty-cohort-raises', f'{k}: apply() on an empty client selection raised {obs["err"]}')]
    return [(k + '.raises', f'{k}: raised {obs["err"]}')]
  if k == 'apfl_grid':
    out = []
    for b in obs['bad']:
      out.append(('apfl.state-not-only-participants', f'cohort sequence {b[1]} (subset indices), round {b[2]}: {b[0]} {b[3:]}'))
    if obs['histories'] != (2 ** case['nclients']) ** case['nrounds']:
      out.append(('harness.grid-incomplete', f'{obs["histories"]} histories'))
    return out
  if k == 'direct':
    return _or_direct(case, obs)
  return {'agnostic': _or_agnostic, 'apfl': _or_apfl, 'hyp_cluster': _or_hyp, 'mime_lite': _or_mime, 'ignore': _or_ignore}[k](case, obs)


def _or_direct(case, obs):
  out = []
  eg = obs['eg']
  w = eg['w_new']
  if not all(math.isfinite(v) and v >= 0 for v in w) or abs(sum(w) - 1) > 1e-5:
    out.append(('agnostic.weights-not-simplex', f'update_domain_weights(eg) returned {w}'))
  raw = [a * b for a, b in zip(eg['w'], eg['e'])]
  if not _close(w, [v / sum(raw) for v in raw]):
    out.append(('agnostic.eg-update-wrong', f'update_domain_weights(eg): {w}, expected {[v / sum(raw) for v in raw]}'))
  if not obs['none_same'] or obs['bad_alg'] != 'ValueError' or not eg['input_same']:
    out.append(('agnostic.update-domain-weights-contract', "'none' must return the weights, an unknown algorithm must raise ValueError, the input stays"))
  c = obs['clip']
  res, d, n, n32, b = np.array(c['res']), np.array(c['d']), c['norm'], c['n32'], obs['bound']
  # 1e-18: below ~1e-19 the squares underflow in float32 and the computed norm is 0 (documented as not covered)
  bad = not np.all(np.isfinite(res)) or np.sqrt(np.sum(res ** 2)) > b * (1 + 1e-4) + 1e-18 or not c['input_same']
  if math.isfinite(n32):      # reference with the norm float32 arithmetic computes (an overflowing norm clips everything to 0)
    ref = d * (np.float64(np.float32(b) / np.float32(n32)) if n32 > np.float32(b) else 1.0)
    bad = bad or not (np.all(np.abs(res - ref) <= 1e-4 * np.abs(ref) + 1e-37))
  if bad:
    out.append(('tree_clip.not-clipped', f'tree_clip_by_global_norm({c["d"]}, {b}) = {c["res"]}'))
  z = obs['clipz']
  if math.isfinite(z['norm_in']) and z['norm_in'] < 1e18 and (not z['finite'] or z['norm_out'] > b * (1 + 1e-4) + 1e-18 or not z['kinds_same']):
    out.append(('tree_clip.not-clipped', f'complex / size-1 leaves: norm {z["norm_in"]} -> {z["norm_out"]} with bound {b}'))
  m = obs['max']
  for a, ls in zip(m['assign'], m['losses']):
    if not (0 <= a < len(ls)) or ls[a] > min(ls) + TOL * (1 + abs(min(ls))):
      out.append(('hyp.assignment-not-minimal', f'maximization_step assigned cluster {a}, average losses {ls}'))
  if not m['input_same'] or not m['keys_ok']:
    out.append(('hyp.maximization-step-contract', 'maximization_step must return one id per client and leave the cluster params alone'))
  return out


def _or_agnostic(case, obs):
  out = []
  W, nd = case['hp']['W'], case['hp']['nd']
  hist = []          # the per-domain counts of the rounds so far (reference)
  for r, ro in enumerate(obs['rounds']):
    w = ro['w_new']
    bad = (not all(math.isfinite(v) for v in w)) or not ro['params_finite']
    if bad and (ro['starved'] or any(o['starved'] for o in obs['rounds'][:r])):
      out.append(('agnostic.starved-domain-nan', f'round {r}: a domain without any example in the window ({ro["starved"]}) '
                  f'gives non-finite parameters / domain weights {w}'))
    elif bad or any(v < 0 for v in w) or abs(sum(w) - 1) > 1e-5:
      out.append(('agnostic.weights-not-simplex', f'round {r}: domain weights {w} are not a probability vector'))
    hist.append([float(c) for c in ro['cnt']])
    init = obs['rounds'][0]['win_prev']
    want = (init + hist)[-W:] if W else []
    if ro['win_len'] != W or ro['win_new'] != want:
      out.append(('agnostic.window-wrong', f'round {r}: window {ro["win_new"]} is not the last {W} count vectors {want}'))
    if ro['input_win_after'] != ro['win_prev']:
      out.append(('agnostic.input-window-changed', f'round {r}: the window of the INPUT state was {ro["win_prev"]} before apply() and is '
                  f'{ro["input_win_after"]} after it (not a window of constant length {W} any more)'))
  ia = obs.get('init_again')
  if ia is not None and obs['rounds']:
    first = obs['rounds'][0]
    if ia['win'] != first['win_prev'] or ia['w'] != first['w_prev'] or not ia['params_same']:
      out.append(('agnostic.init-not-repeatable', f'init() on the same algorithm object after {len(obs["rounds"])} rounds returns window '
                  f'{ia["win"]} / weights {ia["w"]}; the first init() gave {first["win_prev"]} / {first["w_prev"]}'))
    for r, (a, ro) in enumerate(zip(obs.get('again', []), obs['rounds'])):
      if a['w_new'] != ro['w_new'] or a['win_new'] != ro['win_new']:
        out.append(('agnostic.second-history-differs', f'round {r} of a second history from a second init() on the same object: '
                    f'window {a["win_new"]} vs {ro["win_new"]}'))
  return out


def _or_apfl(case, obs):
  out = []
  for r, ro in enumerate(obs['rounds']):
    for cid, cs in ro['coefs'].items():
      if not all(math.isfinite(c) and 0.0 <= c <= 1.0 for c in cs):
        out.append(('apfl.coefficient-out-of-box', f'round {r}: client {cid} has interpolation coefficients {cs}'))
    if ro['keys'] != ro['participated']:
      out.append(('apfl.state-not-only-participants', f'round {r}: client states for {ro["keys"]}, participants so far {ro["participated"]}'))
    if not ro['finite']:
      out.append(('apfl.non-finite', f'round {r}: non-finite state'))
    ev = ro['eval']
    if ev['keys'] != ro['participated']:
      out.append(('apfl.state-not-only-participants', f'round {r}: after EVALUATING the population the state holds client states for '
                  f'{ev["keys"]}, participants so far {ro["participated"]}'))
    if not ev['state_same']:
      out.append(('apfl.eval-mutates-state', f'round {r}: evaluation changed the server state it was given'))
    if ev['n'] != len(case['pop']) or not ev['finite']:
      out.append(('apfl.eval-incomplete', f'round {r}: evaluation returned {ev["n"]} results / non-finite metrics'))
  return out


def _or_hyp(case, obs):
  out = []
  K = case['hp']['K']
  hp = case['hp']
  for r, ro in enumerate(obs['rounds']):
    if ro['nK'] != [K, K]:
      out.append(('hyp.cluster-count-changed', f'round {r}: {ro["nK"]} clusters'))
      continue
    for a, ls in zip(ro['assign'], ro['losses']):
      if not (0 <= a < K) or ls[a] > min(ls) + TOL * (1 + abs(min(ls))):
        out.append(('hyp.assignment-not-minimal', f'round {r}: client assigned to cluster {a}, average losses {ls}'))
    # reference per-cluster update from the cluster's own clients only (server: sgd with momentum 0.5)
    for k in range(K):
      own = [c for c in ro['clients'] if c['a'] == k and c['n'] > 0]
      if not own:
        if not ro['untouched'][k]:
          out.append(('hyp.empty-cluster-touched', f'round {r}: cluster {k} had no example but its params / optimizer state changed'))
        continue
      tot = sum(c['n'] for c in own)
      mean = sum(c['n'] * np.array(c['delta']) for c in own) / tot
      t_new = mean + 0.5 * np.array(ro['T'][k])
      p_new = np.array(ro['P'][k]) - hp['slr'] * t_new
      if not (_close(ro['P_new'][k], p_new) and _close(ro['T_new'][k], t_new)):
        out.append(('hyp.cluster-update-wrong', f'round {r}: cluster {k} params {ro["P_new"][k]} but its own clients give {_f(p_new)}'))
  return out


def _or_mime(case, obs):
  out = []
  hp = case['hp']
  clip = hp['clip']
  for r, ro in enumerate(obs['rounds']):
    zero_corner = clip == 0 and any(c['norm'] == 0 for c in ro['clients'])
    if not ro['finite']:
      if zero_corner or (clip == 0 and any(any(c['norm'] == 0 for c in o['clients']) for o in obs['rounds'][:r])):
        out.append(('mime_lite.zero-clip-nan', f'round {r}: clip norm 0 and an exactly-zero client delta give non-finite parameters'))
      else:
        out.append(('mime_lite.non-finite', f'round {r}: non-finite parameters'))
      continue
    step = np.array(ro['p']) - np.array(ro['p_new'])
    # necessary: the applied mean of deltas of norm <= clip has norm <= clip
    if float(np.sqrt(np.sum(step ** 2))) > hp['slr'] * clip * (1 + 1e-4) + 1e-7:
      out.append(('mime_lite.aggregate-exceeds-clip', f'round {r}: server step of norm {float(np.sqrt(np.sum(step ** 2)))} with clip norm {clip}'))
    for c in ro['clients']:
      if c['diag_clipped_norm'] is not None and not (c['diag_clipped_norm'] <= clip * (1 + 1e-5) + 1e-9):
        out.append(('mime_lite.client-not-clipped', f'round {r}: reported clipped norm {c["diag_clipped_norm"]} > {clip}'))
    tot = sum(c['n'] for c in ro['clients'])
    if tot > 0:
      mean = sum(c['n'] * np.array(c['delta']) * (clip / c['norm'] if c['norm'] > clip else 1.0) for c in ro['clients']) / tot
      if not _close(step, hp['slr'] * mean):
        out.append(('mime_lite.aggregate-not-clipped-mean', f'round {r}: server step {_f(step)}, mean of clipped client deltas {_f(hp["slr"] * mean)}'))
  return out


def _or_ignore(case, obs):
  out = []
  for s, so in enumerate(obs['steps']):
    if not so['named_same'] or not so['keys_same']:
      out.append(('ignore.named-leaf-changed', f'step {s}: an ignored parameter was not returned bit-identical'))
    if not so['rest_same'] or not so['state_same']:
      out.append(('ignore.rest-differs-from-base', f'step {s}: trainable parameters / optimizer state differ from the base optimizer on the restricted tree'))
    if not so.get('structure_same', True):
      out.append(('ignore.container-type-changed', f'step {s}: the returned params do not have the keys / nesting / leaf order of the params passed in (dict ~ FlatMap)'))
    if not so['input_same']:
      out.append(('ignore.input-mutated', f'step {s}: the input parameter tree was modified'))
  return out


# ---- Coq encoding ----------------------------------------------------------------------

def _q(x):
  return fw.qlit(float(x))


def _ql(xs):
  return '[' + '; '.join(_q(x) for x in xs) + ']'


def _zl(xs):
  return '([' + '; '.join(fw.zlit(int(x)) for x in xs) + '])%Z'


def encode(case, obs):
  if case['kind'] in ('flags', 'xproc'):
    return None
  if obs['err']:
    return None
  k = case['kind']
  ins, outs = [], []
  if k == 'apfl_grid':
    for prev, sel, keys in obs['sample']:
      ins.append(f'(IKeys {_zl(prev)} {_zl(sel)})')
      outs.append(f'(OKeys {_zl(keys)})')
  elif k == 'direct':
    eg, c, m = obs['eg'], obs['clip'], obs['max']
    ins.append(f'(IEg {_ql(eg["w"])} {_ql(eg["e"])})')
    outs.append(f'(OVec {_ql(eg["w_new"])})')
    if all(math.isfinite(v) for v in c['res']) and math.isfinite(c['n32']) and c['norm'] > 0 and \
        abs(c['n32'] - c['norm']) <= 1e-5 * c['norm'] and abs(c['norm'] - obs['bound']) > 1e-5 * c['norm'] and \
        min(abs(v) for v in c['d'] if v) > 1e-15:
      # (the exact model is compared where float32 neither under- nor overflows and the boundary is not within rounding)
      ins.append(f'(IClipD {_q(obs["bound"])} {_ql(c["d"])} {_q(c["norm"])})')
      outs.append(f'(OVec {_ql(c["res"])})')
    for a, ls, n in zip(m['assign'], m['losses'], m['n']):
      srt = sorted(set(ls))
      if n == 0 or len(srt) == 1 and len(ls) == 1 or (len(srt) == len(ls) and (len(srt) == 1 or srt[1] - srt[0] > 10 * TOL * (1 + abs(srt[0])))):
        ins.append(f'(IArgmin {_ql(ls)})')
        outs.append(f'(ONat {a}%nat)')
  elif k == 'agnostic':
    for ro in obs['rounds']:
      if not all(math.isfinite(v) for v in ro['w_new'] + ro['w_prev']):
        continue
      ins.append(f'(IEg {_ql(ro["w_prev"])} {_ql(ro["e"])})')
      outs.append(f'(OVec {_ql(ro["w_new"])})')
      ins.append('(IWin ' + fw.clist([_zl(w) for w in ro['win_prev']]) + ' ' + _zl(ro['cnt']) + ')')
      outs.append('(OWin ' + fw.clist([_zl(w) for w in ro['win_new']]) + ')')
  elif k == 'apfl':
    prev_keys = []
    for ri, ro in enumerate(obs['rounds']):
      for ref in ro['refs']:
        if ref['obs'] is None:
          continue
        for leaf, gs in ((0, ref['g_b']), (1, ref['g_w'])):
          ins.append(f'(IApfl {_q(ref["a0"][leaf])} {_q(case["hp"]["clr"])} {_ql(gs)})')
          outs.append(f'(OVec [{_q(ref["obs"][leaf])}])')
      ins.append(f'(IKeys {_zl(prev_keys)} {_zl(case["rounds"][ri])})')
      outs.append(f'(OKeys {_zl(ro["keys"])})')
      prev_keys = ro['keys']
  elif k == 'hyp_cluster':
    hp = case['hp']
    for ro in obs['rounds']:
      if ro['nK'] != [hp['K'], hp['K']]:
        return None
      for a, ls, c in zip(ro['assign'], ro['losses'], ro['clients']):
        srt = sorted(set(ls))
        # ties are exact in the implementation too when the tied clusters are bit-identical or the client is empty
        tie_exact = c['n'] == 0 or all(ro['same_bits'][i][j] for i in range(len(ls)) for j in range(len(ls))
                                        if ls[i] == min(ls) and ls[j] == min(ls))
        clear = (len(srt) == 1 or srt[1] - srt[0] > 10 * TOL * (1 + abs(srt[0]))) and tie_exact
        if clear:
          ins.append(f'(IArgmin {_ql(ls)})')
          outs.append(f'(ONat {a}%nat)')
      cl = fw.clist([f'({c["a"]}%nat, {_q(c["n"])}, {_ql(c["delta"])})' for c in ro['clients']])
      ins.append(f'(ICluster {hp["K"]}%nat {_q(hp["slr"])} (1 # 2) {fw.clist([_ql(p) for p in ro["P"]])} {fw.clist([_ql(t) for t in ro["T"]])} {cl})')
      outs.append(f'(OCluster {fw.clist([_ql(p) for p in ro["P_new"]])} {fw.clist([_ql(t) for t in ro["T_new"]])} {fw.blist(ro["untouched"])})')
  elif k == 'mime_lite':
    hp = case['hp']
    for ro in obs['rounds']:
      if not ro['finite']:
        continue
      cl = fw.clist([f'({_q(c["n"])}, {_ql(c["delta"])}, {_q(c["norm"])})' for c in ro['clients']])
      ins.append(f'(IClip {_q(hp["clip"])} {_q(hp["slr"])} {_ql(ro["p"])} {cl})')
      outs.append(f'(OVec {_ql(ro["p_new"])})')
  else:
    if case['hp']['base'] != 'sgd':
      return None      # the executable instance of the base optimizer in the model is plain SGD
    names = case['names']
    flags = []
    for m, n, _ in _IG_KEYS:
      flags += [[m, n] in names] * (1 if n == 'b' else 2)
    for so in obs['steps']:
      leaves = fw.clist([f'({fw.cbool(fl)}, {_q(p)}, {_q(g)})' for fl, p, g in zip(flags, so['p'], so['g'])])
      ins.append(f'(IIgnore {_q(case["hp"]["lr"])} {leaves})')
      outs.append(f'(OVec {_ql(so["p_new"])})')
  if not ins:
    return None
  return f'(({fw.clist(ins)}, {fw.clist(outs)})%Q)'


def nontrivial(case, obs):
  if case['kind'] == 'xproc':
    return bool(obs['children'])
  if case['kind'] == 'flags':
    return bool(obs['results'])
  if obs['err']:
    return False
  k = case['kind']
  if k == 'apfl_grid':
    return obs['histories'] > 1
  if k == 'direct':
    return obs['clip']['norm'] > obs['bound'] or case['lr'] > 0
  if k == 'agnostic':
    return any(0 in ro['cnt'] for ro in obs['rounds'])
  if k == 'apfl':
    return any(c in (0.0, 1.0) for ro in obs['rounds'] for cs in ro['coefs'].values() for c in cs) or len(obs['rounds'][-1]['keys']) > 1
  if k == 'hyp_cluster':
    return any(any(ro['untouched']) for ro in obs['rounds'])
  if k == 'mime_lite':
    return any(c['norm'] > case['hp']['clip'] for ro in obs['rounds'] for c in ro['clients'])
  return bool(case['names'])


def describe(case, obs):
  d = {'kind': case['kind']}
  if case['kind'] in ('flags', 'xproc'):
    return d
  if obs['err']:
    return d
  if case['kind'] == 'agnostic':
    d['window'] = case['hp']['W']
    d['starved_rounds'] = sum(1 for ro in obs['rounds'] if ro['starved'])
  if case['kind'] == 'hyp_cluster':
    d['untouched_clusters'] = sum(sum(ro['untouched']) for ro in obs['rounds'])
  if case['kind'] == 'mime_lite':
    d['clip'] = case['hp']['clip']
  if case['kind'] == 'ignore':
    d['ignored'] = len(case['names'])
  return d


def shrink(case):
  if 'rounds' in case:
    rs = case['rounds']
    for r, sel in enumerate(rs):
      if len(sel) > 1:
        for x in sel:
          yield {**case, 'rounds': rs[:r] + [[y for y in sel if y != x]] + rs[r + 1:]}
