#!/venv/bin/python
"""Own mutation lists for C16 / C20 (not part of ./check).  Usage:
     tools/harness/c16_c20_mutations.py C16 [name ...]
Each mutation is applied to a scratch copy of /repo/fedjax and ./check is run with VERIF_REPO=<copy>."""
import hashlib, json, os, shutil, subprocess, sys
DS, MD, SER = 'fedjax/datasets/', 'fedjax/models/', 'fedjax/core/serialization.py'
SQL, CK, TASKS = 'fedjax/core/sqlite_federated_data.py', 'fedjax/training/checkpoint.py', 'fedjax/training/tasks.py'
MUTS = {
 'C16': [
  ('m1-no-native', SER, "    arr = arr.astype(arr.dtype.newbyteorder('='))", "    pass"),
  ('m2-tobytes-A', SER, "arr.tobytes('C')", "arr.tobytes('A')"),
  ('m3-flat0', SER, "if not all(isinstance(v, bytes) for v in flat):", "if flat and not isinstance(flat[0], bytes):"),
  ('m4-swap-ext', SER, "  if code == _MsgpackExtType.ndarray:\n    return _ndarray_from_bytes(data)", "  if code == _MsgpackExtType.npscalar:\n    return _ndarray_from_bytes(data)"),
  ('m5-hasobject', SER, "isinstance(x, np.ndarray) and x.dtype == object", "isinstance(x, np.ndarray) and x.dtype.hasobject"),
  ('m6-sqlite-order', SQL, "f'SELECT client_id, num_examples FROM federated_data WHERE {self._range_where()} ORDER BY rowid;'", "f'SELECT client_id, num_examples FROM federated_data WHERE {self._range_where()} ORDER BY client_id;'"),
  ('m7-reshape-F', SER, "shape, order='C')", "shape, order='F')"),
  ('m8-ckpt-lexical', CK, "return sorted(checkpoint_paths, key=sort_key)", "return sorted(checkpoint_paths, reverse=True)"),
  ('m9-strict-types-off', SER, "default=_msgpack_ext_pack, strict_types=True)", "default=_msgpack_ext_pack, strict_types=False)"),
  ('m10-no-overwrite', CK, "tf.io.gfile.rename(tmp_path, checkpoint_path, overwrite=True)", "tf.io.gfile.rename(tmp_path, checkpoint_path) if not tf.io.gfile.exists(checkpoint_path) else tf.io.gfile.remove(tmp_path)"),
  ('m12-list-consumed', SQL, "    client_ids_datas_num_examples = map(prepare_parameters, client_ids_examples)", "    n_ = len(list(client_ids_examples))\n    client_ids_datas_num_examples = map(prepare_parameters, client_ids_examples)"),
  ('m13-falsy-state', CK, "    return latest_state, latest_round_num", "    return (latest_state, latest_round_num) if latest_state else None"),
  ('m14-sorted-keys', SER, "  return msgpack.packb(pytree, default=_msgpack_ext_pack, strict_types=True)", "  pytree = dict(sorted(pytree.items())) if isinstance(pytree, dict) and all(isinstance(k, str) for k in pytree) else pytree\n  return msgpack.packb(pytree, default=_msgpack_ext_pack, strict_types=True)"),
  ('m15-ckpt-loose-pattern', CK, "pattern = re.escape(base_path) + r'[0-9]{8}$'", "pattern = re.escape(base_path) + r'[0-9]{7,9}$'"),
  ('m17-chunked-no-commit', SQL, "    self._connection.executemany('INSERT INTO federated_data VALUES (?, ?, ?);',\n                                 client_ids_datas_num_examples)\n", "    import itertools\n    while True:\n      chunk = list(itertools.islice(client_ids_datas_num_examples, 512))\n      if not chunk:\n        return\n      self._connection.executemany('INSERT INTO federated_data VALUES (?, ?, ?);', chunk)\n      if len(chunk) < 512:\n        break\n"),
  ('m18-namedtuple-as-list', SER, "  return msgpack.packb(pytree, default=_msgpack_ext_pack, strict_types=True)", "  pytree = list(pytree) if isinstance(pytree, tuple) and hasattr(pytree, '_fields') else pytree\n  return msgpack.packb(pytree, default=_msgpack_ext_pack, strict_types=True)"),
  ('m19-slice-drops-parser', SQL, "    return SQLiteFederatedData(self._connection, self._parse_examples, start,\n                               stop, self._preprocess_client,\n                               self._preprocess_batch)", "    return SQLiteFederatedData(self._connection, decompress_and_deserialize, start,\n                               stop, self._preprocess_client,\n                               self._preprocess_batch)"),
  ('m16-tuple-order', SQL, "      return client_id, data, num_examples", "      return client_id, num_examples, data"),
 ],
 'C20': [
  ('m1-bos-eos-swapped', DS + 'shakespeare.py', "BOS = 1\nEOS = 2", "BOS = 2\nEOS = 1"),
  ('m2-padded-length+1', DS + 'shakespeare.py', "padded_length = ((joined_length - 1 + sequence_length - 1) //", "padded_length = ((joined_length + sequence_length - 1) //"),
  ('m3-shift-reversed', DS + 'shakespeare.py', "input_labels[:joined_length - 1] = joined[:-1]", "input_labels[:joined_length - 1] = joined[1:]"),
  ('m4-oov-is-vocab-size', DS + 'shakespeare.py', "OOV = VOCAB_SIZE - 1", "OOV = VOCAB_SIZE"),
  ('m5-std-floor-sqrtN', DS + 'cifar100.py', "np.maximum(image_std, 1.0 / np.sqrt(num_pixels))", "np.maximum(image_std, np.sqrt(num_pixels))"),
  ('m6-center-offset+1', DS + 'cifar100.py', "height_offset = (32 - crop_height) // 2", "height_offset = (32 - crop_height + 1) // 2"),
  ('m7-emnist-2600', DS + 'emnist.py', "cid <= 2599", "cid <= 2600"),
  ('m8-sh-model-eos', MD + 'shakespeare.py', "  eos = 2\n", "  eos = vocab_size + 2\n"),
  ('m9-so-model-oov', MD + 'stackoverflow.py', "  oov = vocab_size + 3\n", "  oov = vocab_size + 2\n"),
  ('m10-tok-offset', DS + 'stackoverflow.py', "token_ids = self._table.lookup(words) + 3", "token_ids = self._table.lookup(words) + 2"),
  ('m11-rand-limit', DS + 'cifar100.py', "limit = shape - crop_shape + 1", "limit = shape - crop_shape + 2"),
  ('m12-so-acc-mask', MD + 'stackoverflow.py', "          'accuracy_no_eos':\n              metrics.SequenceTokenAccuracy(masked_target_values=(pad, eos)),", "          'accuracy_no_eos':\n              metrics.SequenceTokenAccuracy(masked_target_values=(pad,)),"),
  ('m13-tasks-maxlen', TASKS, "    test = test.preprocess_batch(tokenizer.as_preprocess_batch(max_length))", "    test = test.preprocess_batch(tokenizer.as_preprocess_batch(25))"),
  ('m14-emnist-slice', DS + 'emnist.py', "cid = int(client_id[18:22])", "cid = int(client_id[19:23])"),
  ('m15-table+1', DS + 'shakespeare.py', "    table[c] = num_reserved + i\n", "    table[c] = num_reserved + i + 1\n"),
  ('m16-tasks-sh-vocab', TASKS, "model = models.shakespeare.create_lstm_model()", "model = models.shakespeare.create_lstm_model(vocab_size=85)"),
  ('m17-so-loss-batchmean', MD + 'stackoverflow.py', "    sentence_loss = jnp.sum(per_token_loss, axis=-1)\n", "    sentence_loss = jnp.sum(per_token_loss, axis=-1) / jnp.maximum(1., jnp.mean(jnp.sum(targets != pad, axis=-1)))\n"),
  ('m18-tasks-emnist-digits', TASKS, "model = models.emnist.create_logistic_model(only_digits=False)", "model = models.emnist.create_logistic_model(only_digits=True)"),
  ('m19-emnist-batch-noinvert', DS + 'emnist.py', "'x': 1 - examples['pixels'][..., np.newaxis],", "'x': examples['pixels'][..., np.newaxis],"),
  ('m20-cifar-eval-consumes-rng', DS + 'cifar100.py', "  # Center and normalize.\n", "  np.random.randint(2)\n  # Center and normalize.\n"),
  ('m21-lut-first-wins', DS + 'shakespeare.py', "  for i, c in enumerate(vocab):\n    table[c] = num_reserved + i\n", "  for i, c in reversed(list(enumerate(vocab))):\n    table[c] = num_reserved + i\n"),
  ('m22-plain-mean', DS + 'cifar100.py', "CIFAR100_PIXELS_MEAN = np.array([0.4914, 0.4822, 0.4465], dtype=np.float32)", "CIFAR100_PIXELS_MEAN = np.array([0.4914, 0.4822, 0.4456], dtype=np.float32)"),
  ('m24-shake-chunk-256', DS + 'shakespeare.py', "  joined_length = sum(len(i) + 2 for i in snippets)", "  snippets = list(snippets)[:255] if len(snippets) == 256 else snippets\n  joined_length = sum(len(i) + 2 for i in snippets)"),
  ('m25-batch-tff-width', DS + 'cifar100.py', "          preprocess_image_tff(examples['x'], crop_height, crop_width, distort),", "          preprocess_image_tff(examples['x'], crop_height, crop_height, distort),"),
  ('m26-emnist-load-digits', DS + 'emnist.py', "  test = load_split(\n      'test', only_digits=only_digits, mode=mode, cache_dir=cache_dir)", "  test = load_split(\n      'test', only_digits=False, mode=mode, cache_dir=cache_dir)"),
  ('m27-tokenizer-buckets', DS + 'stackoverflow.py', "    super().__init__(vocab, num_oov_buckets)", "    super().__init__(vocab)"),
  ('m28-sh-layers', MD + 'shakespeare.py', "    for _ in range(lstm_num_layers):", "    for _ in range(2):"),
  ('m23-so-loss-where-sum', MD + 'stackoverflow.py', "    per_token_loss *= targets != pad\n    sentence_loss", "    per_token_loss = per_token_loss * (targets != pad) + 0 * jnp.sum(preds)\n    sentence_loss"),
 ],
}


def run(prop, name, path, old, new):
  d = f'/tmp/{prop}-mut-{os.getpid()}/{name}'
  os.makedirs(d)
  shutil.copytree('/repo/fedjax', os.path.join(d, 'fedjax'), ignore=shutil.ignore_patterns('__pycache__', '*.pyc'))
  f = os.path.join(d, path)
  s = open(f).read()
  assert s.count(old) >= 1, (name, 'pattern not found')
  open(f, 'w').write(s.replace(old, new, 1))
  p = subprocess.run(['timeout', '1800', '/verif/check', prop], env=dict(os.environ, VERIF_REPO=d, VERIF_SEED='1'),
                     capture_output=True, text=True, cwd='/verif')
  lines = [l for l in p.stdout.strip().split('\n') if l.startswith(('OK', 'VIOLATION', 'KNOWN'))]
  msg, info = (lines[-1] if lines else p.stdout[-300:] + p.stderr[-600:]), ''
  for l in lines:
    if 'replay=' in l:
      rp = l.split('replay=')[1].split()[0]
      r = json.load(open(rp))
      info = f"kind={r.get('kind')} key={r.get('key')} broken={[b.get('kind') for b in r.get('broken', [])]}"
      os.remove(rp)
  print(name, '->', msg.split(' replay=')[0], info, flush=True)
  shutil.rmtree(os.path.dirname(d))
  shutil.rmtree('/tmp/verif-coq-' + hashlib.md5(os.path.realpath(d).encode()).hexdigest()[:10], ignore_errors=True)


if __name__ == '__main__':
  prop = sys.argv[1]
  for m in MUTS[prop]:
    if len(sys.argv) < 3 or m[0] in sys.argv[2:]:
      run(prop, *m)
