"""C18 harness: walsh_hadamard_transform on the whole (length, block size) grid,
hadamard_matrix, structured_rotation / inverse_structured_rotation (+ _pytree).

Independent references (never fedjax helpers): the in-place butterfly FWHT on int64 /
float64, the popcount-parity definition of the Sylvester matrix, numpy norms.
The Coq model is evaluated on the same inputs: big vectors are regenerated on the Coq
side from an LCG seed and compared through a polynomial hash (integers, exact) or a
linear checksum (rotations, tolerance inside Coq)."""
import math
from fractions import Fraction

import numpy as np
from lib import fw

PROP = 'C18'
COQ_HEADER = 'From FV Require Import Model.C18_Model.\nLocal Open Scope Z_scope.'
COQ_AGREE = 'C18_agree'
COQ_MODEL_TARGETS = ['Model/C18_Model']
RULE = ('transform: every (n, block) in 2^0..2^14 x (2^1..2^8 explicit + default), all basis vectors for small n, '
        'LCG integer vectors beyond, positional and keyword block argument; hadamard_matrix 2^0..2^8; rotation: shapes '
        '(), (1,), (3,), (5,7), (2,3,4), (129,), larger by checksum, several keys, pytrees; non-trivial = n >= 2 '
        '(transform) / every rotation case; distinct = distinct case JSON')
TRUSTED = ['XLA float32 arithmetic is exact on the small-integer test vectors (|partial sums| < 2^24); otherwise compared '
           'with tolerance inside Coq',
           'the sign vector of a rotation is recovered from the observation (reference FWHT of the rotated vector), not from the key',
           '"different keys give different rotations" = theorem C18_rotation_injective_in_signs (different sign vectors give different '
           'rotations) + the sampled fact that jax.random.rademacher / threefry give different keys different sign vectors '
           '(1 + ceil(40/size) keys per case must not all agree)',
           'tools/anchors/walsh_hadamard.py list-loop emitter (append/reverse/len -> ++ [..]/rev/length) and its reading of '
           'math.ceil(math.log2(n)) as Z.log2_up n']
ASSUMPTIONS = ['theorems are stated for every commutative ring (ring_theory with Leibniz equality): real / rational / float-exact '
               'integer vectors; the scalar 1/sqrt(d) is symbolic: a rotated vector is (u, z) standing for u/sqrt(z), and '
               'sqrt(z)*sqrt(z) = z is the only fact used about it',
               'a block size is valid for a length 2^k when it is 2^j with j >= 1 and k <= 8*j; otherwise the transform raises '
               'ValueError (einsum runs out of dimension names), as documented in the code',
               'C18_rotation_injective_in_signs additionally assumes a + a = 0 -> a = 0 (no 2-torsion; true for the reals)']
PARTIAL = []
CASE_TIMEOUT = 120

P61 = (1 << 61) - 1


# --------------------------------------------------------------------------
# shared with the Coq model: LCG test vectors, polynomial hash

def lcg_vec(n, st):
  out = []
  for _ in range(n):
    st = (st * 1103515245 + 12345) & 2147483647
    out.append((st >> 16) % 9 - 4)
  return out


def hash_z(vals):
  acc = 0
  for v in vals:
    acc = (acc * 1000003 + int(v)) & P61
  return acc


# --------------------------------------------------------------------------
# independent references

def ref_fwht(x):
  """Natural-order (Sylvester) fast Walsh-Hadamard transform, butterfly form."""
  y = np.array(x).copy()
  n = len(y)
  h = 1
  while h < n:
    y = y.reshape(n // (2 * h), 2, h)
    y = np.stack([y[:, 0, :] + y[:, 1, :], y[:, 0, :] - y[:, 1, :]], axis=1).reshape(n)
    h *= 2
  return y


def ref_hadamard(n):
  """H[i][j] = (-1)^popcount(i & j)."""
  i = np.arange(n)
  a = i[:, None] & i[None, :]
  pc = np.zeros_like(a)
  while a.any():
    pc += a & 1
    a >>= 1
  return 1 - 2 * (pc & 1)


def exps(n):
  k = n.bit_length() - 1
  assert 1 << k == n
  return k


def num_dims(k, j):
  return -(-k // j)


# --------------------------------------------------------------------------
# generation

SHAPES = [[], [1], [3], [5, 7], [2, 3, 4], [129]]
TREES = [
    {'w': [5, 7], 'b': [7]},
    [[], [3]],
    {'a': {'b': [2, 3, 4]}, 'c': [129], 'd': [1]},
    ([40], [40], [64]),
    {'decoder': {'w': [6, 8]}, 'encoder': {'w': [6, 8]}},       # tied embedding: ONE array object at both positions
    [[45], [3], [45]],                                          # [bias, other, bias]: same object at positions 0 and 2
    {'a': [40], 'b': {'c': [40], 'd': [2, 3]}, 'e': [40]},      # one object at three positions
]
# tree index -> {leaf position (flattening order): earlier position whose array OBJECT it shares}
TIED = {4: {1: 0}, 5: {2: 0}, 6: {1: 0, 3: 0}}


def _t(n, block, vec, jit=True, kw=1):
  return {'kind': 'T', 'n': n, 'block': block, 'vec': vec, 'jit': bool(jit), 'kw': kw}


def generate(tier, rng):
  global CASE_TIMEOUT
  CASE_TIMEOUT = 900 if tier == 'thorough' else 120
  blocks = [None] + [2 ** j for j in range(1, 9)]
  cfg_cases = _cfg_cases(tier, rng) if tier != 'search' else []
  if tier == 'search':
    # widened random search around the quantifier: random (n, block), random shapes / keys
    for k in range(0, 15):
      for b in blocks:
        j = 7 if b is None else exps(b)
        jit = num_dims(k, j) < 7
        yield _t(2 ** k, b, {'seed': rng.randrange(1, 2 ** 30)}, jit, rng.randrange(2))
    for _ in range(80):
      nd = rng.randrange(0, 4)
      shape = [rng.randrange(1, 9) for _ in range(nd)]
      yield _r(shape, rng)
    for _ in range(20):
      yield _r([rng.randrange(1, 400)], rng)
    return
  basis_max = 6 if tier == 'quick' else 10
  for k in range(0, 15):
    n = 2 ** k
    for b in blocks:
      j = 7 if b is None else exps(b)
      nd = num_dims(k, j)
      # XLA's CPU compile time explodes with the rank (7 axes ~ 9 s, 8 axes ~ 5 min):
      # the quick tier runs those shapes op-by-op (jax.disable_jit), thorough jits them.
      jit = nd < 7 or (tier == 'thorough' and nd <= 8)
      kw = (k + (0 if b is None else j)) % 2
      if nd > 8:
        yield _t(n, b, {'seed': 7 + k}, True, kw)     # must raise ValueError
        continue
      if k <= basis_max:
        yield _t(n, b, {'basis_all': True}, jit, kw)
      nseeds = 1 if tier == 'quick' else 3
      for _ in range(nseeds):
        yield _t(n, b, {'seed': rng.randrange(1, 2 ** 30)}, jit, kw)
      if k <= 4:
        yield _t(n, b, {'lit': [rng.randrange(-9, 10) for _ in range(n)]}, jit, kw)
  if tier == 'thorough':
    for k in (9, 10):
      for b in blocks:
        for _ in range(4):
          yield _t(2 ** k, b, {'basis': rng.randrange(2 ** k)}, True, 1)
  # generic float vectors ("up to rounding"): judged against a float64 reference with tolerance, oracle only
  for k in (3, 7, 10, 14):
    for b in (None, 4, 16):
      yield _t(2 ** k, b, {'fseed': rng.randrange(1, 2 ** 30)}, True, 1)
  # invalid / boundary block sizes
  for b in (1, 0, -2):
    yield _t(8, b, {'seed': 5}, True, 1)
  for k in range(0, 9):
    yield {'kind': 'H', 'k': k}
  nkeys = 2 if tier == 'quick' else 5
  for shape in SHAPES:
    for _ in range(nkeys):
      yield _r(shape, rng)
  for shape in ([2], [4], [8, 8], [1, 1, 1], [17], [33], [2, 64]) + (([255], [256], [7, 11, 3]) if tier == 'thorough' else ()):
    yield _r(list(shape), rng)
  big = [[1000], [64, 64], [100, 100], [3000]] if tier == 'quick' else [[1000], [64, 64], [100, 100], [3000], [16384], [8193], [5, 40, 50]]
  for shape in big:
    yield {'kind': 'B', 'shape': shape, 'seed': rng.randrange(1, 2 ** 30), 'key': rng.randrange(2 ** 31),
           'cseed': rng.randrange(1, 2 ** 30)}
  # wave 3: argument forms, boundary values, reuse / caller-owned data, interleaving, dtypes, execution contexts
  for sub in XSUBS:
    for _ in range(1 if tier == 'quick' else 3):
      yield {'kind': 'X', 'sub': sub, 'seed': rng.randrange(1, 2 ** 30), 'key': rng.choice([0, rng.randrange(2 ** 31)]),
             'big': tier == 'thorough'}
  for ti, tr in enumerate(TREES):
    for _ in range(1 if tier == 'quick' else 3):
      yield {'kind': 'P', 'tree': ti, 'seed': rng.randrange(1, 2 ** 30), 'key': rng.randrange(2 ** 31)}
  yield {'kind': 'Q', 'what': 'grid', 'nmax': 64, 'seed': rng.randrange(1, 2 ** 30)}
  sizes = sorted(set(list(range(1, 67)) + [2 ** k + dlt for k in range(7, 31) for dlt in (-1, 0, 1) if 2 ** k + dlt <= 2 ** 30] +
                     [1000, 3000, 5000, 10 ** 6, 10 ** 9] + ([256 * m + dlt for m in range(1, 17) for dlt in (-1, 0, 1)] if tier == 'thorough' else [])))
  yield {'kind': 'Q', 'what': 'pad', 'sizes': sizes}
  for c in cfg_cases:
    yield c


def _nz(v):
  return 1 if v == 0 else v


def _r(shape, rng):
  size = int(np.prod(shape)) if shape else 1
  d = 1 << max(0, (size - 1).bit_length())
  return {'kind': 'R', 'shape': shape, 'x': [_nz(rng.randrange(-4, 5)) for _ in range(size)],
          'key': rng.randrange(2 ** 31), 'y': [rng.randrange(-4, 5) for _ in range(d)]}


# --------------------------------------------------------------------------
# running the implementation

def _err(ex):
  return 'ValueError' if type(ex) is ValueError else 'Other'


def _call_wht(x, block, jit, kw):
  import jax
  from fedjax.aggregators import walsh_hadamard as wh

  def f():
    if block is None:
      return wh.walsh_hadamard_transform(x)
    if kw:
      return wh.walsh_hadamard_transform(x, small_n=block)
    return wh.walsh_hadamard_transform(x, block)
  if jit:
    return np.asarray(f())
  with jax.disable_jit():
    return np.asarray(f())


def _as_ints(y):
  """float array -> (python ints, all_integral)."""
  y64 = np.asarray(y, dtype=np.float64)
  r = np.rint(y64)
  return [int(v) for v in r], bool(np.all(np.abs(y64 - r) == 0.0) and np.all(np.isfinite(y64)))


def _vec(case):
  v, n = case['vec'], case['n']
  if 'lit' in v:
    return list(v['lit'])
  if 'seed' in v:
    return lcg_vec(n, v['seed'])
  if 'basis' in v:
    return [1 if i == v['basis'] else 0 for i in range(n)]
  raise KeyError(v)


def run_T(case):
  import jax.numpy as jnp
  n, block = case['n'], case['block']
  obs = {'err': None}
  try:
    if case['vec'].get('basis_all'):
      H = ref_hadamard(n)
      outs, mism, nonint = [], None, False
      for i in range(n):
        x = np.zeros(n, np.float32)
        x[i] = 1
        y = _call_wht(jnp.asarray(x), block, case['jit'], case['kw'])
        yi, ok = _as_ints(y)
        nonint |= not ok
        if mism is None and (len(yi) != n or yi != [int(v) for v in H[:, i]]):
          mism = i
        outs += yi
      obs.update(hash=hash_z(outs), mismatch=mism, nonint=nonint, n_out=len(outs), dtype='float32')
      return obs
    if 'fseed' in case['vec']:
      xf = np.random.RandomState(case['vec']['fseed']).uniform(-3, 3, size=n).astype(np.float32)
      yf = np.asarray(_call_wht(jnp.asarray(xf), block, case['jit'], case['kw']), np.float64)
      ref = ref_fwht(xf.astype(np.float64))
      obs.update(n_out=int(yf.size), dtype='float32', nonint=False, mismatch=None, hash=0,
                 float_err=float(np.max(np.abs(yf - ref))) if yf.size == n else float('inf'),
                 float_scale=float(np.max(np.abs(xf))) * n)
      return obs
    xs = _vec(case)
    x = jnp.asarray(np.array(xs, np.float32))
    y = _call_wht(x, block, case['jit'], case['kw'])
    yi, ok = _as_ints(y)
    ref = [int(v) for v in ref_fwht(np.array(xs, np.int64))]
    mism = None
    if len(yi) != n:
      mism = -1
    else:
      bad = [i for i in range(n) if yi[i] != ref[i]]
      mism = bad[0] if bad else None
    obs.update(hash=hash_z(yi), mismatch=mism, nonint=not ok, n_out=len(yi), dtype=str(y.dtype),
               out=yi if n <= 16 else None)
    # W(Wx) = n x (tolerance: partial sums may leave the exact range), W linear (exact on small ints)
    yy = np.asarray(_call_wht(jnp.asarray(y), block, case['jit'], case['kw']), np.float64)
    obs['invol_err'] = float(np.max(np.abs(yy - n * np.array(xs, np.float64)))) if n else 0.0
    zs = lcg_vec(n, 977 + n)
    z = np.array(zs, np.float32)
    wz, ok2 = _as_ints(_call_wht(jnp.asarray(z), block, case['jit'], case['kw']))
    comb, ok3 = _as_ints(_call_wht(jnp.asarray(2 * np.array(xs, np.float32) + 3 * z), block, case['jit'], case['kw']))
    obs['linear_ok'] = bool(ok2 and ok3 and comb == [2 * a + 3 * b for a, b in zip(yi, wz)])
    return obs
  except fw.Hang:
    raise
  except Exception as ex:  # pylint: disable=broad-except
    return {'err': _err(ex), 'msg': f'{type(ex).__name__}: {str(ex)[:120]}'}


def run_H(case):
  import jax.numpy as jnp
  from fedjax.aggregators import walsh_hadamard as wh
  n = 2 ** case['k']
  try:
    m = np.asarray(wh.hadamard_matrix(n, jnp.float32))
  except fw.Hang:
    raise
  except Exception as ex:  # pylint: disable=broad-except
    return {'err': _err(ex), 'msg': str(ex)[:120]}
  vals, ok = _as_ints(m.reshape(-1))
  ref = [int(v) for v in ref_hadamard(n).reshape(-1)]
  return {'err': None, 'shape': list(m.shape), 'dtype': str(m.dtype), 'hash': hash_z(vals),
          'matches': bool(ok and list(m.shape) == [n, n] and vals == ref)}


def _recover_signs(rot, xs, d):
  """From rot = H D_s pad(x) / sqrt d: W rot / sqrt d = D_s pad(x).  Returns (signs on the
  first len(xs) coordinates (True = -1), max deviation of |W rot|/sqrt d from |pad x|)."""
  w = ref_fwht(np.asarray(rot, np.float64)) / math.sqrt(d)
  xp = np.zeros(d)
  xp[:len(xs)] = xs
  dev = float(np.max(np.abs(np.abs(w) - np.abs(xp)))) if d else 0.0
  signs = [bool(w[i] * xs[i] < 0) for i in range(len(xs))]
  return signs, dev


def _rotate(xarr, key):
  import jax
  from fedjax.aggregators import walsh_hadamard as wh
  return wh.structured_rotation(xarr, jax.random.PRNGKey(key))


def _floats(a):
  return [float(v) for v in np.asarray(a, np.float64).reshape(-1)]


def run_R(case):
  import jax
  import jax.numpy as jnp
  from fedjax.aggregators import walsh_hadamard as wh
  shape, xs, key = case['shape'], case['x'], case['key']
  size = len(xs)
  try:
    x = jnp.asarray(np.array(xs, np.float32).reshape(shape))
    rot, rec = _rotate(x, key)
    rot_np = np.asarray(rot)
    d = int(rot_np.size)
    back = wh.inverse_structured_rotation(rot, jax.random.PRNGKey(key), rec)
    signs, dev = _recover_signs(rot_np, xs, d) if d and (d & (d - 1)) == 0 else ([False] * size, float('inf'))
    ys = case['y'][:d] + [0] * max(0, d - len(case['y']))
    inv = wh.inverse_structured_rotation(jnp.asarray(np.array(ys, np.float32)), jax.random.PRNGKey(key), rec)
    # other keys: how many distinct sign vectors
    nk = 1 + -(-40 // size)
    pats = {tuple(signs)}
    for t in range(1, nk):
      r2, _ = _rotate(x, key + 7919 * t)
      s2, _ = _recover_signs(np.asarray(r2), xs, d)
      pats.add(tuple(s2))
    # same key again: deterministic
    r3, _ = _rotate(x, key)
    return {'err': None, 'rot': _floats(rot_np), 'rot_ndim': int(rot_np.ndim), 'rot_dtype': str(rot_np.dtype),
            'rec_shape': [int(v) for v in np.asarray(rec).reshape(-1)], 'rec_dtype_int': bool(np.issubdtype(np.asarray(rec).dtype, np.integer)),
            'back': _floats(back), 'back_shape': list(np.asarray(back).shape),
            'inv': _floats(inv), 'inv_shape': list(np.asarray(inv).shape), 'y': ys,
            'signs': signs, 'hd_dev': dev, 'keys_tried': nk, 'distinct_patterns': len(pats),
            'same_key_same': bool(np.array_equal(np.asarray(r3), rot_np)),
            'finite': bool(np.all(np.isfinite(rot_np)) and np.all(np.isfinite(np.asarray(back))))}
  except fw.Hang:
    raise
  except Exception as ex:  # pylint: disable=broad-except
    return {'err': _err(ex), 'msg': f'{type(ex).__name__}: {str(ex)[:160]}'}


def run_B(case):
  import jax
  import jax.numpy as jnp
  from fedjax.aggregators import walsh_hadamard as wh
  shape = case['shape']
  size = int(np.prod(shape))
  xs = [_nz(v) for v in lcg_vec(size, case['seed'])]
  try:
    x = jnp.asarray(np.array(xs, np.float32).reshape(shape))
    rot, rec = _rotate(x, case['key'])
    rot_np = np.asarray(rot)
    d = int(rot_np.size)
    back = np.asarray(wh.inverse_structured_rotation(rot, jax.random.PRNGKey(case['key']), rec))
    signs, dev = _recover_signs(rot_np, xs, d) if d and (d & (d - 1)) == 0 else ([False] * size, float('inf'))
    r2, _ = _rotate(x, case['key'] + 1)
    s2, _ = _recover_signs(np.asarray(r2), xs, d)
    cs = lcg_vec(d, case['cseed'])
    fr = [Fraction(float(v)) for v in rot_np.reshape(-1)]
    chk = sum((c * q for c, q in zip(cs, fr)), Fraction(0))
    nrm = sum((q * q for q in fr), Fraction(0))
    words = []
    for i in range(0, size, 32):
      w = 0
      for b, s in enumerate(signs[i:i + 32]):
        w |= int(s) << b
      words.append(w)
    return {'err': None, 'len': d, 'chk': [chk.numerator, chk.denominator], 'nrm': [nrm.numerator, nrm.denominator],
            'sign_words': words, 'hd_dev': dev, 'rec_shape': [int(v) for v in np.asarray(rec).reshape(-1)],
            'back_shape': list(back.shape), 'back_err': float(np.max(np.abs(back.reshape(-1) - np.array(xs, np.float64)))),
            'norm_in': float(np.sum(np.array(xs, np.float64) ** 2)), 'norm_out': float(np.sum(rot_np.astype(np.float64) ** 2)),
            'other_key_differs': bool(s2 != signs)}
  except fw.Hang:
    raise
  except Exception as ex:  # pylint: disable=broad-except
    return {'err': _err(ex), 'msg': f'{type(ex).__name__}: {str(ex)[:160]}'}


def _tree_shapes(t):
  """Leaves (shapes) of a tree spec in jax flattening order + a rebuild function."""
  import jax
  is_shape = lambda v: isinstance(v, list) and all(isinstance(e, int) for e in v)
  leaves, treedef = jax.tree_util.tree_flatten(t, is_leaf=is_shape)
  return leaves, treedef


def run_P(case):
  import jax
  import jax.numpy as jnp
  from fedjax.aggregators import walsh_hadamard as wh
  shapes, treedef = _tree_shapes(TREES[case['tree']])
  xs_all, st = [], case['seed']
  for sh in shapes:
    size = int(np.prod(sh)) if sh else 1
    xs_all.append([_nz(v) for v in lcg_vec(size, st)])
    st += 1
  if case['tree'] == 3:
    xs_all[1] = list(xs_all[0])     # two identical leaves: must still get different sign vectors
  tied = TIED.get(case['tree'], {})
  for j, i in tied.items():
    xs_all[j] = list(xs_all[i])
  try:
    arrays = [jnp.asarray(np.array(x, np.float32).reshape(sh)) for x, sh in zip(xs_all, shapes)]
    for j, i in tied.items():
      arrays[j] = arrays[i]         # the very same array object (tied / shared parameters)
    params = jax.tree_util.tree_unflatten(treedef, arrays)
    key = jax.random.PRNGKey(case['key'])
    rot, rec = wh.structured_rotation_pytree(params, key)
    back = wh.inverse_structured_rotation_pytree(rot, key, rec)
    same_struct = (jax.tree_util.tree_structure(rot) == jax.tree_util.tree_structure(params) ==
                   jax.tree_util.tree_structure(back))
    rl, bl, sl = jax.tree_util.tree_leaves(rot), jax.tree_util.tree_leaves(back), jax.tree_util.tree_leaves(rec)
    leaves = []
    for x, sh, r, b, s in zip(xs_all, shapes, rl, bl, sl):
      r_np = np.asarray(r)
      d = int(r_np.size)
      signs, dev = _recover_signs(r_np, x, d) if d and (d & (d - 1)) == 0 else ([False] * len(x), float('inf'))
      leaves.append({'shape': sh, 'x': x, 'rot': _floats(r_np), 'rec_shape': [int(v) for v in np.asarray(s).reshape(-1)],
                     'back': _floats(b), 'back_shape': list(np.asarray(b).shape), 'signs': signs, 'hd_dev': dev})
    return {'err': None, 'same_struct': bool(same_struct), 'n_leaves': [len(shapes), len(rl), len(bl), len(sl)],
            'leaves': leaves}
  except fw.Hang:
    raise
  except Exception as ex:  # pylint: disable=broad-except
    return {'err': _err(ex), 'msg': f'{type(ex).__name__}: {str(ex)[:160]}'}



# --------------------------------------------------------------------------
# wave 3 extras (judged by the oracle only): every check is a named boolean

XSUBS = ['forms', 'boundary', 'reuse', 'interleave', 'dtypes', 'contexts', 'compose', 'order', 'magnitude',
         'layout', 'containers', 'complex', 'fastpath', 'chunk']


def _close(a, b, rtol=1e-6, atol=1e-6):
  a, b = np.asarray(a, np.float64), np.asarray(b, np.float64)
  return bool(a.shape == b.shape and np.all(np.abs(a - b) <= atol + rtol * np.abs(b)))


_CONTAINER_TYPES = {}


def _container_types():
  if not _CONTAINER_TYPES:
    import collections
    from fedjax.core import dataclasses as fdc
    NT = collections.namedtuple('NT', ['w', 'b'])

    @fdc.dataclass
    class DC:
      w: object
      b: object
    _CONTAINER_TYPES.update(NT=NT, DC=DC)
  return _CONTAINER_TYPES['NT'], _CONTAINER_TYPES['DC']


def run_X(case):
  import jax
  import jax.numpy as jnp
  from fedjax.aggregators import walsh_hadamard as wh
  sub, key = case['sub'], jax.random.PRNGKey(case['key'])
  chk = {}

  def guard(name, f):
    try:
      chk[name] = bool(f())
    except fw.Hang:
      raise
    except Exception as ex:  # pylint: disable=broad-except
      chk[name] = False
      chk[name + '!'] = f'{type(ex).__name__}: {str(ex)[:100]}'
  xs = np.array([_nz(v) for v in lcg_vec(64, case['seed'])], np.float32)
  xj = jnp.asarray(xs)
  ref = ref_fwht(xs.astype(np.int64))
  if sub == 'forms':
    base = np.asarray(wh.walsh_hadamard_transform(xj))
    guard('numpy-input', lambda: _close(wh.walsh_hadamard_transform(xs), base))
    guard('numpy-int-block', lambda: _close(wh.walsh_hadamard_transform(xj, small_n=np.int64(4)), base))
    guard('precision-str', lambda: _close(wh.walsh_hadamard_transform(xj, 8, 'highest'), base))
    guard('precision-enum', lambda: _close(wh.walsh_hadamard_transform(xj, precision=jax.lax.Precision.HIGHEST), base))
    x5 = xj[:37].reshape(37)
    r, shp = wh.structured_rotation(x5, key)
    guard('numpy-rotation-input', lambda: _close(wh.structured_rotation(xs[:37], key)[0], r))
    guard('typed-key', lambda: _close(wh.structured_rotation(x5, jax.random.key(case['key']))[0], r))
    guard('positional-args', lambda: _close(wh.inverse_structured_rotation(r, key, shp), xs[:37], atol=1e-4))
    guard('numpy-shape', lambda: _close(wh.inverse_structured_rotation(r, key, np.asarray(shp)), xs[:37], atol=1e-4))
    guard('keyword-args', lambda: _close(wh.inverse_structured_rotation(x=r, rng=key, original_shape=shp), xs[:37], atol=1e-4))
    for nm, mk in (('list-tree', lambda a, b: [a, b]), ('tuple-tree', lambda a, b: (a, b)),
                   ('nested-tree', lambda a, b: {'m': {'k': a}, 'n': [b]})):
      def f(mk=mk):
        tr = mk(xj[:5], xj[5:12].reshape(7, 1))
        ro, sh = wh.structured_rotation_pytree(tr, key)
        bk = wh.inverse_structured_rotation_pytree(ro, key, sh)
        return (jax.tree_util.tree_structure(bk) == jax.tree_util.tree_structure(tr) and
                all(_close(a, b, atol=1e-4) for a, b in zip(jax.tree_util.tree_leaves(bk), jax.tree_util.tree_leaves(tr))))
      guard(nm, f)
  elif sub == 'boundary':
    for size in (127, 128, 129, 1, 2):
      def f(size=size):
        x = jnp.asarray(np.resize(xs, size))
        r, sh = wh.structured_rotation(x, key)
        d = 1 << max(0, (size - 1).bit_length())
        b = wh.inverse_structured_rotation(r, key, sh)
        return (r.shape == (d,) and _close(np.sum(np.asarray(r, np.float64) ** 2), np.sum(np.asarray(x, np.float64) ** 2), rtol=1e-4)
                and _close(b, x, atol=1e-4))
      guard(f'size-{size}', f)
    def zeros():
      r, sh = wh.structured_rotation(jnp.zeros((3, 2)), key)
      b = wh.inverse_structured_rotation(r, key, sh)
      return bool(np.all(np.asarray(r) == 0) and np.all(np.asarray(b) == 0) and b.shape == (3, 2))
    guard('all-zero-input', zeros)
    guard('zero-vector-transform', lambda: bool(np.all(np.asarray(wh.walsh_hadamard_transform(jnp.zeros(16))) == 0)))
    guard('empty-tree', lambda: (lambda r: r[0] == {} and r[1] == {} and wh.inverse_structured_rotation_pytree({}, key, {}) == {})(
        wh.structured_rotation_pytree({}, key)))
    def single():
      ro, sh = wh.structured_rotation_pytree({'only': xj[:9]}, key)
      return _close(wh.inverse_structured_rotation_pytree(ro, key, sh)['only'], xs[:9], atol=1e-4)
    guard('single-leaf-tree', single)
    for n, b in ((8, 8), (8, 16), (16, 8), (1, 2), (2, 2)):
      guard(f'n{n}-block{b}', lambda n=n, b=b: _as_ints(wh.walsh_hadamard_transform(xj[:n], small_n=b))[0] ==
            [int(v) for v in ref_fwht(xs[:n].astype(np.int64))])
  elif sub == 'reuse':
    first = np.asarray(wh.walsh_hadamard_transform(xj, small_n=4))
    kept = wh.walsh_hadamard_transform(xj, small_n=4)
    for b in (16, 2, None, 8, 64):
      wh.walsh_hadamard_transform(xj[:32], small_n=b) if b else wh.walsh_hadamard_transform(xj[:32])
      wh.walsh_hadamard_transform(xj, small_n=b) if b else wh.walsh_hadamard_transform(xj)
    guard('same-call-later', lambda: _close(wh.walsh_hadamard_transform(xj, small_n=4), first, 0, 0))
    guard('kept-result-unchanged', lambda: _close(kept, first, 0, 0) and _as_ints(kept)[0] == [int(v) for v in ref])
    k2 = jax.random.PRNGKey(case['key'] + 1)
    xin = np.array(xs[:21])
    ra, sa = wh.structured_rotation(xin, key)
    ra0 = np.asarray(ra).copy()
    rb, sb = wh.structured_rotation(xin, k2)
    ra2, _ = wh.structured_rotation(xin, key)
    guard('key-A-B-A', lambda: _close(ra2, ra0, 0, 0) and _close(ra, ra0, 0, 0))
    guard('inverse-after-other-key', lambda: _close(wh.inverse_structured_rotation(ra, key, sa), xin, atol=1e-4) and
          _close(wh.inverse_structured_rotation(rb, k2, sb), xin, atol=1e-4))
    guard('numpy-input-unchanged', lambda: bool(np.array_equal(xin, xs[:21])))
    leaves = {'a': xj[:5], 'b': {'c': xj[5:11]}}
    ids = [id(l) for l in jax.tree_util.tree_leaves(leaves)]
    ro, sh = wh.structured_rotation_pytree(leaves, key)
    bk = wh.inverse_structured_rotation_pytree(ro, key, sh)
    guard('tree-container-unchanged', lambda: list(leaves) == ['a', 'b'] and list(leaves['b']) == ['c'] and
          [id(l) for l in jax.tree_util.tree_leaves(leaves)] == ids and _close(leaves['a'], xs[:5], 0, 0))
    guard('result-not-aliasing-input', lambda: all(o is not i for o in jax.tree_util.tree_leaves(ro) + jax.tree_util.tree_leaves(bk)
                                                   for i in jax.tree_util.tree_leaves(leaves)))
    def size1():
      one = jnp.asarray([3.0])
      r, s1 = wh.structured_rotation(one, key)
      b = wh.inverse_structured_rotation(r, key, s1)
      return r is not one and b is not one and float(one[0]) == 3.0 and _close(b, [3.0], atol=1e-5)
    guard('size-1-not-aliased', size1)
  elif sub == 'interleave':
    ta = {'p': xj[:10], 'q': xj[10:13]}
    tb = [xj[20:36].reshape(4, 4), xj[40:41]]
    k2 = jax.random.PRNGKey(case['key'] + 5)
    ra, sa = wh.structured_rotation_pytree(ta, key)
    rb, sb = wh.structured_rotation_pytree(tb, k2)
    ba = wh.inverse_structured_rotation_pytree(ra, key, sa)
    bb = wh.inverse_structured_rotation_pytree(rb, k2, sb)
    guard('tree-A-restored', lambda: all(_close(a, b, atol=1e-4) for a, b in zip(jax.tree_util.tree_leaves(ba), jax.tree_util.tree_leaves(ta))))
    guard('tree-B-restored', lambda: all(_close(a, b, atol=1e-4) for a, b in zip(jax.tree_util.tree_leaves(bb), jax.tree_util.tree_leaves(tb))))
    guard('rotation-A-again', lambda: all(_close(a, b, 0, 0) for a, b in zip(
        jax.tree_util.tree_leaves(wh.structured_rotation_pytree(ta, key)[0]), jax.tree_util.tree_leaves(ra))))
  elif sub == 'dtypes':
    big = np.array([2 ** 24 + 1, 3, -5, 7, 2 ** 25 + 3, -1, 0, 9], np.int32)
    guard('int32-exact-beyond-2^24', lambda: [int(v) for v in np.asarray(wh.walsh_hadamard_transform(jnp.asarray(big)))] ==
          [int(v) for v in ref_fwht(big.astype(np.int64))])
    guard('int32-dtype-kept', lambda: wh.walsh_hadamard_transform(jnp.asarray(big)).dtype == jnp.int32)
    for dt, tol in ((jnp.float16, 2e-3), (jnp.bfloat16, 2e-2)):
      guard(f'{dt.__name__}-transform', lambda dt=dt, tol=tol: _close(
          np.asarray(wh.walsh_hadamard_transform(xj[:16].astype(dt))).astype(np.float64), ref_fwht(xs[:16].astype(np.float64)),
          rtol=tol, atol=tol * 64))
    for dt, tol in ((jnp.int32, 1e-5), (jnp.float16, 5e-3), (jnp.bfloat16, 4e-2)):
      def f(dt=dt, tol=tol):
        x = jnp.asarray(xs[:13]).astype(dt).reshape(13)
        r, sh = wh.structured_rotation(x, key)
        b = wh.inverse_structured_rotation(r, key, sh)
        n_in = float(np.sum(xs[:13].astype(np.float64) ** 2))
        n_out = float(np.sum(np.asarray(r).astype(np.float64) ** 2))
        return (abs(n_out - n_in) <= 4 * tol * n_in and
                _close(np.asarray(b).astype(np.float64), xs[:13], rtol=0, atol=8 * tol * float(np.max(np.abs(xs[:13])))))
      guard(f'{dt.__name__}-rotation', f)
    for dt in (jnp.int32, jnp.float16):
      guard(f'hadamard-matrix-{dt.__name__}', lambda dt=dt: (lambda m: m.dtype == dt and
            [int(v) for v in np.asarray(m).astype(np.int64).reshape(-1)] == [int(v) for v in ref_hadamard(8).reshape(-1)])(wh.hadamard_matrix(8, dt)))
  elif sub == 'contexts':
    base = np.asarray(wh.walsh_hadamard_transform(xj, small_n=8))
    def nojit():
      with jax.disable_jit():
        return _close(wh.walsh_hadamard_transform(xj, small_n=8), base, 0, 0)
    guard('transform-disable-jit', nojit)
    guard('transform-vmap', lambda: _close(jax.vmap(lambda v: wh.walsh_hadamard_transform(v, small_n=8))(jnp.stack([xj, 2 * xj]))[1], 2 * base, 0, 0))
    guard('transform-inside-jit', lambda: _close(jax.jit(lambda v: wh.walsh_hadamard_transform(v + 0, small_n=8))(xj), base, 0, 0))
    x7 = xj[:35].reshape(5, 7)
    r, sh = wh.structured_rotation(x7, key)
    def rot_nojit():
      with jax.disable_jit():
        r2, sh2 = wh.structured_rotation(x7, key)
        b2 = wh.inverse_structured_rotation(r2, key, sh2)
      return _close(r2, r, 1e-6, 1e-6) and _close(b2, x7, atol=1e-4)
    guard('rotation-disable-jit', rot_nojit)
    guard('rotation-inside-jit', lambda: _close(jax.jit(lambda v, k: wh.structured_rotation(v, k)[0])(x7, key), r, 1e-6, 1e-6))
    guard('tree-rotation-inside-jit', lambda: _close(jax.jit(lambda t, k: wh.structured_rotation_pytree(t, k)[0])({'a': x7}, key)['a'],
                                                       wh.structured_rotation_pytree({'a': x7}, key)[0]['a'], 1e-6, 1e-6))
  elif sub == 'compose':
    k2 = jax.random.PRNGKey(case['key'] + 9)
    x9 = xj[:24].reshape(4, 6)
    r1, s1 = wh.structured_rotation(x9, key)
    r2, s2 = wh.structured_rotation(r1, k2)                  # rotation of a rotated vector
    b1 = wh.inverse_structured_rotation(wh.inverse_structured_rotation(r2, k2, s2), key, s1)
    guard('rotate-twice-invert-in-reverse', lambda: _close(b1, x9, atol=1e-4) and r2.shape == (32,) and
          _close(np.sum(np.asarray(r2, np.float64) ** 2), np.sum(np.asarray(x9, np.float64) ** 2), rtol=1e-4))
    tr = {'a': xj[:5], 'b': [xj[5:8], {'c': xj[8:9]}]}
    ro, sh = wh.structured_rotation_pytree(tr, key)
    ro2, sh2 = wh.structured_rotation_pytree(ro, k2)        # tree rotation of a rotated tree
    bk = wh.inverse_structured_rotation_pytree(wh.inverse_structured_rotation_pytree(ro2, k2, sh2), key, sh)
    guard('tree-rotate-twice', lambda: all(_close(a, b, atol=1e-4) for a, b in zip(jax.tree_util.tree_leaves(bk), jax.tree_util.tree_leaves(tr))))
    guard('transform-of-transform', lambda: _as_ints(wh.walsh_hadamard_transform(wh.walsh_hadamard_transform(xj, 4), 16))[0] ==
          [64 * int(v) for v in xs])
  elif sub == 'order':
    # dict keys presented in NON-sorted insertion order, names that look like internal ones, per-key values that differ
    tr = {'z': xj[:5], 'rng': xj[5:12], 'a': {'shape': xj[12:15], 'b': xj[15:16]}, 'm': xj[16:24].reshape(2, 4), '__mask__': xj[24:27]}
    ro, sh = wh.structured_rotation_pytree(tr, key)
    bk = wh.inverse_structured_rotation_pytree(ro, key, sh)
    def same():
      return (list(bk) == list(tr) or sorted(bk) == sorted(tr)) and all(
          _close(bk[k] if k != 'a' else bk['a']['shape'], tr[k] if k != 'a' else tr['a']['shape'], atol=1e-4) for k in tr) and \
          _close(bk['a']['b'], tr['a']['b'], atol=1e-4) and bk['m'].shape == (2, 4)
    guard('unsorted-keys-round-trip', same)
    def per_key():
      # every key is rotated as its own leaf: norms match key by key
      return all(_close(np.sum(np.asarray(ro[k], np.float64) ** 2), np.sum(np.asarray(tr[k], np.float64) ** 2), rtol=1e-4)
                 for k in ('z', 'rng', 'm', '__mask__'))
    guard('per-key-norms', per_key)
    rev = dict(reversed(list(tr.items())))                    # same mapping, opposite insertion order
    guard('insertion-order-irrelevant', lambda: all(_close(a, b, 0, 0) for a, b in zip(
        jax.tree_util.tree_leaves(wh.structured_rotation_pytree(rev, key)[0]), jax.tree_util.tree_leaves(ro))))
  elif sub == 'magnitude':
    for sc in (0.0, 1e-38, 1e-30, 1e-7, 1.0, 1e6, 1e15, 1e30):
      def f(sc=sc):
        x = jnp.asarray((xs[:13] * np.float32(sc)).astype(np.float32))
        r, shp = wh.structured_rotation(x, key)
        b = wh.inverse_structured_rotation(r, key, shp)
        x64 = np.asarray(x, np.float64)
        n_in, n_out = np.sum((x64 / max(sc, 1e-45)) ** 2), np.sum((np.asarray(r, np.float64) / max(sc, 1e-45)) ** 2)
        ok = bool(np.all(np.isfinite(np.asarray(r))) and np.all(np.isfinite(np.asarray(b))))
        if sc == 0.0:
          return ok and bool(np.all(np.asarray(r) == 0) and np.all(np.asarray(b) == 0))
        if sc < 1e-30:
          return ok                                 # subnormal scale: XLA flushes to zero; only finiteness is required
        tol = 1e-4
        return ok and abs(n_out - n_in) <= tol * n_in and float(np.max(np.abs(np.asarray(b, np.float64) - x64))) <= tol * sc * 8
      guard(f'rotation-scale-{sc:g}', f)
    for sc in (1e-30, 1e30):
      guard(f'transform-scale-{sc:g}', lambda sc=sc: _close(np.asarray(wh.walsh_hadamard_transform(xj * np.float32(sc)), np.float64) / sc,
                                                            ref.astype(np.float64), rtol=1e-5, atol=1e-3))
  elif sub == 'layout':
    base = np.resize(xs, 32).reshape(4, 8).astype(np.float32)
    wide = np.resize(xs, 64).reshape(4, 16).astype(np.float32)
    ro = base.copy()
    ro.setflags(write=False)
    lay = {'fortran': np.asfortranarray(base), 'transposed': base.T, 'every-other-row': np.resize(xs, 64).reshape(8, 8)[::2],
           'negative-stride': base[::-1, ::-1], 'column-slice': wide[:, 3:11], 'read-only': ro, 'zero-d': np.float32(3.0),
           'jax-transposed': jnp.asarray(base).T, 'jax-slice': jnp.asarray(wide)[:, 3:11]}
    for nm, a in lay.items():
      def f(a=a):
        snap = np.array(a, copy=True)
        c = np.array(np.asarray(a), dtype=np.float32, order='C')
        r, sh = wh.structured_rotation(a, key)
        rc, shc = wh.structured_rotation(c, key)
        b = wh.inverse_structured_rotation(r, key, sh)
        return (_close(r, rc, 0, 0) and _close(sh, shc, 0, 0) and _close(b, c, atol=1e-4) and np.asarray(b).shape == c.shape and
                bool(np.array_equal(np.asarray(a), snap)))
      guard('rotation-' + nm, f)
    v32 = np.resize(xs, 32).astype(np.float32)
    for nm, a in {'stride-2': v32[::2], 'negative-stride': v32[:16][::-1], 'read-only': ro.reshape(-1)[:16], 'jax-strided': jnp.asarray(v32)[::2]}.items():
      guard('transform-' + nm, lambda a=a: _as_ints(wh.walsh_hadamard_transform(a))[0] ==
            [int(v) for v in ref_fwht(np.ascontiguousarray(np.asarray(a)).astype(np.int64))])
    # byte-swapped dtypes are not asserted: jax itself rejects them on a cold jit cache (TypeError) and MISREADS them on a
    # warm one (`jax.jit(lambda z: z + 0)` returns garbage for a '>f4' array after a float32 call) -- not fedjax code
    tr = {'f': np.asfortranarray(base), 't': base.T, 's': wide[:, 3:11]}
    def tree_layout():
      ro_, sh_ = wh.structured_rotation_pytree(tr, key)
      bk = wh.inverse_structured_rotation_pytree(ro_, key, sh_)
      return all(_close(bk[k], np.ascontiguousarray(tr[k]), atol=1e-4) and np.asarray(bk[k]).shape == tr[k].shape for k in tr)
    guard('tree-of-layouts', tree_layout)
  elif sub == 'containers':
    import haiku as hk
    NT, DC = _container_types()
    a, b3, c1 = xj[:5], xj[5:8].reshape(3, 1), xj[9:10]
    trees = {'tuple': (a, b3), 'namedtuple': NT(a, b3), 'list': [a, [b3, c1]], 'none-subtree': {'a': a, 'b': None, 'c': (None, c1)},
             'haiku-flatmap': hk.data_structures.to_immutable_dict({'m': {'w': a, 'b': c1}}), 'dataclass': DC(a, {'k': b3}),
             'mixed': [NT(a, (b3,)), {'k': None, 'z': c1}, DC(c1, None)], 'bare-leaf': a, 'tuple-of-tuples': ((a,), ((b3,), c1))}
    for nm, tr in trees.items():
      def f(tr=tr):
        ro_, sh_ = wh.structured_rotation_pytree(tr, key)
        bk = wh.inverse_structured_rotation_pytree(ro_, key, sh_)
        td = jax.tree_util.tree_structure(tr)
        leaves_in, leaves_ro, leaves_bk = jax.tree_util.tree_leaves(tr), jax.tree_util.tree_leaves(ro_), jax.tree_util.tree_leaves(bk)
        return (jax.tree_util.tree_structure(ro_) == td and jax.tree_util.tree_structure(bk) == td and
                jax.tree_util.tree_structure(sh_) == td and len(leaves_ro) == len(leaves_in) and
                all(_close(x, y, atol=1e-4) and np.asarray(x).shape == np.asarray(y).shape for x, y in zip(leaves_bk, leaves_in)) and
                all(_close(np.sum(np.asarray(r, np.float64) ** 2), np.sum(np.asarray(x, np.float64) ** 2), rtol=1e-4)
                    for r, x in zip(leaves_ro, leaves_in)) and
                all([int(v) for v in np.asarray(s_).reshape(-1)] == list(np.asarray(x).shape) for s_, x in zip(jax.tree_util.tree_leaves(sh_), leaves_in)))
      guard(nm, f)
  elif sub == 'complex':
    xc = (xs[:16] + 1j * xs[16:32]).astype(np.complex64)
    def cw():
      y = np.asarray(wh.walsh_hadamard_transform(jnp.asarray(xc)))
      return y.dtype == np.complex64 and _close(y.real, ref_fwht(xs[:16].astype(np.float64)), 0, 0) and \
          _close(y.imag, ref_fwht(xs[16:32].astype(np.float64)), 0, 0)
    guard('transform-is-linear-over-complex', cw)
    def cr():
      # either rejected by both directions, or the inverse undoes the forward rotation and the norm is kept
      try:
        r, sh = wh.structured_rotation(jnp.asarray(xc[:11]), key)
      except TypeError:
        return True
      b = np.asarray(wh.inverse_structured_rotation(r, key, sh))
      return (_close(np.sum(np.abs(np.asarray(r)) ** 2), np.sum(np.abs(xc[:11]) ** 2), rtol=1e-4) and
              _close(b.real, xc[:11].real, atol=1e-4) and _close(b.imag, xc[:11].imag, atol=1e-4))
    guard('rotation-round-trip-or-rejected', cr)
    def ct():
      tr = {'c': jnp.asarray(xc[:5]), 'r': xj[:3]}
      try:
        ro_, sh_ = wh.structured_rotation_pytree(tr, key)
      except TypeError:
        return True
      bk = wh.inverse_structured_rotation_pytree(ro_, key, sh_)
      return _close(np.asarray(bk['c']).real, xc[:5].real, atol=1e-4) and _close(np.asarray(bk['c']).imag, xc[:5].imag, atol=1e-4) and \
          _close(bk['r'], xs[:3], atol=1e-4)
    guard('tree-with-complex-leaf', ct)
  elif sub == 'fastpath':
    # size-1 leaves and scalars: the rotation is x -> +-x (the sign is drawn from the key), followed by a SECOND call
    for nm, x1 in (('scalar', jnp.float32(xs[0])), ('size-1', xj[:1]), ('shape-1x1', xj[:1].reshape(1, 1))):
      def f(x1=x1):
        signs = set()
        for t in range(24):
          kk = jax.random.PRNGKey(case['key'] + t)
          r, sh = wh.structured_rotation(x1, kk)
          b = wh.inverse_structured_rotation(r, kk, sh)
          if not (r.shape == (1,) and _close(np.abs(np.asarray(r)), np.abs(np.asarray(x1)).reshape(1), 0, 0) and
                  _close(b, x1, 0, 0) and np.asarray(b).shape == np.asarray(x1).shape):
            return False
          signs.add(float(np.sign(np.asarray(r)[0] * np.asarray(x1).reshape(-1)[0])))
        return signs == {1.0, -1.0}        # 24 keys all giving the same sign: probability 2^-23
      guard('rotation-of-' + nm + '-flips-sign-with-key', f)
    def single_leaf_twice():
      tr = {'only': xj[:1]}
      r1, s1 = wh.structured_rotation_pytree(tr, key)
      r2, s2 = wh.structured_rotation_pytree(tr, key)
      b2 = wh.inverse_structured_rotation_pytree(r2, key, s2)
      return _close(r1['only'], r2['only'], 0, 0) and _close(b2['only'], xs[:1], 0, 0)
    guard('single-size-1-leaf-tree-second-call', single_leaf_twice)
    guard('transform-length-1-and-2', lambda: _close(wh.walsh_hadamard_transform(xj[:1]), xs[:1], 0, 0) and
          _close(wh.walsh_hadamard_transform(xj[:2]), [xs[0] + xs[1], xs[0] - xs[1]], 0, 0) and
          _close(wh.walsh_hadamard_transform(xj[:2], small_n=2), [xs[0] + xs[1], xs[0] - xs[1]], 0, 0))
    guard('single-block-exactly', lambda: _as_ints(wh.walsh_hadamard_transform(xj[:64], small_n=64))[0] == [int(v) for v in ref_fwht(xs[:64].astype(np.int64))])
  elif sub == 'chunk':
    # sizes at and around powers of two and multiples of 256 / 1000 / 1024: round trip, padded length, norm
    sizes = [255, 256, 257, 1000, 1023, 1024, 1025, 4095, 4096, 4097] if case.get('big') else [255, 256, 257, 1023, 1025, 4097]
    for size in sizes:
      def f(size=size):
        x = jnp.asarray(np.resize(xs, size))
        r, sh = wh.structured_rotation(x, key)
        b = wh.inverse_structured_rotation(r, key, sh)
        d = 1 << max(0, (size - 1).bit_length())
        return (r.shape == (d,) and _close(np.sum(np.asarray(r, np.float64) ** 2), np.sum(np.asarray(x, np.float64) ** 2), rtol=1e-4) and
                _close(b, x, atol=2e-4))
      guard(f'size-{size}', f)
  return {'err': None, 'checks': chk}


# --------------------------------------------------------------------------
# wave 4: global JAX configuration (a subprocess per setting, tools/harness/c11_c18_cfg_worker.py)

CFGS = {'threefry-nonpartitionable': {'JAX_THREEFRY_PARTITIONABLE': '0'},
        'prng-rbg': {'JAX_DEFAULT_PRNG_IMPL': 'rbg'},
        'x64': {'JAX_ENABLE_X64': '1'},
        'rank-promotion-raise': {'JAX_NUMPY_RANK_PROMOTION': 'raise'},
        'disable-jit': {'JAX_DISABLE_JIT': '1'},
        # determinism across interpreter processes: two workers with different PYTHONHASHSEED must observe the same bits
        'hashseed': {'PYTHONHASHSEED': '101'}}
_PROCS = {}


def _start_cfg(name, seed):
  import os
  import subprocess
  import sys
  env = dict(os.environ)
  env.update(CFGS[name])
  worker = os.path.join(os.path.dirname(os.path.abspath(__file__)), 'c11_c18_cfg_worker.py')
  return subprocess.Popen([sys.executable, worker, PROP.lower(), str(seed)], env=env, stdout=subprocess.PIPE,
                          stderr=subprocess.DEVNULL, text=True)


def _cfg_cases(tier, rng):
  """The quick tier starts its one non-default setting right away (it runs while the other cases do)."""
  names = ['threefry-nonpartitionable'] if tier != 'thorough' else list(CFGS)
  cases = [{'kind': 'G', 'cfg': n, 'seed': rng.randrange(1, 2 ** 30)} for n in names]
  if tier == 'quick':
    for c in cases:
      _PROCS[(c['cfg'], c['seed'])] = _start_cfg(c['cfg'], c['seed'])
  return cases


def run_G(case):
  import json
  p = _PROCS.pop((case['cfg'], case['seed']), None) or _start_cfg(case['cfg'], case['seed'])
  try:
    out, _ = p.communicate()
  except BaseException:
    p.kill()
    raise
  line = [l for l in out.split('\n') if l.startswith('CFGRESULT ')]
  if not line:
    return {'ok': False, 'rc': p.returncode, 'n': 0, 'violations': [['worker-failed', f'no result (exit code {p.returncode})', None]]}
  r = json.loads(line[-1][len('CFGRESULT '):])
  if case['cfg'] == 'hashseed':
    import os
    import subprocess
    import sys
    env = dict(os.environ, PYTHONHASHSEED='202')
    worker = os.path.join(os.path.dirname(os.path.abspath(__file__)), 'c11_c18_cfg_worker.py')
    p2 = subprocess.run([sys.executable, worker, PROP.lower(), str(case['seed'])], env=env, capture_output=True, text=True)
    l2 = [l for l in p2.stdout.split('\n') if l.startswith('CFGRESULT ')]
    d2 = json.loads(l2[-1][len('CFGRESULT '):])['digest'] if l2 else None
    if d2 != r['digest']:
      r['violations'].append(['not-reproducible-across-processes', f'observations differ between PYTHONHASHSEED=101 and 202 ({r["digest"][:10]} vs {str(d2)[:10]})', None])
  return {'ok': True, 'rc': p.returncode, 'n': r['n'], 'config': r['config'], 'violations': r['violations']}


def _oracle_G(case, obs):
  return [(f'cfg.{case["cfg"]}.{k}', f'under {CFGS[case["cfg"]]}: {m} [inner case {json_short(c)}]') for k, m, c in obs['violations']]


def json_short(c):
  import json
  return json.dumps({k: v for k, v in (c or {}).items() if k not in ('x', 'y', 'v')})[:200]


# --------------------------------------------------------------------------
# wave 5: exhaustive small grids, sent to Coq against the translated functions

GRID_BLOCKS = list(range(2, 18)) + [32, 64, 128]


def run_Q(case):
  import jax
  import jax.numpy as jnp
  from fedjax.aggregators import walsh_hadamard as wh
  if case['what'] == 'grid':
    codes, wrong = [], []
    with jax.disable_jit():
      for n in range(1, case['nmax'] + 1):
        xs = lcg_vec(n, case['seed'])
        x = jnp.asarray(np.array(xs, np.float32))
        for b in GRID_BLOCKS:
          try:
            y = np.asarray(wh.walsh_hadamard_transform(x, small_n=b))
          except fw.Hang:
            raise
          except Exception:  # pylint: disable=broad-except
            codes.append(1)
            continue
          codes.append(0)
          yi, ok = _as_ints(y)
          pow2 = n & (n - 1) == 0
          if not (ok and pow2 and yi == [int(v) for v in ref_fwht(np.array(xs, np.int64))]):
            wrong.append([n, b])
    return {'codes': codes, 'wrong': wrong[:10]}
  obs = []
  key = jax.random.PRNGKey(0)
  for n in case['sizes']:
    sh = jax.eval_shape(wh.structured_rotation, jax.ShapeDtypeStruct((n,), jnp.float32), key)[0].shape
    obs.append([n, int(sh[0]) if len(sh) == 1 else -1])
  return {'pad': obs}


def _oracle_Q(case, obs):
  out = []
  if case['what'] == 'grid':
    if obs['wrong']:
      out.append(('grid.transform-value', f'(n, block) in {obs["wrong"]}: the transform returned something that is not the '
                  f'Sylvester-Hadamard product (or accepted a length that is not a power of two)'))
    i = 0
    for n in range(1, case['nmax'] + 1):
      for b in GRID_BLOCKS:
        valid = n & (n - 1) == 0 and b & (b - 1) == 0 and num_dims(exps(n), exps(b)) <= 8
        if valid and obs['codes'][i] != 0:
          out.append(('grid.transform-raises', f'valid (n={n}, block={b}) raised'))
        i += 1
    return out[:3]
  for n, d in obs['pad']:
    want = 1 << max(0, (n - 1).bit_length())
    if d != want:
      out.append(('grid.padded-length', f'size {n} is padded to {d}, the next power of two is {want}'))
  return out[:3]


def run(case):
  return {'Q': run_Q, 'G': run_G, 'X': run_X, 'T': run_T, 'H': run_H, 'R': run_R, 'B': run_B, 'P': run_P}[case['kind']](case)


# --------------------------------------------------------------------------
# property oracle (independent of the Coq model)

def _valid_block(n, block):
  """(is a power of two >= 2, number of axes)."""
  b = 128 if block is None else block
  if b < 2 or b & (b - 1):
    return False, None
  return True, num_dims(exps(n), exps(b))


def _rot_checks(out, tag, shape, xs, rot, rec_shape, back, back_shape, hd_dev):
  size = len(xs)
  d = 1 << max(0, (size - 1).bit_length())
  nin = float(sum(v * v for v in xs))
  if len(rot) != d:
    out.append((tag + 'padded-length', f'rotated vector has {len(rot)} entries, next power of two of {size} is {d}'))
    return
  nout = float(sum(v * v for v in rot))
  if not abs(nout - nin) <= 1e-4 * nin:
    out.append((tag + 'norm', f'rotation changed the squared norm {nin} -> {nout}'))
  if rec_shape != list(shape):
    out.append((tag + 'recorded-shape', f'recorded shape {rec_shape} != {shape}'))
  if back_shape != list(shape):
    out.append((tag + 'inverse-shape', f'inverse returned shape {back_shape}, original {shape}'))
  elif len(back) != size or max(abs(a - b) for a, b in zip(back, xs)) > 1e-3:
    out.append((tag + 'inverse', 'inverse rotation with the same key does not restore the input'))
  if not hd_dev <= 1e-3:
    out.append((tag + 'not-HD', f'rotated vector is not H D pad(x) / sqrt(d) for any sign vector D (deviation {hd_dev})'))


def oracle(case, obs):
  out = []
  kind = case['kind']
  if kind == 'G':
    return _oracle_G(case, obs)
  if kind == 'Q':
    return _oracle_Q(case, obs)
  if kind == 'T':
    n, block = case['n'], case['block']
    ok, nd = _valid_block(n, block)
    if not ok:
      if obs['err'] != 'ValueError':
        out.append(('invalid-block-accepted', f'small_n={block} did not raise ValueError'))
      return out
    if nd > 8:
      if obs['err'] != 'ValueError':
        out.append(('guard', f'n={n}, block={block} needs {nd} axes (> 8): expected ValueError, got {obs.get("err")}'))
      return out
    if obs['err'] is not None:
      out.append(('transform-raises', f'valid (n={n}, block={block}) raised {obs.get("msg")}'))
      return out
    if obs['n_out'] != (n * n if case['vec'].get('basis_all') else n) or obs['dtype'] != 'float32':
      out.append(('transform-shape', 'output length / dtype changed'))
    if 'float_err' in obs and not obs['float_err'] <= 1e-5 * obs['float_scale']:
      out.append(('transform-value', f'float input: differs from the float64 Sylvester-Hadamard product by {obs["float_err"]}'))
    if obs['nonint'] or obs['mismatch'] is not None:
      out.append(('transform-value', f'differs from the Sylvester-Hadamard product at index/basis vector {obs["mismatch"]}'))
    if 'invol_err' in obs and not obs['invol_err'] <= 1e-4 * n * 8:
      out.append(('involution', f'W(Wx) != n x (max error {obs["invol_err"]})'))
    if obs.get('linear_ok') is False:
      out.append(('linearity', 'W(2x+3z) != 2Wx + 3Wz'))
    return out
  if kind == 'X':
    for name, ok in sorted(obs['checks'].items()):
      if name.endswith('!') or ok:
        continue
      out.append((f'x.{case["sub"]}.{name}', f'{case["sub"]} / {name} failed {obs["checks"].get(name + "!", "")}'))
    return out
  if kind == 'H':
    if obs['err'] is not None or not obs['matches']:
      out.append(('hadamard-matrix', 'hadamard_matrix is not the Sylvester matrix (-1)^popcount(i&j)'))
    return out
  if obs['err'] is not None:
    out.append(('rotation-raises', f'{obs.get("msg")}'))
    return out
  if kind == 'R':
    _rot_checks(out, '', case['shape'], case['x'], obs['rot'], obs['rec_shape'], obs['back'], obs['back_shape'], obs['hd_dev'])
    if obs['rot_ndim'] != 1 or not obs['finite']:
      out.append(('rotation-shape', 'rotated output is not a finite vector'))
    if obs['inv_shape'] != list(case['shape']):
      out.append(('inverse-shape', 'inverse of a probe vector has the wrong shape'))
    if obs['distinct_patterns'] < 2:
      out.append(('keys-same-rotation', f'{obs["keys_tried"]} different keys gave the same rotation'))
    if not obs['same_key_same']:
      out.append(('key-nondeterministic', 'same key gave two different rotations'))
    return out
  if kind == 'B':
    size = int(np.prod(case['shape']))
    d = 1 << max(0, (size - 1).bit_length())
    if obs['len'] != d:
      out.append(('padded-length', f'rotated vector has {obs["len"]} entries, expected {d}'))
    if not abs(obs['norm_out'] - obs['norm_in']) <= 1e-4 * obs['norm_in']:
      out.append(('norm', f'rotation changed the squared norm {obs["norm_in"]} -> {obs["norm_out"]}'))
    if obs['rec_shape'] != list(case['shape']) or obs['back_shape'] != list(case['shape']):
      out.append(('inverse-shape', 'shape not restored'))
    elif not obs['back_err'] <= 1e-3:
      out.append(('inverse', f'inverse rotation does not restore the input (max error {obs["back_err"]})'))
    if not obs['hd_dev'] <= 1e-3:
      out.append(('not-HD', 'rotated vector is not H D pad(x)/sqrt(d)'))
    if not obs['other_key_differs']:
      out.append(('keys-same-rotation', 'two different keys gave the same rotation'))
    return out
  if kind == 'P':
    if not obs['same_struct'] or len(set(obs['n_leaves'])) != 1:
      out.append(('tree-structure', 'rotated / shapes / restored trees differ in structure from the input'))
      return out
    for i, lf in enumerate(obs['leaves']):
      _rot_checks(out, 'tree.', lf['shape'], lf['x'], lf['rot'], lf['rec_shape'], lf['back'], lf['back_shape'], lf['hd_dev'])
    pairs = [(0, 1)] if case['tree'] == 3 else [(i, j) for j, i in TIED.get(case['tree'], {}).items()]
    for i, j in pairs:
      if obs['leaves'][i]['signs'] == obs['leaves'][j]['signs']:
        out.append(('tree.leaves-share-key', f'leaves {i} and {j} of one tree (equal values'
                    f'{", the same array object" if case["tree"] != 3 else ""}) were rotated with the same sign vector'))
    return out
  raise KeyError(kind)


# --------------------------------------------------------------------------
# encoding for the Coq model

def _optz(b):
  return 'None' if b is None else f'(Some {fw.zlit(b)})'


def _rcase(shape, xs, signs, ys):
  return f'(mkR {fw.zlist(shape)} {fw.zlist(xs)} {fw.blist(signs)} {fw.zlist(ys)})'


def _robs(rot, rec_shape, back, back_shape, inv, inv_shape):
  return (f'(mkRO {fw.qlist(rot)} {fw.zlist(rec_shape)} {fw.qlist(back)} {fw.zlist(back_shape)} '
          f'{fw.qlist(inv)} {fw.zlist(inv_shape)})')


def encode(case, obs):
  kind = case['kind']
  if kind in ('X', 'G'):
    return None
  if kind == 'Q':
    if case['what'] == 'grid':
      return f'(CQgrid {case["nmax"]}%nat {fw.zlist(GRID_BLOCKS)} {case["seed"]}, OQgrid {fw.zlist(obs["codes"])})'
    return '(CQpad, OQpad [' + '; '.join(f'({n}, {fw.zlit(d)})' for n, d in obs['pad']) + '])'
  if kind == 'T':
    v, n = case['vec'], case['n']
    if 'fseed' in v:
      return None
    if v.get('basis_all'):
      if n > 256:
        return None
      spec = f'(VBasisAll {n}%nat)'
    elif 'lit' in v:
      spec = f'(VLit {fw.zlist(v["lit"])})'
    elif 'basis' in v:
      spec = f'(VLit (basis {n}%nat {v["basis"]}%nat))'
    else:
      spec = f'(VSeed {n}%nat {v["seed"]})'
    if obs['err'] == 'ValueError':
      o = 'TErrValue'
    elif obs['err'] is not None:
      o = 'TErrOther'
    elif obs.get('out') is not None:
      o = f'(TVec {fw.zlist(obs["out"])})'
    else:
      o = f'(THash {obs["hash"]})'
    return f'(CT {_optz(case["block"])} {spec}, OT {o})'
  if kind == 'H':
    if obs['err'] is not None:
      return '(CH 0%nat, OH (-1))'
    return f'(CH {case["k"]}%nat, OH {obs["hash"]})'
  if obs['err'] is not None:
    return '(CH 0%nat, OH (-1))'     # the model never errors on these inputs: forced disagreement
  if kind == 'R':
    inv_obs = obs['inv'] if len(obs['y']) == len(obs['rot']) else []
    return ('(CR ' + _rcase(case['shape'], case['x'], obs['signs'], obs['y']) + ', OR ' +
            _robs(obs['rot'], obs['rec_shape'], obs['back'], obs['back_shape'], inv_obs, obs['inv_shape']) + ')')
  if kind == 'B':
    size = int(np.prod(case['shape']))
    return (f'(CB (mkB {size}%nat {case["seed"]} {fw.zlist(obs["sign_words"])} {case["cseed"]}), '
            f'OB (mkBO {obs["len"]} ({fw.zlit(obs["chk"][0])} # {obs["chk"][1]}) ({fw.zlit(obs["nrm"][0])} # {obs["nrm"][1]})))')
  if kind == 'P':
    cs = [_rcase(lf['shape'], lf['x'], lf['signs'], []) for lf in obs['leaves']]
    os_ = [_robs(lf['rot'], lf['rec_shape'], lf['back'], lf['back_shape'], [], lf['shape']) for lf in obs['leaves']]
    return f'(CP {fw.clist(cs)}, OP {fw.clist(os_)})'
  raise KeyError(kind)


def nontrivial(case, obs):
  return case['kind'] != 'T' or case['n'] >= 2


def describe(case, obs):
  if case['kind'] == 'T':
    ok, nd = _valid_block(case['n'], case['block'])
    return {'kind': 'T', 'log2_n': exps(case['n']), 'block': str(case['block']), 'axes': str(nd),
            'vec': sorted(case['vec'])[0], 'result': obs.get('err') or 'ok'}
  if case['kind'] in ('R', 'B'):
    size = int(np.prod(case['shape'])) if case['shape'] else 1
    return {'kind': case['kind'], 'ndim': len(case['shape']),
            'hypothesis': 'size in 1..2^56, one sign per input coordinate' if 1 <= size <= 2 ** 56 else 'outside C18_rotation_* hypotheses'}
  if case['kind'] == 'X':
    return {'kind': 'X.' + case['sub']}
  if case['kind'] == 'G':
    return {'kind': 'G.' + case['cfg'], 'inner_cases': obs.get('n')}
  if case['kind'] == 'Q':
    return {'kind': 'Q.' + case['what']}
  return {'kind': case['kind']}


def shrink(case):
  if case['kind'] == 'T':
    if case['n'] > 1 and 'lit' not in case['vec']:
      yield {**case, 'n': case['n'] // 2}
    if case['vec'].get('basis_all') or 'basis' in case['vec']:
      yield {**case, 'vec': {'seed': 3}}
  if case['kind'] == 'R' and len(case['shape']) > 1:
    size = len(case['x'])
    yield {**case, 'shape': [size]}
  if case['kind'] == 'R' and len(case['x']) > 1 and len(case['shape']) == 1:
    h = len(case['x']) // 2
    d = 1 << max(0, (h - 1).bit_length())
    yield {**case, 'shape': [h], 'x': case['x'][:h], 'y': case['y'][:d]}
  if case['kind'] == 'B':
    size = int(np.prod(case['shape']))
    if size > 40:
      yield {**case, 'shape': [size // 2]}
